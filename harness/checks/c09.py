"""C09 — references in formulas name exactly the stored target cells and table."""
from __future__ import annotations

import re
import warnings

from common import Ctx, enc_text, exc_name

PID = "C09"
PROPS_MODULE = "NumbersModel.Props.C09"
_T = "NumbersModel.Props.C09."
THEOREMS = [_T + t for t in (
    "cell_ref_exact", "range_ends_not_swapped", "stored_rect_decoded", "row_span_exact", "col_span_exact",
    "prefix_printed", "prefix_unambiguous", "prefix_total", "a1_text_never_quoted", "empty_label_never_printed",
    "name_scope_counts", "label_scope_sound", "span_scope_sound", "numeric_fallback_exact", "plain_qualification_sound",
    "prefix_minimal", "prefix_minimal_partial", "cache_entry_facts", "name_kept_iff_spec_name",
    "printed_text_resolves_partial", "cell_text_resolves_partial",
    "pinned_empty_label_printed", "pinned_span_with_unnamed_end_raises", "pinned_row_column_same_text")]
PARTIAL = {
    _T + "prefix_minimal_partial":
        "full statement: whenever expand_ref prints a qualification in front of a header label, the text with one level "
        "of qualification less (S::T:: -> T::, T:: -> none) no longer denotes the stored row/column. Proved for every "
        "configuration EXCEPT the region AbsSheetScope hs ts host target s isAbs := isAbs ∧ hs.id = ts.id ∧ s.scope = "
        ".sheet ∧ host.id ≠ target.id (absolute reference to a name that is unique in the host's sheet, held by another "
        "table of that sheet): there the code prints T::$name on purpose (source comment: 'If absolute Numbers seems to "
        "unnecessarily include the table name') and the second half of the theorem proves that $name alone would "
        "denote the same target, i.e. the exception is exact. Not a defect of identification (label_scope_sound covers "
        "the region); it is the only place where 'just enough' is not met. For A1/numeric references prefix_minimal is "
        "full.",
    _T + "printed_text_resolves_partial":
        "full statement: the TEXT printed for any stored whole-row/column reference or span, read by the spec's text "
        "reader resolveText, denotes exactly the stored table, rows/columns and $ marks. Proved under the hygiene "
        "hypothesis PlainNames doc := (∀ sheet, NoCQ name) ∧ (∀ table, NoCQ name) ∧ (every header NAME x is a PlainLabel: "
        "NoCQ x and its first character is not '$', 'A'..'Z' or a digit), NoCQ s := no ':' and no apostrophe in s. "
        "Excluded region = ¬PlainNames doc, where the printed text is ambiguous as a string regardless of scoping "
        "(label '$x' vs absolute 'x', label 'B' vs column B, apostrophes = known finding C18 apostrophe-in-name); the "
        "structured theorems label_scope_sound / span_scope_sound hold there too.",
    _T + "cell_text_resolves_partial":
        "same text-level statement for cell and rectangle references (texts of cell_ref_exact / "
        "range_ends_not_swapped read by resolveText); same hygiene hypothesis PlainNames doc (only its sheet/table-name "
        "part is used).",
}
RULE = ("a case is one (document configuration, host cell, reference node) triple rendered by the real node_to_ref/str; "
        "distinct non-trivial = distinct (configuration, printed text, target) triples whose target is another table or "
        "whose text contains a header label; coverage.branch_hits counts, for whole-row/column references, the "
        "(single|span, uniqueness level of the name or why there is none, host-target relation, abs, printed qualification) "
        "combinations met; coverage.branches_missing lists required combinations not met (must be empty)")
MANIFEST = {
    "text": "Core proved, glue assumed: cell_ref_exact (printed A1 text parses back to exactly host+offset / stored "
            "coordinates with the stored $ marks, via C10's cell_roundtrip), range_ends_not_swapped, row_span_exact / "
            "col_span_exact / numeric_fallback_exact (numeric spans), prefix_printed + prefix_unambiguous + "
            "plain_qualification_sound (the qualification expand_ref prints resolves, under the document's own names, to "
            "exactly the stored table when sheet names are distinct and table names are distinct within each sheet), "
            "a1_text_never_quoted. Header labels: resolver spec Model/RefsSpec.lean (resolveLabel / resolveSpan / "
            "resolveQual / resolveText: a header cell is a name iff its text is non-empty and shown by no other header "
            "cell of its table; unqualified = unique in host table, else host's sheet, else document; T:: / S::T:: = in "
            "the unique table so named) shares no code with the model of xrefs.py; label_scope_sound (FULL: for every "
            "well-formed document, host cell, target table, row/column, relative or absolute, str(node_to_ref) succeeds "
            "and the text is a label whose qualification + name resolveLabel maps to exactly (target, axis, index) — "
            "DOCUMENT / SHEET / TABLE / NONE scopes and every prefix branch of expand_ref — or the numeric fallback "
            "whose qualification denotes the target), span_scope_sound (same for a:b spans), cache_entry_facts (what a "
            "name-cache entry means in the spec's terms), name_kept_iff_spec_name (the model keeps a name exactly where "
            "the spec sees one, so the numeric fallback is printed iff there is no usable name), "
            "printed_text_resolves_partial / cell_text_resolves_partial (the printed TEXT, read by the spec's text "
            "reader resolveText, gives back the stored table, coordinates and $ marks; hygiene hypothesis PlainNames), "
            "prefix_minimal (A1/numeric: one level of qualification less "
            "no longer denotes the target), prefix_minimal_partial (labels: same, except the deliberately "
            "over-qualified absolute sheet-scope case, characterised exactly). Correspondence: documents built with "
            "the real API (random 1..4 sheets x 1..4 tables with name/label pools + directed 3..4-sheet naming "
            "scenarios with every host x target x row/column), nodes as real protobufs through the real "
            "node_to_ref/str vs the Lean model; the Lean resolver spec is run on every text the real library printed "
            "and must return the stored target; oracle = independent Python resolver of the printed text; branch hit "
            "counts in coverage.branch_hits.",
    "note": "table uuid -> id lookup and formatted header values are taken from the real model (opaque to the Lean model). "
            "Out of the quantifier: names containing '::' or apostrophes, header labels that look like cell references.",
    "technique": "Lean 4 proof + differential correspondence + independent resolver",
}
ASSUMPTIONS = [
    "table_uuids_to_id maps the stored uuid to the stored table (dictionary lookups through protobuf objects)",
    "header label text = Cell.formatted_value of the innermost header row/column (C13/C14)",
    "protobuf HasField/default semantics",
]

SHEET_POOL = ["Sheet 1", "Sheet 2", "Data", "Summary"]
TABLE_POOL = ["Table 1", "Table 2", "Sales", "Data", "Costs"]
LABEL_POOL = ["alpha", "beta", "gamma", "a-b", "x y", ""]
ROW_OPEN, COL_OPEN = 0x7FFFFFFF, 0x7FFF


# --------------------------------------------------------------------------- configurations (real API)

class Config:
    """a document built with the real API + its plain description (names, header counts, labels)."""

    def __init__(self, rng, quick=True):
        from numbers_parser import Document
        ns = rng.randrange(1, 5)
        sheet_names = rng.sample(SHEET_POOL, ns)
        self.desc = []  # [(sheet_name, [tabledesc])]
        self.tables = []  # flat list of (sheet_idx, real Table, desc)
        doc = None
        uniq = 0
        shared_labels = rng.random() < 0.7
        for si, sname in enumerate(sheet_names):
            nt = rng.randrange(1, 5)
            tnames = rng.sample(TABLE_POOL, nt) if rng.random() < 0.75 else [f"T{si}{k}" for k in range(nt)]
            tds = []
            for ti, tname in enumerate(tnames):
                nr, nc = rng.randrange(3, 7), rng.randrange(3, 7)
                hr, hc = rng.choice((0, 1, 1, 1, 2)), rng.choice((0, 1, 1, 1, 2))
                if doc is None:
                    doc = Document(sheet_name=sname, table_name=tname, num_header_rows=hr, num_header_cols=hc,
                                   num_rows=nr, num_cols=nc)
                    tbl = doc.sheets[0].tables[0]
                elif ti == 0:
                    doc.add_sheet(sname, tname, num_rows=nr, num_cols=nc)
                    tbl = doc.sheets[si].tables[0]
                    tbl.num_header_rows = hr
                    tbl.num_header_cols = hc
                else:
                    tbl = doc.sheets[si].add_table(tname, num_rows=nr, num_cols=nc, num_header_rows=hr, num_header_cols=hc)
                mode = rng.randrange(4)  # 0 unique labels, 1 pool (collisions), 2 mixed, 3 leave empty

                def label():
                    nonlocal uniq
                    if mode == 3:
                        return None
                    if mode == 0 or (mode == 2 and rng.random() < 0.5) or not shared_labels:
                        uniq += 1
                        return f"u{uniq}"
                    return rng.choice(LABEL_POOL)
                for r in range(hr):
                    for c in range(nc):
                        v = label()
                        if v is not None and (r, c) != (0, 0):
                            tbl.write(r, c, v)
                for c in range(hc):
                    for r in range(hr, nr):
                        v = label()
                        if v is not None:
                            tbl.write(r, c, v)
                if rng.random() < 0.5:
                    tbl.write(nr - 1, nc - 1, 42)
                tds.append({"name": tname, "hr": hr, "hc": hc, "nr": nr, "nc": nc})
                self.tables.append((si, tbl, tds[-1]))
            self.desc.append((sname, tds))
        self.doc = doc
        self.model = doc._model
        # header labels as the document shows them (formatted values of the innermost header row/column)
        for _si, tbl, td in self.tables:
            td["rowlabels"] = [self._fv(tbl, r, td["hc"] - 1) if td["hc"] else "" for r in range(td["nr"])]
            td["collabels"] = [self._fv(tbl, td["hr"] - 1, c) if td["hr"] else "" for c in range(td["nc"])]

    @staticmethod
    def _fv(tbl, r, c):
        v = tbl.cell(r, c).formatted_value
        return "" if v is None else str(v)

    def edit_headers(self, rng, n_edits=3):
        """write new labels into header cells of an already-read document (incl. labels that make a row and a
        column of the same table share a name, or stop doing so) and refresh the plain description"""
        for _ in range(n_edits):
            _si, tbl, td = rng.choice(self.tables)
            if not (td["hr"] or td["hc"]):
                continue
            labels = [x for x in td["rowlabels"] + td["collabels"] if x] or LABEL_POOL
            new = rng.choice(labels + LABEL_POOL + ["fresh" + str(rng.randrange(100))])
            if td["hr"] and (not td["hc"] or rng.random() < 0.5):
                c = rng.randrange(td["hc"], td["nc"]) if td["nc"] > td["hc"] else None
                if c is None:
                    continue
                tbl.write(td["hr"] - 1, c, new)
            else:
                r = rng.randrange(td["hr"], td["nr"]) if td["nr"] > td["hr"] else None
                if r is None:
                    continue
                tbl.write(r, td["hc"] - 1, new)
        for _si, tbl, td in self.tables:
            td["rowlabels"] = [self._fv(tbl, r, td["hc"] - 1) if td["hc"] else "" for r in range(td["nr"])]
            td["collabels"] = [self._fv(tbl, td["hr"] - 1, c) if td["hr"] else "" for c in range(td["nc"])]

    def add_table_late(self, rng):
        """a table added through the API to a document whose references were already printed (tables added later must be
        found by every look-up the printer uses); the plain description follows."""
        si = rng.randrange(len(self.desc))
        tds = self.desc[si][1]
        name = rng.choice(TABLE_POOL + ["Late " + str(rng.randrange(100))])
        if any(t["name"].lower() == name.lower() for t in tds):
            name = "Late " + str(rng.randrange(100, 1000))
        nr, nc = rng.randrange(3, 6), rng.randrange(3, 6)
        hr, hc = rng.choice((0, 1, 1)), rng.choice((0, 1, 1))
        tbl = self.doc.sheets[si].add_table(name, num_rows=nr, num_cols=nc, num_header_rows=hr, num_header_cols=hc)
        for c in range(hc, nc):
            if hr:
                tbl.write(hr - 1, c, rng.choice(LABEL_POOL[:-1] + [f"late{c}"]))
        for r in range(hr, nr):
            if hc:
                tbl.write(r, hc - 1, rng.choice(LABEL_POOL[:-1] + [f"lr{r}"]))
        td = {"name": name, "hr": hr, "hc": hc, "nr": nr, "nc": nc}
        td["rowlabels"] = [self._fv(tbl, r, hc - 1) if hc else "" for r in range(nr)]
        td["collabels"] = [self._fv(tbl, hr - 1, c) if hr else "" for c in range(nc)]
        tds.append(td)
        pos = sum(len(x[1]) for x in self.desc[: si + 1]) - 1
        self.tables.insert(pos, (si, tbl, td))

    def rename_items(self, rng, n=2):
        """sheets and tables renamed through the API in a document whose references were already printed: swap the names of
        two sheets, give a sheet a fresh name, give a table the name of a table on another sheet / a fresh name (sibling
        names stay distinct); the plain description follows, so the prefix printed afterwards must use the NEW names."""
        doc = self.doc
        for _ in range(n):
            x = rng.random()
            if x < 0.35 and len(self.desc) >= 2:
                i, j = rng.sample(range(len(self.desc)), 2)
                a, b = self.desc[i][0], self.desc[j][0]
                doc.sheets[i].name = "tmp-swap"
                doc.sheets[j].name = a
                doc.sheets[i].name = b
                self.desc[i] = (b, self.desc[i][1]) if isinstance(self.desc[i], tuple) else [b, self.desc[i][1]]
                self.desc[j] = (a, self.desc[j][1]) if isinstance(self.desc[j], tuple) else [a, self.desc[j][1]]
            elif x < 0.6:
                i = rng.randrange(len(self.desc))
                new = "Renamed " + str(rng.randrange(1000))
                if any(s[0].lower() == new.lower() for s in self.desc):
                    continue
                doc.sheets[i].name = new
                self.desc[i] = (new, self.desc[i][1]) if isinstance(self.desc[i], tuple) else [new, self.desc[i][1]]
            else:
                si, tbl, td = rng.choice(self.tables)
                others = [t["name"] for s, tds in [(x[0], x[1]) for x in self.desc] for t in tds]
                new = rng.choice(others + ["Fresh " + str(rng.randrange(1000))])
                if any(t["name"].lower() == new.lower() for t in self.desc[si][1]):
                    continue
                tbl.name = new
                td["name"] = new

    def words(self) -> str:
        w = [str(len(self.desc))]
        for sname, tds in self.desc:
            w += [enc_text(sname), str(len(tds))]
            for td in tds:
                w += [enc_text(td["name"]), str(td["hr"]), str(td["hc"]), str(td["nr"]), str(td["nc"])]
                w += [enc_text(x) for x in td["rowlabels"]] + [enc_text(x) for x in td["collabels"]]
        return " ".join(w)

    def plain(self):
        return [[s, [dict(td) for td in tds]] for s, tds in self.desc]


def build_from_desc(desc):
    """build a document with the real API from a plain description [[sheet name, [table desc]]]; the header labels
    are written into the innermost header column / row.  Returns (doc, [(sheet index, real Table, desc)])."""
    from numbers_parser import Document
    tables = []
    doc = None
    for si, (sname, tds) in enumerate(desc):
        for ti, td in enumerate(tds):
            if doc is None:
                doc = Document(sheet_name=sname, table_name=td["name"], num_header_rows=td["hr"], num_header_cols=td["hc"],
                               num_rows=td["nr"], num_cols=td["nc"])
                tbl = doc.sheets[0].tables[0]
            elif ti == 0:
                doc.add_sheet(sname, td["name"], num_rows=td["nr"], num_cols=td["nc"])
                tbl = doc.sheets[si].tables[0]
                tbl.num_header_rows, tbl.num_header_cols = td["hr"], td["hc"]
            else:
                tbl = doc.sheets[si].add_table(td["name"], num_rows=td["nr"], num_cols=td["nc"],
                                               num_header_rows=td["hr"], num_header_cols=td["hc"])
            if td["hc"]:
                for r in range(td["hr"], td["nr"]):
                    if td["rowlabels"][r] != "":
                        tbl.write(r, td["hc"] - 1, td["rowlabels"][r])
            if td["hr"]:
                for c in range(td["hc"], td["nc"]):
                    if td["collabels"][c] != "":
                        tbl.write(td["hr"] - 1, c, td["collabels"][c])
            tables.append((si, tbl, td))
    return doc, tables


def scenario_desc(rng, variant: int):
    """a directed naming configuration in which every branch of the scope computation and of expand_ref's prefix
    choice occurs: 3 or 4 sheets; a table name duplicated across sheets ('Data'), unique table names, a table named
    like a sheet and one named like a header label; header labels unique in the document / in their sheet only / in
    their table only, repeated on one axis, shared by a row and a column, equal to a sibling table's name, empty,
    with an operator character or a space; tables without header row / column and with two of them."""
    sheets = rng.sample(SHEET_POOL, 4)[: 3 + variant % 2]
    n = [0]

    def u():
        n[0] += 1
        return f"d{variant}u{n[0]}"

    def tbl(name, cols, rows, hr=1, hc=1):
        cols, rows = list(cols), list(rows)
        rng.shuffle(cols)
        rng.shuffle(rows)
        return {"name": name, "hr": hr, "hc": hc, "nr": hr + len(rows), "nc": hc + len(cols),
                "rowlabels": [""] * hr + (rows if hc else [""] * len(rows)),
                "collabels": [""] * hc + (cols if hr else [""] * len(cols))}
    s0 = [tbl("Data", [u(), "tab", "dup", "dup", "Sales"], [u(), "shq", "", "a-b"]),
          tbl("Sales", [u(), "tab", "x y", "", "only0"], [u(), "shr", "rr", "a-b"]),
          tbl("Costs", [u(), "tab", "x", "c3", "pair"], ["x", u(), "rr", "pair2"], hr=1 + variant % 2)]
    s1 = [tbl("Data", [u(), "tab", "Costs", "shq", "only0"], [u(), "r2", "pair", "pair2"]),
          tbl("Table 2", [u(), "tab", "c2", "c3", ""], [u(), "shr", "r3", "x y"], hc=1 + (variant // 2) % 2)]
    s2 = [tbl(sheets[1], [u(), "tab", "shq", "c9"], [u(), "shr", "only0"]),
          tbl("Table 1", [u(), "tab", "k1", "k2"], ["", "", ""], hc=0),
          tbl("Costs" if variant % 3 == 0 else "Table 3", ["", "", ""], [u(), "tab", "k1"], hr=0)]
    desc = [[sheets[0], s0], [sheets[1], s1], [sheets[2], s2]]
    if len(sheets) == 4:
        desc.append([sheets[3], [tbl("Data", [u(), "tab", "shq"], [u(), "a-b", "only0"]),
                                 tbl("Sales" if variant % 4 == 1 else "Table 4", [u(), "tab"], [u(), "shr"])]])
    return desc


class ScenarioConfig(Config):
    def __init__(self, rng, variant: int):  # noqa: super().__init__ not called: built from an explicit description
        desc = scenario_desc(rng, variant)
        self.doc, self.tables = build_from_desc(desc)
        self.desc = [(s, tds) for s, tds in desc]
        self.model = self.doc._model
        for _si, tbl, td in self.tables:
            td["rowlabels"] = [self._fv(tbl, r, td["hc"] - 1) if td["hc"] else "" for r in range(td["nr"])]
            td["collabels"] = [self._fv(tbl, td["hr"] - 1, c) if td["hr"] else "" for c in range(td["nc"])]


# --------------------------------------------------------------------------- reference nodes (real protobufs)

def make_node(cfg: Config, spec: dict):
    from numbers_parser.generated.TSCEArchives_pb2 import ASTNodeArrayArchive
    from numbers_parser.numbers_uuid import NumbersUUID
    N = ASTNodeArrayArchive.ASTNodeArchive
    if spec["kind"] == "cell":
        n = N(AST_node_type="CELL_REFERENCE_NODE")
        if spec["row"] is not None:
            n.AST_row.row, n.AST_row.absolute = spec["row"]
        if spec["col"] is not None:
            n.AST_column.column, n.AST_column.absolute = spec["col"]
    else:
        n = N(AST_node_type="COLON_TRACT_NODE")
        ct = n.AST_colon_tract
        ct.preserve_rectangular = True
        for lst, key in ((ct.relative_row, "rr"), (ct.absolute_row, "ar"), (ct.relative_column, "rc"), (ct.absolute_column, "ac")):
            for ent in spec[key]:
                e = lst.add()
                e.range_begin = ent[0]
                if len(ent) > 1:
                    e.range_end = ent[1]
        sb = n.AST_sticky_bits
        sb.begin_row_is_absolute, sb.end_row_is_absolute, sb.begin_column_is_absolute, sb.end_column_is_absolute = \
            [bool(b) for b in spec["bits"]]
    if spec["to"] is not None:
        uuid = cfg.model.table_base_id(cfg.tables[spec["to"]][1]._table_id)
        n.AST_cross_table_reference_extra_info.table_id.CopyFrom(NumbersUUID(uuid).protobuf4)
    return n


def node_words(spec: dict) -> str:
    to = "-" if spec["to"] is None else str(spec["to"])
    if spec["kind"] == "cell":
        r, c = spec["row"], spec["col"]
        return " ".join(["C", "0 0 0" if r is None else f"1 {r[0]} {int(r[1])}",
                         "0 0 0" if c is None else f"1 {c[0]} {int(c[1])}", to])

    def lst(x):
        return "-" if not x else ";".join(",".join(str(v) for v in ent) for ent in x)
    return " ".join(["T", lst(spec["rr"]), lst(spec["ar"]), lst(spec["rc"]), lst(spec["ac"]),
                     "".join(str(int(b)) for b in spec["bits"]), to])


def axis_entries(rng, host, lo, hi, span: bool):
    """stored encoding of one axis of a colon tract the way Numbers writes it:
    returns (relative_list, absolute_list, begin_abs, end_abs, begin, end)."""
    b = rng.randrange(lo, hi)
    e = rng.randrange(b, hi) if span else b
    ba, ea = rng.random() < 0.3, rng.random() < 0.3
    if not span and rng.random() < 0.7:
        ea = ba
    if span and ba != ea and rng.random() < 0.4:
        # a mixed reference (A$5:A<own row>) filled to the other side of its anchor is stored with its ends in that
        # order: the relative end resolves before the absolute one, and must be printed where it is stored
        e = rng.randrange(lo, b + 1)
    if ba and ea:
        rel, ab = [], [[b, e]] if (e != b or rng.random() < 0.5) else [[b]]
    elif not ba and not ea:
        rel, ab = [[b - host, e - host]] if (e != b or rng.random() < 0.5) else [[b - host]], []
    elif ba:
        rel, ab = [[e - host]], [[b]]
    else:
        rel, ab = [[b - host]], [[e]]
    return rel, ab, ba, ea, b, e


def gen_ref(rng, cfg: Config):
    hi = rng.randrange(len(cfg.tables))
    _, _, htd = cfg.tables[hi]
    hrow, hcol = rng.randrange(htd["nr"]), rng.randrange(htd["nc"])
    ti = hi if rng.random() < 0.35 else rng.randrange(len(cfg.tables))
    ttd = cfg.tables[ti][2]
    to = None if (ti == hi and rng.random() < 0.7) else ti
    kind = rng.choice(("cell", "cell", "rect", "rect", "rows", "cols", "row1", "col1"))
    exp = {"host": hi, "hrow": hrow, "hcol": hcol, "target": ti, "kind": kind}
    if kind in ("cell", "row1", "col1"):
        r, c = rng.randrange(ttd["nr"]), rng.randrange(ttd["nc"])
        ra, ca = rng.random() < 0.35, rng.random() < 0.35
        spec = {"kind": "cell", "to": to,
                "row": None if kind == "col1" else [r if ra else r - hrow, ra],
                "col": None if kind == "row1" else [c if ca else c - hcol, ca]}
        if kind != "col1":
            exp.update(r0=r, r0abs=ra)
        if kind != "row1":
            exp.update(c0=c, c0abs=ca)
        return spec, exp
    spec = {"kind": "tract", "to": to, "rr": [], "ar": [], "rc": [], "ac": [], "bits": [0, 0, 0, 0]}
    if kind in ("rect", "rows"):
        rel, ab, ba, ea, b, e = axis_entries(rng, hrow, 0, ttd["nr"], True)
        spec["rr"], spec["ar"], spec["bits"][0], spec["bits"][1] = rel, ab, ba, ea
        exp.update(r0=b, r1=e, r0abs=ba, r1abs=ea)
    else:
        spec["ar"] = [[ROW_OPEN]]
    if kind in ("rect", "cols"):
        rel, ab, ba, ea, b, e = axis_entries(rng, hcol, 0, ttd["nc"], True)
        spec["rc"], spec["ac"], spec["bits"][2], spec["bits"][3] = rel, ab, ba, ea
        exp.update(c0=b, c1=e, c0abs=ba, c1abs=ea)
    else:
        spec["ac"] = [[COL_OPEN]]
    return spec, exp


def fixed_axis(rng, host, b, e):
    """stored encoding of one axis with given ends (random `$` flags and storage layout)"""
    ba, ea = rng.random() < 0.3, rng.random() < 0.3
    if ba and ea:
        rel, ab = [], [[b, e]] if (e != b or rng.random() < 0.5) else [[b]]
    elif not ba and not ea:
        rel, ab = [[b - host, e - host]] if (e != b or rng.random() < 0.5) else [[b - host]], []
    elif ba:
        rel, ab = [[e - host]], [[b]]
    else:
        rel, ab = [[b - host]], [[e]]
    return rel, ab, ba, ea


def systematic_refs(rng, cfg: Config):
    """every (host table, target table, row / column of the target) as a whole-row / whole-column reference, relative
    and absolute, plus a few spans per pair"""
    for hi, (_s, _t, htd) in enumerate(cfg.tables):
        for ti, (_s2, _t2, ttd) in enumerate(cfg.tables):
            hrow, hcol = rng.randrange(htd["nr"]), rng.randrange(htd["nc"])
            to = None if (ti == hi and rng.random() < 0.5) else ti
            base = {"host": hi, "hrow": hrow, "hcol": hcol, "target": ti}
            for ab in (False, True):
                for r in range(ttd["nr"]):
                    yield ({"kind": "cell", "to": to, "row": [r if ab else r - hrow, ab], "col": None},
                           dict(base, kind="row1", r0=r, r0abs=ab))
                for c in range(ttd["nc"]):
                    yield ({"kind": "cell", "to": to, "row": None, "col": [c if ab else c - hcol, ab]},
                           dict(base, kind="col1", c0=c, c0abs=ab))
            named = {ax: sorted(h[1] for h in headers(ttd) if h[0] == ax) for ax in ("row", "col")}
            for k in range(4):
                spec = {"kind": "tract", "to": to, "rr": [], "ar": [[ROW_OPEN]], "rc": [], "ac": [[COL_OPEN]],
                        "bits": [0, 0, 0, 0]}
                rows = k % 2 == 0
                pick = named["row" if rows else "col"]
                if k < 2 and len(pick) >= 2:  # both ends named: the label form of a span
                    b, e = sorted(rng.sample(pick, 2))
                elif rows:
                    b = rng.randrange(ttd["nr"])
                    e = rng.randrange(b, ttd["nr"])
                else:
                    b = rng.randrange(ttd["nc"])
                    e = rng.randrange(b, ttd["nc"])
                if rows:
                    rel, ab_, ba, ea = fixed_axis(rng, hrow, b, e)
                    spec["rr"], spec["ar"], spec["bits"][0], spec["bits"][1] = rel, ab_, ba, ea
                    yield spec, dict(base, kind="rows", r0=b, r1=e, r0abs=ba, r1abs=ea)
                else:
                    rel, ab_, ba, ea = fixed_axis(rng, hcol, b, e)
                    spec["rc"], spec["ac"], spec["bits"][2], spec["bits"][3] = rel, ab_, ba, ea
                    yield spec, dict(base, kind="cols", c0=b, c1=e, c0abs=ba, c1abs=ea)


def classify(desc, exp, text):
    """which branch of the scope computation / prefix choice a whole-row / whole-column reference exercises, computed
    from the document's own names and the printed text only (for the branch-hit statistics in the evidence):
    form | why-no-name or uniqueness level of the name | host-target relation | abs | printed qualification"""
    flat = [(si, td) for si, (_s, tds) in enumerate(desc) for td in tds]
    hsi, _htd = flat[exp["host"]]
    tsi, ttd = flat[exp["target"]]
    axis = "row" if exp["kind"] in ("row1", "rows") else "col"
    idx = exp["r0"] if axis == "row" else exp["c0"]
    ab = exp["r0abs"] if axis == "row" else exp["c0abs"]
    span = exp["kind"] in ("rows", "cols")
    rel = "same-table" if exp["host"] == exp["target"] else "same-sheet" if hsi == tsi else "other-sheet"
    try:
        nparts = len(split_outside_quotes(text, "::"))
    except Unresolved:
        nparts = 0
    qual = {1: "bare", 2: "T::", 3: "S::T::"}.get(nparts, "?")
    names = {(h[0], h[1]): h[2] for h in headers(ttd)}
    name = names.get((axis, idx))
    if span and name is not None and (axis, exp["r1"] if axis == "row" else exp["c1"]) not in names:
        level = "named-then-unnamed-end"
    elif name is None:
        lab = (ttd["rowlabels"] if axis == "row" else ttd["collabels"])[idx]
        has_header = ttd["hc"] if axis == "row" else ttd["hr"]
        first = ttd["hr"] if axis == "row" else ttd["hc"]
        own = [(ttd["rowlabels"] if axis == "row" else ttd["collabels"])[k]
               for k in range(first, ttd["nr"] if axis == "row" else ttd["nc"])]
        why = ("no-header" if not has_header else "inside-header" if idx < first else "empty" if lab == "" else
               "repeated-on-axis" if own.count(lab) > 1 else "shared-by-row-and-column")
        level = "unnamed:" + why
    else:
        ndoc = sum(1 for _si, td in flat for h in headers(td) if h[2] == name)
        nsheet = sum(1 for si, td in flat if si == tsi for h in headers(td) if h[2] == name)
        tuniq = sum(1 for _si, td in flat if td["name"] == ttd["name"]) == 1
        level = "document" if ndoc == 1 else "sheet" if nsheet == 1 else "table" if tuniq else "none"
        if any(td["name"] == name for _si, td in flat):
            level += "+label-is-a-table-name"
    return "|".join(["span" if span else "single", level, rel, "abs" if ab else "rel", qual])


# the branches of `_calculate_scope_types` x `expand_ref` that the quick tier must exercise (checked on every run;
# a missing one is reported in the evidence as `branches_missing` and as a note)
REQUIRED_BRANCHES = [
    "single|document|same-table|rel|bare", "single|document|same-sheet|rel|bare", "single|document|other-sheet|abs|bare",
    "single|sheet|same-table|rel|bare", "single|sheet|same-sheet|rel|bare", "single|sheet|same-sheet|abs|T::",
    "single|sheet|other-sheet|rel|T::", "single|sheet|other-sheet|rel|S::T::",
    "single|table|same-table|rel|bare", "single|table|same-sheet|rel|T::", "single|table|other-sheet|abs|T::",
    "single|none|same-table|rel|bare", "single|none|same-sheet|rel|T::", "single|none|other-sheet|rel|S::T::",
    "single|unnamed:empty|other-sheet|rel|T::", "single|unnamed:repeated-on-axis|same-sheet|rel|T::",
    "single|unnamed:shared-by-row-and-column|same-table|rel|bare", "single|unnamed:no-header|other-sheet|rel|S::T::",
    "single|unnamed:inside-header|same-table|rel|bare",
    "span|document|other-sheet|rel|bare", "span|sheet|same-sheet|rel|bare", "span|table|other-sheet|rel|T::",
    "span|none|other-sheet|rel|S::T::",
]


def want_line(exp) -> str:
    """the stored target in the driver's `refs resolve` output format"""
    def one(e):
        if e[0] == "cell":
            return f"C,{e[1]},{e[3]},{int(e[2])},{int(e[4])}"
        return f"{'R' if e[0] == 'row' else 'L'},{e[1]},{int(e[2])}"
    want = expected_ends(exp)
    if len(want) == 2 and want[0] == want[1]:
        want = want[:1]
    return f"ok {exp['target']} " + ";".join(one(e) for e in want)


# --------------------------------------------------------------------------- oracle: independent resolver

class Unresolved(Exception):
    def __init__(self, msg, cls="malformed"):
        super().__init__(msg)
        self.cls = cls


def split_outside_quotes(s: str, sep: str):
    parts, buf, i, n = [], [], 0, len(s)
    while i < n:
        if s[i] == "'":
            j = i + 1
            while True:
                if j >= n:
                    raise Unresolved("unterminated quote")
                if s[j] == "'":
                    if j + 1 < n and s[j + 1] == "'":
                        j += 2
                        continue
                    break
                j += 1
            buf.append(s[i:j + 1])
            i = j + 1
        elif s.startswith(sep, i):
            parts.append("".join(buf))
            buf = []
            i += len(sep)
        else:
            buf.append(s[i])
            i += 1
    parts.append("".join(buf))
    return parts


def col_index(name: str) -> int:
    v = 0
    for ch in name:
        v = v * 26 + (ord(ch) - 64)
    return v - 1


_CELL = re.compile(r"(\$?)([A-Z]+)(\$?)([0-9]+)$")
_COL = re.compile(r"(\$?)([A-Z]+)$")
_ROW = re.compile(r"(\$?)([0-9]+)$")


def parse_end(t: str):
    if len(t) >= 2 and t[0] == "'" and t[-1] == "'":
        inner = t[1:-1].replace("''", "'")
        ab = inner.startswith("$")
        return ("label", inner[1:] if ab else inner, ab)
    if t.startswith("$'") and t.endswith("'"):
        return ("label", t[2:-1].replace("''", "'"), True)
    m = _CELL.match(t)
    if m:
        return ("cell", int(m.group(4)) - 1, m.group(3) == "$", col_index(m.group(2)), m.group(1) == "$")
    m = _COL.match(t)
    if m:
        return ("col", col_index(m.group(2)), m.group(1) == "$")
    m = _ROW.match(t)
    if m:
        return ("row", int(m.group(2)) - 1, m.group(1) == "$")
    ab = t.startswith("$")
    return ("label", t[1:] if ab else t, ab)


def headers(td):
    """the header NAMES of a table: list of (axis, index, text).  A header cell names its row/column iff its
    text is non-empty and no other header cell of the same table (row or column header) shows the same text;
    otherwise only coordinates can identify that row/column."""
    cells = []
    if td["hc"]:
        cells += [("row", r, td["rowlabels"][r]) for r in range(td["hr"], td["nr"])]
    if td["hr"]:
        cells += [("col", c, td["collabels"][c]) for c in range(td["hc"], td["nc"])]
    texts = [x[2] for x in cells]
    return [x for x in cells if x[2] != "" and texts.count(x[2]) == 1]


def resolve(desc, host: int, text: str):
    """what the printed text denotes given the document's own names: (table index, [end, ...]).
    desc = [[sheet name, [table desc]]]; tables are numbered in document order."""
    flat = [(si, td) for si, (_s, tds) in enumerate(desc) for td in tds]
    parts = split_outside_quotes(text, "::")
    if not 1 <= len(parts) <= 3:
        raise Unresolved("more than two qualifiers")
    ends = [parse_end(e) for e in split_outside_quotes(parts[-1], ":")]
    if not 1 <= len(ends) <= 2 or any(e[0] == "label" and e[1] == "" for e in ends):
        raise Unresolved("empty or malformed reference text", "empty-text")
    hsheet = flat[host][0]
    if len(parts) == 3:
        sheets = [i for i, (s, _t) in enumerate(desc) if s == parts[0]]
        if len(sheets) != 1:
            raise Unresolved(f"{len(sheets)} sheets named {parts[0]!r}")
        cands = [i for i, (si, td) in enumerate(flat) if si == sheets[0] and td["name"] == parts[1]]
        if len(cands) != 1:
            raise Unresolved(f"{len(cands)} tables named {parts[1]!r} in sheet {parts[0]!r}")
    elif len(parts) == 2:
        cands = [i for i, (si, td) in enumerate(flat) if si == hsheet and td["name"] == parts[0]]
        if not cands:
            cands = [i for i, (si, td) in enumerate(flat) if td["name"] == parts[0]]
        if len(cands) != 1:
            raise Unresolved(f"{len(cands)} tables match {parts[0]!r}", "table-prefix-ambiguous")
    else:
        labels = [e[1] for e in ends if e[0] == "label"]
        if not labels:
            cands = [host]
        else:
            # an unqualified reference by header name denotes the table in which ALL its names exist:
            # the host table first, then the host's sheet, then the whole document
            def has(i):
                names = [h[2] for h in headers(flat[i][1])]
                return all(lab in names for lab in labels)
            if has(host):
                cands = [host]
            else:
                cands = [i for i, (si, _td) in enumerate(flat) if si == hsheet and has(i)] or \
                    [i for i in range(len(flat)) if has(i)]
            if len(cands) != 1:
                raise Unresolved(f"{len(cands)} tables match label(s) {labels!r}", "label-table-ambiguous")
    table = cands[0]
    out = []
    for e in ends:
        if e[0] == "label":
            hits = [h for h in headers(flat[table][1]) if h[2] == e[1]]
            if len(hits) != 1:
                raise Unresolved(f"label {e[1]!r} names {len(hits)} headers of the table",
                                 "label-names-row-and-column" if len(hits) > 1 else "label-not-a-name")
            out.append((hits[0][0], hits[0][1], e[2]))
        else:
            out.append(e)
    return table, out


def expected_ends(exp):
    k = exp["kind"]
    if k == "cell":
        return [("cell", exp["r0"], exp["r0abs"], exp["c0"], exp["c0abs"])]
    if k == "rect":
        return [("cell", exp["r0"], exp["r0abs"], exp["c0"], exp["c0abs"]),
                ("cell", exp["r1"], exp["r1abs"], exp["c1"], exp["c1abs"])]
    if k == "rows":
        return [("row", exp["r0"], exp["r0abs"]), ("row", exp["r1"], exp["r1abs"])]
    if k == "cols":
        return [("col", exp["c0"], exp["c0abs"]), ("col", exp["c1"], exp["c1abs"])]
    if k == "row1":
        return [("row", exp["r0"], exp["r0abs"])]
    return [("col", exp["c0"], exp["c0abs"])]


def judge(desc, exp, text):
    """None if the text names exactly the stored target, else (signature, description)."""
    try:
        table, ends = resolve(desc, exp["host"], text)
    except Unresolved as e:
        return ("reference-unresolvable:" + e.cls, f"{text!r}: {e}")
    if table != exp["target"]:
        return ("reference-names-other-table", f"{text!r} denotes table #{table}, stored target is #{exp['target']}")
    want = expected_ends(exp)
    if len(ends) == 2 and len(want) == 1:
        want = want * 2  # a single row/column may be printed as `x:x`
    if len(ends) == 1 and len(want) == 2 and want[0] == want[1]:
        want = want[:1]
    if [tuple(e) for e in ends] != [tuple(w) for w in want]:
        return ("reference-names-other-cells", f"{text!r} denotes {ends}, stored {want}")
    return None


_seen_sig: dict = {}


def report(ctx, sig, what, inp):
    k = (id(ctx), sig)
    _seen_sig[k] = _seen_sig.get(k, 0) + 1
    if _seen_sig[k] <= 3:
        ctx.violation(sig, what, inp)


def real_text(cfg, spec, exp):
    node = make_node(cfg, spec)
    host_tid = cfg.tables[exp["host"]][1]._table_id
    with warnings.catch_warnings():
        warnings.simplefilter("ignore")
        return str(cfg.model.node_to_ref(host_tid, exp["hrow"], exp["hcol"], node))



# --------------------------------------------------------------------------- document level: one stored reference, many hosts

def gen_ref_doc(rng, variant):
    """a directed naming scenario whose tables carry formulas consisting of ONE same-table reference (a cell or a
    rectangular range whose corners mix `$` and relative parts, optionally inside SUM()), each filled right / down so that
    several host cells share one stored formula (harness/formuladocs.py)."""
    import formuladocs as F
    desc = scenario_desc(rng, variant)
    flat = [td for _s, tds in desc for td in tds]
    cells = []
    for fi, td in enumerate(flat):
        used = set()
        body_r, body_c = range(td["hr"], td["nr"]), range(td["hc"], td["nc"])
        if len(body_r) < 2 or len(body_c) < 2:
            continue
        for _ in range(rng.randrange(1, 4)):
            t = F.gen_range(rng, td["nr"], td["nc"]) if rng.random() < 0.6 else F.gen_ref(rng, td["nr"], td["nc"], span=2)
            if all(r[3] and r[4] for r in F.refs_of(t)):
                continue
            wrap = rng.random() < 0.5
            if rng.random() < 0.5:
                r0 = rng.choice(body_r)
                cand = [(r0, c) for c in body_c]
            else:
                c0 = rng.choice(body_c)
                cand = [(r, c0) for r in body_r]
            hosts = [h for h in cand if h not in used and F.in_table(t, h, td["nr"], td["nc"])]
            if len(hosts) < 2:
                continue
            used |= set(hosts)
            for h in hosts:
                txt = F.show(t, h)
                cells.append([fi, list(h), f"SUM({txt})" if wrap else txt])
    return {"desc": desc, "cells": cells}


def check_ref_doc(spec, rng):
    """every host read through Cell.formula on the open document and, from the saved file, isolated / forward / reverse /
    shuffled: the printed reference must name exactly the cells the stored node denotes AT THAT HOST (independent reading of
    the stored node, `judge` on the printed text) whatever was read before."""
    import os
    import formuladocs as F
    from numbers_parser import Document
    desc = spec["desc"]
    res = {"hosts": 0, "shared_keys": 0, "texts": 0, "writer_refused": 0, "unsupported": 0, "problems": []}
    doc, tables = build_from_desc(desc)
    for fi, (r, c), text in spec["cells"]:
        try:
            with warnings.catch_warnings():
                warnings.simplefilter("ignore")
                tables[fi][1].cell(r, c).formula = text
        except Exception:  # noqa: BLE001   the formula writer is not under test
            res["writer_refused"] += 1

    def all_tables(d):
        return [t for s in d.sheets for t in s.tables]

    def hosts_of(d):
        return [(fi, cell.row, cell.col) for fi, t in enumerate(all_tables(d)) for row in t.rows() for cell in row if cell.is_formula]

    def rd(d, h):
        try:
            with warnings.catch_warnings():
                warnings.simplefilter("ignore")
                return all_tables(d)[h[0]].cell(h[1], h[2]).formula
        except Exception as e:  # noqa: BLE001
            return "!raised " + exc_name(e)
    got = {"open-document": {h: [rd(doc, h)] for h in hosts_of(doc)}}
    with F.TempDir() as tmp:
        path = os.path.join(tmp, "refs.numbers")
        doc.save(path)
        d0 = Document(path)
        hosts = hosts_of(d0)
        stored = {}
        for fi, t in enumerate(all_tables(d0)):
            asts = d0._model.formula_ast(t._table_id)
            for row in t.rows():
                for cell in row:
                    if cell.is_formula and cell._formula_id in asts:
                        stored[(fi, cell.row, cell.col)] = (cell._formula_id, list(asts[cell._formula_id]))
        shuffled = hosts * 2
        rng.shuffle(shuffled)
        for name, seq in (("forward", hosts), ("reverse", hosts[::-1]), ("shuffled-with-repeats", shuffled)):
            d = Document(path)
            per = {}
            for h in seq:
                per.setdefault(h, []).append(rd(d, h))
            got[name] = per
        iso = {}
        for h in (hosts if len(hosts) <= 10 else rng.sample(hosts, 10)):
            iso[h] = [rd(Document(path), h)]
        got["isolated"] = iso
    keys = {}
    for h, (k, _n) in stored.items():
        keys.setdefault((h[0], k), []).append(h)
    res["hosts"] = len(hosts)
    res["shared_keys"] = sum(1 for v in keys.values() if len(v) > 1)
    for h in hosts:
        if h not in stored:
            continue
        nodes = stored[h][1]
        names = [F._type_name(n) for n in nodes]
        refnodes = [n for n, nm in zip(nodes, names) if nm in ("CELL_REFERENCE_NODE", "COLON_TRACT_NODE")]
        if len(refnodes) != 1 or any(nm not in ("CELL_REFERENCE_NODE", "COLON_TRACT_NODE", "FUNCTION_NODE") for nm in names):
            res["unsupported"] += 1
            continue
        try:
            exp = F.decode_ref_exp(refnodes[0], (h[1], h[2]))
        except F.Unsupported:
            res["unsupported"] += 1
            continue
        if min(exp.get(k, 0) for k in ("r0", "r1", "c0", "c1")) < 0:
            res["unsupported"] += 1
            continue
        exp.update(host=h[0], target=h[0], hrow=h[1], hcol=h[2])
        seen = {}
        for order, per in got.items():
            for text in per.get(h, []):
                res["texts"] += 1
                seen.setdefault(text, order)
                inp = {"ref_doc": spec, "host": list(h), "order": order, "exp": exp}
                if text is None or text.startswith("!raised"):
                    res["problems"].append(("reference-str-raises:" + str(text).split(" ")[-1],
                                            f"Cell.formula of host {h} read in order {order}: {text}", inp))
                    continue
                ref = text[text.index("(") + 1:-1] if (len(names) > 1 and "(" in text and text.endswith(")")) else text
                v = judge(desc, exp, ref)
                if v:
                    res["problems"].append((v[0], f"host table #{h[0]} cell ({h[1]},{h[2]}) shares stored formula "
                                            f"{stored[h][0]} with {len(keys[(h[0], stored[h][0])]) - 1} other cells; read in "
                                            f"order {order!r}: " + v[1], inp))
        if len(seen) > 1:
            res["problems"].append(("reference-text-depends-on-read-history",
                                    f"host {h}: " + "; ".join(f"{o}: {t!r}" for t, o in seen.items()),
                                    {"ref_doc": spec, "host": list(h), "order": "all", "exp": exp}))
    return res


def doc_level_phase(ctx):
    rng = ctx.rng
    ndocs = 2 if ctx.quick else 16
    tot = {"hosts": 0, "shared_keys": 0, "texts": 0, "writer_refused": 0, "unsupported": 0}
    for k in range(ndocs):
        spec = gen_ref_doc(rng, k)
        res = check_ref_doc(spec, rng)
        for key in tot:
            tot[key] += res[key]
        for sig, what, inp in res["problems"]:
            report(ctx, sig, what, inp)
        ctx.mark(("ref-doc", k, len(spec["cells"])))
    ctx.count("documents whose cells share stored single-reference formulas (fill right / down through the public formula "
              "setter; cells and rectangular ranges with mixed $ / relative corners, bare or inside SUM()), every host read "
              "through Cell.formula on the open document and from the saved file isolated / forward / reverse / shuffled: "
              "printed reference vs independent reading of the stored node at that host", tot["texts"])
    ctx.extra["document_level"] = dict(tot, documents=ndocs)


def run(ctx: Ctx):
    rng = ctx.rng
    nconf = 24 if ctx.quick else 300
    nrefs = 300 if ctx.quick else 1000
    nscen = 4 if ctx.quick else 24
    req, out = [], []
    rreq, rout = [], []  # the resolver SPEC (Lean, Model/RefsSpec.lean) applied to the text the real library printed
    branches: dict = {}

    def one_case(cfg, dwords, desc, spec, exp):
        req.append(f"refs str {dwords} {exp['host']} {exp['hrow']} {exp['hcol']} {node_words(spec)}")
        try:
            text = real_text(cfg, spec, exp)
        except Exception as e:  # noqa: BLE001
            out.append("err " + exc_name(e))
            report(ctx, "reference-str-raises:" + exc_name(e),
                   f"str(node_to_ref(...)) raised {exc_name(e)}: {e}", {"doc": desc, "spec": spec, "exp": exp})
            return
        out.append("ok " + enc_text(text))
        rreq.append(f"refs resolve {dwords} {exp['host']} {enc_text(text)}")
        rout.append(want_line(exp))
        if exp["target"] != exp["host"] or not re.fullmatch(r"[$A-Z0-9:]*", text):
            ctx.mark((dwords, text, exp["target"]))
        if exp["kind"] in ("row1", "col1", "rows", "cols"):
            b = classify(desc, exp, text)
            branches[b] = branches.get(b, 0) + 1
        v = judge(desc, exp, text)
        if v:
            report(ctx, v[0], v[1], {"doc": desc, "spec": spec, "exp": exp, "text": text})

    for _ci in range(nconf):
        cfg = Config(rng)
        dwords = cfg.words()
        desc = cfg.plain()
        for k in range(nrefs):
            if k and k % (nrefs // 3) == 0 and _ci % 2 == 0:
                # header labels edited after references were already printed (name caches must follow)
                cfg.edit_headers(rng)
                dwords = cfg.words()
                desc = cfg.plain()
            elif k == (2 * nrefs) // 3 + 7 and _ci % 3 != 2:
                # a table added after references (also cross-table ones) were printed; references into it follow
                cfg.add_table_late(rng)
                dwords = cfg.words()
                desc = cfg.plain()
            elif k == nrefs // 2 and _ci % 2 == 1:
                # sheets / tables renamed after references were printed and with NO header write in between (a header
                # write would refresh the name caches anyway)
                cfg.rename_items(rng)
                dwords = cfg.words()
                desc = cfg.plain()
            spec, exp = gen_ref(rng, cfg)
            one_case(cfg, dwords, desc, spec, exp)
    nrandom = len(req)
    # directed configurations: every branch of the scope computation / prefix choice, every host x target x row/column
    for variant in range(nscen):
        cfg = ScenarioConfig(rng, variant)
        dwords = cfg.words()
        desc = cfg.plain()
        for spec, exp in systematic_refs(rng, cfg):
            one_case(cfg, dwords, desc, spec, exp)
        if variant % 2 == 1:
            cfg.edit_headers(rng, n_edits=4)
            dwords = cfg.words()
            desc = cfg.plain()
            for _ in range(200):
                spec, exp = gen_ref(rng, cfg)
                one_case(cfg, dwords, desc, spec, exp)
        else:
            cfg.rename_items(rng, n=3)
            dwords = cfg.words()
            desc = cfg.plain()
            for _ in range(200):
                spec, exp = gen_ref(rng, cfg)
                one_case(cfg, dwords, desc, spec, exp)
    ctx.correspond(f"{nconf} random documents (1..4 sheets x 1..4 tables) x {nrefs} reference nodes + {nscen} directed "
                   f"naming scenarios (3..4 sheets, every host x target x row/column, relative and absolute, spans) "
                   f"through node_to_ref/str", req, out)
    ctx.correspond("resolver spec (Lean resolveText) applied to the text printed by the real library == stored target",
                   rreq, rout)
    ctx.extra["cases_random"] = nrandom
    ctx.extra["cases_directed"] = len(req) - nrandom
    ctx.extra["branch_hits"] = dict(sorted(branches.items()))
    missing = [b for b in REQUIRED_BRANCHES if not branches.get(b)]
    ctx.extra["branches_required"] = len(REQUIRED_BRANCHES)
    ctx.extra["branches_missing"] = missing
    if missing:
        ctx.notes.append("scope/prefix branches not exercised in this run: " + ", ".join(missing))

    # --- malformed tracts: the error behaviour of node_to_ref (missing lists) -----------------------------
    cfg = Config(rng)
    dwords = cfg.words()
    req, out = [], []
    for bits in range(16):
        for lists in range(16):
            spec = {"kind": "tract", "to": None, "bits": [(bits >> k) & 1 for k in range(4)],
                    "rr": [[0, 1]] if lists & 1 else [], "ar": [[1, 1]] if lists & 2 else [],
                    "rc": [[0]] if lists & 4 else [], "ac": [[1]] if lists & 8 else []}
            exp = {"host": 0, "hrow": 1, "hcol": 1}
            req.append(f"refs str {dwords} 0 1 1 {node_words(spec)}")
            try:
                out.append("ok " + enc_text(real_text(cfg, spec, exp)))
            except Exception as e:  # noqa: BLE001
                out.append("err " + exc_name(e))
    ctx.correspond("colon tracts with every subset of lists present x every sticky-bit combination", req, out,
                   exhaustive=True)

    # --- document level: stored references shared by several host cells, read in different orders ---------------
    doc_level_phase(ctx)


def replay(data):
    """rebuild the stored configuration with the real API and print the reference again."""
    i = data["input"]
    if "ref_doc" in i:
        import random
        r = check_ref_doc(i["ref_doc"], random.Random(0))
        out = {k: v for k, v in r.items() if k != "problems"}
        out["problems"] = [[sig, what] for sig, what, inp in r["problems"] if inp["host"] == i.get("host")][:10]
        return out
    desc = i["doc"]

    class C:
        pass
    cfg = C()
    doc, cfg.tables = build_from_desc(desc)
    cfg.model = doc._model
    try:
        text = real_text(cfg, i["spec"], i["exp"])
    except Exception as e:  # noqa: BLE001
        return {"raises": exc_name(e), "message": str(e)}
    return {"printed": text, "verdict": judge(desc, i["exp"], text)}
