"""C19 — Sheet and table collections: unique names, consistent lookup, stable order."""
from __future__ import annotations

import os
import tempfile

import common
from common import REPO, Ctx, enc_text, exc_name

PID = "C19"
PROPS_MODULE = "NumbersModel.Props.C19"
THEOREMS = [f"NumbersModel.Props.C19.{t}" for t in (
    "add_no_ci_duplicate", "auto_name_fresh", "dup_refused", "lookup_by_name_exact", "index_agrees_with_iteration",
    "index_outside_raises",
    # the document tree (Model/DocTree.lean): names and order after save / reopen from any file order, for every history
    "valid_after_history", "order_after_reload", "order_after_reload_saved", "order_after_reload_history", "add_sheet_appends",
    "add_sheet_succeeds", "creation_ignores_blobs",
    "order_after_reload_pinned", "isolation_table_setter", "isolation_sheet_rename")] + [f"NumbersModel.Props.C19.Src.{t}" for t in (
    # the lookup clauses over ItemsList.__getitem__ as py2lean regenerates it from containers.py on every run
    "src_index_agrees_with_iteration", "src_index_outside_raises", "src_lookup_by_name_exact", "src_other_key_raises")] + \
    [f"NumbersModel.Translated.{t}" for t in ("getitem_int_eq_model", "getitem_str_eq_model", "getitem_other")] + \
    [f"NumbersModel.DocTree.{t}" for t in ("run_valid", "names_perm", "tableIds_perm", "serialise_perm", "load_objects",
                                            "createObject_total", "createOthers_total")]
TRANSLATED_GROUPS = ("Items",)
PARTIAL = {
    "add_table_appends": "that _NumbersModel.add_table puts the new table last in table_ids(sheet) and leaves the other sheets' lists alone is "
                         "not a Lean theorem (add_sheet_appends is; for add_table the invariant Valid is proved kept, incl. that the new "
                         "info is listed by its sheet); the in-memory order after every add is compared with the model's table_ids on every "
                         "history (driver op Q) and checked by the oracle add-disturbs-order",
    "isolation_labels": "isolation is proved for names and order (isolation_table_setter, isolation_sheet_rename: a table's or sheet's setter "
                        "leaves the sheets, every sheet's table list and order, and every other name unchanged); that the other tables' caption / "
                        "visibility / header counts / position are unchanged, and isolation between two Document objects, are checked by the "
                        "oracle (edit-leaks-to-sibling, edit-leaks-to-other-document) and the correspondence, not proved",
    "files_match": "order_after_reload quantifies over every package holding exactly the store's objects; that Document.save writes such a "
                   "package (hypothesis FilesMatch of order_after_reload_saved) is compared on every saved file, member by member and "
                   "archive by archive, with the model's serialise - not proved to be kept by create_object_from_dict when a new member's "
                   "formatted name collides with an existing one (the only way left: since fixes/C19-new-objects-go-to-iwa-members.patch a "
                   "new object never goes to a member that is not an IWA archive, createObject_total / creation_ignores_blobs)",
}
RULE = ("seeded histories of add_sheet/add_table (named from a pool with case variants, generated-looking names, empty, "
        "non-ASCII incl. multi-char lowercasings; unnamed) and renames over new and loaded documents, each followed by lookups "
        "by every index in [-2n,2n], by name and `in` tests; one protocol line per collection (sheets of a document, tables of a "
        "sheet). Document-tree stream: seeded histories over new documents and 5 fixtures of add_sheet / add_table (explicit or default "
        "position, 2..300 rows, header counts) / sheet and table renames / name and caption visibility / caption text / header counts / "
        "views / save + layout rewrite (id, members reversed, archives of every member reversed, both, archives rotated) + reopen, with an "
        "add_sheet / add_table forced right after every reopen of a member-reversed container; one "
        "protocol line per history carrying the whole live store (every identifier, every member). Non-trivial = a collection history "
        "containing at least one add, a document-tree history with an add or a reload; distinct by its full operation line")
ASSUMPTIONS = ["str.lower() is computed by the interpreter and passed to the model as data; ('<Prefix> <n>').lower() == '<prefix> <n>'",
               "document tree: protobuf messages are abstracted to the fields the names / order / labels code reads (DocumentArchive.sheets, "
               "SheetArchive.name / drawable_infos, TableInfoArchive parent / tableModel / caption / caption_hidden / position, TableModelArchive "
               "name / name visibility / header counts, caption info -> storage text); protobuf, snappy and zipfile write and read them "
               "faithfully (exercised on every saved package through an independent reader, not proved)",
               "the position a new table gets (create_drawable: table height + binary32 arithmetic) is read back from the real object and passed "
               "to the model as data; positions are opaque binary32 bit patterns",
               "Document.save creates, per table, one merge map and one tile per 256 rows and nothing else in these histories (no style or "
               "format changes); the harness passes that list, computed from the API's num_rows, as a createOthers op",
               "zip directory entries ('Index/') that the library keeps as empty blobs are left out of the model's member list"]
MANIFEST = {
    "text": "Full in memory: add_no_ci_duplicate, auto_name_fresh (fresh, smallest free number, the search loop terminates - "
            "pigeonhole), dup_refused (IndexError, collection unchanged), lookup_by_name_exact, index_agrees_with_iteration + "
            "index_outside_raises (all integer indices) are Lean theorems about a model of ItemsList and the name choice in "
            "add_sheet/_add_table, for every collection and every case-folding function. ItemsList.__getitem__ is additionally TRANSLATED "
            "from containers.py on every run (harness/py2lean.py -> Gen/TrItems.lean), proved equal to the model's getByIndex/getByName "
            "(Lemmas/TrItems.lean) and the lookup clauses are restated over the translated definition (Props.C19.Src.src_*). "
            "Names and order after save/reopen are now theorems about Model/DocTree.lean, a model of the object store (insertion-ordered "
            "map, members with their archives in file order, create_object_from_dict), sheet_ids / sheet_name / table_ids (as repaired: "
            "membership by parent over the store's iteration order, order by a stable sort on the position in the sheet's drawable list) / "
            "table_info_id / table_name / caption and visibility accessors / header counts, _NumbersModel.add_sheet and add_table (every "
            "object created, in code order), serialise (update_object_file_store + members in order) and load (store rebuilt in FILE "
            "order): order_after_reload (for EVERY package that holds exactly the store's objects - archives and members in any order - the "
            "reopened document shows the same sheets in the same order and per sheet the same tables in the same order), "
            "order_after_reload_saved (the saved package and every rearrangement of it), valid_after_history / order_after_reload_history "
            "(the side conditions - distinct identifiers, every table info listed by its parent sheet, table models not shared - are kept "
            "by every history of add_sheet / add_table / renames / caption, visibility and header-count setters / creation of other objects), "
            "add_sheet_appends, add_sheet_succeeds (on every valid document with a document object add_sheet returns a new sheet - for EVERY file "
            "store: members in any order, blobs of any name; createObject_total / createOthers_total: create_object_from_dict raises nothing; "
            "creation_ignores_blobs: the candidate members are those of the store with every non-IWA blob removed), "
            "isolation_table_setter / isolation_sheet_rename. The pinned create_object_from_dict (first member whose name contains the pattern, "
            "also a bytes blob -> AttributeError) is kept as createObjectPinned with a counter-example by decide on the same document with its "
            "members reversed. The pinned table_ids (store order) is kept as "
            "tableIdsPinned with a counter-example by decide and the exact condition under which it keeps the order "
            "(order_after_reload_pinned).",
    "note": "str.lower is supplied by the interpreter as data. Defect found and repaired (fixes/C06-table-order-from-drawable-list.patch): "
            "table order inside a sheet followed the order of the archives inside Index/CalculationEngine.iwa. Defect found and repaired "
            "(fixes/C19-new-objects-go-to-iwa-members.patch, formerly known finding edit-raises-on-reordered-container): add_sheet / every object "
            "creation in 'Document' raised AttributeError on a container that lists Metadata/DocumentIdentifier before Index/Document.iwa (any saved "
            "file with its zip members in reverse order); histories now go on adding sheets and tables right after reopening such a container.",
    "technique": "Lean 4 proof (invariant preservation over operation histories, permutation invariance of a stable sort with injective keys, "
                 "pigeonhole for termination; __getitem__ proved equal to its translation from the Python source) + differential correspondence "
                 "on edit histories incl. the saved package read independently and reopened from rewritten layouts",
}

POOL = ["Sheet 1", "sheet 1", "SHEET 2", "Sheet 2", "Table 1", "table 1", "TABLE 2", "Table 3", "table 3", "Sheet 10", "sheet 02",
        "", " Table 1", "x", "X", "Élan", "élan", "ÉLAN", "Straße", "STRASSE", "straße", "İ", "i̇", "ǅ", "ǆ", "Σ", "ς", "σ", "ΑΣ", "ας",
        "Ⅷ", "ⅷ", "表", "Table\n1", "Data", "DATA", "data ", "Sheet 3", "Table 4", "table 5",
        # canonically equivalent but different strings (composed / decomposed, compatibility code points): distinct names
        "Caf\u00e9", "Cafe\u0301", "\u00c5ngstr\u00f6m", "\u212bngstr\u00f6m", "A\u030angstro\u0308m", "\uac00", "\u1100\u1161"]


class Coll:
    """Python-side record of one collection: protocol line + reference ids."""

    def __init__(self, kind, items_list):
        self.kind = kind  # 'Sheet' or 'Table'
        self.lst = items_list
        objs = [items_list[i] for i in range(len(items_list))]
        self.ids = {id(o): k for k, o in enumerate(objs)}
        self.keep = objs[:]  # keep objects alive so id() stays unique
        self.init = [(o.name, o.name.lower()) for o in objs]
        self.ops: list[str] = []
        self.outs: list[str] = []
        self.adds = 0

    def new_obj(self, o):
        self.ids[id(o)] = len(self.ids)
        self.keep.append(o)

    def names(self):
        return [self.lst[i].name for i in range(len(self.lst))]

    def line(self):
        head = f"items hist {enc_text(self.kind)} {enc_text(self.kind.lower())} {len(self.init)} "
        head += " ".join(f"{enc_text(a)} {enc_text(b)}" for a, b in self.init)
        return (head + " " + " ".join(self.ops)).rstrip()

    def result(self):
        return ";".join(self.outs) + " | " + " ".join(enc_text(n) for n in self.names())


def probe(ctx: Ctx, c: Coll, where):
    """Index / name / membership lookups on the real collection, recorded for the model and checked by the oracle."""
    n = len(c.lst)
    order = [c.lst._items[i] for i in range(n)] if hasattr(c.lst, "_items") else None
    it_order = c.keep and [c.lst[i] for i in range(n)]
    for i in range(-2 * n - 1, 2 * n + 2):
        try:
            o = c.lst[i]
            out = f"ok {c.ids[id(o)]}"
            if not (-n <= i < n) or o is not it_order[i % n]:
                ctx.violation("index-lookup-wrong-item", f"{c.kind.lower()}s[{i}] with {n} items returned item #{it_order.index(o) if o in it_order else '?'} "
                              f"({o.name!r}) instead of " + ("IndexError" if not (-n <= i < n) else f"item #{i % n}"), {**where, "index": i, "n": n})
        except IndexError:
            out = "err IndexError"
            if -n <= i < n:
                ctx.violation("index-lookup-spurious-error", f"{c.kind.lower()}s[{i}] with {n} items raised IndexError", {**where, "index": i, "n": n})
        except Exception as e:  # noqa: BLE001
            out = "err " + exc_name(e)
            ctx.violation("index-lookup-wrong-exception", f"{c.kind.lower()}s[{i}] raised {exc_name(e)}", {**where, "index": i, "n": n})
        c.ops.append(f"I {i}")
        c.outs.append(out)
    names = c.names()
    for nm in set(names) | set(ctx.rng.sample(POOL, 4)):
        try:
            o = c.lst[nm]
            out = f"ok {c.ids[id(o)]}"
            if o.name != nm:
                ctx.violation("name-lookup-wrong-item", f"lookup of {nm!r} returned item named {o.name!r}", {**where, "name": nm})
        except KeyError:
            out = "err KeyError"
            if nm in names:
                ctx.violation("name-lookup-misses", f"lookup of existing name {nm!r} raised KeyError", {**where, "name": nm})
        c.ops.append(f"N {enc_text(nm)}")
        c.outs.append(out)
        c.ops.append(f"C {enc_text(nm.lower())}")
        c.outs.append("ok 1" if nm in c.lst else "ok 0")


def do_add(ctx: Ctx, c: Coll, fn, name, where):
    """fn(name) performs the real add and returns the new object."""
    before = c.names()
    lowers = [b.lower() for b in before]
    try:
        o = fn(name)
        c.new_obj(o)
        c.adds += 1
        new = o.name
        if name is None:
            c.ops.append("U")
            c.outs.append("ok " + enc_text(new))
        else:
            c.ops.append(f"A {enc_text(name)} {enc_text(name.lower())}")
            c.outs.append("ok")
            if new != name:
                ctx.violation("add-name-changed", f"add with name {name!r} created {new!r}", {**where, "name": name})
        if new.lower() in lowers:
            ctx.violation("add-creates-ci-duplicate", f"adding {name!r} to {before!r} created {new!r}, equal to a sibling ignoring case",
                          {**where, "name": name, "siblings": before})
        if c.names() != before + [new]:
            ctx.violation("add-disturbs-order", f"after add names are {c.names()!r}, expected {before + [new]!r}", {**where, "name": name})
    except IndexError:
        c.ops.append("U" if name is None else f"A {enc_text(name)} {enc_text(name.lower())}")
        c.outs.append("err IndexError")
        if name is None or name.lower() not in lowers:
            ctx.violation("add-refused-without-duplicate", f"adding {name!r} to {before!r} raised IndexError", {**where, "name": name, "siblings": before})
        if c.names() != before:
            ctx.violation("refused-add-changed-collection", f"refused add of {name!r} changed names to {c.names()!r}", {**where, "name": name})
    except Exception as e:  # noqa: BLE001
        c.ops.append("U" if name is None else f"A {enc_text(name)} {enc_text(name.lower())}")
        c.outs.append("err " + exc_name(e))
        ctx.violation("add-wrong-exception", f"adding {name!r} raised {exc_name(e)}: {e}", {**where, "name": name})


def auto_name_directed(ctx: Ctx):
    """automatically chosen names where the numbered series is long or has gaps: twelve unnamed adds in a row, and unnamed adds
    next to siblings called '<prefix> 9' / '<prefix> 10' (any case, added or renamed) - every chosen name must be fresh
    (differ from every sibling ignoring case); which free number is chosen is not prescribed."""
    from numbers_parser import Document
    cases = [("twelve unnamed adds", []), ("9 and 10 taken", ["Table 9", "table 10"]), ("10 and 11 by rename", ["x", "y"]),
             ("2 and 20 taken", ["TABLE 2", "Table 20"])]
    for label, given in cases:
        for kind in ("table", "sheet"):
            doc = Document()
            coll = doc.sheets[0].tables if kind == "table" else doc.sheets
            add = (lambda n=None: doc.sheets[0].add_table(n, num_rows=2, num_cols=2) if n else doc.sheets[0].add_table(num_rows=2, num_cols=2)) \
                if kind == "table" else (lambda n=None: doc.add_sheet(n) if n else doc.add_sheet())
            prefix = "Table" if kind == "table" else "Sheet"
            log = []
            try:
                for n in given:
                    add(n.replace("Table", prefix).replace("table", prefix.lower()).replace("TABLE", prefix.upper()))
                if label == "10 and 11 by rename":
                    coll[len(coll) - 2].name = f"{prefix} 10"
                    coll[len(coll) - 1].name = f"{prefix.lower()} 11"
                for _ in range(12 if not given else 4):
                    before = [x.name for x in coll]
                    add()
                    new = coll[len(coll) - 1].name
                    log.append(new)
                    ctx.count("automatically chosen names in long / gapped numbered series: fresh ignoring case", 1)
                    if new.lower() in [b.lower() for b in before]:
                        ctx.violation("add-creates-ci-duplicate", f"unnamed add_{kind} next to {before!r} chose {new!r}, equal to a "
                                      f"sibling ignoring case ({label})", {"directed": label, "kind": kind, "chosen": log})
                        break
            except Exception as e:  # noqa: BLE001
                ctx.violation("add-wrong-exception", f"unnamed add_{kind} ({label}) raised {exc_name(e)}: {e}",
                              {"directed": label, "kind": kind, "chosen": log})
            ctx.mark(("auto-name", label, kind))


def one_history(ctx: Ctx, hid: int, nops: int, save: bool, src):
    from numbers_parser import Document
    rng = ctx.rng
    doc = Document(src) if src else Document()
    where = {"history": hid, "seed": ctx.seed, "source": os.path.basename(src) if src else None}
    sheets = Coll("Sheet", doc.sheets)
    tables = {id(s): Coll("Table", s.tables) for s in sheets.keep}
    log = []
    for _ in range(nops):
        r = rng.random()
        if r < 0.25 and len(sheets.lst) < 7:
            nm = rng.choice(POOL) if rng.random() < 0.7 else None
            tn = rng.choice(["Table 1", rng.choice(POOL)])
            if rng.random() < 0.3:
                sib = rng.choice([x.name for x in sheets.lst])
                nm = rng.choice([sib, sib.upper(), sib.lower(), sib.swapcase()])
            log.append(["add_sheet", nm, tn])

            def f(name, tn=tn):
                doc.add_sheet(name, tn) if name is not None else doc.add_sheet(table_name=tn)
                return doc.sheets[len(doc.sheets) - 1]
            n_before = len(sheets.lst)
            do_add(ctx, sheets, f, nm, {**where, "log": list(log)})
            if len(sheets.lst) > n_before:
                s = sheets.lst[len(sheets.lst) - 1]
                tables[id(s)] = Coll("Table", s.tables)
        elif r < 0.65:
            s = rng.choice(sheets.keep)
            if len(s.tables) >= 7:
                continue
            nm = rng.choice(POOL) if rng.random() < 0.7 else None
            if rng.random() < 0.3 and len(s.tables):
                # aimed at the duplicate test: the name of an existing sibling (which may be the empty string, or a name given
                # by a rename), as it is or in another case
                sib = rng.choice([t.name for t in s.tables])
                nm = rng.choice([sib, sib.upper(), sib.lower(), sib.swapcase()])
            log.append(["add_table", sheets.ids[id(s)], nm])
            do_add(ctx, tables[id(s)], lambda name, s=s: s.add_table(name, num_rows=2, num_cols=2) if name is not None else s.add_table(num_rows=2, num_cols=2),
                   nm, {**where, "log": list(log)})
        elif r < 0.8:
            # rename a sheet or table (no uniqueness check in the library; the property is about adds)
            if rng.random() < 0.4:
                k = rng.randrange(len(sheets.lst))
                nm = rng.choice(POOL)
                sheets.lst[k].name = nm
                sheets.ops.append(f"R {k} {enc_text(nm)} {enc_text(nm.lower())}")
                sheets.outs.append("ok")
                log.append(["rename_sheet", k, nm])
            else:
                s = rng.choice(sheets.keep)
                k = rng.randrange(len(s.tables))
                nm = rng.choice(POOL)
                s.tables[k].name = nm
                tables[id(s)].ops.append(f"R {k} {enc_text(nm)} {enc_text(nm.lower())}")
                tables[id(s)].outs.append("ok")
                log.append(["rename_table", sheets.ids[id(s)], k, nm])
        else:
            c = rng.choice([sheets] + list(tables.values()))
            probe(ctx, c, {**where, "log": list(log)})
    for c in [sheets] + list(tables.values()):
        probe(ctx, c, {**where, "log": list(log)})
    if save:
        expect = [(s.name, [t.name for t in s.tables]) for s in doc.sheets]
        fd, path = tempfile.mkstemp(suffix=".numbers")
        os.close(fd)
        try:
            doc.save(path)
            got = [(s.name, [t.name for t in s.tables]) for s in Document(path).sheets]
        except Exception as e:  # noqa: BLE001
            got = f"{exc_name(e)}: {e}"
        finally:
            os.unlink(path)
        ctx.count("save/reopen: names and order of sheets and tables", 1)
        if got != expect:
            ctx.violation("names-or-order-change-on-reload", f"before save {expect!r}, after reopen {got!r}", {**where, "log": log})
    return [sheets] + list(tables.values())


def _worker(task):
    import warnings
    warnings.simplefilter("ignore")
    seed, h, src = task
    sub = Ctx(PID, "quick", seed * 1_000_003 + h)
    sub.seed = seed
    colls = one_history(sub, h, sub.rng.randrange(4, 16), save=(h % 4 == 0), src=src)
    lines = [(c.line(), c.result()) for c in colls]
    if h < 2:
        for c in colls[:2]:
            sub.sample({"collection": c.kind, "initial": c.init, "ops": c.ops[:12], "outcomes": c.outs[:12]})
    return common.sub_result(sub, lines)


def run(ctx: Ctx):
    import warnings
    warnings.simplefilter("ignore")
    auto_name_directed(ctx)
    n_hist = 400 if ctx.quick else 6000
    srcs = [None, None, None, str(REPO / "tests/data/test-1.numbers"), str(REPO / "tests/data/test-formulas.numbers")]
    tasks = []
    for h in range(n_hist):
        src = srcs[h % len(srcs)]
        tasks.append((ctx.seed, h, src if src and os.path.exists(src) else None))
    req, out = [], []
    for lines in common.run_parallel(ctx, _worker, tasks):
        for a, b in lines:
            req.append(a)
            out.append(b)
    ctx.correspond("collection histories (one line per sheets/tables collection)", req, out, keep=0,
                   nontrivial=lambda r, o: " A " in r or " U" in r)
    # every index on small fixed collections, exhaustively
    from numbers_parser import Document
    req, out = [], []
    for n_extra in range(0, 6):
        doc = Document()
        for _ in range(n_extra):
            doc.add_sheet()
        c = Coll("Sheet", doc.sheets)
        probe(ctx, c, {"history": f"fixed-{n_extra}", "seed": ctx.seed, "log": [["add_sheet", None, "Table 1"]] * n_extra})
        req.append(c.line())
        out.append(c.result())
    ctx.correspond("all indices in [-2n-1, 2n+1] for n = 1..6 sheets", req, out, exhaustive=True, keep=1)
    getitem_stream(ctx)
    doctree_stream(ctx)


def getitem_stream(ctx: Ctx):
    """ItemsList.__getitem__ on bare collections (every list of <= 3 names over a 3-name pool x every int key in
    [-2n-2, 2n+2], every pool name, bools, None, a float) vs the definition translated from the source."""
    import itertools
    import types
    from numbers_parser.containers import ItemsList
    pool = ["a", "b", "A"]
    req, out = [], []
    for n in range(0, 4):
        for names in itertools.product(pool, repeat=n):
            il = ItemsList.__new__(ItemsList)
            il._item_name = "item"
            il._items = [types.SimpleNamespace(name=nm, idx=i) for i, nm in enumerate(names)]
            keys = [("i", k) for k in range(-2 * n - 2, 2 * n + 3)] + [("s", k) for k in pool + ["", "ab"]] + \
                   [("b", True), ("b", False), ("o", None), ("o", 1.5)]
            for kind, k in keys:
                word = f"s {enc_text(k)}" if kind == "s" else "o" if kind == "o" else f"i {int(k)}"
                req.append(f"items getitem {n} " + "".join(enc_text(x) + " " for x in names) + word)
                try:
                    got = il[k]
                    out.append(f"ok {got.idx}")
                    if kind == "s" and got.name != k:
                        ctx.violation("name-lookup-wrong-item", f"{list(names)}[{k!r}] returned item named {got.name!r}",
                                      {"names": list(names), "key": k})
                    if kind in "ib" and got is not list(il._items)[int(k) % n]:
                        ctx.violation("index-lookup-wrong-item", f"{list(names)}[{k!r}] returned item {got.idx}",
                                      {"names": list(names), "key": int(k)})
                except Exception as e:  # noqa: BLE001
                    out.append("err " + exc_name(e))
                    if kind in "ib" and -n <= int(k) < n:
                        ctx.violation("index-in-range-raises", f"{list(names)}[{k!r}] raised {exc_name(e)}",
                                      {"names": list(names), "key": int(k)})
                    if not isinstance(e, LookupError):
                        ctx.violation("lookup-raises-foreign-exception", f"{list(names)}[{k!r}] raised {exc_name(e)}",
                                      {"names": list(names), "key": repr(k)})
    # the model driver has no such op: this stream is only for the translated-source definitions
    sub = ctx.subspaces.setdefault("ItemsList.__getitem__ on bare collections vs the definition translated from the source",
                                   {"cases": 0, "exhaustive": True, "disagreements": 0})
    sub["cases"] += len(req)
    ctx.evaluations += len(req)
    if ctx.translated_available:
        tr = common.run_model(req, driver=common.TRDRIVER)
        sub["translated_source_cases"] = len(req)
        for r, a, b in zip(req, out, tr):
            if a != b:
                sub["disagreements"] += 1
                if len(ctx.disagreements) < 50:
                    ctx.disagreements.append({"subspace": "ItemsList.__getitem__ [definitions translated from the source]",
                                              "request": r, "impl": a, "model": b})
    else:
        sub["skipped_model"] = True


# ---------------------------------------------------------------------------------------------------------------
# the document tree: sheet / table references, names, labels — in memory, in the saved package, after reopening it
# from any file order (Model/DocTree.lean)
# ---------------------------------------------------------------------------------------------------------------
DT_SOURCES = [None, None, None, "test-1.numbers", "test-7.numbers", "issue-77.numbers", "create-formulas.numbers", "test-bgcolour.numbers"]
DT_NAMES = ["Alpha", "beta", "Γ", "Data 2", "x", "Sheet 9", "Table 9", "Élan", "名前", "a b", "Z-1", "Q", "R2", "s3", "T4", "u5", "V6",
            "w7", "X8", "y9"]
DT_CAPTIONS = ["", "A caption", "Caption", "zwei\nZeilen", "é", "x" * 40]


def _dt_target_diff(before, after):
    """positions (sheet index, table index or None) at which two plain views differ; None when the shapes differ"""
    if len(before) != len(after):
        return None
    out = []
    for i, (a, b) in enumerate(zip(before, after)):
        if a[0] != b[0]:
            out.append((i, None))
        if len(a[1]) != len(b[1]):
            return None
        for j, (x, y) in enumerate(zip(a[1], b[1])):
            if x != y:
                out.append((i, j))
    return out


def doctree_history(ctx: Ctx, hid: int, src, nops: int, foreign: bool = False):
    import doctree
    import layouts
    from numbers_parser import Document
    rng = ctx.rng
    path = str(REPO / "tests/data" / src) if src else None
    doc = Document(path) if path else Document(num_rows=rng.choice([3, 12]), num_cols=rng.choice([2, 8]))
    twin = Document(path) if path else Document()
    twin_view = doctree.plain_view(twin)
    where = {"history": hid, "seed": ctx.seed, "source": src, "stream": "doctree"}
    log: list = [] if path else [["new", doc.sheets[0].tables[0].num_rows, doc.sheets[0].tables[0].num_cols]]
    facts0 = doctree.store_facts(doc)
    if facts0:
        ctx.notes.append(f"{src}: side condition of the reload theorems does not hold for the document as loaded: {facts0[:2]}")
    init = doctree.snapshot(doc)
    ops, outs = [], []
    used = {s.name.lower() for s in doc.sheets} | {t.name.lower() for s in doc.sheets for t in s.tables}
    tmp = tempfile.mkdtemp(prefix="c19dt")
    nfile = 0
    dead = False

    def fresh():
        for _ in range(50):
            nm = rng.choice(DT_NAMES) + rng.choice(["", "", " 2", "'", "ß"])
            if nm.lower() not in used:
                used.add(nm.lower())
                return nm
        nm = f"n{len(used)}"
        used.add(nm)
        return nm

    def expect_only(before, targets, what):
        after = doctree.plain_view(doc)
        d = _dt_target_diff(before, after)
        if d is None or any(x not in targets for x in d):
            ctx.violation("edit-leaks-to-sibling", f"{what}: changed {d!r}, expected only {sorted(targets)!r}; before {before!r} after {after!r}",
                          {**where, "log": list(log)})

    try:
        total = nops + (1 if foreign else 0)
        force_add = False   # the container just reopened lists its members in reverse: the next step creates objects in it
        step_no = -1
        while step_no + 1 < total:
            step_no += 1
            if dead:
                break
            r = rng.random() if step_no < nops else 0.99
            before = doctree.plain_view(doc)
            ns = len(doc.sheets)
            if force_add:
                force_add = False
                r = 0.05 if ns < 5 and rng.random() < 0.6 else 0.2
                ctx.count("add_sheet / add_table right after reopening a container with its members reversed", 1)
            if r < 0.12 and ns < 5:
                nm, tn = fresh(), fresh()
                rows, cols = rng.choice([2, 5, 300]), rng.choice([2, 3])
                prev = doc.sheets[-1].tables[0]._table_id
                log.append(["add_sheet", nm, tn, rows, cols])
                try:
                    doc.add_sheet(nm, tn, num_rows=rows, num_cols=cols)
                    s = doc.sheets[-1]
                    ops += [f"AS {enc_text(nm)}", f"AT {s._sheet_id} {enc_text(tn)} {prev} 0 0 {rows} 1 1"]
                    outs += [f"ok {s._sheet_id}", f"ok {s.tables[0]._table_id}"]
                    after = doctree.plain_view(doc)
                    if after[:ns] != before or len(after) != ns + 1 or after[ns][0] != nm or [t[0] for t in after[ns][1]] != [tn]:
                        ctx.violation("add-disturbs-order", f"add_sheet({nm!r}, {tn!r}): before {before!r} after {after!r}", {**where, "log": list(log)})
                except Exception as e:  # noqa: BLE001
                    ops.append(f"AS {enc_text(nm)}")
                    outs.append("err " + exc_name(e))
                    dead = True
                    ctx.violation("edit-raises-on-reordered-container" if isinstance(e, AttributeError) else "add-wrong-exception",
                                  f"add_sheet({nm!r}) raised {exc_name(e)}: {e}", {**where, "log": list(log)})
            elif r < 0.34:
                si = rng.randrange(ns)
                s = doc.sheets[si]
                if len(s.tables) >= 5:
                    continue
                nm = fresh()
                rows, cols = rng.choice([2, 4, 257]), rng.choice([2, 3])
                hr, hc = rng.randrange(0, 3), rng.randrange(0, 3)
                xy = (None, None) if rng.random() < 0.5 else (rng.randrange(0, 2000) / 4, rng.randrange(0, 4000) / 4)
                frm = s.tables[-1]._table_id
                nt = len(s.tables)
                log.append(["add_table", si, nm, xy[0], xy[1], rows, cols, hr, hc])
                try:
                    t = s.add_table(nm, xy[0], xy[1], rows, cols, hr, hc)
                    x, y = t.coordinates
                    ops.append(f"AT {s._sheet_id} {enc_text(nm)} {frm} {doctree.f32bits(x)} {doctree.f32bits(y)} {rows} {hr} {hc}")
                    outs.append(f"ok {t._table_id}")
                    after = doctree.plain_view(doc)
                    ok = len(after) == ns and all(after[i] == before[i] for i in range(ns) if i != si) and \
                        after[si][0] == before[si][0] and after[si][1][:nt] == before[si][1] and len(after[si][1]) == nt + 1 and \
                        after[si][1][nt][0] == nm
                    if not ok:
                        ctx.violation("add-disturbs-order", f"add_table({nm!r}) on sheet #{si}: before {before!r} after {after!r}", {**where, "log": list(log)})
                except Exception as e:  # noqa: BLE001
                    dead = True
                    ops.append(f"AT {s._sheet_id} {enc_text(nm)} {frm} 0 0 {rows} {hr} {hc}")
                    outs.append("err " + exc_name(e))
                    ctx.violation("edit-raises-on-reordered-container" if isinstance(e, AttributeError) else "add-wrong-exception",
                                  f"add_table({nm!r}) raised {exc_name(e)}: {e}", {**where, "log": list(log)})
            elif r < 0.44:
                si = rng.randrange(ns)
                nm = fresh()
                log.append(["rename_sheet", si, nm])
                doc.sheets[si].name = nm
                ops.append(f"SN {doc.sheets[si]._sheet_id} {enc_text(nm)}")
                outs.append("ok")
                expect_only(before, {(si, None)}, f"sheets[{si}].name = {nm!r}")
            elif r < 0.8:
                si = rng.randrange(ns)
                s = doc.sheets[si]
                ti = rng.randrange(len(s.tables))
                t = s.tables[ti]
                kind = rng.choice(["name", "name_enabled", "caption_enabled", "caption", "hdr_rows", "hdr_cols"])
                tid = t._table_id
                if kind == "name":
                    v = fresh()
                    log.append(["table", si, ti, kind, v])
                    t.name = v
                    ops.append(f"TN {tid} {enc_text(v)}")
                elif kind == "name_enabled":
                    v = rng.random() < 0.5
                    log.append(["table", si, ti, kind, v])
                    t.table_name_enabled = v
                    ops.append(f"NE {tid} {int(v)}")
                elif kind == "caption_enabled":
                    v = rng.random() < 0.5
                    log.append(["table", si, ti, kind, v])
                    t.caption_enabled = v
                    ops.append(f"CE {tid} {int(v)}")
                elif kind == "caption":
                    v = rng.choice(DT_CAPTIONS)
                    log.append(["table", si, ti, kind, v])
                    try:
                        t.caption = v
                    except (IndexError, StopIteration) as e:
                        # C16 known finding `caption-setter-raises` (documents without the objects a new caption needs)
                        ctx.count(f"caption setter raised {exc_name(e)} (C16 known finding caption-setter-raises): history ended", 1)
                        dead = True
                        continue
                    ops.append(f"CT {tid} {enc_text(v)}")
                elif kind == "hdr_rows":
                    v = rng.randrange(0, min(t.num_rows, 5) + 1)
                    log.append(["table", si, ti, kind, v])
                    t.num_header_rows = v
                    ops.append(f"HR {tid} {v}")
                else:
                    v = rng.randrange(0, min(t.num_cols, 5) + 1)
                    log.append(["table", si, ti, kind, v])
                    t.num_header_cols = v
                    ops.append(f"HC {tid} {v}")
                outs.append("ok")
                expect_only(before, {(si, ti)}, f"sheets[{si}].tables[{ti}].{kind} = {v!r}")
                got = doctree.plain_view(doc)[si][1][ti]
                idx = {"name": 0, "name_enabled": 1, "caption": 3, "hdr_rows": 4, "hdr_cols": 5}.get(kind)
                if idx is not None and got[idx] != v:
                    ctx.violation("setter-not-seen-by-getter", f"sheets[{si}].tables[{ti}].{kind} = {v!r} then reads {got[idx]!r}", {**where, "log": list(log)})
            elif r < 0.88:
                ops.append("Q")
                outs.append(doctree.api_view(doc))
            else:
                mode = rng.choice(doctree.MODES if step_no < nops else ("reva", "rota", "both"))
                log.append(["save_reopen", mode])
                # what Document.save creates: per table (sheet by sheet) a merge map, then one tile per 256 rows
                created = []
                for s in doc.sheets:
                    for t in s.tables:
                        created += ["CalculationEngine"] + ["Index/Tables/Tile-{}"] * (((t.num_rows - 1) >> 8) + 1)
                nfile += 1
                p1, p2 = os.path.join(tmp, f"a{nfile}.numbers"), os.path.join(tmp, f"b{nfile}.numbers")
                doc.save(p1)
                pkg = layouts.Package.load(p1)
                ops += [f"CO {len(created)} " + " ".join(enc_text(c) for c in created), "Q", "SV", f"LD {mode}", "Q"]
                outs += ["ok", doctree.api_view(doc), "ok " + doctree.package_view(pkg), "ok"]
                doctree.rewrite(pkg, mode).write_zip(p2)
                doc = Document(p2)
                outs.append(doctree.api_view(doc))
                after = doctree.plain_view(doc)
                if mode in ("revm", "both"):
                    # the reopened container lists Metadata/DocumentIdentifier before Index/Document.iwa (and the other members in
                    # reverse): object creation must go on working there (fixes/C19-new-objects-go-to-iwa-members.patch)
                    force_add = True
                    if step_no + 1 >= total:
                        total += 1
                if not facts0 and doctree.store_facts(doc):
                    ctx.violation("store-side-condition-lost", f"after reopening: {doctree.store_facts(doc)[:3]}", {**where, "log": list(log)})
                ctx.count(f"save / rewrite ({mode}) / reopen: names, order and labels", 1)
                if [(a[0], [t[0] for t in a[1]]) for a in after] != [(a[0], [t[0] for t in a[1]]) for a in before]:
                    ctx.violation("names-or-order-change-on-reload" if mode == "id" else "names-or-order-depend-on-file-order",
                                  f"layout {mode}: before save {[(a[0], [t[0] for t in a[1]]) for a in before]!r}, after reopen "
                                  f"{[(a[0], [t[0] for t in a[1]]) for a in after]!r}", {**where, "log": list(log)})
                elif after != before:
                    ctx.violation("label-changes-on-reload", f"layout {mode}: before save {before!r}, after reopen {after!r}", {**where, "log": list(log)})
                os.unlink(p1)
                os.unlink(p2)
        if not dead:
            ops.append("Q")
            outs.append(doctree.api_view(doc))
            facts = doctree.store_facts(doc)
            if facts and not facts0:
                ctx.violation("store-side-condition-lost", f"after the history: {facts[:3]}", {**where, "log": list(log)})
        if doctree.plain_view(twin) != twin_view:
            ctx.violation("edit-leaks-to-other-document", f"a second document opened from the same source changed: {twin_view!r} -> {doctree.plain_view(twin)!r}",
                          {**where, "log": list(log)})
    finally:
        import shutil
        shutil.rmtree(tmp, ignore_errors=True)
    return "doctree hist " + init + " " + " ".join(ops), ";".join(outs), log


def _dt_worker(task):
    import warnings
    warnings.simplefilter("ignore")
    seed, h, src, foreign = task
    sub = Ctx(PID, "quick", seed * 1_000_003 + 77_777 + h)
    sub.seed = seed
    line, out, log = doctree_history(sub, h, src, sub.rng.randrange(4, 14), foreign)
    if h < 2:
        sub.sample({"stream": "doctree", "source": src, "log": log[:10]})
    return common.sub_result(sub, (line, out, " AT " in line or " AS " in line or " LD " in line))


def doctree_stream(ctx: Ctx, n_hist: int | None = None, foreign: bool = False):
    """foreign=True: called from another property's check (C16 labels, C06 table order): a smaller volume, every history ends
    with a save + non-trivial layout rewrite + reopen (and, when the members were reversed, one add_sheet / add_table in the
    reopened container)."""
    if n_hist is None:
        n_hist = 96 if ctx.quick else 2400
    tasks = []
    for h in range(n_hist):
        src = DT_SOURCES[h % len(DT_SOURCES)]
        if src and not (REPO / "tests/data" / src).exists():
            src = None
        tasks.append((ctx.seed, h, src, foreign))
    req, out, nt = [], [], {}
    for line, o, nontriv in common.run_parallel(ctx, _dt_worker, tasks):
        req.append(line)
        out.append(o)
        nt[line] = nontriv
    ctx.correspond("document-tree histories: ids, names, order, labels in memory; the saved package member by member; after reopening "
                   "a rewritten layout", req, out, keep=0, describe=lambda r: r[:200], nontrivial=lambda r, o: nt.get(r, False))


def replay(data):
    from numbers_parser import Document
    i = data["input"]
    if i.get("stream") == "doctree":
        return replay_doctree(i)
    src = i.get("source")
    doc = Document(str(REPO / "tests/data" / src)) if src else Document()
    res = []
    for op in i.get("log", []):
        try:
            if op[0] == "add_sheet":
                doc.add_sheet(op[1], op[2]) if op[1] is not None else doc.add_sheet(table_name=op[2])
            elif op[0] == "add_table":
                s = doc.sheets[op[1]]
                s.add_table(op[2], num_rows=2, num_cols=2) if op[2] is not None else s.add_table(num_rows=2, num_cols=2)
            elif op[0] == "rename_sheet":
                doc.sheets[op[1]].name = op[2]
            elif op[0] == "rename_table":
                doc.sheets[op[1]].tables[op[2]].name = op[3]
            res.append([op, "ok"])
        except Exception as e:  # noqa: BLE001
            res.append([op, exc_name(e)])
    state = [(s.name, [t.name for t in s.tables]) for s in doc.sheets]
    extra = {}
    if "index" in i:
        try:
            extra["sheets[index]"] = doc.sheets[i["index"]].name
        except Exception as e:  # noqa: BLE001
            extra["sheets[index]"] = exc_name(e)
    return {"ops": res, "final": state, **extra}


def replay_doctree(i):
    """re-run one document-tree history on the real code; returns the view after every step"""
    import doctree
    import layouts
    from numbers_parser import Document
    src = i.get("source")
    doc = None
    res = []
    tmp = tempfile.mkdtemp(prefix="c19rp")
    try:
        log = list(i.get("log", []))
        if log and log[0][0] == "new":
            doc = Document(num_rows=log[0][1], num_cols=log[0][2])
            log = log[1:]
        else:
            doc = Document(str(REPO / "tests/data" / src)) if src else Document()
        for k, op in enumerate(log):
            try:
                if op[0] == "add_sheet":
                    doc.add_sheet(op[1], op[2], num_rows=op[3], num_cols=op[4])
                elif op[0] == "add_table":
                    doc.sheets[op[1]].add_table(op[2], op[3], op[4], op[5], op[6], op[7], op[8])
                elif op[0] == "rename_sheet":
                    doc.sheets[op[1]].name = op[2]
                elif op[0] == "table":
                    t = doc.sheets[op[1]].tables[op[2]]
                    attr = {"name": "name", "name_enabled": "table_name_enabled", "caption_enabled": "caption_enabled", "caption": "caption",
                            "hdr_rows": "num_header_rows", "hdr_cols": "num_header_cols"}[op[3]]
                    setattr(t, attr, op[4])
                elif op[0] == "save_reopen":
                    p1, p2 = os.path.join(tmp, f"a{k}.numbers"), os.path.join(tmp, f"b{k}.numbers")
                    doc.save(p1)
                    doctree.rewrite(layouts.Package.load(p1), op[1]).write_zip(p2)
                    doc = Document(p2)
                res.append([op, "ok", [(s.name, [t.name for t in s.tables]) for s in doc.sheets]])
            except Exception as e:  # noqa: BLE001
                res.append([op, exc_name(e) + ": " + str(e)])
                break
    finally:
        import shutil
        shutil.rmtree(tmp, ignore_errors=True)
    return {"steps": res, "final": repr(doctree.plain_view(doc)) if doc is not None else None}
