#!/bin/bash
# integrate.sh <scratch verif dir>: copy files that are new in a builder's scratch copy into /verif; show Driver.lean arms to merge
src=$1
cd $src || exit 1
git status --short | grep '^??' | awk '{print $2}' | grep -v "^evidence/\|^replays/\|__pycache__\|^known_findings.json" | while read f; do
  mkdir -p /verif/$(dirname $f); cp -r $src/$f /verif/$(dirname $f)/ ; echo "copied $f"
done
echo "--- Driver.lean diff"; git diff lean/Driver.lean | grep '^[+-]' | grep -v '^+++\|^---'
echo "--- other modified tracked files"; git status --short | grep '^ M' | grep -v "MANIFEST.json\|evidence/\|lean/Driver.lean"
