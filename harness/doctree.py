"""The document tree (C19 / C16 / C06 / C03): protocol encoding of a live object store, an independent reading of a saved
package, and layout rewrites that reorder members and the archives inside members.

Model side: lean/NumbersModel/Model/DocTree.lean, driver arm `doctree hist …` (Drv/DocTree.lean).
Nothing here imports the Lean model; the saved package is read with harness/layouts.Package (own zip / folder walk,
archives parsed member by member), not through `Document`.
"""
from __future__ import annotations

import struct

import common  # noqa: F401
from common import enc_text

import layouts

MODES = ("id", "revm", "reva", "both", "rota")


def f32bits(v: float) -> int:
    return struct.unpack("<I", struct.pack("<f", v))[0]


def enc_obj(o) -> str:
    """A stored message reduced to the fields the names / order / labels code reads (same alphabet as Drv/DocTree.lean)."""
    t = type(o).__name__
    if t == "DocumentArchive":
        ids = [r.identifier for r in o.sheets]
        return " ".join(["D", str(len(ids))] + [str(i) for i in ids])
    if t == "SheetArchive":
        ids = [r.identifier for r in o.drawable_infos]
        return " ".join(["S", enc_text(o.name), str(len(ids))] + [str(i) for i in ids])
    if t == "TableInfoArchive":
        s = o.super
        return (f"I {s.parent.identifier} {o.tableModel.identifier} {s.caption.identifier} {int(s.caption_hidden)} "
                f"{f32bits(s.geometry.position.x)} {f32bits(s.geometry.position.y)}")
    if t == "TableModelArchive":
        return f"M {enc_text(o.table_name)} {int(o.table_name_enabled)} {o.number_of_header_rows} {o.number_of_header_columns}"
    if t == "StandinCaptionArchive":
        return "Z"
    if t == "CaptionInfoArchive":
        return f"C {o.super.owned_storage.identifier}"
    if t == "StorageArchive":
        ts = list(o.text)
        return " ".join(["T", str(len(ts))] + [enc_text(x) for x in ts])
    return "O"


def snapshot(doc) -> str:
    """`<maxId> <files> <objects>` of the live store, in `_file_store` / `_objects` iteration order."""
    from numbers_parser.iwafile import IWAFile
    st = doc._model.objects
    # directory entries of the zip ("Index/") are kept by the library as empty blobs; no pattern of the code matches them
    entries = [(n, b) for n, b in st._file_store.items() if not n.endswith("/")]
    w = [str(st._max_id), str(len(entries))]
    for name, blob in entries:
        if isinstance(blob, IWAFile):
            ids = [a.header.identifier for a in blob.chunks[0].archives]
            w += [enc_text(name), "I", str(len(ids))] + [str(i) for i in ids]
        else:
            w += [enc_text(name), "B"]
    w.append(str(len(st._objects)))
    for i, o in st._objects.items():
        w += [str(i), enc_obj(o)]
    return " ".join(w)


def package_view(pkg: layouts.Package) -> str:
    """What the saved package holds, member by member in container order: the identifiers of the archives in file order,
    with the fields of the tracked ones (format of Drv.showPackage)."""
    pp = pkg.parsed()
    out = []
    for name, _ in pkg.members:
        if name in pp.files:
            ws = []
            for a in pp.files[name].chunks[0].archives:
                e = enc_obj(a.objects[0])
                ws.append(str(a.header.identifier) if e == "O" else f"{a.header.identifier}[{e.replace(' ', '_')}]")
            out.append(enc_text(name) + "=" + ",".join(ws))
        else:
            out.append(enc_text(name) + "=B")
    return " ".join(out)


def rewrite(pkg: layouts.Package, mode: str) -> layouts.Package:
    """The same archives in another file order: members reversed (`revm`), the archives of every member reversed (`reva`),
    both, or every member's archives rotated by one (`rota`)."""
    if mode == "id":
        return pkg
    members = list(pkg.members)
    if mode in ("reva", "both", "rota"):
        pp = pkg.parsed()
        for f in pp.files.values():
            ar = f.chunks[0].archives
            if mode == "rota":
                if ar:
                    ar.append(ar.pop(0))
            else:
                ar.reverse()
        members = list(pp.build().members)
    if mode in ("revm", "both"):
        members.reverse()
    return layouts.Package(members, pkg.was_folder)


def api_view(doc) -> str:
    """names + labels as the public API shows them (format of the driver's `Q` reply)."""
    names, labels = [], []
    for s in doc.sheets:
        names.append(enc_text(s.name) + ":" + "+".join(enc_text(t.name) for t in s.tables))
        ls = []
        for t in s.tables:
            x, y = t.coordinates
            ls.append("~".join([enc_text(t.name), str(int(t.table_name_enabled)), str(int(t.caption_enabled)), enc_text(t.caption),
                                str(t.num_header_rows), str(t.num_header_cols), str(f32bits(x)), str(f32bits(y))]))
        labels.append("+".join(ls))
    return "ok " + "/".join(names) + " " + "/".join(labels)


def plain_view(doc):
    """the same observables as plain Python data, for the oracle"""
    return [(s.name, [(t.name, bool(t.table_name_enabled), bool(t.caption_enabled), t.caption, t.num_header_rows,
                       t.num_header_cols, t.coordinates) for t in s.tables]) for s in doc.sheets]


def store_facts(doc) -> list[str]:
    """Side conditions of the theorems (`Valid` of Lemmas/DocTree.lean) checked on a live store: identifiers are keys of a
    dict (distinct by construction); every table info is listed by the sheet that is its parent; no two table infos share a
    table model. Returns the violated ones."""
    st = doc._model.objects._objects
    bad = []
    infos = [(i, o) for i, o in st.items() if type(o).__name__ == "TableInfoArchive"]
    seen = {}
    for i, o in infos:
        p = o.super.parent.identifier
        sh = st.get(p)
        if type(sh).__name__ != "SheetArchive":
            bad.append(f"table info {i}: parent {p} is not a sheet")
        elif i not in [r.identifier for r in sh.drawable_infos]:
            bad.append(f"table info {i} is not in the drawable list of sheet {p}")
        tm = o.tableModel.identifier
        if tm in seen:
            bad.append(f"table infos {seen[tm]} and {i} share table model {tm}")
        seen[tm] = i
    return bad
