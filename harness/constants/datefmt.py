"""Generated tables for C14: the live DATETIME_FIELD_MAP (names, strftime codes) and str.isalpha()."""
from __future__ import annotations


def _lean_str(s: str) -> str:
    return '"' + s.replace("\\", "\\\\").replace('"', '\\"') + '"'


def alpha_ranges() -> list[tuple[int, int]]:
    out, start, prev = [], None, None
    for i in range(0x110000):
        if 0xD800 <= i <= 0xDFFF:
            a = False
        else:
            a = chr(i).isalpha()
        if a:
            if start is None:
                start = i
            prev = i
        elif start is not None:
            out.append((start, prev))
            start = None
    if start is not None:
        out.append((start, prev))
    return out


def generate() -> list[str]:
    from numbers_parser.constants import DATETIME_FIELD_MAP

    L = []
    names = list(DATETIME_FIELD_MAP.keys())
    L.append("/-- keys of DATETIME_FIELD_MAP, in source order -/")
    L.append("def datetimeFieldNames : List String := [" + ", ".join(_lean_str(n) for n in names) + "]")
    L.append("/-- strftime code of each non-callable entry (`λ` marks a Python lambda) -/")
    L.append("def datetimeFieldCodes : List (String × String) := ["
             + ", ".join(f"({_lean_str(k)}, {_lean_str('λ' if callable(v) else v)})" for k, v in DATETIME_FIELD_MAP.items())
             + "]")
    rs = alpha_ranges()
    L.append(f"/-- code-point ranges (inclusive) for which `str.isalpha()` holds in this interpreter ({len(rs)} ranges) -/")
    L.append("def alphaRanges : List (Nat × Nat) := [" + ", ".join(f"({a}, {b})" for a, b in rs) + "]")
    return L
