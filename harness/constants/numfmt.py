"""Generated tables for C13: currencies.py (codes, symbols) and the number-format constants."""
from __future__ import annotations


def _lean_str(s: str) -> str:
    out = []
    for ch in s:
        if ch == '"':
            out.append('\\"')
        elif ch == "\\":
            out.append("\\\\")
        elif ord(ch) < 32 or ord(ch) == 127:
            out.append("\\x%02x" % ord(ch))
        else:
            out.append(ch)
    return '"' + "".join(out) + '"'


def generate() -> list[str]:
    from numbers_parser import cell as K
    from numbers_parser import constants as C
    from numbers_parser.currencies import CURRENCIES, CURRENCY_SYMBOLS

    L = []
    L.append(f"/-- currencies.py: CURRENCIES ({len(CURRENCIES)} codes) -/")
    L.append("def currencies : List String := [" + ", ".join(_lean_str(c) for c in CURRENCIES) + "]")
    L.append("/-- currencies.py: CURRENCY_SYMBOLS -/")
    L.append("def currencySymbols : List (String × String) := ["
             + ", ".join(f"({_lean_str(k)}, {_lean_str(v)})" for k, v in CURRENCY_SYMBOLS.items()) + "]")
    L.append(f"def DECIMAL_PLACES_AUTO : Nat := {C.DECIMAL_PLACES_AUTO}")
    L.append(f"def intToBaseChar : List String := [" + ", ".join(_lean_str(c) for c in K.INT_TO_BASE_CHAR) + "]")
    L.append(f"def starRatingValue : String := {_lean_str(C.STAR_RATING_VALUE)}")
    fa = C.FractionAccuracy
    L.append("/-- FractionAccuracy enum values -/")
    L.append("def fractionAccuracies : List (String × Nat) := ["
             + ", ".join(f"({_lean_str(m.name)}, {int(m.value)})" for m in fa) + "]")
    L.append("/-- constants.FormatType (dispatch of Cell._custom_format) -/")
    L.append("def formatTypes : List (String × Nat) := ["
             + ", ".join(f"({_lean_str(m.name)}, {int(m.value)})" for m in C.FormatType) + "]")
    L.append(f"def customTextPlaceholder : Nat := {ord(C.CUSTOM_TEXT_PLACEHOLDER)}")
    L.append("/-- constants.PaddingType / CellPadding -/")
    L.append("def paddingTypes : List (String × Nat) := ["
             + ", ".join(f"({_lean_str(m.name)}, {int(m.value)})" for m in C.PaddingType) + "]")
    return L
