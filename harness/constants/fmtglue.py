"""Generated tables for the format-selection glue (C13 / C14, Model/FormatDispatch.lean): the enums and dispatch
tables of constants.py and the defaults of the `Formatting` dataclass, read from the live modules."""
from __future__ import annotations

import dataclasses
from decimal import Decimal


def _lean_str(s: str) -> str:
    out = []
    for ch in s:
        if ch == '"':
            out.append('\\"')
        elif ch == "\\":
            out.append("\\\\")
        elif ord(ch) < 32 or ord(ch) == 127:
            out.append("\\x%02x" % ord(ch))
        else:
            out.append(ch)
    return '"' + "".join(out) + '"'


def _enum(name: str, enum) -> str:
    return (f"def {name} : List (String × Nat) := ["
            + ", ".join(f"({_lean_str(m.name)}, {int(m.value)})" for m in enum) + "]")


def _strs(xs) -> str:
    return "[" + ", ".join(_lean_str(x) for x in xs) + "]"


def _dec(x) -> str:
    """a float / int default as the exact decimal of its repr: (negative, mantissa, exponent)"""
    d = Decimal(repr(x)) if isinstance(x, float) else Decimal(x)
    s, digits, e = d.as_tuple()
    m = int("".join(map(str, digits))) if digits else 0
    return f"({'true' if s else 'false'}, {m}, ({e} : Int))"


def generate() -> list[str]:
    from numbers_parser import cell as K
    from numbers_parser import constants as C

    L = []
    L.append("/-- constants.FormattingType / ControlFormattingType / CellInteractionType / NegativeNumberStyle / CellType -/")
    L.append(_enum("formattingTypes", C.FormattingType))
    L.append(_enum("controlFormattingTypes", C.ControlFormattingType))
    L.append(_enum("cellInteractionTypes", C.CellInteractionType))
    L.append(_enum("negativeNumberStyles", C.NegativeNumberStyle))
    L.append(_enum("cellTypes", C.CellType))
    L.append(_enum("customFormattingTypes", C.CustomFormattingType))
    L.append("/-- constants.FORMATTING_ALLOWED_CELLS (format name -> cell class names), FORMATTING_ACTION_CELLS -/")
    L.append("def formattingAllowedCells : List (String × List String) := ["
             + ", ".join(f"({_lean_str(k)}, {_strs(v)})" for k, v in C.FORMATTING_ALLOWED_CELLS.items()) + "]")
    L.append(f"def formattingActionCells : List String := {_strs(C.FORMATTING_ACTION_CELLS)}")
    L.append("/-- constants.ALLOWED_FORMATTING_PARAMETERS and FORMAT_TYPE_MAP, keyed by the integer value of the FormattingType -/")
    L.append("def allowedFormattingParameters : List (Nat × List String) := ["
             + ", ".join(f"({int(k)}, {_strs(v)})" for k, v in C.ALLOWED_FORMATTING_PARAMETERS.items()) + "]")
    L.append("def formatTypeMap : List (Nat × Nat) := ["
             + ", ".join(f"({int(k)}, {int(v)})" for k, v in C.FORMAT_TYPE_MAP.items()) + "]")
    L.append("def customFormatTypeMap : List (Nat × Nat) := ["
             + ", ".join(f"({int(k)}, {int(v)})" for k, v in C.CUSTOM_FORMAT_TYPE_MAP.items()) + "]")
    L.append(f"def checkboxTrueValue : String := {_lean_str(C.CHECKBOX_TRUE_VALUE)}")
    L.append(f"def checkboxFalseValue : String := {_lean_str(C.CHECKBOX_FALSE_VALUE)}")
    L.append("/-- the Cell subclasses of cell.py, by class name -/")
    names = [n for n, o in vars(K).items() if isinstance(o, type) and issubclass(o, K.Cell) and o is not K.Cell]
    L.append(f"def cellClassNames : List String := {_strs(names)}")
    # defaults of the Formatting dataclass, in field order
    fl = {f.name: f for f in dataclasses.fields(K.Formatting)}
    L.append("/-- cell.Formatting: field names in declaration order and the default of every field -/")
    L.append(f"def formattingFields : List String := {_strs(fl.keys())}")

    def default(n):
        f = fl[n]
        if f.default is not dataclasses.MISSING:
            return f.default
        return f.default_factory()

    L.append(f"def fdAllowNone : Bool := {'true' if default('allow_none') else 'false'}")
    L.append(f"def fdBasePlaces : Int := {int(default('base_places'))}")
    L.append(f"def fdBaseUseMinusSign : Bool := {'true' if default('base_use_minus_sign') else 'false'}")
    L.append(f"def fdBase : Int := {int(default('base'))}")
    L.append(f"def fdControlFormat : Nat := {int(default('control_format'))}")
    L.append(f"def fdCurrencyCode : String := {_lean_str(default('currency_code'))}")
    L.append(f"def fdDateTimeFormat : String := {_lean_str(default('date_time_format'))}")
    dp = default("decimal_places")
    L.append(f"def fdDecimalPlaces : Option Int := {'none' if dp is None else 'some ' + str(int(dp))}")
    L.append(f"def fdFractionAccuracy : Int := {int(default('fraction_accuracy'))}")
    L.append(f"def fdIncrement : Bool × Nat × Int := {_dec(default('increment'))}")
    L.append(f"def fdMaximum : Bool × Nat × Int := {_dec(default('maximum'))}")
    L.append(f"def fdMinimum : Bool × Nat × Int := {_dec(default('minimum'))}")
    pv = default("popup_values")
    L.append(f"def fdPopupValues : List String := {_strs(pv) if all(isinstance(x, str) for x in pv) else '[]'}")
    L.append(f"def fdNegativeStyle : Int := {int(default('negative_style'))}")
    L.append(f"def fdShowThousandsSeparator : Bool := {'true' if default('show_thousands_separator') else 'false'}")
    L.append(f"def fdType : Nat := {int(default('type'))}")
    L.append(f"def fdUseAccountingStyle : Bool := {'true' if default('use_accounting_style') else 'false'}")
    return L
