"""Generated tables for C08/C09: the formula renderer's dispatch tables, read from the live modules."""
from __future__ import annotations


def generate() -> list[str]:
    from gen_constants import lean_str
    from numbers_parser import formula as F
    from numbers_parser.constants import OPERATOR_PRECEDENCE
    from numbers_parser.generated.functionmap import FUNCTION_MAP
    from numbers_parser.generated.TSCEArchives_pb2 import ASTNodeArrayArchive

    def t(s: str) -> str:
        return lean_str(s) + ".toList"

    L = []
    enum = ASTNodeArrayArchive.DESCRIPTOR.enum_types_by_name["ASTNodeType"]
    L.append("/-- ASTNodeArrayArchive.ASTNodeType: enum number -> name (TableFormulas._formula_type_lookup) -/")
    L.append("def AST_NODE_TYPES : List (Nat × List Char) := ["
             + ", ".join(f"({v.number}, {t(v.name)})" for v in sorted(enum.values, key=lambda v: v.number)) + "]")
    L.append("/-- formula.py NODE_FUNCTION_MAP: node type name -> handler method name (none = mapped to None) -/")
    L.append("def NODE_FUNCTION_MAP : List (List Char × Option (List Char)) := ["
             + ", ".join(f"({t(k)}, {'none' if v is None else 'some (' + t(v) + ')'})" for k, v in F.NODE_FUNCTION_MAP.items())
             + "]")
    L.append("/-- generated/functionmap.py FUNCTION_MAP: function id -> name -/")
    L.append("def FUNCTION_MAP : List (Nat × List Char) := ["
             + ", ".join(f"({k}, {t(v)})" for k, v in sorted(FUNCTION_MAP.items())) + "]")
    L.append("/-- constants.py OPERATOR_PRECEDENCE (keys are what CellRange.expand_ref quotes on) -/")
    L.append("def OPERATOR_PRECEDENCE : List (List Char × Nat) := ["
             + ", ".join(f"({t(k)}, {v})" for k, v in OPERATOR_PRECEDENCE.items()) + "]")
    return L
