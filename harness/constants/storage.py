"""C01 (table pipeline): the record `Cell._empty_cell` decodes for a position without stored data."""
from __future__ import annotations


def generate() -> list[str]:
    from numbers_parser import constants as C

    b = bytes(C.EMPTY_STORAGE_BUFFER)
    return [
        "/-- `EMPTY_STORAGE_BUFFER`: what `Table.__init__` hands to `_from_storage` when `storage_buffer` returns None -/",
        "def EMPTY_STORAGE_BUFFER : List UInt8 := [" + ", ".join(str(x) for x in b) + "]",
    ]
