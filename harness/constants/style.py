"""C15: the attribute tables `Style.__setattr__` is driven by, and the dataclass field order
(the generated `__init__` assigns every field through `__setattr__`)."""
from __future__ import annotations


def generate() -> list[str]:
    import dataclasses

    from numbers_parser.cell import Style

    def lst(xs):
        return "[" + ", ".join('"' + x + '"' for x in xs) + "]"

    fields = [f.name for f in dataclasses.fields(Style)]
    return [
        f"def styleTextAttrs : List String := {lst(Style._text_attrs())}",
        f"def styleCellAttrs : List String := {lst(Style._cell_attrs())}",
        f"def styleFields : List String := {lst(fields)}",
    ]
