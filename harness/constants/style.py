"""C15: the attribute tables `Style.__setattr__` is driven by, and the dataclass field order
(the generated `__init__` assigns every field through `__setattr__`)."""
from __future__ import annotations


def generate() -> list[str]:
    import dataclasses

    from numbers_parser.cell import Style

    def lst(xs):
        return "[" + ", ".join('"' + x + '"' for x in xs) + "]"

    fields = [f.name for f in dataclasses.fields(Style)]
    return [
        f"def styleTextAttrs : List String := {lst(Style._text_attrs())}",
        f"def styleCellAttrs : List String := {lst(Style._cell_attrs())}",
        f"def styleFields : List String := {lst(fields)}",
    ] + storage_tables()


def lean_s(x: str) -> str:
    assert all(32 <= ord(c) < 127 and c not in '"\\' for c in x), x
    return '"' + x + '"'


def rat(x) -> str:
    n, d = float(x).as_integer_ratio()
    return f"(({n} : Int) : Rat) / (({d} : Int) : Rat)"


def storage_tables() -> list[str]:
    """what the style storage path (model.py add_paragraph_style / add_cell_style / readers, cell.py Alignment) is driven by:
    the font map, the alignment name maps and enum members, the underline / strikethru enum numbers, the defaults the
    readers return for a cell without cell style, and the protobuf defaults `getattr(parent.<props>, field)` falls back to."""
    from numbers_parser import constants as C
    from numbers_parser.cell import HORIZONTAL_MAP, VERTICAL_MAP, HorizontalJustification, VerticalJustification
    from numbers_parser.generated import TSPMessages_pb2 as P
    from numbers_parser.generated import TSTArchives_pb2 as T
    from numbers_parser.generated import TSWPArchives_pb2 as W
    from numbers_parser.generated.fontmap import FONT_NAME_TO_FAMILY
    from numbers_parser.generated.TSWPArchives_pb2 import CharacterStylePropertiesArchive as CharacterStyle

    def pairs(d):
        return "[" + ", ".join(f"({lean_s(k)}, {lean_s(v)})" for k, v in d.items()) + "]"

    def codes(x):
        return "[" + ", ".join(str(ord(c)) for c in x) + "]"

    def cpairs(d):
        return "[" + ", ".join(f"({codes(k)}, {codes(v)})" for k, v in d.items()) + "]"

    def chunked(name, items, size=32):
        # one literal of several hundred pairs exceeds the elaborator's recursion depth
        parts = [items[i:i + size] for i in range(0, len(items), size)]
        out = [f"def {name}_{i} : List (List Nat × List Nat) := {cpairs(dict(part))}" for i, part in enumerate(parts)]
        out.append(f"def {name} : List (List Nat × List Nat) := " + " ++ ".join(f"{name}_{i}" for i in range(len(parts))))
        return out

    def npairs(d):
        return "[" + ", ".join(f"({lean_s(k)}, {int(v)})" for k, v in d.items()) + "]"

    def dflt(msg, field):
        return msg.DESCRIPTOR.fields_by_name[field].default_value

    cp, pp = W.CharacterStylePropertiesArchive, W.ParagraphStylePropertiesArchive
    ce = T.CellStyleArchive.DESCRIPTOR.fields_by_name["cell_properties"].message_type._concrete_class
    b = lambda x: "true" if x else "false"  # noqa: E731
    return [
        "/-- `numbers_parser.generated.fontmap.FONT_NAME_TO_FAMILY`, in dict order, as code points (string literals are slow in the kernel) -/",
        *chunked("fontNameToFamily", list(FONT_NAME_TO_FAMILY.items())),
        f"def horizontalMap : List (String × Nat) := {npairs(HORIZONTAL_MAP)}",
        f"def verticalMap : List (String × Nat) := {npairs(VERTICAL_MAP)}",
        f"def hjustValues : List Nat := [{', '.join(str(int(x)) for x in HorizontalJustification)}]",
        f"def vjustValues : List Nat := [{', '.join(str(int(x)) for x in VerticalJustification)}]",
        f"def vjustTop : Nat := {int(VerticalJustification.TOP)}",
        f"def defaultAlignmentNames : String × String := ({lean_s(C.DEFAULT_ALIGNMENT[0])}, {lean_s(C.DEFAULT_ALIGNMENT[1])})",
        f"def kNoUnderline : Nat := {int(CharacterStyle.UnderlineType.kNoUnderline)}",
        f"def kSingleUnderline : Nat := {int(CharacterStyle.UnderlineType.kSingleUnderline)}",
        f"def kNoStrikethru : Nat := {int(CharacterStyle.StrikethruType.kNoStrikethru)}",
        f"def kSingleStrikethru : Nat := {int(CharacterStyle.StrikethruType.kSingleStrikethru)}",
        f"def defaultTextInset : Rat := {rat(C.DEFAULT_TEXT_INSET)}",
        f"def defaultTextWrap : Bool := {b(C.DEFAULT_TEXT_WRAP)}",
        f"def defaultFontSize : Rat := {rat(C.DEFAULT_FONT_SIZE)}",
        f"def defaultFont : List Nat := {codes(C.DEFAULT_FONT)}",
        "/-- protobuf defaults of the fields the readers fetch from the parent style -/",
        f"def pdBold : Bool := {b(dflt(cp, 'bold'))}",
        f"def pdItalic : Bool := {b(dflt(cp, 'italic'))}",
        f"def pdUnderline : Nat := {int(dflt(cp, 'underline'))}",
        f"def pdStrikethru : Nat := {int(dflt(cp, 'strikethru'))}",
        f"def pdFontSize : Rat := {rat(dflt(cp, 'font_size'))}",
        f"def pdFontName : List Nat := {codes(dflt(cp, 'font_name'))}",
        f"def pdColorR : Rat := {rat(dflt(P.Color, 'r'))}",
        f"def pdColorG : Rat := {rat(dflt(P.Color, 'g'))}",
        f"def pdColorB : Rat := {rat(dflt(P.Color, 'b'))}",
        f"def pdAlignment : Nat := {int(dflt(pp, 'alignment'))}",
        f"def pdFirstLineIndent : Rat := {rat(dflt(pp, 'first_line_indent'))}",
        f"def pdLeftIndent : Rat := {rat(dflt(pp, 'left_indent'))}",
        f"def pdRightIndent : Rat := {rat(dflt(pp, 'right_indent'))}",
        f"def pdTextWrap : Bool := {b(dflt(ce, 'text_wrap'))}",
        f"def pdVerticalAlignment : Nat := {int(dflt(ce, 'vertical_alignment'))}",
        f"def pdPaddingLeft : Rat := {rat(dflt(W.PaddingArchive, 'left'))}",
    ]
