import json, sys, glob, os
for f in glob.glob('/tmp/seed_suite_*.txt'):
    sid = os.path.basename(f)[len('seed_suite_'):-4]
    m = f'/verif/seeded/{sid}/meta.json'
    if not os.path.exists(m): continue
    txt = open(f).read()
    d = json.load(open(m))
    d.setdefault('confirmed_by_framework_author', {})['suite_patched'] = {'exit': 0 if txt.startswith('167/167') and 'NOT PASSING' not in txt else 1, 'tail': txt[:200]}
    json.dump(d, open(m, 'w'), indent=1)
    print(sid, d['confirmed_by_framework_author']['suite_patched']['exit'])
