"""Regenerate /verif/MANIFEST.json from the table below (keeps it schema-valid at all times)."""
import json
import sys
from pathlib import Path

sys.path.insert(0, str(Path(__file__).resolve().parent))
VERIF = Path(__file__).resolve().parent.parent

BASELINE = "cd /repo && NUMBERS_PARSER_VERIF= /venv/bin/python -m pytest -ra -q -p no:cacheprovider --timeout=900 --continue-on-collection-errors"

COMMON_NOTE = ("Trusted: Lean 4.33.0 kernel; axioms propext, Classical.choice, Quot.sound only (audited with #print axioms "
               "on every run; no sorry/native_decide/bv_decide/user axioms); the hand-written Lean model is tied to /repo "
               "only by the correspondence run (compiled model driver vs the real code in-process on the same inputs) and by "
               "constants regenerated from the live modules; harness code in /verif/harness. ")

# pid -> (level text, note, technique, design_ref)
CHECKS = {}


def load():
    import importlib
    import manifest_data
    checks = dict(manifest_data.CHECKS)
    for f in sorted((Path(__file__).resolve().parent / "checks").glob("c[0-9][0-9].py")):
        mod = importlib.import_module("checks." + f.stem)
        if hasattr(mod, "MANIFEST"):
            checks[mod.PID] = mod.MANIFEST
    return checks, manifest_data.NOT_APPLICABLE, manifest_data.HOOK_COMMITS


def main():
    checks, na, hook_commits = load()
    m = {
        "version": 1,
        "setup_cmd": "cd lean && lake build NumbersModel nmdriver trdriver",
        "hooks": {
            "guard": "NUMBERS_PARSER_VERIF",
            "enable": "NUMBERS_PARSER_VERIF=1 in the environment of the check (set by harness/common.py); no build step, /repo/src is imported in-process",
            "baseline_off_cmd": BASELINE,
            "source_commits": hook_commits,
            "add_only": True,
        },
        "engines": [{
            "name": "lean4+correspondence",
            "path": "harness/vcheck.py",
            "serves_properties": sorted(checks),
            "kind_free_text": "Lean 4 theorems about hand-written executable models (lean/NumbersModel), models tied to /repo by differential correspondence through a compiled line-protocol driver (lean/Driver.lean), by regenerated constants, and - for the functions listed in harness/py2lean.py TARGETS - by definitions translated from the Python source on every run and proved equal to the model",
        }],
        "checks": [],
        "notes": "See DESIGN.md. Known findings: known_findings.json. Seeded breaking changes used to test the checks: seeded/.",
        "not_applicable": [{"property_id": k, "reason": v} for k, v in sorted(na.items()) if k not in checks],
    }
    for pid in sorted(checks):
        c = checks[pid]
        m["checks"].append({
            "property_id": pid,
            "quick_cmd": f"/venv/bin/python harness/vcheck.py {pid} quick",
            "thorough_cmd": f"/venv/bin/python harness/vcheck.py {pid} thorough",
            "evidence_file": f"evidence/{pid}.json",
            "replay_cmd_template": f"/venv/bin/python harness/vcheck.py {pid} --replay {{path}}",
            "engine": "lean4+correspondence",
            "level_claimed": {"category": "proof", "text": c["text"], "design_ref": c.get("design_ref", f"DESIGN.md section 6, {pid}")},
            "level_note": COMMON_NOTE + c["note"],
            "technique": c["technique"],
        })
    (VERIF / "MANIFEST.json").write_text(json.dumps(m, indent=1) + "\n")
    try:
        import jsonschema
        jsonschema.validate(m, json.loads(Path("/root/.vp/MANIFEST.schema.json").read_text()))
        print("MANIFEST.json valid;", len(m["checks"]), "checks,", len(m["not_applicable"]), "not applicable")
    except ImportError:
        print("written (jsonschema not available for validation)")


if __name__ == "__main__":
    main()
