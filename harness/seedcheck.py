"""Confirm a seeded breaking change and run the registered check against it.

usage: seedcheck.py <property> <scratch_worktree> <out_subdir> <seed_id> [--no-suite]

1. in the scratch worktree: demo passes on the clean tree, fails with the patch; the pinned suite
   (BASELINE stable_pass) still passes with the patch;
2. in /repo: apply the patch, run the property's quick check (and thorough with --thorough), undo;
3. store patch.diff, demo.py, meta.json (+ what was run and seen) under /verif/seeded/<seed_id>/.
"""
import json
import os
import shutil
import subprocess
import sys
from pathlib import Path

VERIF = Path(__file__).resolve().parent.parent


def sh(cmd, cwd=None, env=None, timeout=3600):
    p = subprocess.run(cmd, shell=True, cwd=cwd, env=env, capture_output=True, text=True, timeout=timeout)
    return p.returncode, (p.stdout + p.stderr)


def main():
    pid, wt, sub, sid = sys.argv[1:5]
    flags = sys.argv[5:]
    wt = Path(wt)
    src = wt / "out" / sub
    patch = src / "patch.diff"
    env = dict(os.environ, PYTHONPATH=str(wt / "src"))
    res = {}
    sh("git checkout -- .", cwd=wt)
    rc, out = sh(f"/venv/bin/python {src/'demo.py'}", cwd=wt, env=env)
    res["demo_clean"] = {"exit": rc, "tail": out[-300:]}
    rc, out = sh(f"git apply {patch}", cwd=wt)
    assert rc == 0, out
    rc, out = sh(f"/venv/bin/python {src/'demo.py'}", cwd=wt, env=env)
    res["demo_patched"] = {"exit": rc, "tail": out[-500:]}
    if "--no-suite" not in flags:
        rc, out = sh(f"python3 {VERIF/'harness/run_baseline.py'} {wt}", timeout=3000)
        res["suite_patched"] = {"exit": rc, "tail": out[-300:]}
    sh("git checkout -- .", cwd=wt)
    # now the registered check against /repo with the patch (one at a time: /repo is shared)
    import fcntl
    lock = open("/tmp/repo.lock", "w")
    fcntl.flock(lock, fcntl.LOCK_EX)
    rc, out = sh(f"git -C /repo apply {patch}")
    assert rc == 0, "patch does not apply to /repo: " + out
    try:
        for tier in (["quick"] + (["thorough"] if "--thorough" in flags else [])):
            rc, out = sh(f"/venv/bin/python harness/vcheck.py {pid} {tier}", cwd=VERIF, env=dict(os.environ, VERIF_SEED="0"))
            lines = [l for l in out.split("\n") if l.startswith(("VIOLATION", "KNOWN-FINDING", pid))]
            res[f"check_{tier}"] = {"exit": rc, "lines": lines[:12]}
            replays = []
            for l in lines:
                if l.startswith("VIOLATION"):
                    rp = VERIF / l.split("replay=")[1].split()[0]
                    try:
                        d = json.loads(rp.read_text())
                        replays.append({"kind": d.get("kind"), "signature": d.get("signature"), "what": str(d.get("what"))[:300]})
                    except OSError:
                        pass
            res[f"check_{tier}"]["replays"] = replays[:8]
    finally:
        sh("git -C /repo checkout -- .")
        fcntl.flock(lock, fcntl.LOCK_UN)
    # evidence files must come from the unchanged tree: restore them
    sh(f"git checkout -- evidence/{pid}.json", cwd=VERIF)
    dst = VERIF / "seeded" / sid
    dst.mkdir(parents=True, exist_ok=True)
    shutil.copy(patch, dst / "patch.diff")
    shutil.copy(src / "demo.py", dst / "demo.py")
    meta = json.loads((src / "meta.json").read_text()) if (src / "meta.json").exists() else {}
    meta["property"] = pid
    meta["confirmed_by_framework_author"] = res
    meta["caught_by_quick"] = res["check_quick"]["exit"] == 1
    meta["ran"] = ["demo.py on clean scratch worktree (expect exit 0)", "demo.py with patch (expect exit 1)",
                   "harness/run_baseline.py on the patched scratch worktree (expect 167/167)",
                   f"git -C /repo apply patch.diff; harness/vcheck.py {pid} quick; git -C /repo checkout -- ."]
    (dst / "meta.json").write_text(json.dumps(meta, indent=1) + "\n")
    ok = res["demo_clean"]["exit"] == 0 and res["demo_patched"]["exit"] != 0 and res.get("suite_patched", {"exit": 0})["exit"] == 0
    print(json.dumps({"seed": sid, "valid_seed": ok, "caught_quick": meta["caught_by_quick"],
                      "check": res["check_quick"], "suite": res.get("suite_patched")}, indent=1))


if __name__ == "__main__":
    main()
