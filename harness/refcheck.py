"""Run a registered check against a HARMLESS refactoring of the library (false-alarm test).

usage: refcheck.py <property> <scratch_worktree> <out_subdir> <id> [--keep]

The refactoring (patch.diff written by a sub-agent that was asked for a behaviour-preserving change of the code the property
is anchored in, with its own differential script equiv.py) is applied in the scratch worktree; the pinned suite must still
pass; the property's quick check is run from a scratch copy of /verif with VERIF_REPO=<refactored worktree>.
Expected: exit 0.  `VIOLATION ... no-failing-input-found` (a proof / correspondence that no longer checks while the property
holds) is what the brief prescribes for a harmless rewrite of modelled code and is recorded as such; a VIOLATION with a
concrete replay, or exit 2, is a defect of the machinery.  Result -> /verif/refactors/<id>/ (patch.diff, meta.json).
"""
import json
import os
import shutil
import subprocess
import sys
from pathlib import Path

VERIF = Path(__file__).resolve().parent.parent


def sh(cmd, cwd=None, env=None, timeout=5400):
    p = subprocess.run(cmd, shell=True, cwd=cwd, env=env, capture_output=True, text=True, timeout=timeout)
    return p.returncode, (p.stdout + p.stderr)


def main():
    pid, wt, sub, rid = sys.argv[1:5]
    flags = sys.argv[5:]
    wt = Path(wt)
    src = wt / "out" / sub
    patch = src / "patch.diff"
    res = {}
    sh("git checkout -- .", cwd=wt)
    rc, out = sh(f"git apply {patch}", cwd=wt)
    assert rc == 0, out
    rc, out = sh(f"python3 {VERIF/'harness/run_baseline.py'} {wt}", timeout=3000)
    res["suite_refactored"] = {"exit": rc, "tail": out[-300:]}
    scratch = Path(f"/tmp/sv_{rid}")
    if scratch.exists():
        shutil.rmtree(scratch)
    sh(f"cp -r {VERIF} {scratch}")
    try:
        rc, out = sh(f"/venv/bin/python harness/vcheck.py {pid} quick", cwd=scratch,
                     env=dict(os.environ, VERIF_SEED=os.environ.get("VERIF_SEED", "0"), VERIF_REPO=str(wt)))
        lines = [l for l in out.split("\n") if l.startswith(("VIOLATION", pid))]
        res["check_quick"] = {"exit": rc, "lines": [l[:300] for l in lines[:12]]}
        if rc == 2:
            res["check_quick"]["tail"] = out[-2500:]
        reps = []
        for l in lines:
            if l.startswith("VIOLATION"):
                rp = scratch / l.split("replay=")[1].split()[0]
                try:
                    d = json.loads(rp.read_text())
                    reps.append({"kind": d.get("kind"), "signature": d.get("signature"), "what": str(d.get("what"))[:600],
                                 "broken": d.get("broken") or d.get("proof_problems") or d.get("disagreements")})
                except OSError:
                    pass
        res["check_quick"]["replays"] = reps[:6]
    finally:
        sh("git checkout -- .", cwd=wt)
        if "--keep" not in flags:
            shutil.rmtree(scratch, ignore_errors=True)
    dst = VERIF / "refactors" / rid
    dst.mkdir(parents=True, exist_ok=True)
    shutil.copy(patch, dst / "patch.diff")
    meta = json.loads((src / "meta.json").read_text()) if (src / "meta.json").exists() else {}
    meta["property"] = pid
    meta["base_commit"] = sh("git rev-parse --short HEAD", cwd=wt)[1].strip()
    meta["run_by_framework_author"] = res
    concrete = [r for r in res["check_quick"]["replays"] if r.get("kind") == "failing-input"]
    meta["verdict"] = ("silent" if res["check_quick"]["exit"] == 0 else
                       "harness failure (exit 2)" if res["check_quick"]["exit"] == 2 else
                       "FALSE ALARM with a concrete replay" if concrete else "broken proof / correspondence, no-failing-input-found")
    (dst / "meta.json").write_text(json.dumps(meta, indent=1) + "\n")
    print(json.dumps({"id": rid, "verdict": meta["verdict"], "suite": res["suite_refactored"], "check": res["check_quick"]}, indent=1)[:3000])


if __name__ == "__main__":
    main()
