"""Regression over the kept seeded changes: every seeded/<id>/patch.diff that still applies to /repo's HEAD is applied in a
scratch worktree and the property's registered quick check is run against it (scratch copy of /verif, VERIF_REPO) - it must
still be reported.  usage: seed_regress.py [workers] [ids...]   Results -> seeded/<id>/meta.json["regression"] and stdout."""
import json
import os
import shutil
import subprocess
import sys
from concurrent.futures import ThreadPoolExecutor
from pathlib import Path

VERIF = Path(__file__).resolve().parent.parent


def sh(cmd, cwd=None, env=None, timeout=5400):
    p = subprocess.run(cmd, shell=True, cwd=cwd, env=env, capture_output=True, text=True, timeout=timeout)
    return p.returncode, p.stdout + p.stderr


HEAD = sh("git -C /repo rev-parse --short HEAD")[1].strip()


def one(sid):
    d = VERIF / "seeded" / sid
    pid = sid.split("-")[0]
    wt, sv = Path(f"/tmp/sr_{sid}"), Path(f"/tmp/srv_{sid}")
    sh(f"git -C /repo worktree remove --force {wt}")
    shutil.rmtree(sv, ignore_errors=True)
    rc, out = sh(f"git -C /repo worktree add --detach {wt} HEAD")
    if rc:
        return sid, "worktree-failed", out[-200:]
    try:
        if sh(f"git apply {d/'patch.diff'}", cwd=wt)[0]:
            return sid, "does-not-apply", ""
        drc, _ = sh(f"/venv/bin/python {d/'demo.py'}", cwd=wt, env=dict(os.environ, PYTHONPATH=str(wt / "src")), timeout=900)
        if drc == 0:   # a later fix: commit made the change harmless: its own demonstration passes on HEAD + patch
            meta = json.loads((d / "meta.json").read_text())
            meta["regression"] = {"repo_head": HEAD, "verdict": "demonstration passes at this head: the change no longer breaks the property (neutralised by a later fix: commit)"}
            (d / "meta.json").write_text(json.dumps(meta, indent=1) + "\n")
            return sid, "neutralised", ""
        sh(f"cp -r {VERIF} {sv}")
        rc, out = sh(f"/venv/bin/python harness/vcheck.py {pid} quick", cwd=sv,
                     env=dict(os.environ, VERIF_SEED="0", VERIF_REPO=str(wt), VERIF_PROCS="6"))
        sigs = []
        for l in out.split("\n"):
            if l.startswith("VIOLATION"):
                try:
                    r = json.loads((sv / l.split("replay=")[1].split()[0]).read_text())
                    sigs.append(r.get("signature") or r.get("kind"))
                except Exception:  # noqa: BLE001
                    sigs.append("?")
        verdict = "caught" if rc == 1 else ("MISSED" if rc == 0 else f"exit {rc}")
        meta = json.loads((d / "meta.json").read_text())
        meta["regression"] = {"repo_head": HEAD, "verdict": verdict, "signatures": sigs[:6]}
        (d / "meta.json").write_text(json.dumps(meta, indent=1) + "\n")
        return sid, verdict, sigs[:4]
    finally:
        sh(f"git -C /repo worktree remove --force {wt}")
        shutil.rmtree(sv, ignore_errors=True)


def main():
    workers = int(sys.argv[1]) if len(sys.argv) > 1 else 4
    ids = sys.argv[2:] or sorted(p.name for p in (VERIF / "seeded").iterdir() if (p / "patch.diff").exists())
    with ThreadPoolExecutor(workers) as ex:
        for r in ex.map(one, ids):
            print(*r, flush=True)


if __name__ == "__main__":
    main()
