"""C02 document-level tie: the state of a REAL open document as Model/Document.lean takes it (`doc dump|resave|resave2 …`),
read with the harness's own readers, and the dump of a real document in the driver's reply format.

Component states and where their readers come from:
  tree          harness/doctree.py `snapshot`   (store / file store in iteration order; C19 / C16 / C06)
  cell grid     checks/c01.py `tcell_token`     (class, packed payload, text, `_string_id`, twelve ids; C01 / C04)
  merge map     the `MergeCells` dict in its order (C12)
  formula list  the `formula_table` data list: key -> AST nodes as `formula exec` words (C08); reference nodes get their text
                per host cell from `node_to_ref` (C09's business, harness-supplied: `RT`)
  format list   the `format_table` data list: key -> archive as `fmtd show` takes it (checks/fmtglue.py `fmt_full`; C13 / C14)
  rich text     the `rich_text_table` data list: key -> OPAQUE token for (text, bullets, hyperlinks) (`rich_text_opaque`)
  interpretation of the payload bytes as Python values: checks/fmtglue.py `fixture_tokens` (without the `f.*` tokens)

A cell whose display is outside fmtglue's domain, or whose formula holds a node the encoder does not know, is flagged
`unmodelled` (printed `U` by both sides) and counted; a table too large for the tier is sent as a one-cell stand-in and printed
`P` by both sides, and counted.  No document is dropped.
"""
from __future__ import annotations

import re
from datetime import timedelta

import common
import doctree
from common import enc_text, exc_name

XREF_TYPES = None


def _xref_types():
    """node types whose handler is `xref` (read from the live module)"""
    global XREF_TYPES
    if XREF_TYPES is None:
        from numbers_parser.formula import NODE_FUNCTION_MAP
        from numbers_parser.generated import TSCEArchives_pb2 as T
        XREF_TYPES = {v.number for v in T.ASTNodeArrayArchive.DESCRIPTOR.enum_types_by_name["ASTNodeType"].values
                      if NODE_FUNCTION_MAP.get(v.name) == "xref"}
    return XREF_TYPES


def node_word(node) -> str:
    ty = int(node.AST_node_type)
    a = b = c = 0
    text = ""
    if ty == 16:
        a, b = int(node.AST_function_node_index), int(node.AST_function_node_numArgs)
    elif ty == 17:
        a, b = int(node.AST_number_node_decimal_high), int(node.AST_number_node_decimal_low)
        text = repr(node.AST_number_node_number)
    elif ty in (18, 23):
        a, b, c = int(node.HasField("AST_token_node_boolean")), int(node.AST_token_node_boolean), int(node.AST_boolean_node_boolean)
    elif ty == 19:
        text = node.AST_string_node_string
    elif ty == 20:
        a = timedelta(seconds=node.AST_date_node_dateNum) // timedelta(microseconds=1)
    elif ty == 24:
        a, b = int(node.AST_array_node_numCol), int(node.AST_array_node_numRow)
    elif ty == 25:
        a = int(node.AST_list_node_numArgs)
    return f"{ty}/{a}/{b}/{c}/{enc_text(text)}"


def _list(model, table_id, attr):
    bds = model.objects[table_id].base_data_store
    ref = getattr(bds, attr)
    if not ref.identifier:
        return []
    return list(model.objects[ref.identifier].entries)


class Interner:
    def __init__(self):
        self.seen = {}

    def token(self, obj) -> int:
        return self.seen.setdefault(repr(obj), len(self.seen) + 1)


def rich_token(model, table_id, key, interner: Interner) -> int:
    d = model.table_rich_text(table_id, key)
    return interner.token((d.get("text"), d.get("bullets"), d.get("bullet_chars"), d.get("hyperlinks")))


A1 = re.compile(r"^([A-Z]+)([0-9]+)$")


def a1_rowcol(s: str):
    m = A1.match(s.replace("$", ""))
    col = 0
    for ch in m.group(1):
        col = col * 26 + (ord(ch) - 64)
    return int(m.group(2)) - 1, col - 1


def table_words(doc, table, interner: Interner, K, customs, limit: int, stats: dict):
    """(`<tid> <pivot> G … RT …` words, flags[r][c]) for one table of an open document"""
    from checks import c01, fmtglue
    model = doc._model
    tid = table._table_id
    data = table._data
    if model.is_a_pivot_table(tid) or len(data) * (len(data[0]) if data else 0) > limit:
        if not model.is_a_pivot_table(tid):
            stats["tables unmodelled (too large for the tier)"] = stats.get("tables unmodelled (too large for the tier)", 0) + 1
        return ([str(tid), "1", "G", "1", "1", "empty/-/-/n/" + ";".join(["n"] * 12), "M", "0", "F", "0", "X", "0", "H", "0",
                 "I", "1", "1", "0|kind=EmptyCell", "RT", "0"], None)
    w = [str(tid), "0", "G", str(len(data))]
    for row in data:
        w.append(str(len(row)))
        w += [c01.tcell_token(c) for c in row]
    # merge map
    refs = model.merge_cells(tid)._references
    ms = []
    for (r, c), v in list(refs.items()):
        n = type(v).__name__
        if n == "MergeAnchor":
            ms.append(f"{r}:{c}:A:{v.size[0]}:{v.size[1]}")
        elif n == "MergeReference":
            ms.append(f"{r}:{c}:R:{v.rect[0]}:{v.rect[1]}:{v.rect[2]}:{v.rect[3]}")
    w += ["M", str(len(ms))] + ms
    # formula list
    bad_formulas = set()
    fl = []
    formulas = {}
    for e in _list(model, tid, "formula_table"):
        nodes = list(e.formula.AST_node_array.AST_node)
        formulas[int(e.key)] = nodes
        try:
            fl += [str(int(e.key)), str(len(nodes))] + [node_word(n) for n in nodes]
        except Exception:  # noqa: BLE001  a node the encoder cannot express
            bad_formulas.add(int(e.key))
            fl += [str(int(e.key)), "0"]
    w += ["F", str(len(formulas))] + fl
    # format list
    xs, bad_formats = [], set()
    for e in _list(model, tid, "format_table"):
        try:
            xs.append(f"{int(e.key)}={fmtglue.fmt_full(e.format, customs)}")
        except Exception:  # noqa: BLE001
            bad_formats.add(int(e.key))
    w += ["X", str(len(xs))] + xs
    # rich-text list
    hs = []
    for e in _list(model, tid, "rich_text_table"):
        try:
            hs.append(f"{int(e.key)}:{rich_token(model, tid, int(e.key), interner)}")
        except Exception:  # noqa: BLE001
            pass
    w += ["H", str(len(hs))] + hs
    # interpretation of the stored bytes, per cell; reference texts per host
    xref = _xref_types()
    flags, iw, rts = [], ["I", str(len(data))], []
    for r, row in enumerate(data):
        iw.append(str(len(row)))
        frow = []
        for c, cell in enumerate(row):
            f = 0
            toks = None
            ids = [getattr(cell, a, None) for a in ("_num_format_id", "_currency_format_id", "_text_format_id", "_bool_format_id",
                                                    "_date_format_id", "_duration_format_id")]
            try:
                if not any(i in bad_formats for i in ids if i is not None):
                    toks = fmtglue.fixture_tokens(model, customs, cell, K)
            except Exception:  # noqa: BLE001  (an id the table does not hold, a value outside fmtglue's domain)
                toks = None
            if toks is None:
                f |= 1
                toks = []
                stats["cells with formatted value unmodelled"] = stats.get("cells with formatted value unmodelled", 0) + 1
            toks = [t for t in toks if not t.startswith("f.")]
            fid = getattr(cell, "_formula_id", None)
            if fid is not None and fid in formulas:
                if fid in bad_formulas:
                    f |= 2
                else:
                    try:
                        mine = []
                        for i, n in enumerate(formulas[fid]):
                            if int(n.AST_node_type) in xref:
                                mine.append(f"{r}:{c}:{i}:{enc_text(str(model.node_to_ref(tid, r, c, n)))}")
                        rts += mine
                    except Exception:  # noqa: BLE001  node_to_ref is C09's business; a reference it cannot resolve is not re-modelled here
                        f |= 2
                if f & 2:
                    stats["cells with formula unmodelled"] = stats.get("cells with formula unmodelled", 0) + 1
            frow.append(f)
            iw.append("|".join([str(f)] + toks))
        flags.append(frow)
    w += iw
    w += ["RT", str(len(rts))] + rts
    return w, flags


def state_request(op: str, doc, limit: int, stats: dict, doc_budget: int | None = None):
    """the protocol line for an open document + the per-table flags (None = printed as `P`); at most `limit` cells per
    table and `doc_budget` cells per document are modelled, the other tables are stand-ins (counted in `stats`)"""
    from numbers_parser import cell as K

    from checks import fmtglue
    try:
        customs = fmtglue.custom_list(doc._model)
    except KeyError:  # documents of old Numbers versions have no custom format list
        customs = {}
    interner = Interner()
    tabs, flags = [], []
    for sheet in doc.sheets:
        for table in sheet.tables:
            room = limit if doc_budget is None else max(0, min(limit, doc_budget))
            w, fl = table_words(doc, table, interner, K, customs, room, stats)
            if fl is not None and doc_budget is not None:
                doc_budget -= sum(len(r) for r in fl)
            tabs.append(" ".join(w))
            flags.append(fl)
    body = doctree.snapshot(doc) + " TABLES " + str(len(tabs)) + (" " if tabs else "") + " ".join(tabs)
    return body, flags, interner


def cell_word(model, table_id, cell, flag: int, interner: Interner) -> str:
    from numbers_parser import cell as C

    from checks import c01
    kind, payload, text, _sid, _ids = c01.tcell_token(cell).split("/")
    if kind not in ("number", "currency", "date", "bool", "duration"):
        payload = "-"
    if kind != "text":
        text = "-"
    if getattr(cell, "_formula_id", None) is None:
        formula = "n"
    elif flag & 2:
        formula = "U"
    else:
        try:
            formula = "=" + enc_text(str(cell.formula))
        except Exception as e:  # noqa: BLE001
            formula = "!" + exc_name(e)
    if flag & 1:
        shown = "U"
    else:
        try:
            shown = "=" + enc_text(str(cell.formatted_value))
        except Exception as e:  # noqa: BLE001
            shown = "!" + exc_name(e)
    rid = getattr(cell, "_rich_id", None)
    if rid is None or kind == "merged":
        rich = "n"
    else:
        try:
            rich = str(rich_token(model, table_id, rid, interner))
        except Exception:  # noqa: BLE001
            rich = "?"
    if isinstance(cell, C.MergedCell):
        q = cell.rect
        merge = f"P:{q[0]}:{q[1]}:{q[2]}:{q[3]}"
    elif cell.is_merged:
        merge = f"A:{cell.size[0]}:{cell.size[1]}"
    else:
        merge = "n"
    return "/".join((kind, payload, text, formula, shown, rich, merge))


def dump_line(doc, flags, interner: Interner) -> str:
    """the dump of a real document in the reply format of `doc dump`"""
    model = doc._model
    w = [str(len(doc.sheets))]
    k = 0
    for sheet in doc.sheets:
        w += ["S", enc_text(sheet.name), str(len(sheet.tables))]
        for table in sheet.tables:
            fl = flags[k] if k < len(flags) else None
            k += 1
            w += ["T", enc_text(table.name)]
            if fl is None:
                w.append("P")
                continue
            ranges = []
            for s in table.merge_ranges:
                a, b = s.split(":")
                ranges.append(a1_rowcol(a) + a1_rowcol(b))
            ranges.sort()
            w += ["L", str(table.num_rows), str(table.num_cols), str(len(ranges))] + [":".join(map(str, q)) for q in ranges]
            for r, row in enumerate(table._data):
                w.append(str(len(row)))
                for c, cell in enumerate(row):
                    f = fl[r][c] if r < len(fl) and c < len(fl[r]) else 0
                    w.append(cell_word(model, table._table_id, cell, f, interner))
    return "ok " + " ".join(w)
