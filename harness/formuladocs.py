"""Document-level formula reading (used by checks/c08.py and checks/c09.py).

The per-node / per-expression streams of C08 and C09 call the renderer once per stored expression.  In a real document one
stored formula (one key of the table's formula list) is shared by every cell it was filled into, and each of those host cells
reads it through `Cell.formula`.  The text a host reports must be a function of (stored expression, host cell) only: it must
not depend on which other host was read before, on how often, or on whether the document was reopened in between.

This module builds such documents through the public API (`cell.formula = text` for fill-right / fill-down families, so that
the library's own key de-duplication shares one stored formula between the hosts), and offers

* an independent reading of the stored nodes (post-fix node list of a key -> tree in c08's parser vocabulary; reference node ->
  target coordinates in c09's `exp` vocabulary), resolved against a given host cell, and
* the reading orders (isolated: a freshly opened document per host; forward; reverse; column-major; shuffled with repeats).

Nothing here looks at the library's caches or private helpers beyond `doc._model.formula_ast(table_id)` (the stored nodes) and
`cell._formula_id` (which key a cell uses).
"""
from __future__ import annotations

import os
import shutil
import tempfile
import warnings
from decimal import Decimal

OPS = {1: "+", 2: "-", 3: "×", 4: "÷", 5: "^", 6: "&", 7: ">", 8: "≥", 9: "<", 10: "≤", 11: "=", 12: "≠"}
NODE_OP = {"ADDITION_NODE": "+", "SUBTRACTION_NODE": "-", "MULTIPLICATION_NODE": "×", "DIVISION_NODE": "÷", "POWER_NODE": "^",
           "CONCATENATION_NODE": "&", "GREATER_THAN_NODE": ">", "GREATER_THAN_OR_EQUAL_TO_NODE": "≥", "LESS_THAN_NODE": "<",
           "LESS_THAN_OR_EQUAL_TO_NODE": "≤", "EQUAL_TO_NODE": "=", "NOT_EQUAL_TO_NODE": "≠"}


def col_name(c: int) -> str:
    name = ""
    c += 1
    while c:
        c, rem = divmod(c - 1, 26)
        name = chr(65 + rem) + name
    return name


def a1(r: int, c: int, ra: bool = False, ca: bool = False) -> str:
    return ("$" if ca else "") + col_name(c) + ("$" if ra else "") + str(r + 1)


# --------------------------------------------------------------------------- templates (host-relative trees)
# ("ref", ro, co, ra, ca): ro / co are OFFSETS from the host when relative and coordinates when absolute (as stored)
# ("num", n) | ("bin", op, l, r) | ("paren", [e]) | ("call", NAME, [e...])

def show(t, host) -> str:
    k = t[0]
    if k == "num":
        return str(t[1])
    if k == "ref":
        _, ro, co, ra, ca = t
        return a1(ro if ra else host[0] + ro, co if ca else host[1] + co, ra, ca)
    if k == "range":
        return show(t[1], host) + ":" + show(t[2], host)
    if k == "bin":
        return show(t[2], host) + OPS[t[1]] + show(t[3], host)
    if k == "paren":
        return "(" + ",".join(show(e, host) for e in t[1]) + ")"
    if k == "call":
        return t[1] + "(" + ",".join(show(e, host) for e in t[2]) + ")"
    raise AssertionError(k)


def refs_of(t):
    if t[0] == "ref":
        yield t
    elif t[0] == "range":
        yield t[1]
        yield t[2]
    elif t[0] == "bin":
        yield from refs_of(t[2])
        yield from refs_of(t[3])
    elif t[0] in ("paren", "call"):
        for e in t[-1]:
            yield from refs_of(e)


def in_table(t, host, nrows, ncols) -> bool:
    for _, ro, co, ra, ca in refs_of(t):
        r = ro if ra else host[0] + ro
        c = co if ca else host[1] + co
        if not (0 <= r < nrows and 0 <= c < ncols):
            return False
    return True


def gen_ref(rng, nrows, ncols, span=3):
    ra, ca = rng.random() < 0.3, rng.random() < 0.3
    return ("ref", rng.randrange(nrows) if ra else rng.randrange(-span, span + 1),
            rng.randrange(ncols) if ca else rng.randrange(-span, span + 1), ra, ca)


def gen_expr(rng, nrows, ncols, depth=2):
    """a small expression with at least one relative reference.  No parenthesised sub-expressions: the (undocumented)
    formula setter used to store the expression drops parentheses, so only shapes whose post-fix form needs none are
    generated (operands of an operator are atoms or calls; arguments of a call may be operator expressions)."""
    def atom():
        x = rng.random()
        if x < 0.7:
            return gen_ref(rng, nrows, ncols)
        if x < 0.85:
            return ("num", rng.randrange(0, 100))
        return ("call", rng.choice(["ABS", "SQRT", "INT"]), [gen_ref(rng, nrows, ncols)])

    def flat():
        op = rng.choice([1, 2, 2, 3, 4, 4, 5])  # non-commutative operators weigh more: operand order matters
        return ("bin", op, atom(), atom())

    def arg():
        return flat() if rng.random() < 0.4 else atom()

    def call2():
        return ("call", rng.choice(["POWER", "MOD", "QUOTIENT"]), [arg(), arg()])
    for _ in range(50):
        x = rng.random()
        if x < 0.45:
            t = flat()
        elif x < 0.7:
            t = call2()
        else:
            t = ("bin", rng.choice([1, 2, 3, 4]), rng.choice([atom, call2])(), rng.choice([atom, call2])())
        if any(not (r[3] and r[4]) for r in refs_of(t)):
            return t
    return ("bin", 2, ("ref", 0, -1, False, False), ("ref", -1, 0, False, False))


def gen_range(rng, nrows, ncols):
    """a rectangular range whose corners mix absolute and relative parts (the running-total shapes `$B$2:B5`, `B$2:C3` …);
    one corner fully anchored and the other one relative in at least one part in half of the cases."""
    def corner(kind):
        if kind == "anchored":
            return ("ref", rng.randrange(nrows), rng.randrange(ncols), True, True)
        if kind == "relative":
            return ("ref", rng.randrange(-2, 3), rng.randrange(-2, 3), False, False)
        return gen_ref(rng, nrows, ncols, span=2)
    x = rng.random()
    if x < 0.3:
        return ("range", corner("anchored"), corner(rng.choice(("relative", "any"))))
    if x < 0.5:
        return ("range", corner(rng.choice(("relative", "any"))), corner("anchored"))
    return ("range", corner("any"), corner("any"))


# --------------------------------------------------------------------------- documents

class FilledDoc:
    """one table; `families` = [(template, [host, …])] set through `cell.formula = show(template, host)`."""

    def __init__(self, nrows, ncols, families, header=(0, 0)):
        self.nrows, self.ncols, self.families, self.header = nrows, ncols, families, header

    def spec(self):
        return {"nrows": self.nrows, "ncols": self.ncols, "header": list(self.header),
                "cells": [[list(h), show(t, h)] for t, hs in self.families for h in hs]}


def build_from_spec(spec):
    """the open document of a spec (public API only). Returns (doc, table, [(host, text, error-or-None)])."""
    from numbers_parser import Document
    doc = Document(num_rows=spec["nrows"], num_cols=spec["ncols"], num_header_rows=spec["header"][0],
                   num_header_cols=spec["header"][1])
    table = doc.sheets[0].tables[0]
    for r in range(spec["nrows"]):
        for c in range(spec["ncols"]):
            table.write(r, c, r * spec["ncols"] + c + 1)
    done = []
    for (r, c), text in spec["cells"]:
        try:
            with warnings.catch_warnings():
                warnings.simplefilter("ignore")
                table.cell(r, c).formula = text
            done.append(((r, c), text, None))
        except Exception as e:  # noqa: BLE001   the formula WRITER is not under test: a refused text is only counted
            done.append(((r, c), text, type(e).__name__))
    return doc, table, done


def save_spec(spec, tmpdir):
    doc, _table, done = build_from_spec(spec)
    path = os.path.join(tmpdir, "filled.numbers")
    doc.save(path)
    return path, done


def formula_hosts(table):
    return [(cell.row, cell.col) for row in table.rows() for cell in row if cell.is_formula]


def read(table, host):
    with warnings.catch_warnings():
        warnings.simplefilter("ignore")
        return table.cell(*host).formula


def orders(rng, hosts):
    fwd = list(hosts)
    colmajor = sorted(hosts, key=lambda h: (h[1], h[0]))
    shuffled = list(hosts) * 2
    rng.shuffle(shuffled)
    return {"forward": fwd, "reverse": fwd[::-1], "column-major": colmajor, "shuffled-with-repeats": shuffled}


def read_orders(path, rng, isolated_sample=12):
    """{order name: {host: [texts in reading order]}} + the isolated readings (fresh document per host)."""
    from numbers_parser import Document
    doc = Document(path)
    table = doc.sheets[0].tables[0]
    hosts = formula_hosts(table)
    out = {}
    for name, seq in orders(rng, hosts).items():
        d = Document(path)
        t = d.sheets[0].tables[0]
        got = {}
        for h in seq:
            try:
                got.setdefault(h, []).append(read(t, h))
            except Exception as e:  # noqa: BLE001
                got.setdefault(h, []).append("!raised " + type(e).__name__)
        out[name] = got
    iso = {}
    sample = hosts if len(hosts) <= isolated_sample else rng.sample(hosts, isolated_sample)
    for h in sample:
        d = Document(path)
        try:
            iso[h] = read(d.sheets[0].tables[0], h)
        except Exception as e:  # noqa: BLE001
            iso[h] = "!raised " + type(e).__name__
    return hosts, out, iso


def stored_nodes(path_or_doc):
    """{host: (key, [nodes])} of the first table."""
    from numbers_parser import Document
    doc = Document(path_or_doc) if isinstance(path_or_doc, (str, os.PathLike)) else path_or_doc
    table = doc.sheets[0].tables[0]
    asts = doc._model.formula_ast(table._table_id)
    res = {}
    for row in table.rows():
        for cell in row:
            if cell.is_formula and cell._formula_id in asts:
                res[(cell.row, cell.col)] = (cell._formula_id, list(asts[cell._formula_id]))
    return res


# --------------------------------------------------------------------------- independent reading of stored nodes

class Unsupported(Exception):
    pass


def _type_name(node):
    from numbers_parser.generated.TSCEArchives_pb2 import ASTNodeArrayArchive
    return ASTNodeArrayArchive.ASTNodeType.Name(node.AST_node_type)


def decode_cell_ref(node, host):
    r = node.AST_row.row if node.AST_row.absolute else host[0] + node.AST_row.row
    c = node.AST_column.column if node.AST_column.absolute else host[1] + node.AST_column.column
    return r, bool(node.AST_row.absolute), c, bool(node.AST_column.absolute)


def decode_tract_axis(rel, ab, babs, eabs, host):
    """one axis of a colon tract: index-set entries (begin[, end]) in a host-relative and an absolute list; the sticky bit
    of each end says which list holds it; an entry without `range_end` is a single index.  Both storage layouts occur: the
    other end's value may or may not be repeated in the list (`[[e-host]]` vs `[[b-host, e-host]]`)."""
    def ents(lst):
        return [(e.range_begin, e.range_end if e.HasField("range_end") else e.range_begin) for e in lst]
    rel, ab = ents(rel), ents(ab)
    if (babs or eabs) and len(ab) != 1 or not (babs and eabs) and len(rel) != 1:
        raise Unsupported("tract axis layout")
    b = ab[0][0] if babs else host + rel[0][0]
    e = ab[0][1] if eabs else host + rel[0][1]
    return b, e


def decode_ref_exp(node, host):
    """stored reference node -> the part of c09's `exp` that says which cells are meant (same-table, rectangular)."""
    name = _type_name(node)
    if node.HasField("AST_cross_table_reference_extra_info"):
        raise Unsupported("cross-table")
    if name == "CELL_REFERENCE_NODE":
        r, ra, c, ca = decode_cell_ref(node, host)
        return {"kind": "cell", "r0": r, "r0abs": ra, "c0": c, "c0abs": ca}
    if name == "COLON_TRACT_NODE":
        ct, sb = node.AST_colon_tract, node.AST_sticky_bits
        r0, r1 = decode_tract_axis(ct.relative_row, ct.absolute_row, sb.begin_row_is_absolute, sb.end_row_is_absolute, host[0])
        c0, c1 = decode_tract_axis(ct.relative_column, ct.absolute_column, sb.begin_column_is_absolute,
                                   sb.end_column_is_absolute, host[1])
        if max(r0, r1) >= 0x7FFF or max(c0, c1) >= 0x7FFF:
            raise Unsupported("open-ended span")
        return {"kind": "rect", "r0": r0, "r1": r1, "c0": c0, "c1": c1,
                "r0abs": bool(sb.begin_row_is_absolute), "r1abs": bool(sb.end_row_is_absolute),
                "c0abs": bool(sb.begin_column_is_absolute), "c1abs": bool(sb.end_column_is_absolute)}
    raise Unsupported(name)


def stored_tree(nodes, host, fmap):
    """post-fix node list -> tree in the vocabulary of c08's `parse_text` (num / ref / bin / paren / call)."""
    stack = []
    for node in nodes:
        name = _type_name(node)
        if name == "NUMBER_NODE":
            stack.append(("num", Decimal(repr(node.AST_number_node_number)).normalize() + 0))
        elif name == "CELL_REFERENCE_NODE":
            if node.HasField("AST_cross_table_reference_extra_info"):
                raise Unsupported("cross-table")
            r, ra, c, ca = decode_cell_ref(node, host)
            if r < 0 or c < 0:
                raise Unsupported("reference outside the table")
            stack.append(("ref", a1(r, c, ra, ca)))
        elif name in NODE_OP:
            if len(stack) < 2:
                raise Unsupported("stack underflow")
            rhs = stack.pop()
            lhs = stack.pop()
            stack.append(("bin", NODE_OP[name], lhs, rhs))
        elif name == "FUNCTION_NODE":
            n = node.AST_function_node_numArgs
            if len(stack) < n or node.AST_function_node_index not in fmap:
                raise Unsupported("function")
            args = stack[len(stack) - n:] if n else []
            del stack[len(stack) - n:]
            stack.append(("call", fmap[node.AST_function_node_index], args))
        elif name == "LIST_NODE":
            n = node.AST_list_node_numArgs
            if len(stack) < n:
                raise Unsupported("list")
            args = stack[len(stack) - n:] if n else []
            del stack[len(stack) - n:]
            stack.append(("paren", args))
        else:
            raise Unsupported(name)
    if len(stack) != 1:
        raise Unsupported("not one expression")
    return stack[0]


def norm_num(t):
    """numbers compare by value (Decimal('2') == Decimal('2.0') already holds; kept for clarity)."""
    return t


class TempDir:
    def __enter__(self):
        self.d = tempfile.mkdtemp(prefix="verif_fdoc_")
        return self.d

    def __exit__(self, *a):
        shutil.rmtree(self.d, ignore_errors=True)
