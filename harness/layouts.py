"""Meaning-preserving rewrites of a Numbers package (C06) and the whole-document dump they are compared with.

A `Package` is the flat, ordered list of members the library's `IWork` reader sees (`Index/…​.iwa`,
`Metadata/…`, `Data/…`, previews), whichever container form it came from.  Every transformation below
returns a *new* package that carries the same document objects and differs only in storage layout:

  (a) perm_datalists   entries of every `TST.TableDataList` (strings, formats, styles, formulas, rich text,
                       control specs, comments …) permuted: reverse / rotate / seeded shuffle
  (b) rechunk          the snappy framing of every `.iwa` member re-cut at other boundaries
  (c) member order / zip compression method (reverse, sorted, seeded shuffle; stored vs deflated)
  (d) single file <-> package folder (`Index.zip` inside a `.numbers` directory)
  (e) flip_offsets     per row-info: 4-byte-unit ("wide") offsets <-> byte ("narrow") offsets where every offset
                       is representable in the other encoding
  (f) add_empty_headers  explicit header records (HeaderStorageBucket.Header with numberOfCells = 0) for a subset of
                       the rows that have no row-info;   drop_empty_headers is the inverse
  (0) reserialise      parse every archive with the library's own classes and write it back unchanged (baseline)

Archives are parsed and written with the library's own `IWAFile.from_buffer` / `to_buffer` and protobuf classes.
"""
from __future__ import annotations

import os
import random
import re
import struct
import zipfile
from array import array
from pathlib import Path

import common  # noqa: F401  (puts $VERIF_REPO/src first on sys.path)

MAX_TILE = 256


# ---------------------------------------------------------------------------------------------
# container forms
# ---------------------------------------------------------------------------------------------
class Package:
    def __init__(self, members: list[tuple[str, bytes]], was_folder: bool = False):
        self.members = list(members)
        self.was_folder = was_folder

    # -- reading ---------------------------------------------------------------------------
    @classmethod
    def load(cls, path) -> "Package":
        path = Path(path)
        members: list[tuple[str, bytes]] = []

        def from_zip(zf: zipfile.ZipFile):
            for n in zf.namelist():
                if n.endswith("/"):
                    continue
                blob = zf.read(n)
                if n.lower().endswith("index.zip"):
                    import io
                    from_zip(zipfile.ZipFile(io.BytesIO(blob)))
                else:
                    members.append((n, blob))

        if path.is_dir():
            for root, dirs, files in os.walk(path):
                dirs.sort()
                for f in sorted(files):
                    full = Path(root) / f
                    rel = str(full.relative_to(path))
                    if f.lower() == "index.zip":
                        from_zip(zipfile.ZipFile(full))
                    else:
                        members.append((rel, full.read_bytes()))
            return cls(members, True)
        from_zip(zipfile.ZipFile(path))
        return cls(members, False)

    def copy(self) -> "Package":
        return Package(self.members, self.was_folder)

    # -- writing ---------------------------------------------------------------------------
    def write_zip(self, path, compression=zipfile.ZIP_STORED) -> str:
        with zipfile.ZipFile(path, "w", compression=compression) as zf:
            for n, b in self.members:
                zf.writestr(n, b)
        return str(path)

    def write_folder(self, path, compression=zipfile.ZIP_STORED) -> str:
        """Package-folder form: `.iwa` members inside `Index.zip`, everything else as plain files."""
        path = Path(path)
        path.mkdir()
        with zipfile.ZipFile(path / "Index.zip", "w", compression=compression) as zf:
            for n, b in self.members:
                if n.endswith(".iwa"):
                    zf.writestr(n, b)
        for n, b in self.members:
            if not n.endswith(".iwa"):
                # a zipped package folder ('mac.numbers/Metadata/…') keeps its directory prefix in member names
                f = path / re.sub(r"^[^/]*\.numbers/", "", n)
                f.parent.mkdir(parents=True, exist_ok=True)
                f.write_bytes(b)
        return str(path)

    # -- archives --------------------------------------------------------------------------
    def parsed(self) -> "ParsedPackage":
        return ParsedPackage(self)


class ParsedPackage:
    """All `.iwa` members parsed with the library's classes; `objects` maps identifier -> first message."""

    def __init__(self, pkg: Package):
        from numbers_parser.iwafile import IWAFile, is_iwa_file
        self.pkg = pkg
        self.files: dict[str, object] = {}
        self.objects: dict[int, object] = {}
        self.where: dict[int, str] = {}
        for n, b in pkg.members:
            if n.endswith(".iwa") and is_iwa_file(b):
                f = IWAFile.from_buffer(b, n)
                self.files[n] = f
                for a in f.chunks[0].archives:
                    self.objects[a.header.identifier] = a.objects[0]
                    self.where[a.header.identifier] = n

    def of_type(self, name: str):
        return [(i, o) for i, o in self.objects.items() if type(o).__name__ == name]

    def tables(self):
        return self.of_type("TableModelArchive")

    def build(self, only: set | None = None) -> Package:
        out = []
        for n, b in self.pkg.members:
            if n in self.files and (only is None or n in only):
                out.append((n, self.files[n].to_buffer()))
            else:
                out.append((n, b))
        return Package(out, self.pkg.was_folder)


# ---------------------------------------------------------------------------------------------
# (0) baseline, (b) chunking
# ---------------------------------------------------------------------------------------------
def reserialise(pkg: Package) -> Package:
    return pkg.parsed().build()


def iwa_uncompressed(blob: bytes) -> bytes:
    """Own reading of the IWA framing (0x00, 3-byte little-endian length, snappy block), independent of iwafile.py."""
    import snappy
    out, pos = [], 0
    while pos < len(blob):
        if blob[pos] != 0:
            raise ValueError("IWA block does not start with 0x00")
        ln = blob[pos + 1] | (blob[pos + 2] << 8) | (blob[pos + 3] << 16)
        out.append(snappy.uncompress(blob[pos + 4:pos + 4 + ln]))
        pos += 4 + ln
    return b"".join(out)


def iwa_compress(raw: bytes, cuts: list[int]) -> bytes:
    """Frame `raw` as snappy blocks cut at the given ascending positions (each block non-empty)."""
    import snappy
    out = []
    pos = [0] + [c for c in cuts if 0 < c < len(raw)] + [len(raw)]
    for a, b in zip(pos, pos[1:]):
        if a == b:
            continue
        payload = snappy.compress(raw[a:b])
        assert len(payload) < 1 << 24
        out.append(b"\x00" + struct.pack("<I", len(payload))[:3] + payload)
    return b"".join(out)


def rechunk(pkg: Package, mode: str, rng: random.Random) -> Package:
    from numbers_parser.iwafile import is_iwa_file
    out = []
    for n, b in pkg.members:
        if n.endswith(".iwa") and is_iwa_file(b) and b:
            raw = iwa_uncompressed(b)
            if mode == "one":  # a single block (real files cut at 64 KiB)
                cuts = [] if len(raw) < (1 << 23) else list(range(1 << 22, len(raw), 1 << 22))
            elif mode == "tiny":  # first bytes one by one, then 7-byte blocks up to 400 bytes, then 64 KiB
                cuts = list(range(1, min(len(raw), 12))) + list(range(12, min(len(raw), 400), 7)) + \
                    list(range(400, len(raw), 65536))
            elif mode == "4k":
                cuts = list(range(4096, len(raw), 4096))
            else:  # seeded random cuts
                k = rng.randrange(1, 9)
                cuts = sorted({rng.randrange(1, max(2, len(raw))) for _ in range(k)})
                # never exceed what a 3-byte length can frame
                extra = []
                prev = 0
                for c in cuts + [len(raw)]:
                    while c - prev > (1 << 22):
                        prev += 1 << 22
                        extra.append(prev)
                    prev = c
                cuts = sorted(set(cuts + extra))
            nb = iwa_compress(raw, cuts)
            assert iwa_uncompressed(nb) == raw
            out.append((n, nb))
        else:
            out.append((n, b))
    return Package(out, pkg.was_folder)


# ---------------------------------------------------------------------------------------------
# (c) member order
# ---------------------------------------------------------------------------------------------
def reorder(pkg: Package, mode: str, rng: random.Random) -> Package:
    m = list(pkg.members)
    if mode == "reverse":
        m.reverse()
    elif mode == "sorted":
        m.sort(key=lambda x: x[0])
    else:
        rng.shuffle(m)
    return Package(m, pkg.was_folder)


# ---------------------------------------------------------------------------------------------
# (a) lookup lists
# ---------------------------------------------------------------------------------------------
def permute(seq: list, mode: str, rng: random.Random) -> list:
    s = list(seq)
    if mode == "reverse":
        s.reverse()
    elif mode == "rotate":
        if len(s) > 1:
            k = 1 + rng.randrange(len(s) - 1)
            s = s[k:] + s[:k]
    elif mode == "swap-first-two":
        if len(s) > 1:
            s[0], s[1] = s[1], s[0]
    elif mode != "identity":
        rng.shuffle(s)
    return s


def datalist_stats(pp: ParsedPackage) -> dict:
    lists = pp.of_type("TableDataList")
    return {"lists": len(lists), "multi": sum(1 for _, d in lists if len(d.entries) > 1),
            "ascending": sum(1 for _, d in lists if [e.key for e in d.entries] == sorted(e.key for e in d.entries)),
            "dup_keys": sum(1 for _, d in lists if len({e.key for e in d.entries}) != len(d.entries))}


def perm_datalists(pkg: Package, mode: str, rng: random.Random, only_list_type: int | None = None) -> tuple[Package, int]:
    """Permute the entries of every TableDataList whose keys are pairwise distinct. Returns (package, lists changed)."""
    from numbers_parser.generated import TSTArchives_pb2 as TST
    pp = pkg.parsed()
    changed = set()
    for i, dl in pp.of_type("TableDataList"):
        if only_list_type is not None and dl.listType != only_list_type:
            continue
        entries = [TST.TableDataList.ListEntry.FromString(e.SerializeToString()) for e in dl.entries]
        if len(entries) < 2 or len({e.key for e in entries}) != len(entries):
            continue
        new = permute(entries, mode, rng)
        if [e.key for e in new] == [e.key for e in entries]:
            continue
        del dl.entries[:]
        for e in new:
            dl.entries.append(e)
        changed.add(pp.where[i])
    return pp.build(changed), len(changed)


# ---------------------------------------------------------------------------------------------
# (e) narrow <-> wide offsets
# ---------------------------------------------------------------------------------------------
def flip_offsets(pkg: Package, mode: str, rng: random.Random) -> tuple[Package, int]:
    """mode: 'all' flips every row-info that can be flipped, 'some' a seeded half, 'narrow'/'wide' only towards that form."""
    pp = pkg.parsed()
    changed, n = set(), 0
    for i, tile in pp.of_type("Tile"):
        for r in tile.rowInfos:
            if len(r.cell_offsets) % 2:
                continue
            offs = array("h", r.cell_offsets).tolist()
            if mode == "some" and rng.random() < 0.5:
                continue
            if r.has_wide_offsets:
                if mode == "wide" or not all(o < 0 or o * 4 <= 32767 for o in offs):
                    continue
                new = [o * 4 if o >= 0 else -1 for o in offs]
                r.has_wide_offsets = False
            else:
                if mode == "narrow" or not all(o < 0 or o % 4 == 0 for o in offs):
                    continue
                new = [o // 4 if o >= 0 else -1 for o in offs]
                r.has_wide_offsets = True
            r.cell_offsets = struct.pack(f"<{len(new)}h", *new)
            n += 1
            changed.add(pp.where[i])
    return pp.build(changed), n


# ---------------------------------------------------------------------------------------------
# (f) header records of empty rows
# ---------------------------------------------------------------------------------------------
def table_row_facts(pp: ParsedPackage, tm) -> dict:
    """Declared row indices of the row-infos of a table, its header indices, its empty rows."""
    bds = tm.base_data_store
    ts = bds.tiles.tile_size or MAX_TILE
    declared = []
    for t in bds.tiles.tiles:
        tile = pp.objects.get(t.tile.identifier)
        if tile is None:
            continue
        for r in tile.rowInfos:
            declared.append(t.tileid * ts + r.tile_row_index)
    headers = []
    buckets = [pp.objects.get(b.identifier) for b in bds.rowHeaders.buckets]
    for b in buckets:
        if b is not None:
            headers += [h.index for h in b.headers]
    n = tm.number_of_rows
    empty = [r for r in range(n) if r not in set(declared)]
    return {"rows": n, "declared": declared, "headers": headers, "empty": empty,
            "empty_without_header": [r for r in empty if r not in set(headers)],
            "empty_with_header": [r for r in empty if r in set(headers)], "buckets": buckets, "tile_size": bds.tiles.tile_size}


def add_empty_headers(pkg: Package, mode: str, rng: random.Random) -> tuple[Package, list]:
    """Give a subset of the rows that have neither row-info nor header record an explicit, cell-less header record.
    mode: 'all' | 'first' | 'last' | 'random'. The record is inserted at its sorted position ('…-append': at the end)."""
    from numbers_parser.generated import TSTArchives_pb2 as TST
    pp = pkg.parsed()
    changed, done = set(), []
    for tid, tm in pp.tables():
        f = table_row_facts(pp, tm)
        cand = f["empty_without_header"]
        if not cand or not f["buckets"] or f["buckets"][0] is None:
            continue
        base = mode.split("-")[0]
        pick = {"all": cand, "first": cand[:1], "last": cand[-1:]}.get(base)
        if pick is None:
            pick = [r for r in cand if rng.random() < 0.5] or cand[:1]
        bucket = f["buckets"][0]
        hs = [TST.HeaderStorageBucket.Header.FromString(h.SerializeToString()) for h in bucket.headers]
        for r in pick:
            hs.append(TST.HeaderStorageBucket.Header(index=r, numberOfCells=0, size=0.0, hidingState=0))
        if not mode.endswith("-append"):
            hs.sort(key=lambda h: h.index)
        del bucket.headers[:]
        for h in hs:
            bucket.headers.append(h)
        bid = tm.base_data_store.rowHeaders.buckets[0].identifier
        changed.add(pp.where[bid])
        done.append({"table_id": tid, "rows": pick})
    return pp.build(changed), done


def drop_empty_headers(pkg: Package) -> tuple[Package, list]:
    """Remove the header records of rows that have no row-info (the inverse of add_empty_headers)."""
    pp = pkg.parsed()
    changed, done = set(), []
    for tid, tm in pp.tables():
        f = table_row_facts(pp, tm)
        drop = set(f["empty_with_header"])
        if not drop:
            continue
        for ref, bucket in zip(tm.base_data_store.rowHeaders.buckets, f["buckets"]):
            if bucket is None:
                continue
            keep = [type(h).FromString(h.SerializeToString()) for h in bucket.headers if h.index not in drop]
            if len(keep) != len(bucket.headers):
                del bucket.headers[:]
                for h in keep:
                    bucket.headers.append(h)
                changed.add(pp.where[ref.identifier])
        done.append({"table_id": tid, "rows": sorted(drop)})
    return pp.build(changed), done


# ---------------------------------------------------------------------------------------------
# the catalogue
# ---------------------------------------------------------------------------------------------
def catalogue(thorough: bool = False) -> list[tuple[str, dict]]:
    """(name, params) of every single transformation; `apply` interprets them."""
    cat = [("reserialise", {})]
    for m in ("reverse", "rotate", "swap-first-two", "random", "random", "random"):
        cat.append(("perm_datalists", {"mode": m}))
    for m in ("one", "tiny", "4k", "random"):
        cat.append(("rechunk", {"mode": m}))
    for m in ("reverse", "sorted", "random"):
        cat.append(("reorder", {"mode": m}))
    cat.append(("deflate", {}))
    cat.append(("container", {}))  # the other container form
    for m in ("all", "some"):
        cat.append(("flip_offsets", {"mode": m}))
    for m in ("all", "first", "last", "random", "all-append"):
        cat.append(("add_empty_headers", {"mode": m}))
    cat.append(("drop_empty_headers", {}))
    return cat


def apply(pkg: Package, name: str, params: dict, seed: int) -> tuple[Package, dict, bool]:
    """Returns (package, write options, applicable).  `seed` makes the random variants replayable."""
    rng = random.Random(seed)
    opts = {"folder": pkg.was_folder, "deflate": False}
    if name == "reserialise":
        return reserialise(pkg), opts, True
    if name == "perm_datalists":
        p, n = perm_datalists(pkg, params["mode"], rng, params.get("list_type"))
        return p, opts, n > 0
    if name == "rechunk":
        return rechunk(pkg, params["mode"], rng), opts, True
    if name == "reorder":
        return reorder(pkg, params["mode"], rng), opts, True
    if name == "deflate":
        return pkg.copy(), {**opts, "deflate": True}, True
    if name == "container":
        return pkg.copy(), {**opts, "folder": not pkg.was_folder}, True
    if name == "flip_offsets":
        p, n = flip_offsets(pkg, params["mode"], rng)
        return p, opts, n > 0
    if name == "add_empty_headers":
        p, done = add_empty_headers(pkg, params["mode"], rng)
        return p, opts, bool(done)
    if name == "drop_empty_headers":
        p, done = drop_empty_headers(pkg)
        return p, opts, bool(done)
    raise ValueError(name)


def write(pkg: Package, opts: dict, directory: str, stem: str = "variant") -> str:
    path = os.path.join(directory, stem + ".numbers")
    comp = zipfile.ZIP_DEFLATED if opts.get("deflate") else zipfile.ZIP_STORED
    if opts.get("folder"):
        return pkg.write_folder(path, comp)
    return pkg.write_zip(path, comp)


# ---------------------------------------------------------------------------------------------
# whole-document dump (what the property observes: sheets, tables, per cell type/value/formula/formatted value)
# ---------------------------------------------------------------------------------------------
def _quiet():
    import warnings
    warnings.simplefilter("ignore")
    warnings.showwarning = lambda *a, **k: None


def dump_document(path) -> list:
    """[('S', sheet)…, ('T', sheet, table, rows, cols), ('C', sheet, table, row, col, type, repr(value), formula, formatted)…].
    A reader exception inside one accessor is part of the dump ('EXC:<class>'), so the dump is total."""
    _quiet()
    from numbers_parser import Document
    from numbers_parser.model import DataLists
    fallbacks = [0]
    real_lookup = DataLists.lookup_value

    def counting_lookup(self, table_id, key):
        try:
            return real_lookup(self, table_id, key)
        except KeyError:
            fallbacks[0] += 1  # a key no entry carries: table_string turns this into ''
            raise

    def grab(f):
        try:
            return f()
        except Exception as e:  # noqa: BLE001
            return "EXC:" + type(e).__name__
    DataLists.lookup_value = counting_lookup
    try:
        doc = Document(path)
        out = []
        for s in doc.sheets:
            out.append(("S", s.name))
            for t in s.tables:
                out.append(("T", s.name, t.name, t.num_rows, t.num_cols, t.num_header_rows, t.num_header_cols))
                for r, row in enumerate(t.rows()):
                    for c, cell in enumerate(row):
                        out.append(("C", s.name, t.name, r, c, type(cell).__name__, grab(lambda: repr(cell.value)),
                                    grab(lambda: cell.formula), grab(lambda: cell.formatted_value)))
        out.append(("K", "lookups of a key that no entry carries", fallbacks[0]))
    finally:
        DataLists.lookup_value = real_lookup
    return out


def first_difference(a: list, b: list):
    for i, (x, y) in enumerate(zip(a, b)):
        if x != y:
            return i, x, y
    if len(a) != len(b):
        i = min(len(a), len(b))
        return i, (a[i] if i < len(a) else None), (b[i] if i < len(b) else None)
    return None


def count_differences(a: list, b: list) -> int:
    return sum(1 for x, y in zip(a, b) if x != y) + abs(len(a) - len(b))
