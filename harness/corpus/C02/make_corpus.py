"""Regenerate the library-written input documents of C02 (run once on a tree where the checks are silent).

Documents written by the library differ from documents written by Numbers in ways the reader has to cope with (merged
regions only in the region map, one string table per table, wide offsets, library-created styles / custom formats).
C02 quantifies over *opened* documents, so these are kept as files: a save defect of the tree under test cannot alter
the input they provide.   usage: /venv/bin/python harness/corpus/C02/make_corpus.py
"""
import sys
import warnings
from datetime import datetime, timedelta
from pathlib import Path

sys.path.insert(0, str(Path(__file__).resolve().parents[2]))
import common  # noqa: F401,E402  (puts the repo on sys.path)

warnings.simplefilter("ignore")
HERE = Path(__file__).resolve().parent


def multi():
    from numbers_parser import RGB, Border, Document
    doc = Document(num_rows=6, num_cols=5)
    t1 = doc.sheets[0].tables[0]
    for r in range(6):
        for c in range(5):
            t1.write(r, c, [f"t{r}{c}", r * 1.5 + c, r % 2 == 0, datetime(2020 + r, 1 + c, 3), timedelta(hours=r, minutes=c)][(r + c) % 5])
    t1.merge_cells("B2:C3")
    t2 = doc.sheets[0].add_table("Second", num_rows=7, num_cols=4)
    for r in range(7):
        for c in range(4):
            t2.write(r, c, f"s{r}{c}")
    t2.merge_cells(["A2:B3", "D4:D6", "B6:C6"])
    t3 = doc.sheets[0].add_table("Third", num_rows=4, num_cols=4)
    t3.write(1, 1, 12.5)
    t3.merge_cells("C1:D2")
    doc.add_sheet("Other", "Far", num_rows=5, num_cols=5)
    t4 = doc.sheets[1].tables[0]
    t4.write(0, 0, "head")
    t4.merge_cells(["A2:A4", "C3:E3"])
    st = doc.add_style(name="Corpus Red", font_color=RGB(200, 10, 10), bold=True, bg_color=RGB(240, 240, 200))
    t2.set_cell_style(0, 0, st)
    t4.set_cell_style(4, 4, st)
    t2.set_cell_border(1, 2, "top", Border(2.0, RGB(0, 0, 255), "solid"))
    t3.set_cell_formatting(1, 1, "currency", currency_code="GBP", decimal_places=1)
    t4.write(4, 0, 0.25)
    t4.set_cell_formatting(4, 0, "percentage", decimal_places=1)
    doc.save(HERE / "lib-multi-table-merges.numbers")


def tall():
    from numbers_parser import Document
    doc = Document(num_rows=3, num_cols=3)
    t1 = doc.sheets[0].tables[0]
    t1.write(0, 0, "a")
    t2 = doc.sheets[0].add_table("Tall", num_rows=520, num_cols=3)
    for r in (0, 255, 256, 300, 511, 519):
        t2.write(r, 1, f"row {r}")
        t2.write(r, 2, r / 8)
    t2.merge_cells(["A256:A258", "B301:C302"])
    doc.save(HERE / "lib-tall-second-table.numbers")


if __name__ == "__main__":
    multi()
    tall()
    print(sorted(p.name for p in HERE.glob("*.numbers")))
