"""Shared pieces of the C03 / C12 checks: value tokens, table observation, the plain reference
grid (the oracle, independent of the Lean model), and application of an abstract operation to a
real `numbers_parser` table.

An operation is a tuple
    ("w", r, c, tok) | ("ar", n, start, dflt) | ("ac", n, start, dflt) | ("dr", n, start) | ("dc", n, start)
with `start` / `dflt` possibly None; `tok` is a value token (0 = empty cell).
"""
from __future__ import annotations

from datetime import datetime, timedelta

MAX_ROWS = 1_000_000
MAX_COLS = 1_000

# value palette: token -> Python value (all survive save/reopen exactly; that is C01's business)
PALETTE = {
    1: "a", 2: 7, 3: 2.5, 4: True, 5: datetime(2020, 1, 2, 3, 4, 5), 6: timedelta(hours=3, seconds=5),
    7: False, 8: -3, 9: "ß✓ x", 10: "b", 11: 12345, 12: 0.125,
}


class Tokens:
    """value <-> token; unknown values (loaded documents) get fresh tokens."""

    def __init__(self):
        self.by_key = {self.key(v): t for t, v in PALETTE.items()}
        self.next = 100

    @staticmethod
    def key(v):
        if v is None:
            return None
        if isinstance(v, bool):
            return ("b", v)
        if isinstance(v, (int, float)):
            return ("n", float(v))
        if isinstance(v, str):
            return ("s", v)
        if isinstance(v, datetime):
            return ("d", v.replace(tzinfo=None).isoformat())
        if isinstance(v, timedelta):
            return ("t", v.total_seconds())
        return ("o", type(v).__name__, repr(v))

    def tok(self, v) -> int:
        k = self.key(v)
        if k is None:
            return 0
        if k not in self.by_key:
            self.by_key[k] = self.next
            self.next += 1
        return self.by_key[k]

    @staticmethod
    def value(tok: int):
        return PALETTE[tok]


def observe(table, tokens: Tokens) -> tuple[int, int, list[list[tuple[int, int, int]]]]:
    """(num_rows, num_cols, [[(tok, cell.row, cell.col)]]) through the public API only."""
    values = table.rows(values_only=True)
    cells = table.rows()
    grid = []
    for vr, cr in zip(values, cells):
        row = [(tokens.tok(v), c.row, c.col) for v, c in zip(vr, cr)]
        # the two views must have the same shape: what one of them has beyond the other is kept, at position (-1, -1), so that
        # `well_formed` sees it (values without a cell, cells without a value)
        row += [(tokens.tok(v), -1, -1) for v in vr[len(cr):]] + [(tokens.tok(c.value), -1, -1) for c in cr[len(vr):]]
        grid.append(row)
    for vr in values[len(cells):]:
        grid.append([(tokens.tok(v), -1, -1) for v in vr])
    for cr in cells[len(values):]:
        grid.append([(tokens.tok(c.value), -1, -1) for c in cr])
    # values_only must also agree with the cells' own values
    for r, (vr, cr) in enumerate(zip(values, cells)):
        for c, (v, cell) in enumerate(zip(vr, cr)):
            if tokens.tok(v) != tokens.tok(cell.value):
                grid[r][c] = (grid[r][c][0], -2, -2)
    return table.num_rows, table.num_cols, grid


def show_obs(o) -> str:
    nr, nc, grid = o
    rows = []
    for r, row in enumerate(grid):
        rows.append(",".join(str(t) if (cr, cc) == (r, c) else f"{t}@{cr}.{cc}" for c, (t, cr, cc) in enumerate(row)))
    return f"{nr},{nc}:" + "/".join(rows)


def well_formed(o) -> str | None:
    nr, nc, grid = o
    if len(grid) != nr:
        return f"num_rows={nr} but {len(grid)} rows of data"
    for r, row in enumerate(grid):
        if len(row) != nc:
            return f"num_cols={nc} but row {r} has {len(row)} cells"
        for c, (_, cr, cc) in enumerate(row):
            if (cr, cc) != (r, c):
                return f"cell at ({r},{c}) reports ({cr},{cc})"
    return None


def apply_op(table, op):
    """run one operation on the real table (raises whatever the library raises)."""
    k = op[0]
    if k == "w":
        table.write(op[1], op[2], Tokens.value(op[3]))
    elif k == "ar":
        table.add_row(op[1], op[2], None if op[3] is None else Tokens.value(op[3]))
    elif k == "ac":
        table.add_column(op[1], op[2], None if op[3] is None else Tokens.value(op[3]))
    elif k == "dr":
        table.delete_row(op[1], op[2])
    elif k == "dc":
        table.delete_column(op[1], op[2])
    else:
        raise AssertionError(op)


def enc_opt(x) -> str:
    return "N" if x is None else str(x)


def enc_op(op, t: int) -> str:
    k = op[0]
    if k == "w":
        return f"w {t} {op[1]} {op[2]} {op[3]}"
    if k in ("ar", "ac"):
        return f"{k} {t} {op[1]} {enc_opt(op[2])} {enc_opt(op[3])}"
    return f"{k} {t} {op[1]} {enc_opt(op[2])}"


class RefGrid:
    """The plain two-dimensional grid of the property, with the same edits applied.

    `classify(op)` says whether a plain grid can take the edit at all:
      "valid"    the edit is meaningful -> the table must perform it
      "boundary" a plain grid could go either way (nothing to add; nothing would be left): the
                 table may refuse (unchanged) or perform it
      "invalid"  no plain-grid meaning (negative counts, ranges past the end, index out of range,
                 negative or over-limit coordinates): the table must refuse, unchanged
    """

    def __init__(self, nr: int, nc: int, cells=None):
        self.nr, self.nc = nr, nc
        self.cells = [[0] * nc for _ in range(nr)] if cells is None else [list(r) for r in cells]

    def copy(self):
        return RefGrid(self.nr, self.nc, self.cells)

    def classify(self, op) -> str:
        k = op[0]
        if k == "w":
            _, r, c, _ = op
            return "valid" if 0 <= r < MAX_ROWS and 0 <= c < MAX_COLS else "invalid"
        n, start = op[1], op[2]
        dim = self.nr if k in ("ar", "dr") else self.nc
        if n < 0 or (start is not None and not 0 <= start < dim):
            return "invalid"
        if k in ("ar", "ac"):
            return "valid" if n > 0 else "boundary"
        first = dim - n if start is None else start
        if first < 0 or first + n > dim:
            return "invalid"
        if n == 0 or n == dim:
            return "boundary"
        return "valid"

    def apply(self, op):
        k = op[0]
        if k == "w":
            _, r, c, t = op
            while self.nr <= r:
                self.cells.append([0] * self.nc)
                self.nr += 1
            if self.nc <= c:
                for row in self.cells:
                    row.extend([0] * (c + 1 - self.nc))
                self.nc = c + 1
            self.cells[r][c] = t
            return
        n, start = op[1], op[2]
        if k == "ar":
            at = self.nr if start is None else start
            fill = 0 if op[3] is None else op[3]
            self.cells[at:at] = [[fill] * self.nc for _ in range(n)]
            self.nr += n
        elif k == "ac":
            at = self.nc if start is None else start
            fill = 0 if op[3] is None else op[3]
            for row in self.cells:
                row[at:at] = [fill] * n
            self.nc += n
        elif k == "dr":
            at = self.nr - n if start is None else start
            del self.cells[at:at + n]
            self.nr -= n
        elif k == "dc":
            at = self.nc - n if start is None else start
            for row in self.cells:
                del row[at:at + n]
            self.nc -= n

    def matches(self, o) -> bool:
        nr, nc, grid = o
        return (nr, nc) == (self.nr, self.nc) and [[t for t, _, _ in row] for row in grid] == self.cells

    def show(self) -> str:
        return f"{self.nr},{self.nc}:" + "/".join(",".join(map(str, r)) for r in self.cells)
