"""Per-property MANIFEST texts. Edited by hand as checks are built."""
HOOK_COMMITS: list[str] = []

_PENDING = "check not built yet in this working session (planned in DESIGN.md section 6); not claimed until its model, theorems and correspondence exist"
NOT_APPLICABLE = {f"C{i:02d}": _PENDING for i in range(1, 21)}

CHECKS = {
    "C10": {
        "text": "Full: every clause of the property is a Lean theorem about a model of xl_col_to_name / xl_rowcol_to_cell / "
                "xl_range / xl_cell_to_rowcol / xl_col_to_offset / tokenizer col_to_index, for ALL rows and columns (no bound): "
                "col_roundtrip, name_roundtrip (bijection N <-> non-empty A..Z words), col_strict_mono (short-lex order), "
                "cell_roundtrip (all four $ combinations, columns <= ZZZ), cell_name_injective, range_collapses_iff, "
                "negative_rejected. The model is tied to the code by exhaustive correspondence over all 18278 columns, all "
                "names, all short strings for the regex scanners, and (thorough) all 1,000,001 rows.",
        "note": "Python `re` is replaced by a hand scanner (equivalence exercised exhaustively on strings of length <= 4/5 over "
                "a 9-symbol alphabet + every Unicode digit block); float division int((col-1)/26) is modelled as integer division "
                "(agreement checked on all columns reachable by 3-letter names and some larger).",
        "technique": "Lean 4 proof (induction, omega/nlinarith) + exhaustive differential correspondence",
    },
}
