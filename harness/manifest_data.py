"""Per-property MANIFEST texts. Edited by hand as checks are built."""
HOOK_COMMITS: list[str] = []

_PENDING = "check not built yet in this working session (planned in DESIGN.md section 6); not claimed until its model, theorems and correspondence exist"
NOT_APPLICABLE = {f"C{i:02d}": _PENDING for i in range(1, 21)}

CHECKS = {
}
