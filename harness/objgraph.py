"""Recorder of the object-graph operations a real editing + save session performs (C07).

No source change: the functions through which the library creates objects and writes references are wrapped
in-process.  While a recorder is attached to an `ObjectStore`, every call of

    ObjectStore.create_object_from_dict          -> op  C  (archive file pattern, append flag, references in the dict)
    _NumbersModel.add_component_metadata         -> op  M  (component appended + external reference in the parent)
    _NumbersModel.add_component_reference        -> op  E  (direct calls only; the one inside add_component_metadata is part of M)
    ObjectStore.update_object_file_store         -> op  U  (header object_references recomputed from the messages)
    _NumbersModel.store_image / file_store[...]  -> op  B  (a non-IWA blob added to the file store)

is appended to the history, and reference writes (set_reference, `x.MergeFrom(Reference(..))`, `repeated.append(Reference(..))`,
`.identifier = n`, ClearField, clear_field_container, CopyFrom — the sites in model.py are listed in WRITE_SITES) are
observed at the *observation points* (entry of create_object_from_dict, entry of update_object_file_store, end of
the session): the reference list of every stored object (decoded by validator.all_references — an own walk,
independent of iwafile.find_references) is compared with the list at the previous observation point and the
difference is emitted as  A obj target  (a reference to `target` appeared in object `obj`)  /  X obj target  (one
disappeared).  The site labels come from the wrapped methods active at that moment.  The order of the history is therefore
the real order at the granularity that matters for `TargetsExist`: a reference written *before* its target is created
is emitted before the C op of the target.

`TargetsExist` is evaluated here, on the real store, at the moment each op is emitted (independent of the Lean model).
"""
from __future__ import annotations

import validator as V
from common import enc_text, exc_name

# methods of _NumbersModel that write references inline (found by grepping model.py for `.identifier =`, `Reference(`,
# `set_reference`, `.append(TSPMessages.Reference`, `MergeFrom`, `CopyFrom`, `ClearField`, `clear_field_container`);
# wrapped only to label the A/X ops observed while they are active
WRITE_SITES = [
    "set_reference", "create_caption_archive", "caption_text", "create_popup_menu", "control_cell_archive", "init_table_strings",
    "add_cell_record", "recalculate_row_headers", "recalculate_column_headers", "recalculate_merged_cells",
    "recalculate_table_data", "create_string_table", "create_drawable", "add_table", "add_formula_owner", "add_sheet",
    "add_paragraph_style", "update_paragraph_style", "update_paragraph_styles", "add_cell_style", "update_cell_styles",
    "update_cell_style", "add_custom_decimal_format_archive", "add_custom_datetime_format_archive", "add_custom_text_format_archive",
    "add_stroke", "add_strokes", "store_image", "cell_image", "table_format_id", "add_format", "caption_enabled", "caption",
    "table_name", "sheet_name", "add_custom_format_archive", "cell_popup_model", "update_cell_style",
]

# sites observed on entry and exit (few calls per session), so that the A/X ops they cause carry their own label
FLUSH_SITES = {"set_reference", "add_table", "add_sheet", "create_caption_archive", "add_paragraph_style", "add_cell_style",
               "add_formula_owner", "recalculate_merged_cells", "add_stroke"}

_installed = False


def refs_of(msg) -> list[int]:
    return V.all_references(msg)


_HOLDS_REFS: dict = {}


def can_hold_references(desc) -> bool:
    """whether a TSP.Reference is reachable in the field graph of a message type (extensions count as reachable)"""
    key = desc.full_name
    if key in _HOLDS_REFS:
        return _HOLDS_REFS[key]
    seen, todo, found = set(), [desc], False
    while todo and not found:
        d = todo.pop()
        if d.full_name in seen:
            continue
        seen.add(d.full_name)
        if d.full_name == "TSP.Reference" or d.is_extendable:
            found = True
            break
        for f in d.fields:
            if f.message_type is not None:
                todo.append(f.message_type)
    _HOLDS_REFS[key] = found
    return found


def _digest(msg):
    """change detector for one message; messages whose type cannot hold a reference are never re-read"""
    try:
        if not can_hold_references(msg.DESCRIPTOR):
            return 0
        return hash(msg.SerializePartialToString())
    except Exception:  # noqa: BLE001
        return None


def dict_refs(d) -> list[int]:
    """identifiers of the references a creation dict carries: a sub-dict whose only key is `identifier`."""
    out = []

    def walk(x):
        if isinstance(x, dict):
            if set(x.keys()) == {"identifier"}:
                out.append(int(x["identifier"]))
                return
            for k, v in x.items():
                if k != "_pbtype":
                    walk(v)
        elif isinstance(x, (list, tuple)):
            for v in x:
                walk(v)
    walk(d)
    return out


class Recorder:
    def __init__(self, store):
        from numbers_parser.iwafile import IWAFile
        self.IWAFile = IWAFile
        self.store = store
        self.ops: list[tuple] = []
        self.sites: list[str] = []
        self.in_meta = 0
        self.shadow: dict[int, list[int]] = {}
        self.digest: dict[int, bytes] = {}
        self.known_files: set[str] = set(store._file_store)
        self.bad_targets: list[dict] = []      # TargetsExist failures: op index, object, target, site
        self.unwrapped: list[str] = []         # objects / files that appeared without a wrapped call
        self.flushes = 0
        self.new_files: list[tuple] = []       # (identifier, file name, name was already taken)
        self.ever: dict[int, set] = {}         # every target object i was ever seen to refer to (message or header, since load)
        self.load = self._snapshot_load()
        self.filed_at_load = self.filed()

    # -- load state ------------------------------------------------------------------------------------------
    def _snapshot_load(self):
        st = self.store
        files = []
        hdr = {}
        for name, f in st._file_store.items():
            if isinstance(f, self.IWAFile):
                ids = []
                for a in f.chunks[0].archives:
                    ids.append(a.header.identifier)
                    if len(a.header.message_infos) > 0:
                        hdr[a.header.identifier] = list(a.header.message_infos[0].object_references)
                files.append((name, ids))
            else:
                files.append((name, None))
        refs = {}
        for i, o in st._objects.items():
            r = refs_of(o)
            refs[i] = list(r)
            self.ever[i] = set(r) | set(hdr.get(i, []))
            self.shadow[i] = sorted(r)
            self.digest[i] = _digest(o)
        meta = st._objects[2]
        comps = [(c.identifier, c.locator, c.preferred_locator,
                  [(e.component_identifier, e.object_identifier, bool(e.is_weak)) for e in c.external_references]) for c in meta.components]
        return {"ids": list(st._objects.keys()), "files": files, "file_of": dict(st._object_to_filename_map), "refs": refs, "hdr": hdr,
                "comps": comps, "last": meta.last_object_identifier, "max": st._max_id}

    def filed(self) -> bool:
        """every stored object's archive is in the file `_object_to_filename_map` names (checked on the real store)"""
        st = self.store
        members = {}
        for i in st._objects:
            name = st._object_to_filename_map.get(i)
            f = st._file_store.get(name)
            if not isinstance(f, self.IWAFile):
                return False
            if name not in members:
                members[name] = {a.header.identifier for a in f.chunks[0].archives}
            if i not in members[name]:
                return False
        return True

    def unlisted_new_files(self) -> list:
        """new archive files for which no add_component_metadata call for the same object succeeded afterwards"""
        listed = {op[1] for op in self.ops if op[0] == "M" and op[-1].startswith("ok")}
        return [(i, n) for i, n, _ in self.new_files if i not in listed]

    # -- observation -----------------------------------------------------------------------------------------
    def site(self) -> str:
        return self.sites[-1] if self.sites else "?"

    def flush(self, created: int | None = None):
        """emit A/X ops for every reference that appeared / disappeared since the last observation point"""
        st = self.store
        self.flushes += 1
        for name in list(st._file_store):
            if name not in self.known_files:
                self.known_files.add(name)
                if isinstance(st._file_store[name], self.IWAFile):
                    self.unwrapped.append(f"archive file {name} appeared in the file store outside create_object_from_dict")
                else:
                    self.ops.append(("B", name, self.site()))
        for i, o in st._objects.items():
            if i not in self.shadow:
                if i != created:
                    self.unwrapped.append(f"object {i} ({type(o).__name__}) appeared in the store outside create_object_from_dict")
                self.shadow[i] = []
                self.digest[i] = -1
            d = _digest(o)
            if d == self.digest[i] and d is not None:
                continue
            self.digest[i] = d
            now = sorted(refs_of(o))
            old = self.shadow[i]
            if now == old:
                continue
            gone, came = _multiset_diff(old, now)
            for t in gone:
                self.ops.append(("X", i, t, self.site()))
            self.ever.setdefault(i, set()).update(came)
            for t in came:
                if t not in st._objects:
                    self.bad_targets.append({"op_index": len(self.ops), "object": i, "object_type": type(o).__name__, "target": t, "site": self.site()})
                self.ops.append(("A", i, t, self.site()))
            self.shadow[i] = now

    # -- protocol --------------------------------------------------------------------------------------------
    def request(self) -> str:
        ld = self.load
        w = ["ostore ghist", str(ld["last"]), str(len(ld["ids"]))] + [str(i) for i in ld["ids"]]
        w.append(str(len(ld["files"])))
        for name, ids in ld["files"]:
            w.append(enc_text(name))
            if ids is None:
                w += ["0", "0"]
            else:
                w += ["1", str(len(ids))] + [str(i) for i in ids]
        w.append(str(len(ld["comps"])))
        for cid, loc, pref, ext in ld["comps"]:
            w += [str(cid), enc_text(loc), enc_text(pref), str(len(ext))] + [f"{c}:{o}:{int(k)}" for c, o, k in ext]
        fo = [(i, f) for i, f in ld["file_of"].items()]
        w.append(str(len(fo)))
        for i, f in fo:
            w += [str(i), enc_text(f)]
        nz = [(i, r) for i, r in ld["refs"].items() if r]
        w.append(str(len(nz)))
        for i, r in nz:
            w += [str(i), str(len(r))] + [str(x) for x in r]
        hz = [(i, r) for i, r in ld["hdr"].items() if r]
        w.append(str(len(hz)))
        for i, r in hz:
            w += [str(i), str(len(r))] + [str(x) for x in r]
        for op in self.ops:
            k = op[0]
            if k == "C":
                w += ["C", enc_text(op[1]), str(int(op[2])), str(len(op[3]))] + [str(x) for x in op[3]]
            elif k == "M":
                w += ["M", str(op[1]), enc_text(op[2]), enc_text(op[3])]
            elif k == "E":
                w += ["E", str(op[1]), "-" if op[2] is None else "L" + enc_text(op[2]), "-" if op[3] is None else str(op[3]), str(int(op[4]))]
            elif k in ("A", "X"):
                w += [k, str(op[1]), str(op[2])]
            elif k == "U":
                w += ["U"]
            elif k == "B":
                w += ["B", enc_text(op[1])]
        return " ".join(w)

    def results(self) -> str:
        """results of the C / M / E ops as the real calls returned them"""
        return ";".join(op[-1] for op in self.ops if op[0] in ("C", "M", "E")) or "-"

    def history_json(self, last: int = 40) -> list:
        return [list(map(lambda x: x if isinstance(x, (int, str, bool, type(None))) else list(x), op)) for op in self.ops[-last:]]


def _multiset_diff(old: list[int], now: list[int]) -> tuple[list[int], list[int]]:
    from collections import Counter
    a, b = Counter(old), Counter(now)
    gone = sorted((a - b).elements())
    came = sorted((b - a).elements())
    return gone, came


def rec_of(store) -> Recorder | None:
    return getattr(store, "_verif_rec", None)


def install():
    """wrap the creation / reference-writing functions (idempotent; pass-through while no recorder is attached)"""
    global _installed
    if _installed:
        return
    _installed = True
    from numbers_parser.containers import ObjectStore
    from numbers_parser.model import _NumbersModel

    orig_create = ObjectStore.create_object_from_dict

    def create_object_from_dict(self, iwa_file, object_dict, cls, append=False):
        rec = rec_of(self)
        if rec is None:
            return orig_create(self, iwa_file, object_dict, cls, append)
        rec.flush()
        rs = dict_refs(object_dict)
        idx = len(rec.ops)
        before = set(self._file_store)
        try:
            new_id, obj = orig_create(self, iwa_file, object_dict, cls, append)
        except Exception as e:  # noqa: BLE001
            rec.ops.append(("C", iwa_file, append, rs, rec.site(), "err " + exc_name(e)))
            raise
        rs = refs_of(obj)   # what the created message really holds (the dict walk above is only used when the call raises)
        for t in rs:
            if t not in self._objects:
                rec.bad_targets.append({"op_index": idx, "object": new_id, "object_type": cls.__name__, "target": t, "site": rec.site() + " (creation dict)"})
        rec.ops.append(("C", iwa_file, append, rs, rec.site(), f"ok {new_id}"))
        fname = self._object_to_filename_map.get(new_id)
        if not [k for k in before if iwa_file in k]:   # a new archive file was made for the object
            rec.new_files.append((new_id, fname, fname in before))
        rec.shadow[new_id] = sorted(rs)
        rec.ever.setdefault(new_id, set()).update(rs)
        rec.digest[new_id] = -1   # re-read at the next observation point
        for name in self._file_store:
            rec.known_files.add(name)
        return new_id, obj
    ObjectStore.create_object_from_dict = create_object_from_dict

    orig_update = ObjectStore.update_object_file_store

    def update_object_file_store(self):
        rec = rec_of(self)
        if rec is None:
            return orig_update(self)
        rec.flush()
        rec.ops.append(("U",))
        return orig_update(self)
    ObjectStore.update_object_file_store = update_object_file_store

    orig_meta = _NumbersModel.add_component_metadata

    def add_component_metadata(self, object_id, parent, locator):
        rec = rec_of(self.objects)
        if rec is None:
            return orig_meta(self, object_id, parent, locator)
        rec.in_meta += 1
        try:
            orig_meta(self, object_id, parent, locator)
        except Exception as e:  # noqa: BLE001
            rec.ops.append(("M", object_id, parent, locator, rec.site(), "err " + exc_name(e)))
            raise
        finally:
            rec.in_meta -= 1
        rec.ops.append(("M", object_id, parent, locator, rec.site(), "ok -"))
    _NumbersModel.add_component_metadata = add_component_metadata

    orig_ref = _NumbersModel.add_component_reference

    def add_component_reference(self, object_id, location=None, component_id=None, is_weak=False):
        rec = rec_of(self.objects)
        if rec is None or rec.in_meta:
            return orig_ref(self, object_id, location=location, component_id=component_id, is_weak=is_weak)
        try:
            orig_ref(self, object_id, location=location, component_id=component_id, is_weak=is_weak)
        except Exception as e:  # noqa: BLE001
            rec.ops.append(("E", object_id, location, component_id, is_weak, rec.site(), "err " + exc_name(e)))
            raise
        if object_id not in self.objects._objects:
            rec.bad_targets.append({"op_index": len(rec.ops), "object": 2, "object_type": "PackageMetadata", "target": object_id,
                                    "site": rec.site() + " (external reference)"})
        rec.ops.append(("E", object_id, location, component_id, is_weak, rec.site(), "ok -"))
    _NumbersModel.add_component_reference = add_component_reference

    def labelled(name, orig):
        def wrapper(self, *a, **k):
            rec = rec_of(self.objects) if hasattr(self, "objects") else None
            if rec is None:
                return orig(self, *a, **k)
            if name in FLUSH_SITES:
                rec.flush()
            rec.sites.append(name)
            try:
                return orig(self, *a, **k)
            finally:
                if name in FLUSH_SITES:
                    rec.flush()
                rec.sites.pop()
        wrapper.__name__ = getattr(orig, "__name__", name)
        wrapper.__wrapped__ = orig
        for attr in ("cache_clear",):
            if hasattr(orig, attr):
                setattr(wrapper, attr, getattr(orig, attr))
        return wrapper
    for name in WRITE_SITES:
        orig = _NumbersModel.__dict__.get(name)
        if orig is None or not callable(orig) or isinstance(orig, (property, staticmethod, classmethod)):
            continue
        setattr(_NumbersModel, name, labelled(name, orig))

    orig_init = ObjectStore.__init__

    def __init__(self, filepath):
        orig_init(self, filepath)
        if _attach_on_open[0]:
            self._verif_rec = Recorder(self)
    ObjectStore.__init__ = __init__


_attach_on_open = [False]


class recording:
    """`with recording(): doc = Document(...)` — every ObjectStore opened inside gets a recorder (kept afterwards)."""

    def __enter__(self):
        install()
        self.prev = _attach_on_open[0]
        _attach_on_open[0] = True
        return self

    def __exit__(self, *a):
        _attach_on_open[0] = self.prev
        return False


# ---------------------------------------------------------------------------------------------------------
# the saved package in the model's output format
# ---------------------------------------------------------------------------------------------------------
def show_nats(l) -> str:
    return "+".join(str(x) for x in l) if l else "-"


def saved_state(facts: V.Facts) -> str:
    """ids, files, components, per-object references and header object_references of a decoded saved package
    (decoded by layouts.Package + validator.all_references), in the format of the driver's `ostore ghist` answer."""
    pp = facts.pp
    files = []
    hdr = {}
    for n, _ in pp.pkg.members:
        if n in pp.files:
            ids = []
            for a in pp.files[n].chunks[0].archives:
                ids.append(a.header.identifier)
                if len(a.header.message_infos) > 0 and len(a.header.message_infos[0].object_references) > 0:
                    hdr[a.header.identifier] = sorted(a.header.message_infos[0].object_references)
            files.append(enc_text(n) + "=" + show_nats(ids))
        else:
            files.append(enc_text(n) + "=B")
    comps = []
    for c in facts.meta.components:
        ext = [f"{e.component_identifier}:{e.object_identifier}:{int(bool(e.is_weak))}" for e in c.external_references]
        comps.append(f"{c.identifier}/{enc_text(c.locator)}/{enc_text(c.preferred_locator)}/" + ("+".join(ext) or "-"))
    refs = []
    for i in sorted(pp.objects):
        r = sorted(V.all_references(pp.objects[i]))
        if r:
            refs.append(f"{i}:{show_nats(r)}")
    hd = [f"{i}:{show_nats(hdr[i])}" for i in sorted(hdr)]
    return (f"last={facts.last_id} ids={show_nats(sorted(pp.objects))} files={' '.join(sorted(files))} comps={' '.join(comps)} "
            f"refs={' '.join(refs) or '-'} hdr={' '.join(hd) or '-'}")
