"""py2lean: translate a whitelisted set of pure Python functions of /repo/src into Lean 4 definitions.

This is the *regenerated* half of the tie between model and code (DESIGN.md section 11): on every check
run the functions listed in TARGETS are read from the working tree with `ast`, translated statement by
statement into `lean/NumbersModel/Gen/Tr<Group>.lean` (one file per group, written only if its text changes), and the
hand-written equivalence theorems in `Lemmas/Tr<Group>.lean` (`<fn>_eq_model`) are re-checked by
`lake build`: each says that the translated definition *is* the hand-written model function the
property theorems are about.  A change to the Python source changes the generated definition, so the
equivalence proof — and with it every corollary in `Props/` stated over the translated definitions —
has to go through again against what the code says now.

Supported subset (anything else raises `Unsupported`, which leaves the definition out of the generated
file, so the equivalence theorem no longer compiles and the check reports a broken proof obligation):

  types       int -> Int, bool -> Bool, str -> Text (= List Char), tuples, list[T], Optional[T], bytes / bytearray -> Bytes,
              dict[str, V] -> its items in insertion order, the two structures of Py/Trans.lean (`Item`, `Key`),
              `millis` (a float known to hold a whole number of milliseconds -> PyT.Millis), type variables of the entry
              (values the code only passes around) and `raw` parameters (third-party functions such as str.isalpha)
  statements  assignment (also tuple targets, augmented, `buf[i] = x` / `buf[i] op= x` on a bytearray, `d[k] = v` on a dict the
              entry carries as a state variable), if/elif/else, `if x is None: x = e`, while (fuel from the TARGETS entry;
              `OutOfFuel` is an explicit outcome, "fuel suffices" is a lemma), for over `enumerate(reversed(s))` /
              `reversed(s)` / `enumerate(s)` / a str or list / `range(n)` / `range(a, b[, c])` (structural recursion, no
              fuel), return (also from inside a loop; with `state` variables of the entry returned beside the value),
              raise, break, continue
  expressions int / str / bool / None constants, names, module constants whose live value is an int (`module_consts`),
              + - * // % ** & | << >> comparisons (chained), `x is [not] None`, `k in d`, and / or / not on bools (also
              `x is not None and P(x)` with x narrowed), truthiness of int / str / list / Optional / millis in tests,
              conditional expressions (also with a `None` branch or branches that can raise), `int(a / b)` and
              `int(ceil(a / 7.0))` on ints (PyT.trueDivTrunc, PyT.ceilDivFloat), ord, chr, len, str, int, abs, max, min,
              bytearray(n), math.floor on millis, `[*s]`, list comprehensions (an element that can raise: mapM),
              f-strings without format specs, indexing and slicing (tuples: literal index), calls of other translated
              functions (positional / keyword / default arguments), methods named in the entry (`methods`), and the
              extern calls named in the TARGETS entry (regex matches stay hand-modelled scanners; an extern may drop
              arguments, take keyword arguments and `*args`)
  entries     `until` (translate the prefix before a statement and return named variables), `body_of` (translate the body of
              one loop statement), `skip` (statements whose effect is supplied as parameters), `attrs` (attribute / item
              chains that are parameters), `state` (what the method leaves in `self`, returned beside the value)

  objects     (entries with `token_class`: the Tokenizer / Token classes of tokenizer.py)  `self.X` of a Tokenizer as parameter /
              state variable (`state_attrs`), `self.m()` of another translated method with the attributes threaded through (the
              callee's `state` rebinds the caller's variables; a method that starts changing an attribute its entry does not return
              is untranslatable), `X.append(v)`, `del X[:]`, `X.pop()`; `Token(v, T[, S])` / `cls(…)` as the structure Tokenizer.Tok,
              `t.value / .type / .subtype`, `Token.NAME` / `cls.NAME` / `self.NAME` as enum members (law read from the live class:
              `token_law`), classmethods and `<token>.get_closer()` as calls of translated functions; `x in "…"` (substring),
              `x in (a, b, …)`, `s.startswith(p)` / `s.endswith(p)`, `a and b and …` / `or` as a test with operands that can raise
              (evaluated only when reached), `if m is None: <raise>` narrowing, `try: <assignments> / except <Class>: … / else: …`
              (a match on the PyM outcome), the dispatch-dict idiom of `Tokenizer.parse` (`find_dispatch`: the dict is the list of
              its (chars, method) pairs, PyT.dispatchFind), `tables` (a class-level dict of third-party objects looked up by
              key), externs whose law is for a literal argument (compared at translation time), `live_laws` (facts about the
              live module an extern rests on, checked at translation time), `for` loops that return with state

  flow        (entries with `flow`: the container loader of iwork.py / containers.py, the un-framer of iwafile.py)
              `try: B / except C1 [as e]: H1 / except (C2, C3): H2 / … [/ else: E]` as a match on the PyM outcome of B: the handlers
              are tried in order, `isinstance` against the classes as written (`exc_classes` of the entry for classes with
              subclasses such as Warning / OSError: a predicate of the externals record; `Exception`: every PyExc), an exception
              no handler names propagates, a bare `raise` re-raises the matched exception, `raise Y(…) from e` raises Y; a body
              every path of which returns is the value returned; a body that changes the handler state may only be caught by
              handlers that raise, unless it is one assignment (whatever raises is evaluated before the variable is rebound);
              `with E as v:`; expression statements (calls for their exception / their effect on the state: `state_externs`);
              `self.m(args)` of another translated method of the group (`pyparams` positionally, wrapped by the caller's
              `arg_wrap`; the other parameters are the caller's variables of the same name; the callee's `state` rebinds them),
              properties (`property`), a method that calls itself (`rec_fuel`: the recursion depth is the parameter `fuel`,
              RecursionError at 0, loops take the method one level deeper as the parameter `rec_`); `opt_attrs` (attributes that
              are unset at first: an Option, AttributeError while unset), `init` (what a fresh object has), `exprs` (an expression
              the entry names as a whole), `transparent_attrs`, externs whose Lean name carries the index of the call site
              (`{i}`), comprehension filters, `s.endswith((a, b))`, `math.ceil(a / n)`
  bytes       bytes constants, `bytes(b)`, `a + b`, truth value, `b"".join(xs)`, `unpack("<I", b)[0]` / `struct.pack("<I", n)`
              (PyT.unpackU32LE / packU32LE), `unpack(fmt, b)[0]` for the formats the entry names (`unpack`); `generator`: a
              generator consumed as a whole is the list of what it yields; `opt_vars` (`x = None` then `x = value`: an Option),
              `class_defaults` (the attributes of a local object kept as Optional variables: compared with the live class),
              `find` (the function under another name after a harmless renaming)

Every construct is translated to the operation of Py/Trans.lean / Py/Basic.lean that states its Python
meaning; everything that can raise lives in `PyM = Except PyExc`.
"""
from __future__ import annotations

import ast
import inspect
import sys
import textwrap
from pathlib import Path

from common import LEAN, REPO  # noqa: F401  (sets sys.path)

GEN = LEAN / "NumbersModel" / "Gen"


class Unsupported(Exception):
    pass


# ---------------------------------------------------------------------------------------------
# types:  "int" "bool" "str" "none" "item" "key" ("tuple", [..]) ("list", T) ("opt", T)
# ---------------------------------------------------------------------------------------------

def lean_type(t) -> str:
    if t == "int":
        return "Int"
    if t == "bool":
        return "Bool"
    if t == "str":
        return "Text"
    if t == "none":
        return "Unit"
    if t == "item":
        return "PyT.Item"
    if t == "key":
        return "PyT.Key"
    if t == "bytes":
        return "Bytes"
    if t == "tok":      # a `Token` object: the structure (value, type, subtype) of Model/Tokenizer.lean
        return "Tokenizer.Tok"
    if t == "ttype":    # one of the `Token` type constants (Token.OPERAND, Token.FUNC, …)
        return "Tokenizer.TType"
    if t == "subt":     # one of the `Token` subtype constants (Token.OPEN, …) or the default ""
        return "Tokenizer.SubT"
    if t == "match0":   # a successful regex match of which only group(0) is used: the matched text
        return "Text"
    if isinstance(t, tuple) and t[0] == "var":  # a type variable of the entry (values the code only passes around)
        return t[1]
    if isinstance(t, tuple) and t[0] == "dict":  # dict[str, V] in insertion order
        return f"(List (Text × {lean_type(t[2])}))"
    if t == "millis":  # a float known to hold a whole number of milliseconds, carried as that number (PyT.Millis)
        return "PyT.Millis"
    if isinstance(t, tuple) and t[0] == "raw":  # a parameter that stands for a third-party function (calendar, str.isalpha, …)
        return f"({t[1]})"
    if isinstance(t, tuple) and t[0] == "tuple":
        return "(" + " × ".join(lean_type(x) for x in t[1]) + ")"
    if isinstance(t, tuple) and t[0] == "match":  # groups of a successful regex match
        return "(" + " × ".join(["Text"] * t[1]) + ")"
    if isinstance(t, tuple) and t[0] == "list":
        return f"(List {lean_type(t[1])})"
    if isinstance(t, tuple) and t[0] == "opt":
        return f"(Option {lean_type(t[1])})"
    raise Unsupported(f"type {t!r}")


KEYWORDS = {"match", "at", "from", "open", "end", "in", "fun", "do", "then", "else", "if", "let", "have", "show",
            "with", "where", "def", "theorem", "instance", "structure", "class", "namespace", "section", "return",
            "for", "import", "mutual", "universe", "variable", "local", "prefix", "infix", "notation", "macro",
            "syntax", "deriving", "extends", "abbrev", "example", "inductive", "private", "protected", "partial", "opaque", "axiom", "lemma", "set_option", "attribute", "export", "using", "unless", "nomatch", "nofun", "Type", "Prop", "Sort", "sorry", "by", "calc", "try", "catch", "finally"}


def lname(n: str) -> str:
    if n == "_":
        return "u_"
    return n + "_" if n in KEYWORDS else n


def char_lit(c: str) -> str:
    o = ord(c)
    if c == "'":
        return "'\\''"
    if c == "\\":
        return "'\\\\'"
    if 32 <= o < 127:
        return f"'{c}'"
    return f"(Char.ofNat {o})"


def text_lit(s: str) -> str:
    return "([" + ", ".join(char_lit(c) for c in s) + "] : Text)"


EXC = {"IndexError": ".IndexError", "KeyError": ".KeyError", "ValueError": ".ValueError", "TypeError": ".TypeError",
       "RuntimeError": ".RuntimeError", "AttributeError": ".AttributeError", "TokenizerError": ".TokenizerError",
       "FileError": ".FileError", "FileFormatError": ".FileFormatError", "UnsupportedError": ".UnsupportedError",
       "BadZipFile": ".BadZipFile"}


# the class constants of `tokenizer.Token` (entries with `token_class`): a `Token` is the structure Tokenizer.Tok of
# Model/Tokenizer.lean, its `type` / `subtype` strings are the enum members of the same name.  The law this needs — the
# constants are pairwise distinct strings, `Token.__init__` stores its three arguments and defaults `subtype` to "" — is read
# from the live class on every run (`token_law`); if it fails the entries are untranslatable.
TOKEN_CONSTS = {**{n: (f"Tokenizer.TType.{n}", "ttype") for n in
                   ("OPERAND", "FUNC", "ARRAY", "PAREN", "SEP", "OP_PRE", "OP_IN", "OP_POST")},
                **{n: (f"Tokenizer.SubT.{n}", "subt") for n in ("TEXT", "ERROR", "LOGICAL", "OPEN", "CLOSE", "ARG", "ROW")}}
TOKEN_INIT = ("def __init__(self, value, type_, subtype=''):\n    self.value = value\n    self.type = type_\n"
              "    self.subtype = subtype\n    self.num_args = 0")


def token_law(module: str) -> None:
    import importlib
    mod = importlib.import_module(module)
    Token = mod.Token
    for kind in ("ttype", "subt"):
        vals = [getattr(Token, n, None) for n, (_, k) in TOKEN_CONSTS.items() if k == kind] + ([""] if kind == "subt" else [])
        if any(not isinstance(v, str) for v in vals) or len(set(vals)) != len(vals):
            raise Unsupported(f"the Token {kind} constants are no longer pairwise distinct strings")
    init = find_def(module, "Token.__init__")
    if ast.unparse(init) != TOKEN_INIT:
        raise Unsupported("Token.__init__ is no longer the plain constructor (value, type_, subtype='')")


def exc_code(node) -> str:
    name = None
    if isinstance(node, ast.Call) and isinstance(node.func, ast.Name):
        name = node.func.id
    elif isinstance(node, ast.Name):
        name = node.id
    elif isinstance(node, ast.Attribute):      # plistlib.InvalidFileException: the class name
        name = node.attr
    if name is None:
        raise Unsupported("raise of a computed exception")
    return EXC.get(name, f'(.Other "{name}")')


# ---------------------------------------------------------------------------------------------

class Fn:
    """Translation of one function."""

    def __init__(self, spec: dict, registry: dict):
        self.spec = spec
        self.name = spec["lean"]
        self.registry = registry  # python name -> spec of translated callee
        self.aux: list[str] = []  # loop definitions, emitted before the main definition
        self.nloop = 0
        self.ret = spec["ret"]
        self.tmp = 0
        self.dispatch: dict[str, list[tuple[str, str]]] = {}   # dict built from (chars, self.method) pairs → the pairs

    # -- helpers --------------------------------------------------------------------------
    def fresh(self) -> str:
        self.tmp += 1
        return f"t{self.tmp}"

    def module_const(self, e):
        """`NAME` / `Enum.MEMBER` of the module the function lives in whose live value is an int (IntEnum members
        included, bools not): read from the imported module on every run, emitted as the literal."""
        if not self.spec.get("module_consts"):
            return None
        import importlib
        g = vars(importlib.import_module(self.spec["module"]))
        try:
            if isinstance(e, ast.Name):
                v = g[e.id]
            elif isinstance(e, ast.Attribute) and isinstance(e.value, ast.Name):
                v = getattr(g[e.value.id], e.attr)
            else:
                return None
        except (KeyError, AttributeError):
            return None
        if isinstance(v, bool) or not isinstance(v, int):
            return None
        return f"({int(v)} : Int)", "int"

    # -- expressions ----------------------------------------------------------------------
    def expr(self, e, env, pre: list[str]):
        """returns (lean code, type); monadic sub-computations are hoisted into `pre` as `let x ← …`."""
        if isinstance(e, ast.Subscript) and ast.unparse(e) in self.spec.get("attrs", {}):
            return self.spec["attrs"][ast.unparse(e)]
        if self.spec.get("exprs") and not isinstance(e, (ast.Constant, ast.Name)) and ast.unparse(e) in self.spec["exprs"]:
            # an expression the entry names as a whole (a third-party computation): the Lean term given there
            code, t, monadic = self.spec["exprs"][ast.unparse(e)]
            if monadic:
                v = self.fresh()
                pre.append(f"let {v} ← {code}")
                return v, t
            return code, t
        if isinstance(e, ast.Constant):
            v = e.value
            if isinstance(v, bool):
                return ("true" if v else "false"), "bool"
            if isinstance(v, int):
                return f"({v} : Int)", "int"
            if isinstance(v, str):
                return text_lit(v), "str"
            if v is None:
                return "()", "none"
            if isinstance(v, bytes):
                return "([" + ", ".join(str(b) for b in v) + "] : Bytes)", "bytes"
            raise Unsupported(f"constant {v!r}")
        if isinstance(e, ast.Name):
            if e.id in env:
                return lname(e.id), env[e.id]
            consts = self.spec.get("consts", {})
            if e.id in consts:
                return consts[e.id]
            mc = self.module_const(e)
            if mc is not None:
                return mc
            raise Unsupported(f"free name {e.id}")
        if isinstance(e, ast.Attribute):
            attrs = self.spec.get("attrs", {})
            src = ast.unparse(e)
            if src in attrs:
                return attrs[src]
            mc = self.module_const(e)
            if mc is not None:
                return mc
            if src in self.spec.get("opt_attrs", {}):
                # an attribute of self that __init__ does not set: AttributeError while it is unset
                name, t = self.spec["opt_attrs"][src]
                v = self.fresh()
                pre.append(f"let {v} ← PyT.attrGet {lname(name)}")
                return v, t
            if e.attr in self.spec.get("transparent_attrs", ()):
                return self.expr(e.value, env, pre)      # the object stands for this attribute of it
            if self.spec.get("flow") and isinstance(e.value, ast.Name) and e.value.id == "self" and e.attr in self.registry \
                    and self.registry[e.attr].get("property"):
                return self.flow_call(self.registry[e.attr], [], env, pre)
            if self.spec.get("token_class") and isinstance(e.value, ast.Name) and e.attr in TOKEN_CONSTS \
                    and (e.value.id in ("Token", "cls") or (e.value.id == "self" and env.get("self") == "tok")):
                return TOKEN_CONSTS[e.attr]      # Token.OP_IN, cls.CLOSE, self.FUNC: the enum member of that name
            base, bt = self.expr(e.value, env, pre)
            if bt == "item" and e.attr == "name":
                return f"{base}.name", "str"
            if bt == "tok" and e.attr in ("value", "type", "subtype"):
                return f"{base}.{e.attr}", {"value": "str", "type": "ttype", "subtype": "subt"}[e.attr]
            raise Unsupported(f"attribute {src}")
        if isinstance(e, ast.Tuple):
            parts = [self.expr(x, env, pre) for x in e.elts]
            return "(" + ", ".join(p[0] for p in parts) + ")", ("tuple", [p[1] for p in parts])
        if isinstance(e, ast.UnaryOp):
            if isinstance(e.op, ast.Not):
                return f"(!{self.truthy(e.operand, env, pre)})", "bool"
            if isinstance(e.op, ast.USub):
                c, t = self.expr(e.operand, env, pre)
                if t != "int":
                    raise Unsupported("unary minus on non-int")
                return f"(-{c})", "int"
            raise Unsupported("unary op")
        if isinstance(e, ast.BoolOp) and isinstance(e.op, ast.And) and isinstance(e.values[0], ast.Compare) \
                and len(e.values[0].ops) == 1 and isinstance(e.values[0].ops[0], ast.IsNot) \
                and isinstance(e.values[0].left, ast.Name) and isinstance(e.values[0].comparators[0], ast.Constant) \
                and e.values[0].comparators[0].value is None \
                and isinstance(env.get(e.values[0].left.id), tuple) and env[e.values[0].left.id][0] == "opt":
            # `x is not None and P(x)`: P is evaluated only when x is not None, with x narrowed
            var = e.values[0].left.id
            env2 = dict(env)
            env2[var] = env[var][1]
            rest = e.values[1] if len(e.values) == 2 else ast.BoolOp(op=ast.And(), values=e.values[1:])
            sub: list[str] = []
            code = self.truthy_bool_only(rest, env2, sub)
            if sub:
                raise Unsupported("short-circuit operand that can raise")
            return f"(match {lname(var)} with | none => false | some {lname(var)} => {code})", "bool"
        if isinstance(e, ast.BoolOp):
            parts = []
            for i, v in enumerate(e.values):
                sub: list[str] = []
                parts.append(self.truthy_bool_only(v, env, sub))
                if sub and i > 0:
                    raise Unsupported("short-circuit operand that can raise")
                pre.extend(sub)
            op = " && " if isinstance(e.op, ast.And) else " || "
            return "(" + op.join(parts) + ")", "bool"
        if isinstance(e, ast.Compare):
            left, lt = self.expr(e.left, env, pre)
            out = []
            for op, right in zip(e.ops, e.comparators):
                if isinstance(op, (ast.In, ast.NotIn)) and isinstance(right, ast.Tuple) and right.elts and len(e.ops) == 1:
                    # x in (a, b, …): equal to one of the elements
                    parts = [self.expr(x, env, pre) for x in right.elts]
                    if any(p[1] != lt for p in parts) or lt not in ("str", "int", "ttype", "subt"):
                        raise Unsupported("membership in a tuple of another type")
                    c = "(List.contains [" + ", ".join(p[0] for p in parts) + f"] {left})"
                    return (c if isinstance(op, ast.In) else f"(!{c})"), "bool"
                if isinstance(op, (ast.In, ast.NotIn)) and isinstance(right, ast.Name) and right.id in self.dispatch \
                        and len(e.ops) == 1:
                    # key in dispatcher (a dict built from (chars, method) pairs with dict.fromkeys)
                    if lt != "str":
                        raise Unsupported("dispatch key of type " + str(lt))
                    c = f"(PyT.dispatchFind {self.dispatch_table(right.id)} {left}).isSome"
                    return (c if isinstance(op, ast.In) else f"(!{c})"), "bool"
                rc, rt = self.expr(right, env, pre)
                out.append(self.compare(op, left, lt, rc, rt))
                left, lt = rc, rt
            return ("(" + " && ".join(out) + ")" if len(out) > 1 else out[0]), "bool"
        if isinstance(e, ast.IfExp) and isinstance(e.test, ast.Compare) and len(e.test.ops) == 1 \
                and isinstance(e.test.ops[0], (ast.Is, ast.IsNot)) and isinstance(e.test.left, ast.Name) \
                and isinstance(e.test.comparators[0], ast.Constant) and e.test.comparators[0].value is None \
                and isinstance(env.get(e.test.left.id), tuple) and env[e.test.left.id][0] == "opt":
            # `a if x is None else b`: a match on the Optional, with x narrowed in the non-None branch
            var = e.test.left.id
            none_branch, some_branch = (e.body, e.orelse) if isinstance(e.test.ops[0], ast.Is) else (e.orelse, e.body)
            sub1: list[str] = []
            sub2: list[str] = []
            a, at = self.expr(none_branch, env, sub1)
            env2 = dict(env)
            env2[var] = env[var][1]
            b, bt = self.expr(some_branch, env2, sub2)
            if sub1 or sub2:
                raise Unsupported("conditional expression with a branch that can raise")
            if at != bt:
                raise Unsupported(f"conditional expression of two types {at} / {bt}")
            return f"(match {lname(var)} with | none => {a} | some {lname(var)} => {b})", at
        if isinstance(e, ast.IfExp):
            sub1: list[str] = []
            sub2: list[str] = []
            c = self.truthy(e.test, env, pre)
            a, at = self.expr(e.body, env, sub1)
            b, bt = self.expr(e.orelse, env, sub2)
            # `x if c else None` / `None if c else x`: an Optional
            if at == "none" and bt != "none":
                a, at, b, bt = f"(none : Option {lean_type(bt)})", ("opt", bt), f"(some {b})", ("opt", bt)
            elif bt == "none" and at != "none":
                a, at, b, bt = f"(some {a})", ("opt", at), f"(none : Option {lean_type(at)})", ("opt", at)
            if at != bt:
                raise Unsupported(f"conditional expression of two types {at} / {bt}")
            if sub1 or sub2:
                # only the chosen branch is evaluated: a monadic conditional
                v = self.fresh()
                pre.append(f"let {v} : {lean_type(at)} ← (if {c} then (do")
                pre.extend(self.ind(self.ind(sub1 + [f"pure {a}"])))
                pre.append("  ) else (do")
                pre.extend(self.ind(self.ind(sub2 + [f"pure {b}"])))
                pre.append("  ))")
                return v, at
            return f"(if {c} then {a} else {b})", at
        if isinstance(e, ast.BinOp):
            return self.binop(e, env, pre)
        if isinstance(e, ast.JoinedStr):
            parts = []
            for v in e.values:
                if isinstance(v, ast.Constant):
                    parts.append(text_lit(v.value))
                elif isinstance(v, ast.FormattedValue) and v.format_spec is None and v.conversion == -1:
                    c, t = self.expr(v.value, env, pre)
                    parts.append(self.to_str(c, t))
                else:
                    raise Unsupported("f-string with format spec")
            return "(" + " ++ ".join(parts or ["([] : Text)"]) + ")", "str"
        if isinstance(e, ast.List) and e.elts and not any(isinstance(x, ast.Starred) for x in e.elts):
            parts = [self.expr(x, env, pre) for x in e.elts]
            if any(p[1] != parts[0][1] for p in parts):
                raise Unsupported("list display of mixed types")
            return "[" + ", ".join(p[0] for p in parts) + "]", ("list", parts[0][1])
        if isinstance(e, ast.List) and len(e.elts) == 1 and isinstance(e.elts[0], ast.Starred):
            # [*s]: the list of the one-character strings of s
            c, t = self.expr(e.elts[0].value, env, pre)
            if t != "str":
                raise Unsupported("[*x] of " + str(t))
            return f"(PyT.strIter {c})", ("list", "str")
        if isinstance(e, ast.Subscript) and isinstance(e.value, ast.Call) and isinstance(e.value.func, ast.Name) \
                and e.value.func.id in ("bin", "oct", "hex") and isinstance(e.slice, ast.Slice) and e.slice.upper is None \
                and isinstance(e.slice.lower, ast.Constant) and e.slice.lower.value == 2 and e.slice.step is None:
            # bin(x)[2:] / oct(x)[2:] / hex(x)[2:]: the digits without the prefix (x >= 0; a negative x is out of the subset)
            c, t = self.expr(e.value.args[0], env, pre)
            if t != "int":
                raise Unsupported("bin/oct/hex of non-int")
            v = self.fresh()
            pre.append(f"let {v} ← PyT.digitsOfBase {c} {dict(bin=2, oct=8, hex=16)[e.value.func.id]}")
            return v, "str"
        if isinstance(e, ast.ListComp) and len(e.generators) == 1 and e.generators[0].ifs and self.spec.get("flow") \
                and isinstance(e.generators[0].target, ast.Name):
            # [f(x) for x in xs if c(x)]: filter, then map (c and f may not raise)
            g = e.generators[0]
            it, itt = self.expr(g.iter, env, pre)
            if not (isinstance(itt, tuple) and itt[0] == "list"):
                raise Unsupported("filtered comprehension over " + str(itt))
            env2 = dict(env)
            env2[g.target.id] = itt[1]
            sub: list[str] = []
            conds = [self.truthy(c, env2, sub) for c in g.ifs]
            body, bt2 = self.expr(e.elt, env2, sub)
            if sub:
                raise Unsupported("filtered comprehension with an element or condition that can raise")
            var = f"({lname(g.target.id)} : {lean_type(itt[1])})"
            return (f"((({it}).filter (fun {var} => {' && '.join(conds)})).map (fun {var} => {body}))"), ("list", bt2)
        if isinstance(e, ast.ListComp) and len(e.generators) == 1 and not e.generators[0].ifs \
                and isinstance(e.generators[0].target, ast.Name):
            g = e.generators[0]
            sub: list[str] = []
            if isinstance(g.iter, ast.Call) and isinstance(g.iter.func, ast.Name) and g.iter.func.id == "range" \
                    and len(g.iter.args) == 1:
                rc, rt = self.expr(g.iter.args[0], env, pre)
                if rt != "int":
                    raise Unsupported("range() of non-int")
                it, itt = f"(PyT.range {rc})", ("list", "int")
            else:
                it, itt = self.expr(g.iter, env, pre)
            if itt == "str":
                lst, et = f"(PyT.strIter {it})", "str"
            elif isinstance(itt, tuple) and itt[0] == "list":
                lst, et = it, itt[1]
            else:
                raise Unsupported("comprehension over " + str(itt))
            env2 = dict(env)
            env2[g.target.id] = et
            body, bt2 = self.expr(e.elt, env2, sub)
            if sub:
                # an element that can raise: the list is built left to right and the first exception ends it
                v = self.fresh()
                pre.append(f"let {v} ← ({lst}).mapM (fun ({lname(g.target.id)} : {lean_type(et)}) => (do")
                pre.extend(self.ind(self.ind(sub + [f"pure {body}"])))
                pre.append(f"  : PyM {lean_type(bt2)}))")
                return v, ("list", bt2)
            return f"(({lst}).map (fun ({lname(g.target.id)} : {lean_type(et)}) => {body}))", ("list", bt2)
        if isinstance(e, ast.Subscript) and isinstance(e.value, ast.Call) and ast.unparse(e.value.func) in ("unpack", "struct.unpack") \
                and len(e.value.args) == 2 and isinstance(e.value.args[0], ast.Constant) and e.value.args[0].value == "<I" \
                and isinstance(e.slice, ast.Constant) and e.slice.value == 0:
            # unpack("<I", b)[0]: the little-endian value of exactly four bytes (struct.error otherwise)
            c, t = self.expr(e.value.args[1], env, pre)
            if t != "bytes":
                raise Unsupported("unpack('<I', x) of " + str(t))
            v = self.fresh()
            pre.append(f"let {v} ← PyT.unpackU32LE {c}")
            return v, "int"
        if isinstance(e, ast.Subscript) and isinstance(e.value, ast.Call) and ast.unparse(e.value.func) in ("unpack", "struct.unpack") \
                and len(e.value.args) == 2 and isinstance(e.value.args[0], ast.Constant) \
                and e.value.args[0].value in self.spec.get("unpack", {}) \
                and isinstance(e.slice, ast.Constant) and e.slice.value == 0:
            # unpack(fmt, b)[0] for a format the entry names: the Lean reader given there (struct.error on a wrong length)
            lean_fn, rett = self.spec["unpack"][e.value.args[0].value]
            c, t = self.expr(e.value.args[1], env, pre)
            if t != "bytes":
                raise Unsupported("unpack(fmt, x) of " + str(t))
            v = self.fresh()
            pre.append(f"let {v} ← {lean_fn} {c}")
            return v, rett
        if isinstance(e, ast.Subscript) and ast.unparse(e.value) in self.spec.get("tables", {}):
            # a class-level table of third-party objects (compiled regexes) looked up by key: the named Lean function
            lean_fn, kt, rett = self.spec["tables"][ast.unparse(e.value)]
            k, kt2 = self.expr(e.slice, env, pre)
            if kt2 != kt:
                raise Unsupported("table key of type " + str(kt2))
            v = self.fresh()
            pre.append(f"let {v} ← {lean_fn} {k}")
            return v, rett
        if isinstance(e, ast.Subscript):
            base, bt = self.expr(e.value, env, pre)
            if isinstance(e.slice, ast.Slice):
                if e.slice.step is not None:
                    raise Unsupported("slice step")
                lo = "none" if e.slice.lower is None else f"(some {self.expr(e.slice.lower, env, pre)[0]})"
                hi = "none" if e.slice.upper is None else f"(some {self.expr(e.slice.upper, env, pre)[0]})"
                return f"(pySlice {base} {lo} {hi})", bt
            if isinstance(bt, tuple) and bt[0] == "dict":
                k, kt = self.expr(e.slice, env, pre)
                if kt != "str":
                    raise Unsupported("dict key of type " + str(kt))
                v = self.fresh()
                pre.append(f"let {v} ← PyT.dictGet {base} {k}")
                return v, bt[2]
            if isinstance(bt, tuple) and bt[0] == "tuple":
                # t[k] on a fixed-length tuple with a literal index: the projection
                if not (isinstance(e.slice, ast.Constant) and isinstance(e.slice.value, int) and not isinstance(e.slice.value, bool)
                        and 0 <= e.slice.value < len(bt[1])):
                    raise Unsupported("tuple index that is not a literal in range")
                k, n = e.slice.value, len(bt[1])
                return "(" + base + ".2" * k + (".1" if k < n - 1 else "") + ")", bt[1][k]
            idx, it = self.expr(e.slice, env, pre)
            if it != "int":
                raise Unsupported("non-int index")
            if isinstance(bt, tuple) and bt[0] == "list":
                v = self.fresh()
                pre.append(f"let {v} ← pyIndex {base} {idx}")
                return v, bt[1]
            if bt == "str":
                v = self.fresh()
                pre.append(f"let {v} ← pyIndex (PyT.strIter {base}) {idx}")
                return v, "str"
            if bt == "bytes":
                v = self.fresh()
                pre.append(f"let {v} ← PyT.byteAt {base} {idx}")
                return v, "int"
            raise Unsupported("subscript of " + str(bt))
        if isinstance(e, ast.Call):
            return self.call(e, env, pre)
        raise Unsupported(type(e).__name__)

    def to_str(self, c, t):
        if t == "int":
            return f"(intStr {c})"
        if t == "str":
            return c
        raise Unsupported(f"str() of {t}")

    def compare(self, op, a, at, b, bt) -> str:
        if isinstance(op, (ast.In, ast.NotIn)) and isinstance(bt, tuple) and bt[0] == "dict" and at == "str":
            c = f"(PyT.dictContains {b} {a})"
            return c if isinstance(op, ast.In) else f"(!{c})"
        if isinstance(op, (ast.In, ast.NotIn)) and at == "str" and bt == "str":
            c = f"(PyT.strIn {a} {b})"      # substring test
            return c if isinstance(op, ast.In) else f"(!{c})"
        if isinstance(op, (ast.Is, ast.IsNot)):
            if bt == "none" and isinstance(at, tuple) and at[0] == "opt":
                return f"({a}).isNone" if isinstance(op, ast.Is) else f"({a}).isSome"
            raise Unsupported("`is` other than `<Optional> is [not] None`")
        if at == "millis" and bt == "int":
            b, bt = f"(PyT.Millis.ofInt {b})", "millis"
        elif at == "int" and bt == "millis":
            a, at = f"(PyT.Millis.ofInt {a})", "millis"
        if at != bt:
            raise Unsupported(f"comparison of {at} with {bt}")
        if at == "millis" and not isinstance(op, (ast.Eq, ast.NotEq)):
            sym = {ast.Lt: "<", ast.LtE: "≤", ast.Gt: ">", ast.GtE: "≥"}.get(type(op))
            if sym is None:
                raise Unsupported("comparison operator")
            return f"(decide ({a}.ms {sym} {b}.ms))"
        if isinstance(op, ast.Eq):
            return f"(decide ({a} = {b}))"
        if isinstance(op, ast.NotEq):
            return f"(decide ({a} ≠ {b}))"
        if at != "int":
            raise Unsupported("ordering of non-ints")
        sym = {ast.Lt: "<", ast.LtE: "≤", ast.Gt: ">", ast.GtE: "≥"}.get(type(op))
        if sym is None:
            raise Unsupported("comparison operator")
        return f"(decide ({a} {sym} {b}))"

    def truthy_bool_only(self, e, env, pre) -> str:
        c, t = self.expr(e, env, pre)
        if t != "bool":
            raise Unsupported("and/or over non-bool operands (value-returning short circuit)")
        return c

    def truthy(self, e, env, pre) -> str:
        """Python truth value of an expression used as a test → Lean Bool."""
        if isinstance(e, ast.UnaryOp) and isinstance(e.op, ast.Not):
            return f"(!{self.truthy(e.operand, env, pre)})"
        if isinstance(e, ast.BoolOp) and (self.spec.get("token_class") or self.spec.get("flow")):
            # truth value of `a and b and …` / `a or b or …` used as a test: the operands' truth values, left to right; an
            # operand that can raise is evaluated only when the ones before it did not decide the outcome
            parts = []
            for v in e.values:
                sub: list[str] = []
                parts.append((self.truthy(v, env, sub), sub))
            pre.extend(parts[0][1])
            if not any(sub for _, sub in parts[1:]):
                return "(" + (" && " if isinstance(e.op, ast.And) else " || ").join(c for c, _ in parts) + ")"
            is_and = isinstance(e.op, ast.And)

            def build(i) -> list[str]:
                c, sub = parts[i]
                lines = list(sub) if i > 0 else []
                if i == len(parts) - 1:
                    return lines + [f"pure {c}"]
                inner = self.ind(self.ind(build(i + 1)))
                if is_and:
                    return lines + [f"if {c} then (do"] + inner + ["  ) else pure false"]
                return lines + [f"if {c} then pure true else (do"] + inner + ["  )"]
            v = self.fresh()
            body = build(0)
            pre.append(f"let {v} : Bool ← (do")
            pre.extend(self.ind(self.ind(body)))
            pre.append("  )")
            return v
        c, t = self.expr(e, env, pre)
        if t == "bool":
            return c
        if t == "int":
            return f"(decide ({c} ≠ 0))"
        if t == "millis":
            return f"(decide ({c}.ms ≠ 0))"
        if t in ("str", "bytes") or (isinstance(t, tuple) and t[0] == "list"):
            return f"(!({c}).isEmpty)"
        if isinstance(t, tuple) and t[0] == "opt":
            return f"({c}).isSome"
        raise Unsupported(f"truth value of {t}")

    def binop(self, e, env, pre):
        a, at = self.expr(e.left, env, pre)
        if set(self.effects(e.right)) & self.loads([e.left]):
            # the left operand is read before the call on the right rebinds it: the hoisted call would come first
            raise Unsupported("operand read before a call that changes it")
        b, bt = self.expr(e.right, env, pre)
        op = type(e.op)
        if at == "str" and bt == "str" and op is ast.Add:
            return f"({a} ++ {b})", "str"
        if isinstance(at, tuple) and at[0] == "list" and at == bt and op is ast.Add:
            return f"({a} ++ {b})", at
        if at == "bytes" and bt == "bytes" and op is ast.Add:
            return f"({a} ++ {b})", "bytes"
        if at == "millis" and bt == "int" and op is ast.Mod:
            v = self.fresh()
            pre.append(f"let {v} ← PyT.Millis.mod {a} {b}")
            return v, "millis"
        if at != "int" or bt != "int":
            raise Unsupported(f"binary {op.__name__} on {at}, {bt}")
        if op in (ast.Add, ast.Sub, ast.Mult):
            return f"({a} {'+' if op is ast.Add else '-' if op is ast.Sub else '*'} {b})", "int"
        if op in (ast.BitAnd, ast.BitOr):
            return f"(PyT.{'bitAnd' if op is ast.BitAnd else 'bitOr'} {a} {b})", "int"
        if op in (ast.FloorDiv, ast.Mod, ast.Pow, ast.LShift, ast.RShift):
            fn = {ast.FloorDiv: "PyT.floordiv", ast.Mod: "PyT.mod", ast.Pow: "PyT.pow",
                  ast.LShift: "PyT.shl", ast.RShift: "PyT.shr"}[op]
            v = self.fresh()
            pre.append(f"let {v} ← {fn} {a} {b}")
            return v, "int"
        raise Unsupported(f"binary operator {op.__name__}")

    def call(self, e, env, pre):
        f = e.func
        src = ast.unparse(f)
        externs = self.spec.get("externs", {})
        if src in externs:
            lean_fn, argtypes, rett, monadic, *keep = externs[src]
            if len(keep) > 1:
                # the recorded law of the extern is for these literal arguments (a regex pattern): anything else is another function
                for pos, lit in keep[1].items():
                    if not (pos < len(e.args) and isinstance(e.args[pos], ast.Constant) and e.args[pos].value == lit):
                        raise Unsupported(f"{src} is no longer called with the literal {lit!r} its hand-modelled scanner is for")
            # optional 5th component: the positions of the Python arguments that are passed on (an argument that only
            # stands for "the value the third-party function is about", e.g. the datetime, is dropped)
            # `*xs` passes the list xs; `**kwargs` of a wrapper is taken to be empty (named in the entry's `assume`)
            actual = [a.value if isinstance(a, ast.Starred) else a for a in e.args] + \
                [k.value for k in e.keywords if k.arg is not None]
            args = [self.expr(a, env, pre)[0] for i, a in enumerate(actual) if not keep or keep[0] is None or i in keep[0]]
            if "{i}" in lean_fn:
                # the k-th call site of this extern in source order (filepath.is_dir(), first and second call)
                lean_fn = lean_fn.replace("{i}", str(self.occurrence[id(e)]))
            code = f"({lean_fn} " + " ".join(args) + ")" if args else lean_fn
            if monadic:
                v = self.fresh()
                pre.append(f"let {v} ← {code}")
                return v, rett
            return code, rett
        if self.spec.get("token_class"):
            r = self.token_call(e, env, pre)
            if r is not None:
                return r
        if self.spec.get("flow"):
            callee = self.flow_callee(f)
            if callee is not None:
                if e.keywords:
                    raise Unsupported("keyword arguments in a method call")
                return self.flow_call(callee, e.args, env, pre)
            if isinstance(f, ast.Attribute) and f.attr in ("startswith", "endswith") and len(e.args) == 1 and not e.keywords:
                base, bt = self.expr(f.value, env, pre)
                alts = e.args[0].elts if isinstance(e.args[0], ast.Tuple) else [e.args[0]]
                parts = [self.expr(a, env, pre) for a in alts]
                if bt != "str" or any(p[1] != "str" for p in parts) or not parts:
                    raise Unsupported(f"{f.attr} on {bt}")
                return "(" + " || ".join(f"(PyT.{f.attr} {base} {p[0]})" for p in parts) + ")", "bool"
            if src == "math.ceil" and len(e.args) == 1 and isinstance(e.args[0], ast.BinOp) and isinstance(e.args[0].op, ast.Div) \
                    and isinstance(e.args[0].right, ast.Constant) and isinstance(e.args[0].right.value, int):
                # math.ceil(a / n) on an int a and an int literal n: the ceiling of the true quotient (PyT.ceilDivFloat)
                a, at = self.expr(e.args[0].left, env, pre)
                if at != "int":
                    raise Unsupported("math.ceil(a / n) on " + str(at))
                v = self.fresh()
                pre.append(f"let {v} ← PyT.ceilDivFloat {a} ({e.args[0].right.value} : Int)")
                return v, "int"
        if isinstance(f, ast.Attribute) and f.attr == "join" and isinstance(f.value, ast.Constant) and f.value.value == b"" \
                and len(e.args) == 1:
            c, t = self.expr(e.args[0], env, pre)
            if t != ("list", "bytes"):
                raise Unsupported("b''.join over " + str(t))
            return f"(List.flatten {c})", "bytes"
        if src == "struct.pack" and len(e.args) == 2 and isinstance(e.args[0], ast.Constant) and e.args[0].value == "<I":
            # struct.pack("<I", n): four little-endian bytes; struct.error outside 0 .. 2^32 - 1
            c, t = self.expr(e.args[1], env, pre)
            if t != "int":
                raise Unsupported("struct.pack('<I', x) of " + str(t))
            v = self.fresh()
            pre.append(f"let {v} ← PyT.packU32LE {c}")
            return v, "bytes"
        if src == "bytes" and len(e.args) == 1 and not e.keywords:
            c, t = self.expr(e.args[0], env, pre)
            if t != "bytes":
                raise Unsupported("bytes() of " + str(t))
            return c, "bytes"      # bytes(b) of a bytes / bytearray slice: the same bytes
        if isinstance(f, ast.Attribute) and f.attr == "join" and isinstance(f.value, ast.Constant) and len(e.args) == 1:
            c, t = self.expr(e.args[0], env, pre)
            if t != ("list", "str"):
                raise Unsupported("join over " + str(t))
            return (f"(PyT.joinEmpty {c})" if f.value.value == "" else f"(PyT.join {text_lit(f.value.value)} {c})"), "str"
        if src == "math.floor" and len(e.args) == 1:
            c, t = self.expr(e.args[0], env, pre)
            if t != "millis":
                raise Unsupported("math.floor of " + str(t))
            return f"(PyT.Millis.floor {c})", "millis"
        if isinstance(f, ast.Attribute):
            base, bt = self.expr(f.value, env, pre)
            methods = self.spec.get("methods", {})
            if (bt, f.attr) in methods and not e.args:
                lean_fn, rett = methods[(bt, f.attr)]
                return f"({lean_fn} {base})", rett
            if bt == "int" and f.attr == "bit_length" and not e.args:
                return f"(PyT.bitLength {base})", "int"
            if bt == "str" and f.attr == "rjust" and len(e.args) == 2 and isinstance(e.args[1], ast.Constant) \
                    and isinstance(e.args[1].value, str) and len(e.args[1].value) == 1:
                w, wt = self.expr(e.args[0], env, pre)
                return f"(PyT.rjust {base} {w} {char_lit(e.args[1].value)})", "str"
            if bt == "str" and f.attr == "upper" and not e.args:
                return f"(PyT.upperAscii {base})", "str"
            if isinstance(bt, tuple) and bt[0] == "match" and f.attr == "group":
                k = e.args[0].value
                n = bt[1]
                proj = base + ".2" * (k - 1) + (".1" if k < n else "")
                return f"({proj})", "str"
            raise Unsupported(f"method {src}")
        if not isinstance(f, ast.Name):
            raise Unsupported("computed callee")
        fn = f.id
        if fn == "int" and len(e.args) == 2 and isinstance(e.args[1], ast.Constant) and isinstance(e.args[1].value, int):
            c, t = self.expr(e.args[0], env, pre)
            if t != "str":
                raise Unsupported("int(x, base) of " + str(t))
            v = self.fresh()
            pre.append(f"let {v} ← PyT.intOfBase {c} {e.args[1].value}")
            return v, "int"
        if fn in ("max", "min") and len(e.args) == 1 and isinstance(e.args[0], ast.List) and len(e.args[0].elts) == 2:
            a, _ = self.expr(e.args[0].elts[0], env, pre)
            b, _ = self.expr(e.args[0].elts[1], env, pre)
            return f"(PyT.{fn}I {a} {b})", "int"
        if fn == "int" and len(e.args) == 1:
            a = e.args[0]
            if isinstance(a, ast.Call) and ast.unparse(a.func) in ("ceil", "math.ceil") and len(a.args) == 1 \
                    and isinstance(a.args[0], ast.BinOp) and isinstance(a.args[0].op, ast.Div) \
                    and isinstance(a.args[0].right, ast.Constant) and isinstance(a.args[0].right.value, float) \
                    and a.args[0].right.value == int(a.args[0].right.value):
                # int(ceil(x / 7.0)) on an int x: ceiling of the true quotient (PyT.ceilDivFloat)
                x, xt = self.expr(a.args[0].left, env, pre)
                if xt != "int":
                    raise Unsupported("int(ceil(a / c)) on non-int")
                v = self.fresh()
                pre.append(f"let {v} ← PyT.ceilDivFloat {x} ({int(a.args[0].right.value)} : Int)")
                return v, "int"
            if isinstance(a, ast.BinOp) and isinstance(a.op, ast.Div):
                x, xt = self.expr(a.left, env, pre)
                y, yt = self.expr(a.right, env, pre)
                if xt != "int" or yt != "int":
                    raise Unsupported("int(a / b) on non-ints")
                v = self.fresh()
                pre.append(f"let {v} ← PyT.trueDivTrunc {x} {y}")
                return v, "int"
            c, t = self.expr(a, env, pre)
            if t == "int":
                return c, "int"
            if t == "str" and "int_of_str" in self.spec.get("consts", {}):
                v = self.fresh()
                pre.append(f"let {v} ← {self.spec['consts']['int_of_str'][0]} {c}")
                return v, "int"
            raise Unsupported(f"int() of {t}")
        if fn == "str" and len(e.args) == 1:
            c, t = self.expr(e.args[0], env, pre)
            return self.to_str(c, t), "str"
        if fn == "bytearray" and len(e.args) == 1:
            c, t = self.expr(e.args[0], env, pre)
            if t != "int":
                raise Unsupported("bytearray() of " + str(t))
            v = self.fresh()
            pre.append(f"let {v} ← PyT.bytearrayZeros {c}")
            return v, "bytes"
        if fn == "ord" and len(e.args) == 1:
            a = e.args[0]
            if isinstance(a, ast.Constant) and isinstance(a.value, str) and len(a.value) == 1:
                return f"({ord(a.value)} : Int)", "int"
            c, t = self.expr(a, env, pre)
            v = self.fresh()
            pre.append(f"let {v} ← PyT.ord {c}")
            return v, "int"
        if fn == "chr" and len(e.args) == 1:
            c, t = self.expr(e.args[0], env, pre)
            v = self.fresh()
            pre.append(f"let {v} ← PyT.chr {c}")
            return v, "str"
        if fn == "len" and len(e.args) == 1:
            c, t = self.expr(e.args[0], env, pre)
            return f"(({c}).length : Int)", "int"
        if fn == "abs" and len(e.args) == 1:
            c, t = self.expr(e.args[0], env, pre)
            return f"(PyT.abs {c})", "int"
        if fn in ("max", "min") and len(e.args) == 2:
            a, _ = self.expr(e.args[0], env, pre)
            b, _ = self.expr(e.args[1], env, pre)
            return f"(PyT.{fn}I {a} {b})", "int"
        if fn in self.registry:
            return self.plain_call(self.registry[fn], e, env, pre)
        raise Unsupported(f"call of {fn}")

    def plain_call(self, callee, e, env, pre, first: list[str] = ()):
        """call of another translated function: positional / keyword / default arguments (`first`: the receiver)"""
        names = [p[0] for p in callee["params"]]
        given: dict[str, str] = {}
        for n, a in zip(names, list(first)):
            given[n] = a
        for n, a in zip(names[len(first):], e.args):
            given[n] = self.expr(a, env, pre)[0]
        for kw in e.keywords:
            given[kw.arg] = self.expr(kw.value, env, pre)[0]
        if len(e.args) + len(first) > len(names) or any(k not in names for k in given):
            raise Unsupported(f"arguments of {callee['lean']}")
        args = []
        for n, t, *dflt in callee["params"]:
            if n in given:
                args.append(given[n])
            elif dflt:
                args.append(dflt[0])
            else:
                raise Unsupported(f"missing argument {n} in call of {callee['lean']}")
        v = self.fresh()
        pre.append(f"let {v} ← {callee['lean']} " + " ".join(args))
        return v, callee["ret"]

    # -- `Tokenizer` / `Token` (entries with `token_class`) ---------------------------------------------
    def state_callee(self, f):
        """`self.m` where `m` is another translated method of the same object → its entry"""
        if isinstance(f, ast.Attribute) and isinstance(f.value, ast.Name) and f.value.id == "self" \
                and self.spec.get("state_attrs") and f.attr in self.registry and self.registry[f.attr].get("state_attrs") is not None \
                and not self.registry[f.attr].get("classmethod") and "self" not in [p[0] for p in self.spec["params"]]:
            return self.registry[f.attr]
        return None

    def state_call_names(self, callee):
        """(arguments, rebound caller variables) of a call `self.m()`: the callee's parameters that stand for attributes of
        `self` are the caller's variables for the same attributes"""
        mine = self.spec["state_attrs"]
        theirs = {v: k for k, v in callee["state_attrs"].items()}   # callee parameter -> attribute
        args = []
        for n, *_ in callee["params"]:
            if n not in theirs:
                raise Unsupported(f"{callee['lean']} takes the argument {n} that is not an attribute of self")
            if theirs[n] not in mine:
                raise Unsupported(f"{callee['lean']} reads {theirs[n]}, which the caller does not carry")
            args.append(mine[theirs[n]])
        rebound = [mine[theirs[v]] for v in callee.get("state", ())]
        return args, rebound

    def effects(self, node) -> list[str]:
        """caller variables rebound by evaluating the expression / statement (calls of state methods, dispatch calls, pop)"""
        out: list[str] = []
        if self.spec.get("flow"):
            return self.flow_effects(node)
        if not self.spec.get("token_class"):
            return out
        for n in ast.walk(node):
            if not isinstance(n, ast.Call):
                continue
            callee = self.state_callee(n.func)
            names: list[str] = []
            if callee is not None:
                names = self.state_call_names(callee)[1]
            elif isinstance(n.func, ast.Subscript) and isinstance(n.func.value, ast.Name) and n.func.value.id in self.dispatch:
                for _, m in self.dispatch[n.func.value.id]:
                    names += self.state_call_names(self.registry[m])[1]
            elif isinstance(n.func, ast.Attribute) and n.func.attr == "pop" and isinstance(n.func.value, ast.Name) and not n.args:
                names = [n.func.value.id]
            for x in names:
                if x not in out:
                    out.append(x)
        return out

    def implicit_loads(self, nodes) -> set[str]:
        """caller variables read by state-method calls without being named in the text"""
        out: set[str] = set()
        if not self.spec.get("token_class"):
            return out
        for s in nodes:
            for n in ast.walk(s):
                if not isinstance(n, ast.Call):
                    continue
                callee = self.state_callee(n.func)
                if callee is not None:
                    out |= set(self.state_call_names(callee)[0])
                elif isinstance(n.func, ast.Subscript) and isinstance(n.func.value, ast.Name) and n.func.value.id in self.dispatch:
                    for _, m in self.dispatch[n.func.value.id]:
                        out |= set(self.state_call_names(self.registry[m])[0])
        return out

    def dispatch_table(self, name) -> str:
        return "[" + ", ".join(text_lit(chars) for chars, _ in self.dispatch[name]) + "]"

    def emit_state_call(self, callee, env, pre) -> str:
        args, rebound = self.state_call_names(callee)
        for a in args:
            if a not in env:
                raise Unsupported(f"{a} is not bound at the call of {callee['lean']}")
        v = self.fresh()
        pat = "(" + ", ".join([v] + [lname(x) for x in rebound]) + ")" if rebound else v
        pre.append(f"let {pat} ← {callee['lean']} " + " ".join(lname(a) for a in args))
        return v

    def token_call(self, e, env, pre):
        f = e.func
        # Token(value, type_[, subtype]) / cls(…): the structure
        if isinstance(f, ast.Name) and f.id in ("Token", "cls") and not e.keywords and len(e.args) in (2, 3):
            parts = [self.expr(a, env, pre) for a in e.args]
            if [p[1] for p in parts] != ["str", "ttype", "subt"][:len(parts)]:
                raise Unsupported("Token(…) with arguments of types " + str([p[1] for p in parts]))
            sub = parts[2][0] if len(parts) == 3 else "Tokenizer.SubT.none"
            return f"(Tokenizer.Tok.mk {parts[0][0]} {parts[1][0]} {sub})", "tok"
        # self.m(): another translated method of the same object, the attributes threaded through
        callee = self.state_callee(f)
        if callee is not None:
            if e.args or e.keywords:
                raise Unsupported("state method called with arguments")
            return self.emit_state_call(callee, env, pre), callee["ret"]
        # dispatcher[key](): the method the key selects
        if isinstance(f, ast.Subscript) and isinstance(f.value, ast.Name) and f.value.id in self.dispatch and not e.args \
                and not e.keywords:
            k, kt = self.expr(f.slice, env, pre)
            if kt != "str":
                raise Unsupported("dispatch key of type " + str(kt))
            table = self.dispatch[f.value.id]
            rets = {self.registry[m]["ret"] for _, m in table}
            if len(rets) != 1:
                raise Unsupported("dispatched methods of different result types")
            union = self.effects(e)
            # the selection is its own definition (`<fn>.dispatchN`), so that it can be reasoned about apart from the loop
            self.ndispatch = getattr(self, "ndispatch", 0) + 1
            dname = f"{self.name}.dispatch{self.ndispatch}"
            argnames: list[str] = []
            for _, m in table:
                for a in self.state_call_names(self.registry[m])[0]:
                    if a not in argnames:
                        argnames.append(a)
            for a in argnames + union:
                if a not in env:
                    raise Unsupported(f"{a} is not bound at the dispatch call")
            argnames += [x for x in union if x not in argnames]
            rty = lean_type(("tuple", [next(iter(rets))] + [env[x] for x in union])) if union else lean_type(next(iter(rets)))
            lines = [f"def {dname} " + " ".join(f"({lname(a)} : {lean_type(env[a])})" for a in argnames) +
                     f" (key : Text) : PyM {rty} :=",
                     f"  match PyT.dispatchFind {self.dispatch_table(f.value.id)} key with"]
            for i, (_, m) in enumerate(table):
                sub: list[str] = []
                r = self.emit_state_call(self.registry[m], env, sub)
                tup = "(" + ", ".join([r] + [lname(x) for x in union]) + ")" if union else r
                lines += [f"  | some {i} => (do"] + self.ind(self.ind(sub + [f"pure {tup}"])) + ["    )"]
            lines.append("  | _ => throw .KeyError")
            self.aux.append("\n".join(lines))
            v = self.fresh()
            pat = "(" + ", ".join([v] + [lname(x) for x in union]) + ")" if union else v
            pre.append(f"let {pat} ← {dname} " + " ".join(lname(a) for a in argnames) + f" {k}")
            return v, rets.pop()
        if isinstance(f, ast.Attribute):
            # Token.make_subexp(…) / cls.make_subexp(…) / self.make_subexp(…) on a Token: a classmethod
            if f.attr in self.registry and self.registry[f.attr].get("classmethod") and isinstance(f.value, ast.Name) \
                    and (f.value.id in ("Token", "cls") or (f.value.id == "self" and env.get("self") == "tok")):
                return self.plain_call(self.registry[f.attr], e, env, pre)
            # x.pop() on a list variable: the last element, the variable rebound to the rest
            if f.attr == "pop" and not e.args and isinstance(f.value, ast.Name) and isinstance(env.get(f.value.id), tuple) \
                    and env[f.value.id][0] == "list":
                v = self.fresh()
                pre.append(f"let ({v}, {lname(f.value.id)}) ← pyPop {lname(f.value.id)}")
                return v, env[f.value.id][1]
            if f.attr == "group" and isinstance(f.value, ast.Name) and env.get(f.value.id) == "match0" and len(e.args) == 1 \
                    and isinstance(e.args[0], ast.Constant) and e.args[0].value == 0:
                return lname(f.value.id), "str"      # group(0): the matched text
            if f.attr in ("startswith", "endswith") and len(e.args) == 1 and not e.keywords:
                base, bt = self.expr(f.value, env, pre)
                a, at = self.expr(e.args[0], env, pre)
                if bt != "str" or at != "str":
                    raise Unsupported(f"{f.attr} on {bt} with {at}")
                return f"(PyT.{f.attr} {base} {a})", "bool"
            # <token>.get_closer(): a translated method of Token
            if f.attr in self.registry and self.registry[f.attr]["params"][:1] == [("self", "tok")] \
                    and ast.unparse(f) not in self.spec.get("externs", {}):
                base, bt = self.expr(f.value, env, pre)
                if bt == "tok":
                    return self.plain_call(self.registry[f.attr], e, env, pre, first=[base])
        return None

    # -- exception flow of the loader (entries with `flow`) ---------------------------------------------
    def flow_callee(self, f):
        """`self.m` / `<alias of a translated object>.m` where m is another translated method of the group"""
        if isinstance(f, ast.Attribute) and f.attr in self.registry and not self.registry[f.attr].get("property") \
                and ast.unparse(f.value) in ("self",) + tuple(self.spec.get("self_aliases", ())) \
                and ast.unparse(f) not in self.spec.get("externs", {}):
            return self.registry[f.attr]
        return None

    def flow_call(self, callee, args_nodes, env, pre):
        """call of another translated method: the Python arguments positionally (`pyparams` of the callee, wrapped by the
        caller's `arg_wrap` for that callee), every other parameter of the callee is the caller's variable of the same name
        (the externals record, the handler state, attributes of self), `fuel` of a recursive callee is its `rec_fuel`
        (the predecessor inside the callee itself); the callee's `state` rebinds the caller's variables of the same names"""
        key = callee["qualname"].split(".")[-1]
        pyp = callee.get("pyparams", [])
        if len(args_nodes) != len(pyp):
            raise Unsupported(f"arguments of {callee['lean']}")
        wrap = self.spec.get("arg_wrap", {}).get(key)
        given = {}
        for n, a in zip(pyp, args_nodes):
            code = self.expr(a, env, pre)[0]
            given[n] = f"({wrap} {code})" if wrap else code
        me = callee is self.spec
        args = []
        for n, t, *_ in callee["params"]:
            if n in given:
                args.append(given[n])
            elif n == "fuel" and callee.get("rec_fuel"):
                args.append("fuel" if me else f"({callee['rec_fuel']})")
            elif n in env:
                args.append(lname(n))
            else:
                raise Unsupported(f"{n} is not bound at the call of {callee['lean']}")
        state = list(callee.get("state", ()))
        for x in state:
            if x not in env:
                raise Unsupported(f"{x} is not bound at the call of {callee['lean']}")
        if me:
            # the function itself, one level deeper: `rec_` is `<fn> ext fuel` (loops take it as a parameter)
            head = "rec_ " + " ".join(a for (n, *_), a in zip(callee["params"], args) if n not in ("ext", "fuel"))
        else:
            head = f"{callee['lean']} " + " ".join(args)
        v = self.fresh()
        pat = "(" + ", ".join([v] + [lname(x) for x in state]) + ")" if state else v
        pre.append(f"let {pat} ← {head}")
        return v, callee["ret"]

    def flow_effects(self, node) -> list[str]:
        out: list[str] = []
        for n in ast.walk(node):
            names: list[str] = []
            if isinstance(n, ast.Call):
                callee = self.flow_callee(n.func)
                if callee is not None:
                    names = list(callee.get("state", ()))
                elif ast.unparse(n.func) in self.spec.get("state_externs", {}):
                    names = [self.spec["state_externs"][ast.unparse(n.func)][1]]
            elif isinstance(n, ast.Assign) and len(n.targets) == 1 and ast.unparse(n.targets[0]) in self.spec.get("opt_attrs", {}):
                names = [self.spec["opt_attrs"][ast.unparse(n.targets[0])][0]]
            for x in names:
                if x not in out:
                    out.append(x)
        return out

    def exc_test(self, cls, var) -> str:
        """`isinstance(e, cls)` for the class (or tuple of classes) an `except` clause names"""
        if isinstance(cls, ast.Tuple):
            return "(" + " || ".join(self.exc_test(c, var) for c in cls.elts) + ")"
        name = cls.id if isinstance(cls, ast.Name) else cls.attr if isinstance(cls, ast.Attribute) else None
        if name is None:
            raise Unsupported("except clause with a computed class")
        if name in self.spec.get("exc_classes", {}):
            return f"({self.spec['exc_classes'][name]} {var})"      # a class with subclasses: the externals record decides
        if name == "Exception":
            return "true"      # every PyExc stands for a subclass of Exception (KeyboardInterrupt / SystemExit are not modelled)
        code = EXC.get(name, '(.Other "' + name + '")')
        return f"(decide ({var} = {code}))"

    @staticmethod
    def top_level_ctl(stmts, kinds) -> bool:
        """a statement of one of the kinds that is not inside a nested loop"""
        def walk(n):
            if isinstance(n, kinds):
                return True
            if isinstance(n, (ast.For, ast.While)):      # break / continue in there belong to that loop; a return does not
                return any(isinstance(m, ast.Return) for m in ast.walk(n)) if ast.Return in kinds else False
            return any(walk(c) for c in ast.iter_child_nodes(n))
        return any(walk(s) for s in stmts)

    def flow_try(self, s, env, cont, loop):
        """try / except C1 [as e] / except (C2, C3) / … [/ else]: a match on the PyM outcome of the body; the handlers are tried
        in order (`isinstance` against the classes as written), an exception no handler names propagates; a bare `raise`
        re-raises the matched exception, `raise Y(…) from e` raises Y.  A body that changes the handler state may only be
        caught by handlers that raise (the state a failed call leaves behind is not modelled)."""
        if s.finalbody:
            raise Unsupported("try / finally")
        self.ntry = getattr(self, "ntry", 0) + 1
        evar = f"e{self.ntry}_"

        def handler_chain(tail_of):
            lines: list[str] = []
            depth = 0
            for h in s.handlers:
                if h.type is None:
                    raise Unsupported("bare except")
                self.exc_stack.append(evar)
                hl = self.block(h.body, env, tail_of(h), loop)
                self.exc_stack.pop()
                lines += ["  " * depth + f"if {self.exc_test(h.type, evar)} then (do"] + \
                    ["  " * depth + l for l in self.ind(self.ind(hl))] + ["  " * depth + "  ) else"]
                depth += 1
            lines.append("  " * depth + f"throw {evar}")
            return lines

        if self.terminal(s.body):
            # every path through the body returns or raises: the body is the value returned
            if loop is not None or s.orelse or not all(self.terminal(h.body) for h in s.handlers):
                raise Unsupported("try whose body returns, inside a loop / with else / with a handler that falls through")
            body_lines = self.block(s.body, env, None, None)
            state = self.spec.get("state", ())
            rty = lean_type(("tuple", [self.ret] + [env[v] for v in state])) if state else lean_type(self.ret)
            return [f"match ((do"] + self.ind(self.ind(body_lines)) + [f"    ) : PyM {rty}) with", "| .ok r_ => pure r_",
                                                                     f"| .error {evar} =>"] + \
                self.ind(handler_chain(lambda h: None))
        if self.top_level_ctl(s.body, (ast.Return, ast.Break, ast.Continue)):
            raise Unsupported("try body with return / break / continue that falls through elsewhere")
        changes_state = [v for v in self.assigned(s.body) if v in self.spec.get("state", ()) or v in env]
        atomic = len(s.body) == 1 and isinstance(s.body[0], ast.Assign) and not self.flow_effects(s.body[0])
        # (one assignment: whatever raises is evaluated before the variable is rebound, so the handler sees the old value)
        if changes_state and not atomic and not all(self.terminal(h.body) for h in s.handlers):
            raise Unsupported("try body that rebinds " + ", ".join(changes_state) + " with a handler that falls through")
        benv: dict = {}
        bvars: list[str] = []

        def btail(e2):
            benv.update(e2)
            bvars[:] = [v for v in self.assigned(s.body) if v in e2]
            return ["pure (" + ", ".join(lname(v) for v in bvars) + ")"] if len(bvars) != 1 else [f"pure {lname(bvars[0])}"]
        body_lines = self.block(s.body, env, btail, None)
        bpat = "(" + ", ".join(lname(v) for v in bvars) + ")" if len(bvars) != 1 else lname(bvars[0])
        bty = lean_type(("tuple", [benv[v] for v in bvars])) if len(bvars) != 1 else lean_type(benv[bvars[0]])
        if not bvars:
            bpat, bty = "()", "Unit"
        env_else = dict(env)
        for v in bvars:
            env_else[v] = benv[v]
        # the paths that fall through (body + else, every handler that does not end in raise): their tails are filled in
        # once the variables bound on all of them are known
        ends: list[tuple[str, dict]] = []

        def make_tail():
            def tail(e2):
                mark = f"@@TAIL{self.ntry}.{len(ends)}@@"
                ends.append((mark, e2))
                return [mark]
            return tail
        else_lines = self.block(s.orelse, env_else, make_tail(), loop)
        chain = handler_chain(lambda h: (None if self.terminal(h.body) else make_tail()))
        cands = [v for v in self.assigned(s.body + s.orelse + [x for h in s.handlers for x in h.body])]
        mods = [v for v in cands if all(v in e2 for _, e2 in ends)]
        types = {}
        for m in mods:
            ts = [e2[m] for _, e2 in ends]
            opt = [t for t in ts if isinstance(t, tuple) and t[0] == "opt"]
            final = opt[0] if opt else ts[0]
            if any(t != final and ("opt", t) != final for t in ts):
                raise Unsupported(f"{m} has different types on the paths through the try statement")
            types[m] = final

        def fill(lines):
            out = []
            for l in lines:
                for mark, e2 in ends:
                    if mark in l:
                        vals = [lname(m) if e2[m] == types[m] else f"(some {lname(m)})" for m in mods]
                        l = l.replace(mark, "pure (" + ", ".join(vals) + ")" if len(vals) != 1 else f"pure {vals[0]}")
                out.append(l)
            return out
        env2 = dict(env)
        for m in mods:
            env2[m] = types[m]
        pat = "(" + ", ".join(lname(m) for m in mods) + ")" if len(mods) != 1 else lname(mods[0])
        ty = lean_type(("tuple", [types[m] for m in mods])) if len(mods) != 1 else lean_type(types[mods[0]])
        if not mods:
            pat, ty = "()", "Unit"
        return [f"let {pat} : {ty} ← (match ((do"] + self.ind(self.ind(body_lines)) + [f"    ) : PyM {bty}) with",
               f"  | .ok {bpat} => (do"] + fill(self.ind(self.ind(else_lines))) + ["    )", f"  | .error {evar} =>"] + \
            fill(self.ind(self.ind(chain))) + ["  )"] + cont(env2)

    # -- statements -----------------------------------------------------------------------
    @staticmethod
    def terminal(stmts) -> bool:
        """every path through the block ends in return / raise"""
        if not stmts:
            return False
        s = stmts[-1]
        if isinstance(s, (ast.Return, ast.Raise)):
            return True
        if isinstance(s, ast.If):
            return Fn.terminal(s.body) and Fn.terminal(s.orelse)
        return False

    def assigned(self, stmts) -> list[str]:
        out: list[str] = []
        attrs = self.spec.get("attrs", {})

        def tgt(t):
            if isinstance(t, ast.Name):
                if t.id not in out:
                    out.append(t.id)
            elif isinstance(t, ast.Tuple):
                for x in t.elts:
                    tgt(x)
            elif isinstance(t, ast.Subscript) and isinstance(t.value, ast.Name):
                tgt(t.value)      # buf[i] = x updates buf
            elif isinstance(t, ast.Subscript) and ast.unparse(t.value) in attrs:
                name = attrs[ast.unparse(t.value)][0]      # d[k] = v on a dict carried as a state variable updates it
                if name not in out:
                    out.append(name)
            elif isinstance(t, ast.Attribute) and ast.unparse(t) in self.spec.get("opt_attrs", {}):
                name = self.spec["opt_attrs"][ast.unparse(t)][0]      # obj.X = v for an attribute kept as an Optional variable
                if name not in out:
                    out.append(name)
        for s in stmts:
            for n in ast.walk(s):
                if isinstance(n, ast.Assign):
                    for t in n.targets:
                        tgt(t)
                elif isinstance(n, ast.AugAssign):
                    tgt(n.target)
                elif isinstance(n, ast.For):
                    tgt(n.target)
            for x in self.effects(s):
                if x not in out:
                    out.append(x)
        return out

    @staticmethod
    def has(stmts, kinds) -> bool:
        return any(isinstance(n, kinds) for s in stmts for n in ast.walk(s))

    @staticmethod
    def loads(nodes) -> set[str]:
        return {n.id for s in nodes for n in ast.walk(s) if isinstance(n, ast.Name)}

    def block(self, stmts, env, k, loop=None) -> list[str]:
        """lines of a `do` block; `k(env)` gives the lines of what follows (None: end of function)."""
        if not stmts:
            if k is None:
                if self.ret != "none":
                    raise Unsupported("control reaches the end of a function that returns a value")
                state = self.spec.get("state", ())
                return ["pure (" + ", ".join(["()"] + [lname(v) for v in state]) + ")"] if state else ["pure ()"]
            return k(env)
        s, rest = stmts[0], stmts[1:]

        def cont(env2):
            return self.block(rest, env2, k, loop)

        if isinstance(s, ast.Expr) and isinstance(s.value, ast.Constant) and isinstance(s.value.value, str):
            return cont(env)  # docstring
        if isinstance(s, ast.Pass):
            return cont(env)
        if ast.unparse(s).strip() in self.spec.get("skip", ()):
            # a statement whose effect is supplied by the harness as parameters of the translated definition
            # (third-party / object-graph step named in the entry's `assume`)
            return cont(env)
        if isinstance(s, ast.Assign) and len(s.targets) == 1 and isinstance(s.targets[0], ast.Name) \
                and s.targets[0].id in getattr(self, "msg_only", ()):
            return cont(env)  # exception message text: not modelled
        if self.spec.get("flow") and isinstance(s, ast.Expr) and isinstance(s.value, ast.Call) \
                and ast.unparse(s.value.func) == "debug":
            return cont(env)  # logging: not modelled
        if isinstance(s, ast.Assign) and len(s.targets) == 1 and ast.unparse(s.targets[0]) in self.spec.get("opt_attrs", {}):
            # self.X = v for an attribute __init__ does not set: from here on it is set
            name, t = self.spec["opt_attrs"][ast.unparse(s.targets[0])]
            pre = []
            code, vt = self.expr(s.value, env, pre)
            if vt != t:
                raise Unsupported(f"self attribute of type {t} assigned a {vt}")
            env2 = dict(env)
            env2[name] = ("opt", t)
            return pre + [f"let {lname(name)} : {lean_type(('opt', t))} := some {code}"] + cont(env2)
        if isinstance(s, ast.With) and self.spec.get("flow"):
            # with E as v: body — E is evaluated, v bound, the body runs (a file object's __exit__ swallows nothing)
            pre = []
            env2 = dict(env)
            for item in s.items:
                code, t = self.expr(item.context_expr, env2, pre)
                if item.optional_vars is not None:
                    if not isinstance(item.optional_vars, ast.Name):
                        raise Unsupported("with target")
                    env2[item.optional_vars.id] = t
                    pre.append(f"let {lname(item.optional_vars.id)} : {lean_type(t)} := {code}")
            return pre + self.block(list(s.body), env2, cont, loop)
        if isinstance(s, ast.Expr) and isinstance(s.value, ast.Call) and self.spec.get("flow"):
            pre = []
            fsrc = ast.unparse(s.value.func)
            if fsrc in self.spec.get("state_externs", {}):
                # a call of the handler: every argument is evaluated (it may raise), the state variable is rebound
                lean_fn, var, keep = self.spec["state_externs"][fsrc]
                if s.value.keywords:
                    raise Unsupported("keyword arguments in a handler call")
                args = [self.expr(a, env, pre)[0] for a in s.value.args]
                if var not in env:
                    raise Unsupported(f"{var} is not bound at the call of {fsrc}")
                return pre + [f"let {lname(var)} : {lean_type(env[var])} := {lean_fn} {lname(var)} " +
                              " ".join(args[i] for i in keep)] + cont(env)
            self.expr(s.value, env, pre)
            return pre + cont(env)
        if isinstance(s, ast.Try) and self.spec.get("flow"):
            return self.flow_try(s, env, cont, loop)
        if isinstance(s, ast.Raise) and s.exc is None and getattr(self, "exc_stack", None):
            return [f"throw {self.exc_stack[-1]}"]
        if isinstance(s, (ast.Assign, ast.AugAssign)):
            pre: list[str] = []
            if isinstance(s, ast.Assign):
                if len(s.targets) != 1:
                    raise Unsupported("chained assignment")
                target = s.targets[0]
                if isinstance(s.value, ast.Constant) and s.value.value is None and isinstance(target, ast.Name) \
                        and target.id in self.spec.get("opt_vars", {}):
                    t = ("opt", self.spec["opt_vars"][target.id])       # `x = None` for a variable that later holds a value
                    code = f"(none : {lean_type(t)})"
                elif isinstance(target, ast.Name) and target.id in self.spec.get("opt_vars", {}):
                    code, t = self.expr(s.value, env, pre)
                    if t != self.spec["opt_vars"][target.id]:
                        raise Unsupported(f"{target.id} declared Optional[{self.spec['opt_vars'][target.id]}] is assigned a {t}")
                    code, t = f"(some {code})", ("opt", t)
                elif isinstance(s.value, ast.List) and not s.value.elts and isinstance(target, ast.Name) \
                        and isinstance(env.get(target.id), tuple) and env[target.id][0] == "list":
                    t = env[target.id]       # `x = []` for a list variable that already has an element type
                    code = f"([] : {lean_type(t)})"
                else:
                    code, t = self.expr(s.value, env, pre)
            else:
                target = s.target
                code, t = self.binop(ast.BinOp(left=s.target, op=s.op, right=s.value), env, pre)
            env2 = dict(env)
            if isinstance(target, ast.Subscript) and ast.unparse(target.value) in self.spec.get("attrs", {}) \
                    and isinstance(self.spec["attrs"][ast.unparse(target.value)][1], tuple) \
                    and self.spec["attrs"][ast.unparse(target.value)][1][0] == "dict" and isinstance(s, ast.Assign):
                # d[k] = v on a dict the entry carries as a state variable
                dvar, dt = self.spec["attrs"][ast.unparse(target.value)]
                if dvar not in self.spec.get("state", ()):
                    raise Unsupported("assignment into a dict that is not a state variable of the entry")
                kc, kt = self.expr(target.slice, env, pre)
                if kt != "str" or t != dt[2]:
                    raise Unsupported("dict item of the wrong type")
                return pre + [f"let {dvar} : {lean_type(dt)} := PyT.dictSet {dvar} {kc} {code}"] + cont(env2)
            if isinstance(target, ast.Subscript) and isinstance(target.value, ast.Name) and env.get(target.value.id) == "bytes" \
                    and not isinstance(target.slice, ast.Slice):
                # buf[i] = x / buf[i] op= x on a bytearray: the updated buffer (IndexError / ValueError as bytearray raises them)
                if t != "int":
                    raise Unsupported("bytearray item of type " + str(t))
                idx, it = self.expr(target.slice, env, pre)
                if it != "int":
                    raise Unsupported("non-int index")
                b = lname(target.value.id)
                return pre + [f"let {b} ← PyT.setByte {b} {idx} {code}"] + cont(env2)
            if isinstance(target, ast.Name):
                env2[target.id] = t
                return pre + [f"let {lname(target.id)} : {lean_type(t)} := {code}"] + cont(env2)
            if isinstance(target, ast.Tuple) and isinstance(t, tuple) and t[0] == "tuple" \
                    and all(isinstance(x, ast.Name) for x in target.elts) and len(target.elts) == len(t[1]):
                for x, xt in zip(target.elts, t[1]):
                    env2[x.id] = xt
                pat = "(" + ", ".join(lname(x.id) for x in target.elts) + ")"
                return pre + [f"let {pat} : {lean_type(t)} := {code}"] + cont(env2)
            raise Unsupported("assignment target")
        if isinstance(s, ast.Return):
            pre = []
            if s.value is None:
                code, t = "()", "none"
            else:
                code, t = self.expr(s.value, env, pre)
            state = self.spec.get("state", ())
            if state:
                # the entry's state variables (what the method leaves in `self`) are returned beside the value
                code = "(" + ", ".join([code] + [lname(v) for v in state]) + ")"
            if loop is not None:
                return pre + [loop["on_return"](code, env)]
            return pre + [f"pure {code}"]
        if isinstance(s, ast.Raise):
            return [f"throw {exc_code(s.exc)}"]
        if isinstance(s, ast.Break):
            return [loop["on_break"](env)]
        if isinstance(s, ast.Continue):
            return [loop["on_continue"](env)]
        if isinstance(s, ast.If):
            return self.if_stmt(s, env, cont, loop)
        if isinstance(s, ast.While):
            return self.while_stmt(s, env, cont, loop)
        if isinstance(s, ast.For):
            return self.for_stmt(s, env, cont, loop)
        if isinstance(s, ast.Expr) and isinstance(s.value, ast.Call) and self.spec.get("token_class"):
            # a call evaluated for its effect on the state variables (self.save_token(), self.assert_empty_token())
            pre = []
            self.expr(s.value, env, pre)
            return pre + cont(env)
        if isinstance(s, ast.Try) and self.spec.get("token_class"):
            return self.try_stmt(s, env, cont, loop)
        raise Unsupported(type(s).__name__)

    @staticmethod
    def ind(lines):
        return ["  " + l for l in lines]

    def if_stmt(self, s, env, cont, loop):
        # isinstance narrowing:  if isinstance(x, int): …  →  match x with | .int x => … | x => …
        t = s.test
        if isinstance(t, ast.Call) and isinstance(t.func, ast.Name) and t.func.id == "isinstance" \
                and isinstance(t.args[0], ast.Name) and env.get(t.args[0].id) == "key":
            var = t.args[0].id
            cls = t.args[1].id
            if cls not in ("int", "str"):
                raise Unsupported("isinstance class")
            env_then = dict(env)
            env_then[var] = cls
            if not self.terminal(s.body):
                raise Unsupported("isinstance branch that falls through")
            then_lines = self.block(s.body, env_then, None, loop)
            else_lines = self.block(s.orelse, env, lambda e2: cont(e2), loop) if s.orelse else cont(env)
            return [f"match {lname(var)} with", f"| .{cls} {lname(var)} =>"] + self.ind(then_lines) + \
                   [f"| {lname(var)} =>"] + self.ind(else_lines)
        # Optional narrowing:  if not m: <terminal>  →  match m with | none => … | some m => rest
        if isinstance(t, ast.UnaryOp) and isinstance(t.op, ast.Not) and isinstance(t.operand, ast.Name) \
                and isinstance(env.get(t.operand.id), tuple) and env[t.operand.id][0] == "opt" \
                and self.terminal(s.body) and not s.orelse:
            var = t.operand.id
            env2 = dict(env)
            env2[var] = env[var][1]
            return [f"match {lname(var)} with", "| none =>"] + self.ind(self.block(s.body, env, None, loop)) + \
                   [f"| some {lname(var)} =>"] + self.ind(cont(env2))
        # Optional narrowing:  if m is None: <terminal>  →  match m with | none => … | some m => rest
        if isinstance(t, ast.Compare) and len(t.ops) == 1 and isinstance(t.ops[0], ast.Is) and isinstance(t.left, ast.Name) \
                and isinstance(t.comparators[0], ast.Constant) and t.comparators[0].value is None \
                and isinstance(env.get(t.left.id), tuple) and env[t.left.id][0] == "opt" and not s.orelse \
                and self.terminal(s.body):
            var = t.left.id
            env2 = dict(env)
            env2[var] = env[var][1]
            return [f"match {lname(var)} with", "| none =>"] + self.ind(self.block(s.body, env, None, loop)) + \
                   [f"| some {lname(var)} =>"] + self.ind(cont(env2))
        # Optional defaulting:  if x is None: x = e   →  let x ← match x with | none => e | some x => x
        if isinstance(t, ast.Compare) and len(t.ops) == 1 and isinstance(t.ops[0], ast.Is) and isinstance(t.left, ast.Name) \
                and isinstance(t.comparators[0], ast.Constant) and t.comparators[0].value is None \
                and isinstance(env.get(t.left.id), tuple) and env[t.left.id][0] == "opt" and not s.orelse \
                and len(s.body) == 1 and isinstance(s.body[0], ast.Assign) and len(s.body[0].targets) == 1 \
                and isinstance(s.body[0].targets[0], ast.Name) and s.body[0].targets[0].id == t.left.id:
            var = t.left.id
            sub: list[str] = []
            code, vt = self.expr(s.body[0].value, env, sub)
            if vt != env[var][1]:
                raise Unsupported(f"default of type {vt} for an Optional[{env[var][1]}]")
            env2 = dict(env)
            env2[var] = vt
            return [f"let {lname(var)} : {lean_type(vt)} ← (match {lname(var)} with", "  | none => (do"] + \
                self.ind(self.ind(sub + [f"pure {code}"])) + [f"    )", f"  | some {lname(var)} => pure {lname(var)})"] + cont(env2)
        pre: list[str] = []
        c = self.truthy(s.test, env, pre)
        then_term, else_term = self.terminal(s.body), self.terminal(s.orelse)
        ctl = (ast.Return, ast.Raise, ast.Break, ast.Continue)
        if then_term and else_term:
            return pre + [f"if {c} then"] + self.ind(self.block(s.body, env, None, loop)) + ["else"] + \
                   self.ind(self.block(s.orelse, env, None, loop))
        if then_term:
            return pre + [f"if {c} then"] + self.ind(self.block(s.body, env, None, loop)) + ["else"] + \
                   self.ind(self.block(s.orelse, env, cont, loop))
        if else_term:
            return pre + [f"if {c} then"] + self.ind(self.block(s.body, env, cont, loop)) + ["else"] + \
                   self.ind(self.block(s.orelse, env, None, loop))
        if not self.has(s.body + s.orelse, ctl + (ast.While, ast.For)):
            # both branches fall through and only assign: join on the assigned variables
            mods = [m for m in self.assigned(s.body + s.orelse)]
            if self.spec.get("token_class") or self.spec.get("flow"):
                # a name bound in one branch only (and not before) is out of scope after the statement: it is not joined, a
                # later use is a free name
                mods = self.defined_on_all_paths(mods, [s.body, s.orelse], [env, env], loop)
            envs = []

            def tail(e2):
                envs.append(e2)
                for m in mods:
                    if m not in e2:
                        raise Unsupported(f"{m} assigned in one branch only and not defined before")
                if not mods:
                    return ["pure ()"]
                return ["pure (" + ", ".join(lname(m) for m in mods) + ")"] if len(mods) != 1 else [f"pure {lname(mods[0])}"]
            then_lines = self.block(s.body, env, tail, loop)
            else_lines = self.block(s.orelse, env, tail, loop)
            t1, t2 = envs[0], envs[1]
            for m in mods:
                if t1[m] != t2[m]:
                    raise Unsupported(f"{m} has type {t1[m]} in one branch and {t2[m]} in the other")
            env2 = dict(env)
            for m in mods:
                env2[m] = t1[m]
            pat = "(" + ", ".join(lname(m) for m in mods) + ")" if len(mods) != 1 else lname(mods[0])
            ty = lean_type(("tuple", [t1[m] for m in mods])) if len(mods) != 1 else lean_type(t1[mods[0]])
            if not mods:
                pat, ty = "()", "Unit"
            return pre + [f"let {pat} : {ty} ← (if {c} then (do"] + self.ind(self.ind(then_lines)) + ["  ) else (do"] + \
                   self.ind(self.ind(else_lines)) + ["  ))"] + cont(env2)
        # general case: duplicate the continuation
        return pre + [f"if {c} then"] + self.ind(self.block(s.body, env, cont, loop)) + ["else"] + \
               self.ind(self.block(s.orelse, env, cont, loop))

    def defined_on_all_paths(self, mods, blocks, envs0, loop):
        """those of `mods` that are bound at the end of every one of the blocks (a dry run of each block; counters restored)"""
        saved = (self.tmp, list(self.aux), self.nloop, getattr(self, "nloop_for", 0), getattr(self, "ndispatch", 0))
        saved_try = getattr(self, "ntry", 0)
        ends = []

        def probe(e2):
            ends.append(e2)
            return ["pure ()"]
        for b, e0 in zip(blocks, envs0):
            self.block(b, e0, probe, loop)
        self.tmp, self.aux, self.nloop, self.nloop_for, self.ndispatch = saved
        self.ntry = saved_try
        return [m for m in mods if all(m in e2 for e2 in ends)]

    def try_stmt(self, s, env, cont, loop):
        """try: <assignments> / except <Class>: H / else: E — the body's outcome is matched: ok → E (with the body's bindings),
        the named exception → H, any other exception propagates.  (An exception raised inside E or H is not caught, as in
        Python.)  The body may not touch state variables: a partial update before the exception would have to survive it."""
        ctl = (ast.Return, ast.Raise, ast.Break, ast.Continue, ast.While, ast.For, ast.Try)
        if s.finalbody or len(s.handlers) != 1 or s.handlers[0].name is not None \
                or not isinstance(s.handlers[0].type, ast.Name) or s.handlers[0].type.id not in EXC:
            raise Unsupported("try statement other than try / except <Class> / else")
        if self.has(s.body + s.handlers[0].body + s.orelse, ctl) or \
                not all(isinstance(x, ast.Assign) for x in s.body):
            raise Unsupported("try statement with control flow in it")
        bvars = self.assigned(s.body)
        state_names = set(self.spec.get("state_attrs", {}).values())
        if any(v in state_names for v in bvars) or any(v in env for v in bvars):
            raise Unsupported("try body that rebinds a variable")
        benv = {}

        def btail(e2):
            benv.update(e2)
            return ["pure (" + ", ".join(lname(v) for v in bvars) + ")"] if len(bvars) != 1 else [f"pure {lname(bvars[0])}"]
        body_lines = self.block(s.body, env, btail, loop)
        bpat = "(" + ", ".join(lname(v) for v in bvars) + ")" if len(bvars) != 1 else lname(bvars[0])
        bty = lean_type(("tuple", [benv[v] for v in bvars])) if len(bvars) != 1 else lean_type(benv[bvars[0]])
        env_else = dict(env)
        for v in bvars:
            env_else[v] = benv[v]
        handler = s.handlers[0].body
        mods = [m for m in self.assigned(s.body + handler + s.orelse)]
        mods = self.defined_on_all_paths(mods, [s.orelse, handler], [env_else, env], loop)
        ends = []

        def tail(e2):
            ends.append(e2)
            if not mods:
                return ["pure ()"]
            return ["pure (" + ", ".join(lname(m) for m in mods) + ")"] if len(mods) != 1 else [f"pure {lname(mods[0])}"]
        else_lines = self.block(s.orelse, env_else, tail, loop)
        handler_lines = self.block(handler, env, tail, loop)
        for m in mods:
            if ends[0][m] != ends[1][m]:
                raise Unsupported(f"{m} has type {ends[0][m]} after the try body and {ends[1][m]} after the handler")
        env2 = dict(env)
        for m in mods:
            env2[m] = ends[0][m]
        pat = "(" + ", ".join(lname(m) for m in mods) + ")" if len(mods) != 1 else lname(mods[0])
        ty = lean_type(("tuple", [ends[0][m] for m in mods])) if len(mods) != 1 else lean_type(ends[0][mods[0]])
        if not mods:
            pat, ty = "()", "Unit"
        exc = EXC[s.handlers[0].type.id]
        return [f"let {pat} : {ty} ← (match ((do"] + self.ind(self.ind(body_lines)) + [f"    ) : PyM {bty}) with",
               f"  | .ok {bpat} => (do"] + self.ind(self.ind(else_lines)) + ["    )", f"  | .error {exc} => (do"] + \
            self.ind(self.ind(handler_lines)) + ["    )", "  | .error e => throw e)"] + cont(env2)

    def loop_common(self, body_nodes, env, extra_bound=()):
        carried = [v for v in self.assigned(body_nodes) if v in env and v not in extra_bound]
        used = self.loads(body_nodes) | self.implicit_loads(body_nodes)
        # parameters that stand for third-party functions are named by the externs / methods of the entry, not by the
        # Python text: they are always passed on
        fixed = [v for v in env if (v in used or (isinstance(env[v], tuple) and env[v][0] == "raw"))
                 and v not in carried and v not in extra_bound]
        return carried, fixed

    def loop_result(self, carried, env, has_ret):
        tup = "(" + ", ".join(lname(v) for v in carried) + ")" if len(carried) != 1 else lname(carried[0])
        if not carried:
            tup = "()"
        cty = lean_type(("tuple", [env[v] for v in carried])) if len(carried) > 1 else \
            (lean_type(env[carried[0]]) if carried else "Unit")
        state = self.spec.get("state", ())
        full = lean_type(("tuple", [self.ret] + [env[v] for v in state])) if state else lean_type(self.ret)
        rty = f"(Option {full} × {cty})" if has_ret else cty
        return tup, cty, rty

    def after_loop(self, call, carried, env, has_ret, cont, loop):
        tup, cty, rty = self.loop_result(carried, env, has_ret)
        if has_ret:
            lines = [f"let (ret?, {tup}) ← {call}" if carried else f"let (ret?, _) ← {call}",
                     "match ret? with"]
            on_ret = loop["on_return"]("r", env) if loop is not None else "pure r"
            lines += [f"| some r => {on_ret}", "| none =>"] + self.ind(cont(env))
            return lines
        if carried:
            return [f"let {tup} ← {call}"] + cont(env)
        return [f"let _ ← {call}"] + cont(env)

    def while_stmt(self, s, env, cont, loop):
        if s.orelse:
            raise Unsupported("while/else")
        fuels = self.spec.get("fuel", [])
        if self.nloop >= len(fuels):
            raise Unsupported("while loop without a fuel expression in TARGETS")
        fuel = fuels[self.nloop]
        self.nloop += 1
        lname_loop = f"{self.name}.loop{self.nloop}"
        carried, fixed = self.loop_common([s.test] + s.body, env)
        has_ret = self.has(s.body, ast.Return)
        tup, cty, rty = self.loop_result(carried, env, has_ret)
        wrap = (lambda x: f"(none, {x})") if has_ret else (lambda x: x)
        params = " ".join(f"({lname(v)} : {lean_type(env[v])})" for v in fixed + carried)
        args = lambda e2: " ".join(lname(v) for v in fixed + carried)  # noqa: E731
        inner = {
            "on_return": lambda code, e2: f"pure (some {code}, {tup})",
            "on_break": lambda e2: f"pure {wrap(tup)}",
            "on_continue": lambda e2: f"{lname_loop} fuel {args(e2)}",
        }
        pre: list[str] = []
        c = self.truthy(s.test, env, pre)
        body = self.block(s.body, env, lambda e2: [f"{lname_loop} fuel {args(e2)}"], inner)
        d = [f"def {lname_loop} (fuel : Nat) {params} : PyM {rty} :=", "  match fuel with",
             "  | 0 => throw .OutOfFuel", "  | fuel + 1 => do"]
        d += self.ind(self.ind(pre + [f"if {c} then"] + self.ind(body) + ["else", f"  pure {wrap(tup)}"]))
        self.aux.append("\n".join(d))
        call = f"{lname_loop} ({fuel}) {args(env)}"
        return self.after_loop(call, carried, env, has_ret, cont, loop)

    def for_stmt(self, s, env, cont, loop):
        if s.orelse:
            raise Unsupported("for/else")
        pre: list[str] = []
        it = s.iter
        # iterable → (lean list expression, element type)
        def iterable(node):
            if isinstance(node, ast.Call) and isinstance(node.func, ast.Name):
                if node.func.id == "reversed":
                    c, t = iterable(node.args[0])
                    return f"({c}).reverse", t
                if node.func.id == "enumerate":
                    c, t = iterable(node.args[0])
                    return f"(PyT.enumerate {c})", ("tuple", ["int", t])
                if node.func.id == "range" and len(node.args) == 1:
                    c, t = self.expr(node.args[0], env, pre)
                    return f"(PyT.range {c})", "int"
                if node.func.id == "range" and len(node.args) in (2, 3):
                    parts = [self.expr(a, env, pre) for a in node.args]
                    if any(t != "int" for _, t in parts):
                        raise Unsupported("range() of non-ints")
                    step = parts[2][0] if len(parts) == 3 else "(1 : Int)"
                    v = self.fresh()
                    pre.append(f"let {v} ← PyT.range3 {parts[0][0]} {parts[1][0]} {step}")
                    return v, "int"
            c, t = self.expr(node, env, pre)
            if t == "str":
                return f"(PyT.strIter {c})", "str"
            if isinstance(t, tuple) and t[0] == "list":
                return c, t[1]
            raise Unsupported("iteration over " + str(t))
        lst, et = iterable(it)
        env_body = dict(env)
        if isinstance(s.target, ast.Name):
            pat = lname(s.target.id)
            env_body[s.target.id] = et
            bound = (s.target.id,)
        elif isinstance(s.target, ast.Tuple) and isinstance(et, tuple) and et[0] == "tuple":
            pat = "(" + ", ".join(lname(x.id) for x in s.target.elts) + ")"
            for x, xt in zip(s.target.elts, et[1]):
                env_body[x.id] = xt
            bound = tuple(x.id for x in s.target.elts)
        else:
            raise Unsupported("for target")
        self.nloop_for = getattr(self, "nloop_for", 0) + 1
        lname_loop = f"{self.name}.for{self.nloop_for}"
        carried, fixed = self.loop_common(s.body, env, extra_bound=bound)
        has_ret = self.has(s.body, ast.Return)
        tup, cty, rty = self.loop_result(carried, env, has_ret)
        wrap = (lambda x: f"(none, {x})") if has_ret else (lambda x: x)
        params = " ".join(f"({lname(v)} : {lean_type(env[v])})" for v in fixed)
        cparams = " ".join(f"({lname(v)} : {lean_type(env[v])})" for v in carried)
        fargs = " ".join(lname(v) for v in fixed)
        cargs = " ".join(lname(v) for v in carried)
        rec = f"{lname_loop} {fargs} rest {cargs}".replace("  ", " ")
        inner = {
            "on_return": lambda code, e2: f"pure (some {code}, {tup})",
            "on_break": lambda e2: f"pure {wrap(tup)}",
            "on_continue": lambda e2: rec,
        }
        body = self.block(s.body, env_body, lambda e2: [rec], inner)
        lst_name = "items" if "items" not in fixed + carried else "items__"   # the list iterated over (a variable `items` keeps its name)
        d = [f"def {lname_loop} {params} ({lst_name} : {lean_type(('list', et))}) {cparams} : PyM {rty} :=".replace("  ", " "),
             f"  match {lst_name} with", f"  | [] => pure {wrap(tup)}", f"  | {pat} :: rest => do"]
        d += self.ind(self.ind(body))
        self.aux.append("\n".join(d))
        call = f"{lname_loop} {fargs} {lst} {cargs}".replace("  ", " ")
        return pre + self.after_loop(call, carried, env, has_ret, cont, loop)

    # -- whole function -----------------------------------------------------------------------
    def message_only(self, fdef) -> set[str]:
        """names whose every use is inside the argument of a `raise` (or inside the value assigned to another such
        name): exception message texts, which the model does not carry"""
        cand = set(self.assigned(fdef.body))
        params = {a.arg for a in fdef.args.args}
        cand -= params
        # parameters and state variables of the entry are results, never message texts
        cand -= {p[0] for p in self.spec["params"]} | set(self.spec.get("state", ()))
        if self.spec.get("flow"):
            # a name that is never read (`_ = zipf.getinfo(…)`) is not a message text: its value is computed for the exception
            # it may raise
            loaded = {n.id for n in ast.walk(fdef) if isinstance(n, ast.Name) and isinstance(n.ctx, ast.Load)}
            cand = {c for c in cand if c in loaded}
        changed = True
        while changed:
            changed = False
            for name in list(cand):
                ok = True

                def visit(node, allowed):
                    nonlocal ok
                    if isinstance(node, ast.Raise):
                        allowed = True
                    elif isinstance(node, ast.Assign) and len(node.targets) == 1 and isinstance(node.targets[0], ast.Name) \
                            and node.targets[0].id in cand:
                        allowed = True
                    if isinstance(node, ast.Name) and node.id == name and isinstance(node.ctx, ast.Load) and not allowed:
                        ok = False
                    for ch in ast.iter_child_nodes(node):
                        visit(ch, allowed)
                visit(fdef, False)
                if not ok:
                    cand.discard(name)
                    changed = True
        return cand

    def desugar_state(self, fdef):
        """`state_attrs` of the entry: attribute chains of `self` that are state variables of the translated definition.
        `X.append(v)` is `x = x + [v]`, `del X[:]` is `x = []`, `X op= v` is `x op= v`, a read of `X` is `x`."""
        sa = self.spec.get("state_attrs")
        if not sa:
            return fdef

        class T(ast.NodeTransformer):
            def visit_Expr(self, node):
                c = node.value
                if isinstance(c, ast.Call) and isinstance(c.func, ast.Attribute) and c.func.attr == "append" \
                        and ast.unparse(c.func.value) in sa and len(c.args) == 1 and not c.keywords:
                    n = sa[ast.unparse(c.func.value)]
                    return ast.Assign(targets=[ast.Name(id=n, ctx=ast.Store())],
                                      value=ast.BinOp(left=ast.Name(id=n, ctx=ast.Load()), op=ast.Add(),
                                                      right=ast.List(elts=[self.visit(c.args[0])], ctx=ast.Load())))
                return self.generic_visit(node)

            def visit_Delete(self, node):
                if len(node.targets) == 1 and isinstance(node.targets[0], ast.Subscript) \
                        and ast.unparse(node.targets[0].value) in sa and isinstance(node.targets[0].slice, ast.Slice) \
                        and node.targets[0].slice.lower is None and node.targets[0].slice.upper is None \
                        and node.targets[0].slice.step is None:
                    n = sa[ast.unparse(node.targets[0].value)]
                    return ast.Assign(targets=[ast.Name(id=n, ctx=ast.Store())], value=ast.List(elts=[], ctx=ast.Load()))
                return self.generic_visit(node)

            def visit_Attribute(self, node):
                if ast.unparse(node) in sa:
                    return ast.Name(id=sa[ast.unparse(node)], ctx=node.ctx)
                return self.generic_visit(node)
        out = T().visit(fdef)
        ast.fix_missing_locations(out)
        return out

    def find_dispatch(self, fdef):
        """the idiom of `Tokenizer.parse`:
               T = (("chars", self.m1), ("chars", self.m2), …)
               D = {}
               for chars, consumer in T:
                   D.update(dict.fromkeys(chars, consumer))
           D maps every character of every `chars` to the method of the LAST pair that has it (later pairs overwrite earlier
           ones): recorded as the list of pairs (PyT.dispatchFind), the three statements are dropped."""
        body = list(fdef.body)
        for i in range(len(body) - 2):
            a, b, c = body[i:i + 3]
            if not (isinstance(a, ast.Assign) and len(a.targets) == 1 and isinstance(a.targets[0], ast.Name)
                    and isinstance(a.value, ast.Tuple) and a.value.elts
                    and all(isinstance(x, ast.Tuple) and len(x.elts) == 2 and isinstance(x.elts[0], ast.Constant)
                            and isinstance(x.elts[0].value, str) and isinstance(x.elts[1], ast.Attribute)
                            and isinstance(x.elts[1].value, ast.Name) and x.elts[1].value.id == "self" for x in a.value.elts)):
                continue
            tname = a.targets[0].id
            if not (isinstance(b, ast.Assign) and len(b.targets) == 1 and isinstance(b.targets[0], ast.Name)
                    and isinstance(b.value, ast.Dict) and not b.value.keys):
                continue
            dname = b.targets[0].id
            want = f"for chars, consumer in {tname}:\n    {dname}.update(dict.fromkeys(chars, consumer))"
            if not (isinstance(c, ast.For) and ast.unparse(c) == want):
                continue
            rest = body[:i] + body[i + 3:]
            if any(isinstance(n, ast.Name) and n.id == tname for st in rest for n in ast.walk(st)) or \
                    any(isinstance(n, ast.Name) and n.id == dname and isinstance(n.ctx, ast.Store) for st in rest for n in ast.walk(st)):
                raise Unsupported("the dispatch table is used outside the idiom")
            pairs = [(x.elts[0].value, x.elts[1].attr) for x in a.value.elts]
            for _, m in pairs:
                if m not in self.registry or self.state_callee(ast.Attribute(value=ast.Name(id="self"), attr=m)) is None:
                    raise Unsupported(f"dispatched method {m} is not translated")
            self.dispatch[dname] = pairs
            fdef = ast.FunctionDef(name=fdef.name, args=fdef.args, body=rest, decorator_list=[], returns=None,
                                   type_comment=None, lineno=fdef.lineno, col_offset=0)
            ast.fix_missing_locations(fdef)
            return fdef
        return fdef

    def translate(self, fdef: ast.FunctionDef) -> str:
        if self.spec.get("class_defaults"):
            # a class whose attributes the entry keeps as variables: their defaults are read from the live class
            import importlib
            cls_name, names = self.spec["class_defaults"]
            klass = getattr(importlib.import_module(self.spec["module"]), cls_name)
            live = [f.name for f in __import__("dataclasses").fields(klass)] if hasattr(klass, "__dataclass_fields__") else \
                [k for k in vars(klass) if k.startswith("_") and k.endswith("_id")]
            if live != names or any(getattr(klass(), n) is not None for n in names):
                raise Unsupported(f"{cls_name}() no longer has exactly the attributes {names}, all None")
        if self.spec.get("token_class"):
            token_law(self.spec["module"])
            for what, law in self.spec.get("live_laws", ()):
                import importlib
                if not law(importlib.import_module(self.spec["module"])):
                    raise Unsupported("the law an extern of this entry rests on no longer holds: " + what)
            fdef = self.find_dispatch(fdef)
        if self.spec.get("generator"):
            # a generator consumed as a whole (b"".join(gen(…))): `yield v` appends v to the list of what was yielded, which is
            # the result (an exception ends it, as it ends the consumer)
            class Y(ast.NodeTransformer):
                def visit_Expr(self, node):
                    if isinstance(node.value, ast.Yield) and node.value.value is not None:
                        return ast.Assign(targets=[ast.Name(id="yielded_", ctx=ast.Store())],
                                          value=ast.BinOp(left=ast.Name(id="yielded_", ctx=ast.Load()), op=ast.Add(),
                                                          right=ast.List(elts=[node.value.value], ctx=ast.Load())))
                    return self.generic_visit(node)
            fdef = Y().visit(fdef)
            if any(isinstance(n, (ast.Yield, ast.YieldFrom, ast.Return)) for n in ast.walk(fdef)):
                raise Unsupported("generator with yield as an expression / yield from / return")
            fdef.body = list(fdef.body) + [ast.Return(value=ast.Name(id="yielded_", ctx=ast.Load()))]
            ast.fix_missing_locations(fdef)
        fdef = self.desugar_state(fdef)
        if self.spec.get("token_class") and self.spec.get("state_attrs"):
            # whatever the method changes in `self` must be among the state variables it returns
            names = set(self.spec["state_attrs"].values())
            for v in self.assigned(fdef.body):
                if v in names and v not in self.spec.get("state", ()):
                    raise Unsupported(f"the method now changes self.{v}, which its entry does not return")
            if any(isinstance(n, ast.Attribute) and isinstance(n.value, ast.Name) and n.value.id == "self"
                   and isinstance(n.ctx, ast.Store) for n in ast.walk(fdef)):
                raise Unsupported("assignment to an attribute of self that is not a state variable of the entry")
        self.msg_only = self.message_only(fdef)
        body_of = self.spec.get("body_of")
        if body_of:
            # translate the body of the one loop statement whose header line is `body_of` (its loop variable and whatever
            # else the body reads are parameters of the entry)
            loops = [n for n in ast.walk(fdef) if isinstance(n, (ast.For, ast.While))
                     and ast.unparse(n).split("\n")[0].strip() == body_of]
            if len(loops) != 1:
                raise Unsupported(f"loop {body_of!r} not found exactly once")
            fdef = ast.FunctionDef(name=fdef.name, args=fdef.args, body=list(loops[0].body), decorator_list=[],
                                   returns=None, type_comment=None, lineno=fdef.lineno, col_offset=0)
            ast.fix_missing_locations(fdef)
        until = self.spec.get("until")
        if until:
            # translate only the prefix of the body before the statement `until[0]`, then return the tuple `until[1]`
            cut = [i for i, st in enumerate(fdef.body) if ast.unparse(st).strip() == until[0]
                   or ast.unparse(st).split("\n")[0].strip() == until[0]]
            if len(cut) != 1:
                raise Unsupported(f"statement {until[0]!r} that ends the translated prefix not found exactly once")
            ret = ast.parse("return (" + ", ".join(until[1]) + ")" if until[1] else "return").body[0]
            fdef = ast.FunctionDef(name=fdef.name, args=fdef.args, body=fdef.body[:cut[0]] + [ret], decorator_list=[],
                                   returns=None, type_comment=None, lineno=fdef.lineno, col_offset=0)
            ast.fix_missing_locations(fdef)
        env = {}
        params = []
        for n, t, *_ in self.spec["params"]:
            env[n] = t
            params.append(f"({lname(n)} : {lean_type(t)})")
        self.exc_stack: list[str] = []
        # call sites of each extern in source order (externs whose Lean name carries the index of the call site)
        self.occurrence = {}
        counts: dict[str, int] = {}
        calls = [n for n in ast.walk(fdef) if isinstance(n, ast.Call)]
        for n in sorted(calls, key=lambda n: (n.lineno, n.col_offset)):
            k = ast.unparse(n.func)
            self.occurrence[id(n)] = counts.get(k, 0)
            counts[k] = counts.get(k, 0) + 1
        head_lines: list[str] = []
        for n, t, init in self.spec.get("init", ()):
            # what a fresh object has before the method runs (an unset attribute, an empty handler state)
            env[n] = t
            head_lines.append(f"let {lname(n)} : {lean_type(t)} := {init}")
        if self.spec.get("rec_fuel"):
            # a method that calls itself: the depth of the recursion is the parameter `fuel` (RecursionError at 0); `rec_` is
            # the method one level deeper
            rest = [(n, t) for n, t, *_ in self.spec["params"] if n not in ("ext", "fuel")]
            state = self.spec.get("state", ())
            rty0 = lean_type(("tuple", [self.ret] + [env[v] for v in state])) if state else lean_type(self.ret)
            env["rec_"] = ("raw", " → ".join([lean_type(t) for _, t in rest] + [f"PyM {rty0}"]))
        body = head_lines + self.block(fdef.body, env, None)
        if self.spec.get("rec_fuel"):
            body = ["match fuel with", "| 0 => throw (.Other \"RecursionError\")", "| fuel + 1 => do",
                    f"  let rec_ := {self.name} ext fuel"] + self.ind(body)
        state = self.spec.get("state", ())
        rty = lean_type(("tuple", [self.ret] + [env[v] for v in state])) if state else lean_type(self.ret)
        tv = "".join("{" + v + " : Type} " for v in self.spec.get("typevars", ()))
        head = f"def {self.name} " + tv + " ".join(params) + f" : PyM {rty} := do"
        return "\n\n".join(self.aux + [head + "\n" + "\n".join(self.ind(body))])


# ---------------------------------------------------------------------------------------------
# what is translated
# ---------------------------------------------------------------------------------------------
# the fourteen ids of CellStorageFlags, in class order (compared with the live class when the entry is translated)
CELL_ID_FIELDS = ["string", "rich", "cell_style", "text_style", "formula", "control", "formula_error", "suggest", "num_format",
                  "currency_format", "date_format", "duration_format", "text_format", "bool_format"]

# ---- C17: types of the loader entries (group `Load`) ----------------------------------------------------------------
L_EXT = ("ext", ("raw", "Loader.Ext"))                 # the externals record the hand model quantifies over
L_ST = ("st", ("var", "Loader.Store"))                 # the handler state (ObjectStore._objects / _file_store)
L_NAT = ("var", "Nat")                                 # an opaque id (opened zip, blob) / an object identifier
L_ZIPSRC = ("raw", "PyM Nat")                          # what ZipFile(<this>) does
L_STEP = ("raw", "PyM Loader.PkgEntry")                # one step of the flattened package walk
L_FUEL = ("fuel", ("raw", "Nat"))
L_DECODED = ("list", ("list", ("var", "(Nat × Nat)")))  # IWAFile: chunks -> archives -> (identifier, len(objects))
L_OPT_ATTRS = {"self._is_package": ("is_package", "bool"), "self._zipf": ("zipf", L_NAT)}
L_ASSUME = ("every call that leaves the library is a field of the externals record `ext : Loader.Ext` (an arbitrary PyM value); "
            "every PyExc stands for a subclass of Exception; the handler state a raising call leaves behind is not modelled "
            "(every handler on the way re-raises); debug() and exception message texts are dropped")

# params: (python name, type[, lean default when the callee is called without it])
# fuel:   one Lean expression per `while` loop, in source order, over the variables live at loop entry
# the attributes of a `Tokenizer` instance as variables of the translated methods
TOK_SA = {"self.formula": "formula", "self.offset": "offset", "self.items": "items", "self.token_stack": "token_stack",
          "self.token": "pieces"}

TARGETS = [
    {"group": "A1", "module": "numbers_parser.xrefs", "qualname": "xl_col_to_name", "lean": "xl_col_to_name",
     "params": [("col", "int"), ("col_abs", "bool", "false")], "ret": "str",
     "fuel": ["col.toNat + 1"],
     "assume": "int((col - 1) / 26) is exact (col < 2^53)"},
    {"group": "A1", "module": "numbers_parser.xrefs", "qualname": "xl_rowcol_to_cell", "lean": "xl_rowcol_to_cell",
     "params": [("row", "int"), ("col", "int"), ("row_abs", "bool", "false"), ("col_abs", "bool", "false")],
     "ret": "str"},
    {"group": "A1", "module": "numbers_parser.xrefs", "qualname": "xl_range", "lean": "xl_range",
     "params": [("first_row", "int"), ("first_col", "int"), ("last_row", "int"), ("last_col", "int")], "ret": "str"},
    {"group": "A1", "module": "numbers_parser.xrefs", "qualname": "xl_cell_to_rowcol", "lean": "xl_cell_to_rowcol",
     "params": [("cell_str", "str")], "ret": ("tuple", ["int", "int"]),
     "externs": {"range_parts.match": ("A1.rangePartsMatch Gen.digitZeros", ["str"], ("opt", ("match", 4)), False)},
     "consts": {"int_of_str": ("A1.intOfDigits Gen.digitZeros", None)},
     "assume": "range_parts.match is the hand-derived scanner A1.rangePartsMatch (pattern text compared on every run); "
               "int() of a \\d+ group is A1.intOfDigits"},
    {"group": "A1", "module": "numbers_parser.xrefs", "qualname": "xl_col_to_offset", "lean": "xl_col_to_offset",
     "params": [("col_str", "str")], "ret": "int",
     "externs": {"col_parts.match": ("A1.colPartsMatch", ["str"], ("opt", ("match", 2)), False)},
     "assume": "col_parts.match is the hand-derived scanner A1.colPartsMatch"},
    {"group": "A1", "module": "numbers_parser.tokenizer", "qualname": "parse_numbers_range.col_to_index", "lean": "col_to_index",
     "params": [("col_str", "str")], "ret": "int"},
    # ---- C18: the Token constructors, then every method of the Tokenizer, the instance attributes threaded as state -------
    {"group": "Tok", "module": "numbers_parser.tokenizer", "qualname": "Token.make_subexp", "lean": "make_subexp",
     "params": [("value", "str"), ("func", "bool", "false")], "ret": "tok", "token_class": True, "classmethod": True,
     "externs": {"re.match": ("Tokenizer.funcSubexpMatch", ["str"], "bool", False, [1], {0: ".+\\(|\\)"})},
     "assume": "a Token is the structure (value, type, subtype) with the class constants as enum members (distinct strings, plain "
               "__init__: read from the live class on every run); re.match('.+\\(|\\)', value) is the hand-derived scanner "
               "Tokenizer.funcSubexpMatch (the pattern literal is compared at translation time)"},
    {"group": "Tok", "module": "numbers_parser.tokenizer", "qualname": "Token.get_closer", "lean": "get_closer",
     "params": [("self", "tok")], "ret": "tok", "token_class": True},
    {"group": "Tok", "module": "numbers_parser.tokenizer", "qualname": "Token.make_separator", "lean": "make_separator",
     "params": [("value", "str")], "ret": "tok", "token_class": True, "classmethod": True},
    {"group": "Tok", "module": "numbers_parser.tokenizer", "qualname": "Tokenizer.assert_empty_token", "lean": "assert_empty_token",
     "params": [("token", ("list", "str"))], "ret": "none",
     "state_attrs": {"self.token": "token"},
     "assume": "self.token (the list of pieces of the token being read) is the parameter token"},
    {"group": "Tok", "module": "numbers_parser.tokenizer", "qualname": "Tokenizer.save_token", "lean": "save_token",
     "params": [("items", ("list", ("raw", "Tokenizer.Tok"))), ("token", ("list", "str"))], "ret": "none",
     "state": ["items", "token"], "state_attrs": {"self.items": "items", "self.token": "token"},
     "externs": {"Token.make_operand": ("Tokenizer.makeOperand", ["str"], ("raw", "Tokenizer.Tok"), False)},
     "assume": "self.items / self.token are state variables returned beside the value; Token.make_operand is the model's "
               "makeOperand (NUMBER / RANGE merged; its float() test stays hand-modelled)"},
    {"group": "Tok", "module": "numbers_parser.tokenizer", "qualname": "Tokenizer.check_scientific_notation",
     "lean": "check_scientific_notation", "token_class": True,
     "params": [("formula", "str"), ("offset", "int"), ("pieces", ("list", "str"))], "ret": "bool",
     "state": ["offset", "pieces"], "state_attrs": TOK_SA,
     "externs": {"self.SN_RE.match": ("Tokenizer.snMatch", ["str"], "bool", False)},
     "assume": "self.SN_RE.match(s) as a truth value is the hand-derived scanner Tokenizer.snMatch (pattern text compared on "
               "every run)"},
    {"group": "Tok", "module": "numbers_parser.tokenizer", "qualname": "Tokenizer.parse_string", "lean": "parse_string",
     "token_class": True,
     "params": [("formula", "str"), ("offset", "int"), ("items", ("list", "tok")), ("pieces", ("list", "str"))], "ret": "int",
     "state": ["items", "pieces"], "state_attrs": TOK_SA,
     "tables": {"self.STRING_REGEXES": ("Tokenizer.stringRegexes Gen.whitespace", "str", ("raw", "Text → Option Text"))},
     "externs": {"regex.match": ("regex", ["str"], ("opt", "match0"), False),
                 "Token.make_operand": ("Tokenizer.makeOperand", ["str"], "tok", False)},
     "live_laws": [("STRING_REGEXES has exactly the keys \" and '", lambda m: set(m.Tokenizer.STRING_REGEXES) == {'"', "'"})],
     "assume": "self.STRING_REGEXES[delim].match(s) is Tokenizer.stringRegexes: the hand-derived scanners dqMatch / sqMatch for the "
               "two keys (pattern texts compared on every run), KeyError for any other key; match.group(0) is the matched prefix"},
    {"group": "Tok", "module": "numbers_parser.tokenizer", "qualname": "Tokenizer.parse_error", "lean": "parse_error",
     "token_class": True,
     "params": [("formula", "str"), ("offset", "int"), ("items", ("list", "tok")), ("pieces", ("list", "str"))], "ret": "int",
     "state": ["items"], "state_attrs": TOK_SA,
     "attrs": {"self.ERROR_CODES": ("Gen.ERROR_CODES", ("list", "str"))},
     "externs": {"Token.make_operand": ("Tokenizer.makeOperand", ["str"], "tok", False)},
     "assume": "self.ERROR_CODES is the generated constant Gen.ERROR_CODES"},
    {"group": "Tok", "module": "numbers_parser.tokenizer", "qualname": "Tokenizer.parse_operator", "lean": "parse_operator",
     "token_class": True,
     "params": [("formula", "str"), ("offset", "int"), ("items", ("list", "tok"))], "ret": "int",
     "state": ["items"], "state_attrs": TOK_SA},
    {"group": "Tok", "module": "numbers_parser.tokenizer", "qualname": "Tokenizer.parse_opener", "lean": "parse_opener",
     "token_class": True,
     "params": [("formula", "str"), ("offset", "int"), ("items", ("list", "tok")), ("token_stack", ("list", "tok")),
                ("pieces", ("list", "str"))], "ret": "int",
     "state": ["items", "token_stack", "pieces"], "state_attrs": TOK_SA},
    {"group": "Tok", "module": "numbers_parser.tokenizer", "qualname": "Tokenizer.parse_closer", "lean": "parse_closer",
     "token_class": True,
     "params": [("formula", "str"), ("offset", "int"), ("items", ("list", "tok")), ("token_stack", ("list", "tok"))],
     "ret": "int", "state": ["items", "token_stack"], "state_attrs": TOK_SA},
    {"group": "Tok", "module": "numbers_parser.tokenizer", "qualname": "Tokenizer.parse_separator", "lean": "parse_separator",
     "token_class": True,
     "params": [("formula", "str"), ("offset", "int"), ("items", ("list", "tok")), ("token_stack", ("list", "tok"))],
     "ret": "int", "state": ["items"], "state_attrs": TOK_SA},
    {"group": "Tok", "module": "numbers_parser.tokenizer", "qualname": "Tokenizer.parse", "lean": "parse",
     "token_class": True,
     "params": [("formula", "str"), ("offset", "int"), ("items", ("list", "tok")), ("token_stack", ("list", "tok")),
                ("pieces", ("list", "str"))], "ret": "none",
     "state": ["offset", "items", "token_stack", "pieces"], "state_attrs": TOK_SA,
     "attrs": {"self.TOKEN_ENDERS": ("Gen.TOKEN_ENDERS", "str")},
     "fuel": ["formula.length + 1"],
     "assume": "the five attributes __init__ sets are the parameters (formula fixed; offset, items, token_stack, token returned); "
               "self.TOKEN_ENDERS is the generated constant; the while loop runs on fuel len(formula) + 1 (parse_fuel_suffices)"},
    {"group": "Items", "module": "numbers_parser.containers", "qualname": "ItemsList.__getitem__", "lean": "ItemsList.getitem",
     "params": [("items", ("list", "item")), ("key", "key")], "ret": "item",
     "attrs": {"self._items": ("items", ("list", "item")), "self._item_name": ("([] : Text)", "str")},
     "drop_self": True,
     "assume": "a sheet/table is its (identity, name) pair; type(key).__name__ (message text only) is not modelled"},
    {"group": "Addr", "module": "numbers_parser.document", "qualname": "Table.iter_rows", "lean": "iter_rows_bounds",
     "params": [("num_rows", "int"), ("num_cols", "int"), ("min_row", ("opt", "int")), ("max_row", ("opt", "int")),
                ("min_col", ("opt", "int")), ("max_col", ("opt", "int"))],
     "ret": ("tuple", ["int", "int", "int", "int"]),
     "attrs": {"self.num_rows": ("num_rows", "int"), "self.num_cols": ("num_cols", "int")},
     "until": ("rows = self.rows()", ["min_row", "max_row", "min_col", "max_col"]),
     "assume": "only the defaulting and bounds-checking prefix (everything before `rows = self.rows()`) is translated; it runs "
               "before the generator yields anything"},
    {"group": "Addr", "module": "numbers_parser.document", "qualname": "Table.iter_cols", "lean": "iter_cols_bounds",
     "params": [("num_rows", "int"), ("num_cols", "int"), ("min_col", ("opt", "int")), ("max_col", ("opt", "int")),
                ("min_row", ("opt", "int")), ("max_row", ("opt", "int"))],
     "ret": ("tuple", ["int", "int", "int", "int"]),
     "attrs": {"self.num_rows": ("num_rows", "int"), "self.num_cols": ("num_cols", "int")},
     "until": ("rows = self.rows()", ["min_row", "max_row", "min_col", "max_col"]),
     "assume": "only the defaulting and bounds-checking prefix is translated"},
    {"group": "Edit", "module": "numbers_parser.document", "qualname": "Table.add_row", "lean": "add_row_args",
     "params": [("table_rows", "int"), ("num_rows", "int"), ("start_row", ("opt", "int"))], "ret": "int",
     "attrs": {"self.num_rows": ("table_rows", "int")},
     "until": ("self.num_rows += num_rows", ["start_row"]),
     "assume": "only the argument checks and the defaulting of start_row (everything before `self.num_rows += num_rows`) are "
               "translated; self.num_rows is the parameter table_rows"},
    {"group": "Edit", "module": "numbers_parser.document", "qualname": "Table.add_column", "lean": "add_column_args",
     "params": [("table_cols", "int"), ("num_cols", "int"), ("start_col", ("opt", "int"))], "ret": "int",
     "attrs": {"self.num_cols": ("table_cols", "int")},
     "until": ("self.num_cols += num_cols", ["start_col"]),
     "assume": "only the argument checks and the defaulting of start_col are translated"},
    {"group": "Edit", "module": "numbers_parser.document", "qualname": "Table.delete_row", "lean": "delete_row_args",
     "params": [("table_rows", "int"), ("num_rows", "int"), ("start_row", ("opt", "int"))], "ret": "none",
     "attrs": {"self.num_rows": ("table_rows", "int")},
     "until": ("if start_row is not None:\n    del self._data[start_row:start_row + num_rows]\nelse:\n"
               "    del self._data[self.num_rows - num_rows:]", []),
     "assume": "only the argument checks (everything before the first `del`) are translated"},
    {"group": "Edit", "module": "numbers_parser.document", "qualname": "Table.delete_column", "lean": "delete_column_args",
     "params": [("table_cols", "int"), ("num_cols", "int"), ("start_col", ("opt", "int"))], "ret": "none",
     "attrs": {"self.num_cols": ("table_cols", "int")},
     "until": ("for row in range(self.num_rows):", []),
     "assume": "only the argument checks (everything before the loop over the rows) are translated"},
    {"group": "Cache", "module": "numbers_parser.numbers_cache", "qualname": "cache.cache_decorator.inner_multi_args",
     "lean": "cache_inner_multi_args", "typevars": ["β"],
     "params": [("f", ("raw", "List Int → β")), ("num_args", "int"), ("store", ("dict", "str", ("var", "β"))),
                ("args", ("list", "int"))],
     "ret": ("var", "β"), "state": ["store"],
     "skip": ["method = func.__name__"],
     "attrs": {"self._cache[method]": ("store", ("dict", "str", ("var", "β")))},
     "externs": {"func": ("f", [], ("var", "β"), False, [1])},
     "assume": "self._cache[func.__name__] is the state variable store (a dict in insertion order); the decorated method is the "
               "parameter f of its positional arguments (ints), called without keyword arguments; num_args is the decorator's "
               "closure variable"},
    {"group": "NumFmt", "module": "numbers_parser.cell", "qualname": "_format_fraction_parts_to", "lean": "format_fraction_parts_to",
     "params": [("whole", "int"), ("numerator", "int"), ("denominator", "int")], "ret": "str"},
    {"group": "NumFmt", "module": "numbers_parser.cell", "qualname": "_invert_bit_str", "lean": "invert_bit_str",
     "params": [("value", "str")], "ret": "str"},
    {"group": "NumFmt", "module": "numbers_parser.cell", "qualname": "_twos_complement", "lean": "twos_complement",
     "params": [("value", "int"), ("base", "int")], "ret": "str",
     "assume": "bin/oct/hex(x)[2:] are the base-2/8/16 digits of x >= 0 (lower case), str.upper on them is ASCII upper-casing"},
    # ---- C12: packing / unpacking of merge rectangles in the merge-region map ------------------------------------------
    {"group": "Merge", "module": "numbers_parser.model", "qualname": "_NumbersModel.recalculate_merged_cells",
     "lean": "merge_pack", "params": [("row_col", ("tuple", ["int", "int"])), ("size", ("tuple", ["int", "int"]))],
     "ret": ("tuple", ["int", "int"]),
     "body_of": "for row_col in merge_cells.merge_cells():",
     "skip": ["size = merge_cells.size(row_col)"],
     "externs": {"TSTArchives.CellID": ("PyT.uint32Field", ["int"], "int", True),
                 "TSTArchives.TableSize": ("PyT.uint32Field", ["int"], "int", True)},
     "until": ("cell_range = TSTArchives.CellRange(origin=cell_id, size=table_size)", ["cell_id", "table_size"]),
     "assume": "the body of the loop over the anchors: merge_cells.size(row_col) is a parameter; CellID(packedData=x) / "
               "TableSize(packedData=x) store x in a protobuf uint32 field (ValueError outside 0..2^32-1) and stand for x"},
    {"group": "Merge", "module": "numbers_parser.model", "qualname": "_NumbersModel.calculate_merge_cell_ranges",
     "lean": "merge_unpack", "params": [("origin", "int"), ("size_packed", "int")],
     "ret": ("tuple", ["int", "int", "int", "int", "int", "int"]),
     "body_of": "for cell_range in cell_ranges.cell_range:",
     "attrs": {"cell_range.origin.packedData": ("origin", "int"), "cell_range.size.packedData": ("size_packed", "int")},
     "until": ("for row in range(row_start, row_end + 1):", ["row_start", "col_start", "row_end", "col_end", "num_rows", "num_columns"]),
     "assume": "the body of the loop over the stored ranges up to the loops that fill the map: the two packedData fields are "
               "parameters (uint32 values)"},
    # ---- C01: the integer part of the decimal128 reader ---------------------------------------------------------------
    {"group": "Dec128", "module": "numbers_parser.cell", "qualname": "_unpack_decimal128", "lean": "unpack_decimal128",
     "params": [("buffer", "bytes")], "ret": ("tuple", ["int", "int", "int"]), "module_consts": True,
     "until": ("return float(f'{mantissa}E{exp}')", ["sign", "mantissa", "exp"]),
     "assume": "everything before the final float(f'{mantissa}E{exp}') is translated (the correctly rounded decimal -> binary64 "
               "conversion stays a parameter)"},
    {"group": "Dec128", "module": "numbers_parser.cell", "qualname": "_pack_decimal128", "lean": "pack_decimal128",
     "params": [("sign", "int"), ("mantissa", "int"), ("exponent", "int")], "ret": "bytes", "module_consts": True,
     "skip": ["sign, digits, exponent = _DECIMAL128_CONTEXT.create_decimal(str(value)).as_tuple()",
              "mantissa = int(''.join((str(d) for d in digits)))"],
     "fuel": ["mantissa.toNat + 1"],
     "assume": "translated from the decimal triple on: decimal.Context(prec=34).create_decimal(str(value)).as_tuple() and the "
               "joining of its digits into an int are supplied by the harness as the parameters sign, mantissa, exponent"},
    # ---- C14: date directives with arithmetic of their own, the quote scanners, duration units --------------------------
    {"group": "DateFmt", "module": "numbers_parser.constants", "qualname": "_day_of_year", "lean": "day_of_year",
     "params": [("yday", "int")], "ret": "int",
     "attrs": {"value.timetuple().tm_yday": ("yday", "int")},
     "assume": "value.timetuple().tm_yday is a parameter (the calendar stays CPython's; compared with the model's civil "
               "arithmetic on every run)"},
    {"group": "DateFmt", "module": "numbers_parser.constants", "qualname": "_week_of_month", "lean": "week_of_month",
     "params": [("day", "int"), ("first_weekday", "int")], "ret": "int",
     "attrs": {"value.day": ("day", "int")},
     "externs": {"value.replace(day=1).weekday": ("first_weekday", [], "int", False)},
     "assume": "value.replace(day=1).weekday() is a parameter; int(ceil(x / 7.0)) is the exact ceiling (|x| < 2^50)"},
    {"group": "DateFmt", "module": "numbers_parser.constants", "qualname": "_days_occurred_in_month",
     "lean": "days_occurred_in_month", "params": [("day", "int")], "ret": "str",
     "attrs": {"(value - value.replace(day=1)).days": ("(day - (1 : Int))", "int")},
     "assume": "(value - value.replace(day=1)).days is value.day - 1 (timedelta between a date-time and the first of its month "
               "at the same time of day); int(a / 7) is exact"},
    {"group": "DateFmt", "module": "numbers_parser.cell", "qualname": "_expand_quotes", "lean": "expand_quotes",
     "params": [("value", "str")], "ret": "str", "fuel": ["chars.length + 1"]},
    {"group": "DateFmt", "module": "numbers_parser.cell", "qualname": "_decode_date_format", "lean": "decode_date_format",
     "params": [("isAlpha", ("raw", "Char → Bool")), ("renderFld", ("raw", "Text → Text")), ("date_format", "str")],
     "ret": "str", "fuel": ["chars.length + 1"],
     "externs": {"_decode_date_format_field": ("renderFld", ["str"], "str", False, [0])},
     "methods": {("str", "isalpha"): ("PyT.strIsAlpha isAlpha", "bool")},
     "assume": "_decode_date_format_field(field, value) for the fixed value is the parameter renderFld (its table is "
               "Gen.datetimeFieldCodes, compared on every run); str.isalpha of one character is the parameter isAlpha "
               "(Gen.alphaRanges, generated from the running interpreter)"},
    {"group": "Duration", "module": "numbers_parser.cell", "qualname": "_unit_format", "lean": "unit_format",
     "params": [("unit", "str"), ("value", "int"), ("style", "int"), ("abbrev", ("opt", "str"), "none")], "ret": "str",
     "module_consts": True},
    {"group": "Duration", "module": "numbers_parser.cell", "qualname": "_auto_units", "lean": "auto_units",
     "params": [("cell_value", "millis"), ("fmt_largest", "int"), ("fmt_smallest", "int")],
     "ret": ("tuple", ["int", "int"]), "module_consts": True,
     "attrs": {"number_format.duration_unit_largest": ("fmt_largest", "int"),
               "number_format.duration_unit_smallest": ("fmt_smallest", "int")},
     "assume": "cell_value is the double nearest to a whole number of milliseconds / 1000 (PyT.Millis: comparisons with ints, "
               "math.floor(x) != x and x % int are exact on such doubles)"},
    # ---- C05: chunk framing of iwafile.py ----------------------------------------------------------------------------------
    {"group": "Iwa", "module": "numbers_parser.iwafile", "qualname": "is_iwa_file", "lean": "is_iwa_file",
     "params": [("data", "bytes")], "ret": "bool", "fuel": ["data.length + 1"],
     "assume": "unpack('<I', b)[0] is the little-endian value of exactly four bytes (struct.error otherwise); the while loop runs "
               "on fuel len(data) + 1 (every iteration removes at least four bytes: is_iwa_file_eq_model)"},
    {"group": "Iwa", "module": "numbers_parser.iwafile", "qualname": "get_archive_info_and_remainder",
     "lean": "get_archive_info_and_remainder", "typevars": ["H"],
     "params": [("parseInfo", ("raw", "Bytes → PyM H")), ("buf", "bytes")], "ret": ("tuple", [("var", "H"), "bytes"]),
     "externs": {"_DecodeVarint32": ("Iwa.varintDec32Int", ["bytes", "int"], ("tuple", ["int", "int"]), True),
                 "ArchiveInfo.FromString": ("parseInfo", ["bytes"], ("var", "H"), True)},
     "assume": "_DecodeVarint32 (google.protobuf, pure Python) is the hand model Iwa.varintDec32 (compared with the real one on "
               "every run); ArchiveInfo.FromString is the parameter parseInfo"},
    {"group": "Iwa", "module": "numbers_parser.iwafile", "qualname": "IWACompressedChunk._decompress_all", "lean": "decompress_all",
     "find": lambda module: find_generator(module, "IWACompressedChunk"),
     "params": [("uncompress", ("raw", "Bytes → PyM Bytes")), ("data", "bytes")], "ret": ("list", "bytes"),
     "generator": True, "flow": True, "init": [("yielded_", ("list", "bytes"), "[]")], "fuel": ["data.length + 1"],
     "externs": {"snappy.uncompress": ("uncompress", ["bytes"], "bytes", True)},
     "assume": "the generator is consumed as a whole (b''.join(…)): the result is the list of what it yields; snappy.uncompress "
               "is the parameter uncompress (any result, any exception); `except Exception` catches every PyExc; the while loop "
               "runs on fuel len(data) + 1; the method is found by name or, after a renaming, as the one generator of the class"},
    {"group": "Iwa", "module": "numbers_parser.iwafile", "qualname": "IWACompressedChunk.to_buffer", "lean": "chunk_to_buffer",
     "params": [("compress", ("raw", "Bytes → Bytes")), ("uncompressed", "bytes")], "ret": "bytes",
     "skip": ["uncompressed = b''.join([archive.to_buffer() for archive in self.archives])"],
     "init": [("payloads", ("list", "bytes"), "[]")], "state_attrs": {"payloads": "payloads"},
     "externs": {"snappy.compress": ("compress", ["bytes"], "bytes", False)}, "fuel": ["uncompressed.length + 1"],
     "assume": "translated from the joined archive bytes on (the parameter uncompressed); snappy.compress is the parameter "
               "compress; struct.pack('<I', n) is four little-endian bytes (struct.error outside 0 .. 2^32 - 1)"},
    # ---- C04: the flags-driven field walk of the v5 cell record ------------------------------------------------------------
    {"group": "CellRec", "module": "numbers_parser.cell", "qualname": "Cell._from_storage", "lean": "from_storage_fields",
     "params": [("readD128", ("raw", "Bytes → PyM Bytes")), ("readDouble", ("raw", "Bytes → PyM Bytes")), ("buffer", "bytes")],
     "ret": ("tuple", ["int"] + [("opt", "bytes")] * 3 + [("opt", "int")] * 14),
     "opt_vars": {"d128": "bytes", "double": "bytes", "seconds": "bytes"},
     "opt_attrs": {f"storage_flags._{n}_id": (f"{n}_id", "int") for n in CELL_ID_FIELDS},
     "init": [(f"{n}_id", ("opt", "int"), "none") for n in CELL_ID_FIELDS],
     "skip": ["storage_flags = CellStorageFlags()"],
     "unpack": {"<i": ("unpackI32", "int"), "<d": ("readDouble", "bytes")},
     "externs": {"_unpack_decimal128": ("readD128", ["bytes"], "bytes", True)},
     "class_defaults": ("CellStorageFlags", [f"_{n}_id" for n in CELL_ID_FIELDS]),
     "until": ("cell_type = buffer[1]", ["flags", "d128", "double", "seconds"] + [f"{n}_id" for n in CELL_ID_FIELDS]),
     "assume": "the field walk (everything before `cell_type = buffer[1]`): a fresh CellStorageFlags() has every id None (the "
               "variables <name>_id, compared with the live class at translation time); payload interpretation stays outside: "
               "_unpack_decimal128(b) / unpack('<d', b)[0] are the parameters readD128 / readDouble (the payload bytes, or the "
               "exception a short slice gives); unpack('<i', b)[0] is Py/Struct unpackI32"},
    # ---- C17: the exception flow of container loading (iwork.py, ObjectStore.__init__) ----------------------------------
    {"group": "Load", "module": "numbers_parser.iwork", "qualname": "IWork._open_zipfile", "lean": "open_zipfile", "flow": True,
     "params": [("filepath", L_ZIPSRC)], "pyparams": ["filepath"], "ret": L_NAT,
     "externs": {"ZipFile": ("filepath", [], L_NAT, True, [])},
     "exprs": {"version_info >= (3, 11)": ("true" if sys.version_info >= (3, 11) else "false", "bool", False)},
     "assume": "the parameter is what ZipFile(filepath, …) does (an id or any exception); version_info >= (3, 11) is read from "
               "the running interpreter; " + L_ASSUME},
    {"group": "Load", "module": "numbers_parser.iwork", "qualname": "IWork._store_blob", "lean": "store_blob", "flow": True,
     "params": [L_EXT, ("filename", "str"), ("blob", L_NAT), L_ST], "pyparams": ["filename", "blob"], "ret": "none",
     "state": ["st"],
     "externs": {"is_iwa_file": ("ext.sniff", [L_NAT], "bool", True),
                 "IWAFile.from_buffer": ("ext.decode", [L_NAT, "str"], L_DECODED, True)},
     "transparent_attrs": ["chunks", "archives"],
     "attrs": {"archive.header.identifier": ("archive.1", L_NAT)},
     "tables": {"archive.objects": ("Loader.objectAt archive", "int", "none")},
     "state_externs": {"self._handler.store_object": ("Loader.storeObject", "st", [1]),
                       "self._handler.store_file": ("Loader.storeFile", "st", [0])},
     "assume": "IWAFile.from_buffer(blob, filename) is ext.decode: chunks -> archives -> (header.identifier, len(objects)); "
               "archive.objects[0] is pyIndex on that many objects; store_object / store_file append to the handler state; "
               + L_ASSUME},
    {"group": "Load", "module": "numbers_parser.iwork", "qualname": "IWork._read_objects_from_zipfile",
     "lean": "read_objects_from_zipfile", "flow": True, "rec_fuel": "ext.depth",
     "params": [L_EXT, L_FUEL, ("zipf", L_NAT), L_ST], "pyparams": ["zipf"], "ret": "none", "state": ["st"],
     "externs": {"zipf.getinfo": ("Loader.getinfo ext zipf", ["str"], "none", True),
                 "zipf.namelist": ("(ext.zipNames zipf)", [], ("list", "str"), False, []),
                 "zipf.read": ("ext.zipRead zipf", ["str"], L_NAT, True),
                 "BytesIO": ("ext.openZipBytes", [L_NAT], L_ZIPSRC, False)},
     "methods": {("str", "lower"): ("Loader.lower", "str")},
     "assume": "an opened ZipFile is its id; namelist() / getinfo() are look-ups on ext.zipNames; ZipFile(BytesIO(blob)) is "
               "ext.openZipBytes blob; str.lower is ASCII lower-casing; the recursion into Index.zip runs on fuel ext.depth "
               "(RecursionError at 0); " + L_ASSUME},
    {"group": "Load", "module": "numbers_parser.iwork", "qualname": "IWork._read_objects_from_package",
     "lean": "read_objects_from_package", "flow": True, "rec_fuel": "1",
     "params": [L_EXT, L_FUEL, ("filepath", ("list", L_STEP)), L_ST], "pyparams": ["filepath"], "ret": "none", "state": ["st"],
     "externs": {"filepath.iterdir": ("filepath", [], ("list", L_STEP), False, []),
                 "sub_filepath.is_dir": ("Loader.stepIsDir sub_filepath", [], "bool", True, []),
                 "sub_filepath.open": ("()", [], "none", False, []),
                 "fh.read": ("Loader.stepRead sub_filepath", [], L_NAT, True, []),
                 "re.sub": ("(Loader.stepName sub_filepath)", [], "str", False, [])},
     "exprs": {"sub_filepath.name.lower() == 'index.zip'": ("(Loader.stepIsIndexZip sub_filepath)", "bool", False)},
     "arg_wrap": {"_open_zipfile": "Loader.stepOpen", "_read_objects_from_package": "Loader.stepSubdir"},
     "assume": "the walk is the flattened one of the hand model: iterdir() of the package yields the depth-first sequence of "
               "steps ext.pkgSteps, a step that raises stands for a failing iterdir / is_dir / open / read, sub-directories do not "
               "occur as entries (the recursive call is translated but never reached); " + L_ASSUME},
    {"group": "Load", "module": "numbers_parser.iwork", "qualname": "IWork.document_version", "lean": "document_version",
     "flow": True, "property": True,
     "params": [L_EXT, ("is_package", ("opt", "bool")), ("zipf", ("opt", L_NAT))], "pyparams": [], "ret": ("opt", "str"),
     "opt_attrs": L_OPT_ATTRS,
     "skip": ["properties_filename = self._filepath / 'Metadata/Properties.plist'",
              "build_filename = self._filepath / 'Metadata/BuildVersionHistory.plist'"],
     "externs": {"properties_filename.exists": ("ext.propsExists", [], "bool", True, []),
                 "build_filename.exists": ("ext.buildExists", [], "bool", True, []),
                 "open": ("()", [], "none", False, []),
                 "fh.read": ("ext.propsRead", [], L_NAT, True, []),
                 "self._zipf.read": ("Loader.zipfRead ext zipf", ["str"], L_NAT, True),
                 "plistlib.loads": ("ext.plistVersion", [L_NAT], ("opt", "str"), True),
                 "warn": ("ext.warn 0", [], "none", True, [])},
     "exprs": {"self._zipf.filelist": ("Loader.filelist ext zipf", ("list", "str"), True),
               "sorted(metadata)[-1]": ("Loader.lastSorted metadata", "str", True),
               "doc_properties['fileFormatVersion']": ("doc_properties", ("opt", "str"), False)},
     "transparent_attrs": ["filename"],
     "assume": "self._is_package / self._zipf are Optional parameters (AttributeError while unset); plistlib.loads(blob)"
               "['fileFormatVersion'] is the one external ext.plistVersion (none: present but not a str); sorted(names)[-1] is "
               "Loader.lastSorted; a ZipInfo is its filename; " + L_ASSUME},
    {"group": "Load", "module": "numbers_parser.iwork", "qualname": "IWork._open", "lean": "open_body", "flow": True,
     "params": [L_EXT, ("filepath", "none"), L_ST], "pyparams": ["filepath"], "ret": "none", "state": ["st"],
     "init": [("is_package", ("opt", "bool"), "none"), ("zipf", ("opt", L_NAT), "none")],
     "opt_attrs": L_OPT_ATTRS, "skip": ["self._filepath = filepath"],
     "attrs": {"self._filepath": ("ext.pkgSteps", ("list", L_STEP))},
     "externs": {"filepath.exists": ("ext.pathExists", [], "bool", True, []),
                 "self._handler.allowed_format": ("ext.suffixOk", [], "bool", False, []),
                 "filepath.is_dir": ("ext.isDir {i}", [], "bool", True, []),
                 "self._handler.allowed_version": ("Loader.allowedVersion ext", [("opt", "str")], "bool", True),
                 "warn": ("ext.warn 1", [], "none", True, [])},
     "arg_wrap": {"_open_zipfile": "(fun (_ : Unit) => ext.openZipPath)"},
     "assume": "a fresh IWork has neither _is_package nor _zipf; filepath.is_dir() is ext.isDir <index of the call site>; "
               "ZipFile(filepath) is ext.openZipPath; handler.allowed_format(filepath.suffix) is ext.suffixOk, "
               "handler.allowed_version on something that is not a str raises TypeError; " + L_ASSUME},
    {"group": "Load", "module": "numbers_parser.iwork", "qualname": "IWork.open", "lean": "iwork_open", "flow": True,
     "params": [L_EXT, ("filepath", "none"), L_ST], "pyparams": ["filepath"], "ret": "none", "state": ["st"],
     "exc_classes": {"Warning": "ext.isWarning", "OSError": "ext.isOSError"},
     "assume": "isinstance(e, Warning) / isinstance(e, OSError) are ext.isWarning / ext.isOSError; the other classes of the "
               "except clauses are matched by name; `except Exception` catches every PyExc; " + L_ASSUME},
    {"group": "Load", "module": "numbers_parser.containers", "qualname": "ObjectStore.__init__", "lean": "load", "flow": True,
     "params": [L_EXT, ("filepath", "none")], "pyparams": ["filepath"], "ret": "none", "state": ["max_id", "st"],
     "init": [("st", ("var", "Loader.Store"), "{}"), ("max_id", "int", "(0 : Int)")],
     "state_attrs": {"self._max_id": "max_id"}, "self_aliases": ["self._iwork"],
     "skip": ["self._objects = {}", "self._file_store = {}", "self._object_to_filename_map = {}", "self._dirty = {}",
              "self._iwork = IWork(handler=self)"],
     "attrs": {"self._objects": ("st.objs", ("list", L_NAT))},
     "externs": {"max": ("(Loader.maxKey st)", [], "int", False, [])},
     "assume": "the handler's dicts start empty (the state Loader.Store); len(self._objects) == 0 is `no identifier stored`; "
               "max(self._objects.keys()) is Loader.maxKey; math.ceil(a / 1000000) is the exact ceiling (a < 2^53); " + L_ASSUME},
]


def find_generator(module: str, klass: str) -> ast.FunctionDef:
    """the one method of the class that is a generator (IWACompressedChunk._decompress_all under any name)"""
    import importlib
    mod = importlib.import_module(module)
    tree = ast.parse(Path(inspect.getsourcefile(mod)).read_text())
    gens = [m for c in tree.body if isinstance(c, ast.ClassDef) and c.name == klass for m in c.body
            if isinstance(m, ast.FunctionDef) and any(isinstance(n, ast.Yield) for n in ast.walk(m))]
    if len(gens) != 1:
        raise Unsupported(f"{klass} does not have exactly one generator method")
    return gens[0]


def find_def(module: str, qualname: str) -> ast.FunctionDef:
    import importlib
    mod = importlib.import_module(module)
    tree = ast.parse(Path(inspect.getsourcefile(mod)).read_text())
    node = tree
    for part in qualname.split("."):
        for child in node.body:
            if isinstance(child, (ast.FunctionDef, ast.ClassDef)) and child.name == part:
                node = child
                break
        else:
            raise Unsupported(f"{module}.{qualname} not found")
    if not isinstance(node, ast.FunctionDef):
        raise Unsupported(f"{qualname} is not a function")
    return node


GROUP_IMPORTS = {"A1": ["NumbersModel.Model.A1"], "Items": [], "NumFmt": [], "Addr": [], "DateFmt": [], "Duration": [], "Dec128": [], "Merge": [], "Edit": [], "Cache": [], "Tok": ["NumbersModel.Model.TokenizerSrc"],
                 "Load": ["NumbersModel.Model.LoaderSrc"], "Iwa": ["NumbersModel.Model.IwaSrc"],
                 "CellRec": ["NumbersModel.Model.CellRecordSrc"]}


def generate(group: str) -> tuple[str, dict]:
    """Lean text of Gen/Tr<group>.lean and the per-function translation status."""
    targets = [t for t in TARGETS if t["group"] == group]
    registry = {t["qualname"].split(".")[-1]: t for t in targets}
    chunks = ["-- GENERATED by harness/py2lean.py from the Python source under /repo/src on every check run — do not edit.",
              "import NumbersModel.Py.Trans", "import NumbersModel.Gen.Constants"] + \
             [f"import {m}" for m in GROUP_IMPORTS.get(group, [])] + \
             ["set_option linter.unusedVariables false",
              "namespace NumbersModel.Gen.T", "open NumbersModel", ""]
    status = {}
    for spec in targets:
        try:
            try:
                fdef = find_def(spec["module"], spec["qualname"])
            except Unsupported:
                if "find" not in spec:
                    raise
                fdef = spec["find"](spec["module"])      # the function under another name (a harmless renaming)
            code = Fn(spec, registry).translate(fdef)
            src = ast.unparse(fdef)
            doc = ast.get_docstring(fdef)
            head = (f"/-- translated from `{spec['module']}.{spec['qualname']}`"
                    + (f"; assumes: {spec['assume']}" if spec.get("assume") else "") + " -/")
            parts = code.split("\n\n")
            chunks += parts[:-1] + [head + "\n" + parts[-1], ""]  # the doc comment sits on the main definition
            status[spec["lean"]] = {"ok": True, "python": f"{spec['module']}.{spec['qualname']}",
                                    "source_lines": len(src.split("\n")) - (len(doc.split("\n")) if doc else 0)}
        except Exception as e:  # noqa: BLE001  (Unsupported, or a construct the translator itself trips over: same verdict)
            if not isinstance(e, Unsupported):
                e = Unsupported(f"translator error {type(e).__name__}: {e}")
            chunks.append(f"-- NOT TRANSLATED: {spec['module']}.{spec['qualname']}: {e}")
            chunks.append("")
            status[spec["lean"]] = {"ok": False, "python": f"{spec['module']}.{spec['qualname']}", "why": str(e)}
    chunks.append("end NumbersModel.Gen.T")
    return "\n".join(chunks) + "\n", status


def main() -> dict:
    """(re)write every Gen/Tr<group>.lean whose text changed; returns {lean name: status}"""
    status = {}
    for group in dict.fromkeys(t["group"] for t in TARGETS):
        text, st = generate(group)
        out = GEN / f"Tr{group}.lean"
        if not out.exists() or out.read_text() != text:
            out.write_text(text)
        status.update(st)
    return status


if __name__ == "__main__":
    st = main()
    for k, v in st.items():
        print(k, v)
    if "--show" in sys.argv:
        for group in dict.fromkeys(t["group"] for t in TARGETS):
            print((GEN / f"Tr{group}.lean").read_text())
