#!/venv/bin/python
"""vcheck.py <Cxx> <quick|thorough>      run one property check (see DESIGN.md section 4)
   vcheck.py <Cxx> --replay <file>       re-run a stored replay against the implementation

exit 0: property held on everything explored (KNOWN-FINDING lines allowed)
exit 1: at least one line `VIOLATION property=<id> replay=<path>` was printed
exit 2: the harness itself failed (timeout, crash) — never a verdict
"""
from __future__ import annotations

import hashlib
import importlib
import json
import os
import sys
import time
import traceback
import warnings
from pathlib import Path

sys.path.insert(0, str(Path(__file__).resolve().parent))
import common  # noqa: E402
from common import VERIF, Ctx  # noqa: E402

warnings.simplefilter("ignore")


def replay_path(pid: str, payload: dict) -> Path:
    h = hashlib.blake2b(json.dumps(payload, sort_keys=True, default=str).encode(), digest_size=6).hexdigest()
    return VERIF / "replays" / f"{pid}-{h}.json"


def main() -> int:
    if len(sys.argv) < 3:
        print(__doc__)
        return 2
    pid = sys.argv[1].upper()
    mod = importlib.import_module(f"checks.{pid.lower()}")
    if sys.argv[2] == "--replay":
        data = json.loads(Path(sys.argv[3]).read_text())
        if hasattr(mod, "replay"):
            print(json.dumps(mod.replay(data), indent=1, default=str))
            return 0
        print("no replay function for", pid)
        return 2
    tier = os.environ.get("VERIF_TIER") or sys.argv[2]
    if tier not in ("quick", "thorough"):
        tier = "quick"
    seed = int(os.environ.get("VERIF_SEED", "0") or 0)
    t0 = time.time()
    ctx = Ctx(pid, tier, seed)

    # 0. constants regenerated from the working tree
    import gen_constants
    gen_constants.main()
    #    … and the definitions translated from the Python source (py2lean), for the checks that use them
    proof_problems: list[str] = []
    tr_groups = getattr(mod, "TRANSLATED_GROUPS", ())
    if tr_groups:
        import py2lean
        status = py2lean.main()
        mine = {k: v for k, v in status.items()
                if any(t["lean"] == k and t["group"] in tr_groups for t in py2lean.TARGETS)}
        ctx.extra["translated_from_source"] = mine
        for k, v in mine.items():
            if not v["ok"]:
                proof_problems.append(f"py2lean cannot translate {v['python']} as it is now ({v['why']}): the equivalence "
                                      f"theorem between the source and the model no longer checks")

    # 1. proof obligations re-checked
    rc, log = common.lake(mod.PROPS_MODULE, "nmdriver")
    if rc != 0:
        proof_problems += ["lake build failed: " + d for d in (common.broken_decls(log) or [log[-600:]])]
        rc2, _ = common.lake("nmdriver")
        ctx.model_available = rc2 == 0 and common.DRIVER.exists()
    if tr_groups:
        rc3, log3 = common.lake("trdriver")
        ctx.translated_available = rc3 == 0 and common.TRDRIVER.exists()
        if not ctx.translated_available:
            # trdriver links every group: a function of ANOTHER property that is untranslatable as it is now takes the
            # translated-source streams of this check down with it (never its proofs: one generated file per group)
            ctx.notes.append("trdriver did not build, the translated-source streams of this run were skipped: " +
                             "; ".join(common.broken_decls(log3)[:3] or [log3[-300:]]))
    # 2. audit
    obligations, forbidden = common.count_obligations(mod.PROPS_MODULE)
    proof_problems += ["forbidden construct: " + h for h in forbidden]
    axioms = {}
    if rc == 0:
        axioms, problems = common.audit_axioms(mod.PROPS_MODULE, mod.THEOREMS)
        proof_problems += problems
        if tier == "thorough" and os.environ.get("VERIF_LEANCHECKER", "1") == "1":
            import subprocess
            p = subprocess.run(["lake", "env", "leanchecker", mod.PROPS_MODULE], cwd=common.LEAN,
                               capture_output=True, text=True, timeout=3000, check=False)
            ctx.extra["leanchecker"] = "ok" if p.returncode == 0 else (p.stdout + p.stderr)[-400:]
            if p.returncode != 0:
                proof_problems.append("leanchecker rejected " + mod.PROPS_MODULE)

    # 3. correspondence + oracle on the implementation
    harness_error = None
    try:
        mod.run(ctx)
    except Exception:  # the harness crashing is never a verdict
        harness_error = traceback.format_exc()

    # 4./5. verdict
    known = common.load_findings(pid)
    out_lines: list[str] = []
    new_viol = []
    seen_known = set()
    for v in ctx.violations:
        if v["signature"] in known:
            if v["signature"] not in seen_known:
                seen_known.add(v["signature"])
                out_lines.append(f"KNOWN-FINDING: property={pid} {known[v['signature']]}")
        else:
            new_viol.append(v)
    exit_code = 0
    by_sig: dict[str, dict] = {}
    for v in new_viol:
        by_sig.setdefault(v["signature"], v)
    for sig, v in by_sig.items():
        payload = {"property": pid, "kind": "failing-input", "signature": sig, "what": v["what"], "input": v["input"],
                   "replay_cmd": f"/venv/bin/python harness/vcheck.py {pid} --replay <this file>"}
        rp = replay_path(pid, payload)
        common.write_json(rp, payload)
        out_lines.append(f"VIOLATION property={pid} replay={rp.relative_to(VERIF)}")
        exit_code = 1
    broken = proof_problems or ctx.disagreements
    if broken and not by_sig:
        # the property is no longer *shown* to hold; the search above found no failing input
        payload = {"property": pid, "kind": "no-failing-input-found",
                   "broken_proof_obligations": proof_problems,
                   "broken_correspondence": ctx.disagreements[:20],
                   "note": "model/implementation tie or proof no longer checks; the property oracle found no "
                           "concrete failing input on the implementation in this run"}
        rp = replay_path(pid, payload)
        common.write_json(rp, payload)
        out_lines.append(f"VIOLATION property={pid} replay={rp.relative_to(VERIF)} no-failing-input-found")
        exit_code = 1
    elif broken:
        ctx.notes.append("proof/correspondence also broken: " + "; ".join(proof_problems[:5]) +
                         f"; {len(ctx.disagreements)} disagreements")

    # evidence
    partial = getattr(mod, "PARTIAL", {})
    ev = {
        "property_id": pid, "tier": tier, "seed": seed, "level": "proof",
        "coverage": {
            "obligations": obligations,
            "discharged": obligations if rc == 0 and not proof_problems else 0,
            "checker_cmd": f"cd lean && lake build {mod.PROPS_MODULE} && lake env lean <#print axioms for each of {len(mod.THEOREMS)} property theorems>"
                           + (" && lake env leanchecker " + mod.PROPS_MODULE if tier == "thorough" else ""),
            "trusted_base": ["Lean 4.33.0 kernel", "axioms: " + ", ".join(sorted({a for v in axioms.values() for a in v}) or ["none"]),
                             "hand-written model tied to /repo by the correspondence run recorded below",
                             "harness/gen_constants.py for generated tables"] + list(getattr(mod, "TRUSTED", [])),
            "property_theorems": mod.THEOREMS,
            "axioms_per_theorem": axioms,
            "partial_theorems": partial,
            "evaluations": ctx.evaluations,
            "distinct_nontrivial": len(ctx.nontrivial),
            "rule": getattr(mod, "RULE", "see subspaces"),
            "exhaustive": all(s.get("exhaustive") for s in ctx.subspaces.values()) if ctx.subspaces else False,
            "subspaces": ctx.subspaces,
            "outcome_histogram": dict(ctx.histogram.most_common(60)),
            "samples": ctx.samples[:40],
            "correspondence_disagreements": len(ctx.disagreements),
            "proof_problems": proof_problems,
            "known_findings_seen": sorted(seen_known),
            "notes": ctx.notes,
            **ctx.extra,
        },
        "assumptions": list(getattr(mod, "ASSUMPTIONS", [])),
        "wall_s": round(time.time() - t0, 2),
        "violations": len(by_sig) + (1 if broken and not by_sig else 0),
    }
    def _trim(o, depth=0):
        """evidence must stay small: long protocol lines / byte strings are cut to their head"""
        if isinstance(o, str):
            return o if len(o) <= 400 else o[:400] + f"...[{len(o)} chars]"
        if isinstance(o, dict):
            return {k: _trim(v, depth + 1) for k, v in list(o.items())[:200]}
        if isinstance(o, (list, tuple)):
            return [_trim(v, depth + 1) for v in list(o)[:60]]
        return o
    ev["coverage"]["samples"] = _trim(ev["coverage"]["samples"])
    ev["coverage"]["notes"] = _trim(ev["coverage"]["notes"])
    for k in list(ctx.extra):
        ev["coverage"][k] = _trim(ev["coverage"][k])
    common.write_json(VERIF / "evidence" / f"{pid}.json", ev)
    for l in out_lines:
        print(l)
    if harness_error:
        sys.stderr.write(harness_error)
        if exit_code == 0:
            return 2
    print(f"{pid} {tier}: {ctx.evaluations} cases, {len(ctx.disagreements)} disagreements, "
          f"{len(by_sig)} new violations, {len(seen_known)} known findings, proof "
          f"{'OK' if not proof_problems else 'BROKEN'}, {ev['wall_s']} s")
    return exit_code


if __name__ == "__main__":
    try:
        sys.exit(main())
    except SystemExit:
        raise
    except BaseException:  # noqa: BLE001
        traceback.print_exc()
        sys.exit(2)
