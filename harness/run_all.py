"""Run every claimed check (MANIFEST.json) on the current tree: run_all.py [quick|thorough] [ids…]"""
import json, subprocess, sys, time
from pathlib import Path
V = Path(__file__).resolve().parent.parent
tier = sys.argv[1] if len(sys.argv) > 1 else "quick"
only = set(sys.argv[2:])
m = json.loads((V / "MANIFEST.json").read_text())
bad = 0
for c in m["checks"]:
    if only and c["property_id"] not in only:
        continue
    cmd = c["quick_cmd"] if tier == "quick" else c["thorough_cmd"]
    t = time.time()
    p = subprocess.run(cmd, shell=True, cwd=V, capture_output=True, text=True)
    last = [l for l in p.stdout.strip().split("\n") if l][-1:] or [""]
    flag = "" if p.returncode == 0 else "   <<<<<<<<"
    print(f"{c['property_id']} exit={p.returncode} {time.time()-t:.0f}s | {last[0][:150]}{flag}", flush=True)
    for l in p.stdout.split("\n"):
        if l.startswith(("VIOLATION", "KNOWN-FINDING")):
            print("    " + l[:200])
    if p.returncode == 2:
        print(p.stderr[-600:])
    bad += p.returncode != 0
sys.exit(1 if bad else 0)
