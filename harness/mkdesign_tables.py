"""Regenerate the two generated tables of DESIGN.md in place:
   section 7  (results on the pinned tree)  from known_findings.json
   section 10a (seeded breaking changes)     from seeded/*/meta.json
The tables sit between `<!-- BEGIN <name> -->` / `<!-- END <name> -->` markers.   usage: mkdesign_tables.py"""
import json
import re
from pathlib import Path

V = Path(__file__).resolve().parent.parent


def cell(s: str, n: int) -> str:
    s = " ".join(str(s).replace("|", "/").split())
    return s if len(s) <= n else s[: n - 1] + "…"


def findings_table() -> str:
    d = json.loads((V / "known_findings.json").read_text())
    rows = []
    for line in d.get("fixed", []):
        m = re.match(r"fixed: property=(C\d+) (\S+) (.*)", line, re.S)
        if m:
            rows.append((m.group(1), 0, f"fixed `{m.group(2)}`", m.group(3)))
    for e in d.get("open", []):
        rows.append((e["property"], 1, f"**known finding** `{e['signature']}`", e["what"]))
    rows.sort(key=lambda r: (r[0], r[1]))
    out = ["| Prop | Outcome | What failed (exact input) |", "|------|---------|---------------------------|"]
    out += [f"| {p} | {o} | {cell(w, 420)} |" for p, _, o, w in rows]
    nfix = sum(1 for r in rows if r[1] == 0)
    out.append("")
    out.append(f"{nfix} repaired defects (`fix:` commits in /repo), {len(rows) - nfix} open known findings.")
    return "\n".join(out)


def seeds_table() -> str:
    out = ["| Seed | Change | Needs to manifest | Quick check verdict |", "|------|--------|-------------------|---------------------|"]
    n = caught = concrete = 0
    for dpath in sorted((V / "seeded").iterdir(), key=lambda p: (p.name.split("-")[0], int(p.name.split("-")[1]))):
        f = dpath / "meta.json"
        if not f.exists():
            continue
        m = json.loads(f.read_text())
        res = m.get("confirmed_by_framework_author", {}).get("check_quick", {})
        reps = res.get("replays", [])
        sigs = [r.get("signature") for r in reps if r.get("kind") == "failing-input" and r.get("signature")]
        if sigs:
            verdict = "concrete replay: " + ", ".join(f"`{s}`" for s in dict.fromkeys(sigs[:3]))
            concrete += 1
        elif res.get("exit") == 1:
            verdict = "broken proof / correspondence, `no-failing-input-found`"
        else:
            verdict = "**not caught**"
        n += 1
        caught += res.get("exit") == 1
        out.append(f"| {dpath.name} | {cell(m.get('summary', ''), 230)} | {cell(m.get('needs_to_manifest', ''), 200)} | {verdict} |")
    out.append("")
    out.append(f"{n} seeded changes; {caught} caught by the quick tier, {concrete} of them with a concrete failing input.")
    return "\n".join(out)


def main():
    p = V / "DESIGN.md"
    s = p.read_text()
    for name, text in (("findings-table", findings_table()), ("seeds-table", seeds_table())):
        pat = re.compile(rf"(<!-- BEGIN {name} -->\n).*?(\n<!-- END {name} -->)", re.S)
        if not pat.search(s):
            raise SystemExit(f"markers for {name} not found in DESIGN.md")
        s = pat.sub(lambda m: m.group(1) + text + m.group(2), s)
    p.write_text(s)
    print("DESIGN.md tables regenerated")


if __name__ == "__main__":
    main()
