"""Confirm a seeded breaking change without touching /repo (safe to run while other checks run).

usage: seedcheck2.py <property> <scratch_worktree> <out_subdir> <seed_id> [--no-suite] [--thorough] [--keep]

Same three steps as seedcheck.py, but the registered check is run from a scratch copy of /verif (with its Lean build)
against the *patched scratch worktree* through VERIF_REPO, instead of patching /repo itself:

1. in the scratch worktree: demo passes on the clean tree, fails with the patch; the pinned suite still passes with the patch;
2. scratch copy of /verif, VERIF_REPO=<patched worktree>: the property's quick check (and thorough with --thorough);
3. store patch.diff, demo.py, meta.json (+ what was run and seen) under /verif/seeded/<seed_id>/; remove the scratch copy.

The confirmation "against /repo itself" (git -C /repo apply; check; git -C /repo checkout -- .) is seedcheck.py; both record
which of the two was used in meta.json["ran"].
"""
import json
import os
import shutil
import subprocess
import sys
from pathlib import Path

VERIF = Path(__file__).resolve().parent.parent


def sh(cmd, cwd=None, env=None, timeout=5400):
    p = subprocess.run(cmd, shell=True, cwd=cwd, env=env, capture_output=True, text=True, timeout=timeout)
    return p.returncode, (p.stdout + p.stderr)


def main():
    pid, wt, sub, sid = sys.argv[1:5]
    flags = sys.argv[5:]
    wt = Path(wt)
    src = wt / "out" / sub
    patch = src / "patch.diff"
    env = dict(os.environ, PYTHONPATH=str(wt / "src"))
    res = {}
    sh("git checkout -- .", cwd=wt)
    rc, out = sh(f"/venv/bin/python {src/'demo.py'}", cwd=wt, env=env)
    res["demo_clean"] = {"exit": rc, "tail": out[-300:]}
    rc, out = sh(f"git apply {patch}", cwd=wt)
    assert rc == 0, out
    rc, out = sh(f"/venv/bin/python {src/'demo.py'}", cwd=wt, env=env)
    res["demo_patched"] = {"exit": rc, "tail": out[-500:]}
    if "--no-suite" not in flags:
        rc, out = sh(f"python3 {VERIF/'harness/run_baseline.py'} {wt}", timeout=3000)
        res["suite_patched"] = {"exit": rc, "tail": out[-300:]}
    scratch = Path(f"/tmp/sv_{sid}")
    if scratch.exists():
        shutil.rmtree(scratch)
    sh(f"cp -r {VERIF} {scratch}")
    try:
        for tier in (["quick"] + (["thorough"] if "--thorough" in flags else [])):
            rc, out = sh(f"/venv/bin/python harness/vcheck.py {pid} {tier}", cwd=scratch,
                         env=dict(os.environ, VERIF_SEED=os.environ.get("VERIF_SEED", "0"), VERIF_REPO=str(wt)))
            lines = [l for l in out.split("\n") if l.startswith(("VIOLATION", "KNOWN-FINDING", pid))]
            res[f"check_{tier}"] = {"exit": rc, "lines": lines[:12]}
            if rc == 2:
                res[f"check_{tier}"]["tail"] = out[-1500:]
            replays = []
            for l in lines:
                if l.startswith("VIOLATION"):
                    rp = scratch / l.split("replay=")[1].split()[0]
                    try:
                        d = json.loads(rp.read_text())
                        replays.append({"kind": d.get("kind"), "signature": d.get("signature"), "what": str(d.get("what"))[:300]})
                    except OSError:
                        pass
            res[f"check_{tier}"]["replays"] = replays[:8]
    finally:
        sh("git checkout -- .", cwd=wt)
        if "--keep" not in flags:
            shutil.rmtree(scratch, ignore_errors=True)
    dst = VERIF / "seeded" / sid
    dst.mkdir(parents=True, exist_ok=True)
    shutil.copy(patch, dst / "patch.diff")
    shutil.copy(src / "demo.py", dst / "demo.py")
    meta = json.loads((src / "meta.json").read_text()) if (src / "meta.json").exists() else {}
    meta["property"] = pid
    meta["confirmed_by_framework_author"] = res
    meta["caught_by_quick"] = res["check_quick"]["exit"] == 1
    meta["ran"] = ["demo.py on clean scratch worktree (expect exit 0)", "demo.py with patch (expect exit 1)",
                   "harness/run_baseline.py on the patched scratch worktree (expect 167/167)",
                   f"scratch copy of /verif with VERIF_REPO=<patched scratch worktree>: harness/vcheck.py {pid} quick (harness/seedcheck2.py)"]
    (dst / "meta.json").write_text(json.dumps(meta, indent=1) + "\n")
    ok = res["demo_clean"]["exit"] == 0 and res["demo_patched"]["exit"] != 0 and res.get("suite_patched", {"exit": 0})["exit"] == 0
    print(json.dumps({"seed": sid, "valid_seed": ok, "caught_quick": meta["caught_by_quick"],
                      "check": res["check_quick"], "suite": res.get("suite_patched"),
                      "demo": [res["demo_clean"]["exit"], res["demo_patched"]["exit"]]}, indent=1))


if __name__ == "__main__":
    main()
