/-
Line-protocol driver over the definitions regenerated from the Python source (`Gen/Tr*.lean`).
Same request / reply format as `Driver.lean`, so the correspondence streams of the checks can be run
against the *translated* definitions as well: this validates the translator (harness/py2lean.py) itself
against the real code.  Kept apart from `nmdriver` so that a source change the translator cannot handle
does not take the model driver down with it.
-/
import NumbersModel.Drv.Proto
import NumbersModel.Gen.TrA1
import NumbersModel.Gen.TrItems
import NumbersModel.Gen.TrNumFmt
import NumbersModel.Gen.TrAddr
import NumbersModel.Gen.TrDateFmt
import NumbersModel.Gen.TrDuration
import NumbersModel.Gen.TrDec128
import NumbersModel.Gen.TrMerge
import NumbersModel.Gen.TrEdit
import NumbersModel.Gen.TrCache
import NumbersModel.Gen.TrTok
import NumbersModel.Gen.TrLoad
import NumbersModel.Gen.TrIwa
import NumbersModel.Gen.TrCellRec
import NumbersModel.Drv.CellRecord
import NumbersModel.Drv.Loader
import NumbersModel.Drv.Tokenizer
import NumbersModel.Drv.Addressing
import NumbersModel.Model.DateFmt

open NumbersModel NumbersModel.Drv NumbersModel.Gen.T

def handleTrA1 : List String → Option String
  | ["colname", c, a] => do
    let c ← c.toInt?; let a ← parseBool a
    pure (showPyM showText (xl_col_to_name c a))
  | ["cell", r, c, ra, ca] => do
    let r ← r.toInt?; let c ← c.toInt?; let ra ← parseBool ra; let ca ← parseBool ca
    pure (showPyM showText (xl_rowcol_to_cell r c ra ca))
  | ["range", r1, c1, r2, c2] => do
    let r1 ← r1.toInt?; let c1 ← c1.toInt?; let r2 ← r2.toInt?; let c2 ← c2.toInt?
    pure (showPyM showText (xl_range r1 c1 r2 c2))
  | ["parse", s] => do
    let s ← parseText s
    pure (showPyM (fun (p : Int × Int) => s!"{p.1} {p.2}") (xl_cell_to_rowcol s))
  | ["coloff", s] => do
    let s ← parseText s
    pure (showPyM (fun (i : Int) => s!"{i}") (xl_col_to_offset s))
  | ["colidx", s] => do
    let s ← parseText s
    pure (showPyM (fun (i : Int) => s!"{i}") (col_to_index s))
  | _ => none

/-- `getitem <n> <name_1> … <name_n> (i <int> | s <text> | o)`: reply `ok <index of the returned item>` -/
def handleTrItems : List String → Option String
  | "getitem" :: n :: rest => do
    let n ← n.toNat?
    let names ← (rest.take n).mapM parseText
    let items : List PyT.Item := (List.range n).zip names |>.map (fun (i, nm) => ⟨(i : Int), nm⟩)
    let key ← match rest.drop n with
      | ["i", k] => (k.toInt?).map PyT.Key.int
      | ["s", t] => (parseText t).map PyT.Key.str
      | ["o"] => some PyT.Key.other
      | _ => none
    pure (showPyM (fun (it : PyT.Item) => s!"{it.id}") (ItemsList.getitem items key))
  | _ => none

def handleTrNumFmt : List String → Option String
  | ["fracparts", w, n, d] => do
    let w ← w.toInt?; let n ← n.toInt?; let d ← d.toInt?
    pure (showPyM showText (format_fraction_parts_to w n d))
  | ["twos", v, b] => do
    let v ← v.toInt?; let b ← b.toInt?
    pure (showPyM showText (twos_complement v b))
  | _ => none

def handleTrAddr : List String → Option String
  | ["iterrows", rows, cols, a, b, c, d] => do
    let rows ← rows.toNat?; let cols ← cols.toNat?
    let a ← addrOptInt a; let b ← addrOptInt b; let c ← addrOptInt c; let d ← addrOptInt d
    pure (showPyM showGrid ((iter_rows_bounds rows cols a b c d).map Addressing.rowsOf))
  | ["itercols", rows, cols, a, b, c, d] => do
    let rows ← rows.toNat?; let cols ← cols.toNat?
    let a ← addrOptInt a; let b ← addrOptInt b; let c ← addrOptInt c; let d ← addrOptInt d
    pure (showPyM showGrid ((iter_cols_bounds rows cols c d a b).map Addressing.colsOf))
  | _ => none

/-- same request lines as `Drv/DateFmt.lean` (`fmt`, `expand`), plus the three directive helpers called directly:
    `doy <tm_yday>`, `wom <day> <weekday of the 1st>`, `occ <day>` -/
def handleTrDateFmt : List String → Option String
  | ["fmt", y, mo, d, h, mi, s, us, f] => do
    let ns ← [y, mo, d, h, mi, s, us].mapM String.toNat?
    let f ← parseText f
    match ns with
    | [y, mo, d, h, mi, s, us] =>
      pure (showPyM showText (decode_date_format (DateFmt.isAlphaIn Gen.alphaRanges)
        (DateFmt.decodeField ⟨y, mo, d, h, mi, s, us⟩) f))
    | _ => none
  | ["expand", s] => do
    let s ← parseText s
    pure (showPyM showText (expand_quotes s))
  | ["doy", yd] => do
    let yd ← yd.toInt?
    pure (showPyM (fun (i : Int) => s!"{i}") (day_of_year yd))
  | ["wom", d, w] => do
    let d ← d.toInt?; let w ← w.toInt?
    pure (showPyM (fun (i : Int) => s!"{i}") (week_of_month d w))
  | ["occ", d] => do
    let d ← d.toInt?
    pure (showPyM showText (days_occurred_in_month d))
  | _ => none

/-- `units <ms> <largest> <smallest>` as in `Drv/Duration.lean`; `unitfmt <unit> <value> <style> (n | s <abbrev>)` -/
def handleTrDuration : List String → Option String
  | ["units", ms, largest, smallest] => do
    let ms ← ms.toInt?; let largest ← largest.toInt?; let smallest ← smallest.toInt?
    pure (showPyM (fun (p : Int × Int) => s!"{p.1} {p.2}") (auto_units ⟨ms⟩ largest smallest))
  | "unitfmt" :: u :: v :: st :: rest => do
    let u ← parseText u; let v ← v.toInt?; let st ← st.toInt?
    let ab ← match rest with
      | ["n"] => some none
      | ["s", a] => (parseText a).map some
      | _ => none
    pure (showPyM showText (unit_format u v st ab))
  | _ => none

/-- `unpack <hex bytes>`: reply `ok <sign> <signed mantissa> <exp>` (what the source hands to the final `float(...)`) -/
def handleTrD128 : List String → Option String
  | ["pack", s, c, e] => do
    let s ← parseBool s; let c ← c.toNat?; let e ← e.toInt?
    pure (showPyM showBytes (pack_decimal128 (if s then 1 else 0) (c : Int) e))
  | ["unpack", b] => do
    let b ← parseBytes b
    pure (showPyM (fun (r : Int × Int × Int) => s!"{r.1} {r.2.1} {r.2.2}") (unpack_decimal128 b))
  | _ => none

/-- `pack <row> <col> <h> <w>`: reply `ok <origin> <size>`; `unpack <origin> <size>`: reply `ok r0 c0 r1 c1 nrows ncols` -/
def handleTrMerge : List String → Option String
  | ["pack", r, c, h, w] => do
    let r ← r.toInt?; let c ← c.toInt?; let h ← h.toInt?; let w ← w.toInt?
    pure (showPyM (fun (p : Int × Int) => s!"{p.1} {p.2}") (merge_pack (r, c) (h, w)))
  | ["unpack", o, s] => do
    let o ← o.toInt?; let s ← s.toInt?
    pure (showPyM (fun (p : Int × Int × Int × Int × Int × Int) =>
      s!"{p.1} {p.2.1} {p.2.2.1} {p.2.2.2.1} {p.2.2.2.2.1} {p.2.2.2.2.2}") (merge_unpack o s))
  | _ => none

/-- `addrow|addcol|delrow|delcol <table rows resp. columns> <count> <start | n>`: reply `ok <start used>` for the two adds,
    `ok` for the two deletes -/
def handleTrEdit : List String → Option String
  | [op, size, n, st] => do
    let size ← size.toInt?; let n ← n.toInt?
    let st ← if st == "n" then some none else (st.toInt?).map some
    match op with
    | "addrow" => pure (showPyM (fun (i : Int) => s!"{i}") (add_row_args size n st))
    | "addcol" => pure (showPyM (fun (i : Int) => s!"{i}") (add_column_args size n st))
    | "delrow" => pure (showPyM (fun (_ : Unit) => "") (delete_row_args size n st))
    | "delcol" => pure (showPyM (fun (_ : Unit) => "") (delete_column_args size n st))
    | _ => none
  | _ => none

/-- `cache calls <n> <int>*` as in `Drv/Cache.lean`: a sum-of-squares method called through the translated wrapper on
    consecutive n-tuples, the store threaded from call to call; reply: the results, then the number of stored entries -/
def handleTrCache : List String → Option String
  | "calls" :: n :: rest => do
    let n ← n.toNat?
    let xs ← rest.mapM String.toInt?
    if n = 0 then none else
    let rec groups : Nat → List Int → List (List Int)
      | 0, _ => []
      | _, [] => []
      | fuel + 1, l => l.take n :: groups fuel (l.drop n)
    let calls := groups xs.length xs
    let f (a : List Int) : Int := (a.zipIdx.map fun p => p.1 * p.1 + (p.2 : Int)).sum
    let r : PyM (List Int × List (Text × Int)) := calls.foldlM (fun (acc : List Int × List (Text × Int)) a => do
      let (v, st) ← cache_inner_multi_args f (n : Int) acc.2 a
      pure (acc.1 ++ [v], st)) ([], [])
    pure (showPyM (fun (p : List Int × List (Text × Int)) =>
      " ".intercalate (p.1.map toString) ++ " | " ++ toString p.2.length) r)
  | _ => none

/-- `assertempty <n> <piece>*` → `ok` / `err TokenizerError`; `savetoken <n> <piece>*` (on an empty item list) →
    `ok <tokens as in Drv/Tokenizer> | <number of pieces left>` -/
def handleTrTok : List String → Option String
  | "assertempty" :: n :: rest => do
    let n ← n.toNat?
    let ps ← (rest.take n).mapM parseText
    pure (showPyM (fun (_ : Unit) => "") (assert_empty_token ps))
  | "savetoken" :: n :: rest => do
    let n ← n.toNat?
    let ps ← (rest.take n).mapM parseText
    pure (showPyM (fun (r : Unit × List Tokenizer.Tok × List Text) =>
      " ".intercalate (r.2.1.map showTok) ++ " | " ++ toString r.2.2.length) (save_token [] ps))
  | _ => none

def parseTType : String → Option Tokenizer.TType
  | "OPERAND" => some .OPERAND | "FUNC" => some .FUNC | "ARRAY" => some .ARRAY | "PAREN" => some .PAREN
  | "SEP" => some .SEP | "PRE" => some .OP_PRE | "IN" => some .OP_IN | "POST" => some .OP_POST | _ => none

def parseSubT : String → Option Tokenizer.SubT
  | "_" => some .none | "TEXT" => some .TEXT | "ERROR" => some .ERROR | "LOGICAL" => some .LOGICAL | "NR" => some .NR
  | "OPEN" => some .OPEN | "CLOSE" => some .CLOSE | "ARG" => some .ARG | "ROW" => some .ROW | _ => none

/-- a token as `Drv/Tokenizer.showTok` prints it: `<text>/<type>/<subtype>` -/
def parseTok (w : String) : Option Tokenizer.Tok :=
  match w.splitOn "/" with
  | [v, t, s] => do
    let v ← parseText v; let t ← parseTType t; let s ← parseSubT s
    pure ⟨v, t, s⟩
  | _ => none

/-- the state of a `Tokenizer` instance: formula, offset, items, token_stack, token (pieces) -/
structure TokState where
  formula : Text
  offset : Int
  items : List Tokenizer.Tok
  stack : List Tokenizer.Tok
  pieces : List Text

/-- `<formula> <offset> <n> <item>* <n> <stack token>* <n> <piece>*` -/
def parseTokState (ws : List String) : Option TokState :=
  match ws with
  | f :: o :: n :: rest => do
    let f ← parseText f; let o ← o.toInt?; let n ← n.toNat?
    let items ← (rest.take n).mapM parseTok
    match rest.drop n with
    | m :: rest => do
      let m ← m.toNat?
      let stack ← (rest.take m).mapM parseTok
      match rest.drop m with
      | k :: rest => do
        let k ← k.toNat?
        let pieces ← (rest.take k).mapM parseText
        if rest.length = k ∧ (items.length = n ∧ stack.length = m) then pure ⟨f, o, items, stack, pieces⟩ else none
      | _ => none
    | _ => none
  | _ => none

def showTokState (ret : String) (s : TokState) : String :=
  " ".intercalate ([ret, toString s.offset, "I"] ++ s.items.map showTok ++ ["S"] ++ s.stack.map showTok ++ ["P"] ++
    s.pieces.map showText)

/-- `<method> <state>`: one method of the `Tokenizer` (translated from the source) on a harness-made instance; reply
    `ok <returned value> <offset> I <items> S <token_stack> P <pieces of self.token>` -/
def handleTrTokMethod : List String → Option String
  | m :: rest => do
    let s ← parseTokState rest
    let showI := fun (i : Int) => toString i
    match m with
    | "sci" => pure (showPyM (fun (r : Bool × Int × List Text) =>
        showTokState (if r.1 then "1" else "0") { s with offset := r.2.1, pieces := r.2.2 })
        (check_scientific_notation s.formula s.offset s.pieces))
    | "string" => pure (showPyM (fun (r : Int × List Tokenizer.Tok × List Text) =>
        showTokState (showI r.1) { s with items := r.2.1, pieces := r.2.2 }) (parse_string s.formula s.offset s.items s.pieces))
    | "error" => pure (showPyM (fun (r : Int × List Tokenizer.Tok) =>
        showTokState (showI r.1) { s with items := r.2 }) (parse_error s.formula s.offset s.items s.pieces))
    | "operator" => pure (showPyM (fun (r : Int × List Tokenizer.Tok) =>
        showTokState (showI r.1) { s with items := r.2 }) (parse_operator s.formula s.offset s.items))
    | "opener" => pure (showPyM (fun (r : Int × List Tokenizer.Tok × List Tokenizer.Tok × List Text) =>
        showTokState (showI r.1) { s with items := r.2.1, stack := r.2.2.1, pieces := r.2.2.2 })
        (parse_opener s.formula s.offset s.items s.stack s.pieces))
    | "closer" => pure (showPyM (fun (r : Int × List Tokenizer.Tok × List Tokenizer.Tok) =>
        showTokState (showI r.1) { s with items := r.2.1, stack := r.2.2 }) (parse_closer s.formula s.offset s.items s.stack))
    | "separator" => pure (showPyM (fun (r : Int × List Tokenizer.Tok) =>
        showTokState (showI r.1) { s with items := r.2 }) (parse_separator s.formula s.offset s.items s.stack))
    | "parse" => pure (showPyM (fun (r : Unit × Int × List Tokenizer.Tok × List Tokenizer.Tok × List Text) =>
        showTokState "-" { s with offset := r.2.1, items := r.2.2.1, stack := r.2.2.2.1, pieces := r.2.2.2.2 })
        (parse s.formula s.offset s.items s.stack s.pieces))
    | _ => none
  | _ => none

/-- the `Token` constructors translated from the source: `subexp <text> <func 0|1>`, `closer <token>`, `separator <text>` -/
def handleTrToken : List String → Option String
  | ["subexp", v, f] => do
    let v ← parseText v; let f ← parseBool f
    pure (showPyM showTok (make_subexp v f))
  | ["closer", t] => do
    let t ← parseTok t
    pure (showPyM showTok (get_closer t))
  | ["separator", v] => do
    let v ← parseText v
    pure (showPyM showTok (make_separator v))
  | _ => none

/-- `tokenize <text>` as `Drv/Tokenizer.lean`: `Tokenizer(text).items` through the translated `parse` (what `__init__` does:
    the five attributes set to the text, 0 and three empty lists, then `parse()`) -/
def handleTrTokenize : List String → Option String
  | ["tokenize", s] => do
    let s ← parseText s
    pure (showPyM (fun (r : Unit × Int × List Tokenizer.Tok × List Tokenizer.Tok × List Text) =>
      " ".intercalate (r.2.2.1.map showTok)) (parse s 0 [] [] []))
  | _ => none

/-- the operators of `Py/Trans.lean` themselves, so that the meaning the translator gives to `& | << >> // %` and
    `int(a / b)` / `int(ceil(a / c))` is compared with CPython on signed operands -/
def handlePyOps : List String → Option String
  | [op, a, b] => do
    let a ← a.toInt?; let b ← b.toInt?
    let showI := fun (i : Int) => s!"{i}"
    match op with
    | "and" => pure ("ok " ++ showI (PyT.bitAnd a b))
    | "or" => pure ("ok " ++ showI (PyT.bitOr a b))
    | "shl" => pure (showPyM showI (PyT.shl a b))
    | "shr" => pure (showPyM showI (PyT.shr a b))
    | "floordiv" => pure (showPyM showI (PyT.floordiv a b))
    | "mod" => pure (showPyM showI (PyT.mod a b))
    | "truedivtrunc" => pure (showPyM showI (PyT.trueDivTrunc a b))
    | "ceildiv" => pure (showPyM showI (PyT.ceilDivFloat a b))
    | _ => none
  | ["range3", a, b, c] => do
    let a ← a.toInt?; let b ← b.toInt?; let c ← c.toInt?
    pure (showPyM (fun (l : List Int) => " ".intercalate (l.map (fun i => s!"{i}"))) (PyT.range3 a b c))
  | _ => none

/-- `loader load f <scenario>` (the request format of Drv/Loader.lean): the scripted / recorded externals go through the
    TRANSLATED `ObjectStore.__init__`; the reply is what it leaves behind in the model's terms (`_max_id`, distinct
    identifiers, distinct file names).  Only the variant `f` (the code as it is) has a translation. -/
def handleTrLoader : List String → Option String
  | "load" :: rest =>
    match scenarioP.run rest with
    | some ((v, x), []) =>
      if v = Loader.fixed then
        some (showPyM (fun (r : Unit × Int × Loader.Store) =>
          s!"{r.2.1.toNat} {r.2.2.objs.eraseDups.length} {r.2.2.files.eraseDups.length}") (load x ()))
      else none
    | _ => none
  | _ => none

/-- the chunk framing of iwafile.py through the TRANSLATED definitions; same requests (and recorded snappy / protobuf tables)
    as Drv/Iwa.lean: `isiwa <hex>`, `decompress <hex> T …`, `framestream <hex> T …`; `archinfo <hex> T …` is
    `get_archive_info_and_remainder` (reply: header id, length of the remainder) -/
def handleTrIwa (ws : List String) : Option String :=
  let (args, tws) := splitT ws
  match parseTables (tws.length + 1) tws {} with
  | none => none
  | some t =>
    let e := tableExt t
    match args with
    | ["isiwa", d] => do
      let d ← parseBytesBig d
      pure (showPyM (fun b => if b then "1" else "0") (is_iwa_file d.toList))
    | ["decompress", d] => do
      let d ← parseBytesBig d
      pure (showPyM showBytesBig ((decompress_all e.uncompress d.toList).map List.flatten))
    | ["framestream", s] => do
      let s ← parseBytesBig s
      pure (showPyM showBytesBig (chunk_to_buffer e.compress s.toList))
    | ["archinfo", d] => do
      let d ← parseBytesBig d
      pure (showPyM (fun (p : THeader × Bytes) => s!"{p.1.id} {p.2.length}")
        (get_archive_info_and_remainder e.parseInfo d.toList))
    | _ => none

/-- `cell dec <hex>` (the request of Drv/CellRecord.lean): the field walk of `Cell._from_storage` as TRANSLATED from the source,
    then the model's dispatch / `_extras` (`CellRecord.finishDecode`) -/
def handleTrCell : List String → Option String
  | ["dec", b] => do
    let b ← parseBytes b
    pure (showPyM showDecoded (from_storage_fields CellRecord.readD128 CellRecord.readDouble b >>= CellRecord.finishDecode b))
  | _ => none

def trDispatch (line : String) : String :=
  let ws := (line.splitOn " ").filter (· ≠ "")
  let r : Option String := match ws with
    | "a1" :: rest => handleTrA1 rest
    | "items" :: rest => handleTrItems rest
    | "numfmt" :: rest => handleTrNumFmt rest
    | "addr" :: rest => handleTrAddr rest
    | "datefmt" :: rest => handleTrDateFmt rest
    | "dur" :: rest => handleTrDuration rest
    | "d128" :: rest => handleTrD128 rest
    | "merge" :: rest => handleTrMerge rest
    | "py" :: rest => handlePyOps rest
    | "edit" :: rest => handleTrEdit rest
    | "cache" :: rest => handleTrCache rest
    | "tokbuf" :: rest => handleTrTok rest
    | "tokm" :: rest => handleTrTokMethod rest
    | "token" :: rest => handleTrToken rest
    | "tok" :: rest => handleTrTokenize rest
    | "loader" :: rest => handleTrLoader rest
    | "iwa" :: rest => handleTrIwa rest
    | "cell" :: rest => handleTrCell rest
    | _ => none
  match r with
  | some s => s
  | none => "bad-op"

partial def trLoop (h : IO.FS.Stream) (out : IO.FS.Stream) : IO Unit := do
  let line ← h.getLine
  if line.isEmpty then return ()
  let l := String.ofList (line.toList.filter (fun c => c ≠ '\n' ∧ c ≠ '\r'))
  out.putStrLn (trDispatch l)
  trLoop h out

def main : IO Unit := do
  let out ← IO.getStdout
  trLoop (← IO.getStdin) out
  out.flush
