/-
Small text helpers shared by the display models (C13/C14).  Core Lean only.
-/
import NumbersModel.Py.Basic
namespace NumbersModel.Digits
open NumbersModel

def isDigit (c : Char) : Bool := '0' ≤ c && c ≤ '9'

/-- `str.zfill(w)` on an unsigned digit string. -/
def zfill (w : Nat) (s : Text) : Text := List.replicate (w - s.length) '0' ++ s

/-- fold decimal digits into an accumulator; `none` if a non-digit occurs. -/
def readDigits : List Char → Nat → Option Nat
  | [], acc => some acc
  | c :: r, acc => if isDigit c then readDigits r (acc * 10 + (c.toNat - 48)) else none

/-- a non-empty all-digit text read as a decimal number. -/
def readNat (t : Text) : Option Nat := if t = [] then none else readDigits t 0

/-- the maximal runs of ASCII digits of a text, each read as a decimal number
    (`[int(x) for x in re.findall("[0-9]+", t)]`). -/
def readNumbersAux : List Char → Option Nat → List Nat
  | [], none => []
  | [], some n => [n]
  | c :: r, cur =>
    if isDigit c then readNumbersAux r (some (cur.getD 0 * 10 + (c.toNat - 48)))
    else match cur with
      | none => readNumbersAux r none
      | some n => n :: readNumbersAux r none

def readNumbers (t : Text) : List Nat := readNumbersAux t none

end NumbersModel.Digits
