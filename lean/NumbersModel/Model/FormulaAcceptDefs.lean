/-
Domain predicates of C18 clause 4 (`reader_output_accepted_partial`): which operand / reference texts and
which stored expressions the acceptance theorem covers.  Core-only so that the driver can evaluate them
(harness/checks/c18.py compares them with an independent Python statement and runs the real tokenizer
on every text they accept).
-/
import NumbersModel.Model.TokenizerCfg
import NumbersModel.Model.Formula
namespace NumbersModel.Tokenizer
open NumbersModel

/-- characters the loop just appends to the pending operand. -/
def plain (c : Char) : Bool :=
  !(liveCfg.enders.contains c) && !(c = '"') && !(c = '\'') && !(c = '#') && !(c = '{') && !(c = '(')

end NumbersModel.Tokenizer

namespace NumbersModel.FormulaAccept
open NumbersModel NumbersModel.Tokenizer NumbersModel.Formula

/-- an operand text the tokenizer keeps as one plain token: non-empty, plain characters only
    (no quotes, brackets, separators, operator glyphs, `#`), and not of the `1E` shape. -/
def atomOK (t : Text) : Bool := !t.isEmpty && t.all plain && !snMatch t

def nameOK (t : Text) : Bool := t.all plain

/-! ### references that need quoting: `'a-b'`, `Table 1::'a-b'`, `'a-b':'c+d'`, `alpha:'a-b'`, `'a-b':alpha` -/

/-- after an opening apostrophe: what is left after the closing one. -/
def skipBody : List Char → Option (List Char)
  | [] => none
  | c :: r => if c = '\'' then some r else skipBody r

/-- `:'…` continues a chain of quoted names. -/
def contTail : List Char → Option (List Char)
  | ':' :: '\'' :: r => some ('\'' :: r)
  | _ => none

/-- what is left after a chain of quoted names `'b1':'b2':…`. -/
def skipChain : Nat → List Char → Option (List Char)
  | 0, _ => none
  | f + 1, '\'' :: r =>
    match skipBody r with
    | some y =>
      match contTail y with
      | some z => skipChain f z
      | none => some y
    | none => none
  | _ + 1, _ => none

def postOKb : List Char → Bool
  | [] => true
  | ':' :: c :: r => plain c && !isWs liveCfg.ws c && r.all plain
  | _ => false

/-- a reference text with quoted names, of the shapes the reader prints: an optional plain prefix ending
    in a colon, a chain of quoted names (no apostrophe inside a name: the recorded finding), optionally
    `:` and a plain name not starting with white space. -/
def qrefOK (t : Text) : Bool :=
  let pre := t.takeWhile (fun c => c != '\'')
  let rem := t.dropWhile (fun c => c != '\'')
  pre.all plain && (pre.isEmpty || pre.getLast? == some ':') &&
    match skipChain rem.length rem with
    | some post => postOKb post
    | none => false

def refOK (t : Text) : Bool := atomOK t || qrefOK t

mutual
/-- expressions whose rendering stays inside the grammar `G`: every constructor, with number and
    function-name texts that are plain and reference texts that are plain or of the quoted shapes the
    reader prints (`refOK`); a name containing an apostrophe is outside (recorded finding). -/
def TokSafe : Expr → Bool
  | .num n => atomOK (numText n)
  | .str _ => true
  | .bool _ _ => true
  | .date _ => true
  | .ref t => refOK t
  | .empty => false
  | .bin _ l r => TokSafe l && TokSafe r
  | .neg e => TokSafe e
  | .pct e => TokSafe e
  | .paren es => ArgsSafe es
  | .call f args => nameOK (funcName f) && ArgsSafe args
  | .arr _ _ es => CellsSafe es
/-- arguments may also be empty (`F(,1)`). -/
def ArgsSafe : List Expr → Bool
  | [] => true
  | .empty :: es => ArgsSafe es
  | e :: es => TokSafe e && ArgsSafe es
/-- array cells -/
def CellsSafe : List Expr → Bool
  | [] => true
  | e :: es => TokSafe e && CellsSafe es
end


end NumbersModel.FormulaAccept
