/-
C19 / C16 / C06 / C03 — the document tree as `_NumbersModel` keeps it (src/numbers_parser/model.py, containers.py),
core Lean only.

* the object store: `ObjectStore._objects` as an insertion-ordered map identifier → object (`Objects`), `_file_store` as
  the ordered list of members, each `.iwa` member with the identifiers of its archives in file order (`Files`; any other
  blob is `none`), `_max_id`; `create_object_from_dict` (first IWA member whose name contains the pattern, new member
  otherwise; blobs are never candidates), `find_refs` (store iteration order).
* every message abstracted to the fields this property reads: `DocumentArchive.sheets`, `SheetArchive.name /
  drawable_infos`, `TableInfoArchive.super.parent / tableModel / super.caption / super.caption_hidden /
  super.geometry.position`, `TableModelArchive.table_name / table_name_enabled / number_of_header_rows /
  number_of_header_columns`, `StandinCaptionArchive`, `CaptionInfoArchive.super.owned_storage`, `StorageArchive.text`;
  anything else is `other`.
* `sheet_ids`, `sheet_name`, `table_ids` (as repaired by fixes/C06-table-order-from-drawable-list.patch: WHICH objects are
  tables of a sheet is decided by `super.parent` over the store's iteration order, the ORDER by a stable sort on the position
  in the sheet's `drawable_infos`; `tableIdsPinned` is the pinned code, where the order is the store's iteration order),
  `table_info_id`, `table_name`, `table_name_enabled`, `caption_enabled`, `caption_text` (incl. `create_caption_archive`),
  header counts, `table_coordinates`, `_NumbersModel.add_sheet`, `_NumbersModel.add_table` (every object it creates, in
  the order of the code; the new drawable reference is appended last).
* `serialise` = `update_object_file_store` + the members written in `_file_store` order, each with its archives in file
  order; `load` = `IWork._read_objects_from_zipfile` → `_store_blob` → `ObjectStore.store_object`: the store rebuilt in
  FILE order (member order × archive order), which need not be creation order.
-/
import NumbersModel.Model.ObjectStore
namespace NumbersModel.DocTree
open NumbersModel NumbersModel.Layout NumbersModel.ObjStore

/-- a stored message, reduced to the fields read or written by the names / order / labels code.
    Positions are the two binary32 fields as opaque values (their bit patterns). -/
inductive Obj where
  | document (sheets : List Nat)
  | sheet (name : Text) (drawables : List Nat)
  | tableInfo (parent tableModel caption : Nat) (captionHidden : Bool) (x y : Nat)
  | tableModel (name : Text) (nameEnabled : Bool) (hdrRows hdrCols : Nat)
  | standinCaption
  | captionInfo (storage : Nat)
  | storage (text : List Text)
  | other
  deriving DecidableEq, Repr, Inhabited

abbrev Objects := List (Nat × Obj)
/-- `_file_store`: `some ids` = an IWA member with the identifiers of its archives in file order; `none` = any other blob -/
abbrev Files := List (Text × Option (List Nat))

structure Doc where
  objects : Objects
  files : Files
  maxId : Nat
  deriving Repr, DecidableEq

/-! ### the store -/

/-- `self.objects[k]` -/
def getObj (os : Objects) (k : Nat) : PyM Obj := dictGet os k

/-- `create_object_from_dict(iwa_file, …, cls)` (append = False): the new identifier is `_max_id + 1`; the archive is
    appended to the first IWA member whose name contains `iwa_file` (`ObjStore.iwaPaths`: members that are not IWA archives
    are no candidates, fixes/C19-new-objects-go-to-iwa-members.patch), or becomes the only archive of the new member
    `iwa_file.format(new_id) + ".iwa"`.  It raises nothing. -/
def createObject (d : Doc) (iwaFile : Text) (o : Obj) : PyM (Doc × Nat) :=
  let newId := d.maxId + 1
  match iwaPaths d.files iwaFile with
  | [] =>
    let path := pyFormat1 iwaFile (natStr newId) ++ ".iwa".toList
    .ok ({ objects := dictSet d.objects newId o, files := dictSet d.files path (some [newId]), maxId := newId }, newId)
  | (path, segs) :: _ =>
    .ok ({ objects := dictSet d.objects newId o, files := dictSet d.files path (some (segs ++ [newId])), maxId := newId },
         newId)

/-- the pinned code: the first member whose name contains the pattern, whatever it holds — a `bytes` blob has no `.chunks`
    (AttributeError).  Kept for the counter-example in Props/C19.lean only. -/
def createObjectPinned (d : Doc) (iwaFile : Text) (o : Obj) : PyM (Doc × Nat) :=
  let newId := d.maxId + 1
  match d.files.find? (fun f => isInfix iwaFile f.1) with
  | none =>
    let path := pyFormat1 iwaFile (natStr newId) ++ ".iwa".toList
    .ok ({ objects := dictSet d.objects newId o, files := dictSet d.files path (some [newId]), maxId := newId }, newId)
  | some (_, none) => .error .AttributeError
  | some (path, some segs) =>
    .ok ({ objects := dictSet d.objects newId o, files := dictSet d.files path (some (segs ++ [newId])), maxId := newId },
         newId)

/-- several objects of kinds this model does not look into, one `create_object_from_dict` each -/
def createOthers : List Text → Doc → PyM Doc
  | [], d => .ok d
  | p :: ps, d => do
    let (d1, _) ← createObject d p .other
    createOthers ps d1

/-- `self.objects[k].<field> = …`: the object is replaced in place (same position in the store) -/
def modify (d : Doc) (k : Nat) (f : Obj → PyM Obj) : PyM Doc := do
  let o ← getObj d.objects k
  let o' ← f o
  .ok { d with objects := dictSet d.objects k o' }

/-! ### readers -/

/-- `sheet_ids()` -/
def sheetIds (os : Objects) : PyM (List Nat) := do
  match ← getObj os Gen.DOCUMENT_ID with
  | .document sheets => .ok sheets
  | _ => .error .AttributeError

/-- `sheet_name(sheet_id)`: `None` when the identifier is not in the store -/
def sheetName (os : Objects) (sid : Nat) : PyM (Option Text) :=
  match dictGet? os sid with
  | none => .ok none
  | some (.sheet nm _) => .ok (some nm)
  | some _ => .error .AttributeError

/-- `[t for t in find_refs("TableInfoArchive") if objects[t].super.parent.identifier == sheet_id]` with the
    `tableModel.identifier` of each, in store iteration order -/
def sheetTableInfos (os : Objects) (sid : Option Nat) : List (Nat × Nat) :=
  os.filterMap fun p => match p.2 with
    | .tableInfo par tm _ _ _ _ => if sid = none ∨ sid = some par then some (p.1, tm) else none
    | _ => none

/-- `{ref.identifier: i for i, ref in enumerate(drawable_infos)}` -/
def listedGo : List Nat → Nat → List (Nat × Nat) → List (Nat × Nat)
  | [], _, acc => acc
  | r :: rs, i, acc => listedGo rs (i + 1) (dictSet acc r i)
def listed (drawables : List Nat) : List (Nat × Nat) := listedGo drawables 0 []

/-- `listed.get(t_id, len(listed))` -/
def drawKey (l : List (Nat × Nat)) (t : Nat) : Nat := (dictGet? l t).getD l.length

/-- `list.sort(key=…)`: stable -/
def insertByKey {α} (key : α → Nat) (x : α) : List α → List α
  | [] => [x]
  | y :: r => if key x ≤ key y then x :: y :: r else y :: insertByKey key x r
def sortByKey {α} (key : α → Nat) (l : List α) : List α := l.foldr (insertByKey key) []

/-- `table_ids(sheet_id)` as repaired: the tables of a sheet in the order of the sheet's drawable list -/
def tableIds (os : Objects) (sid : Option Nat) : PyM (List Nat) :=
  let infos := sheetTableInfos os sid
  match sid with
  | none => .ok (infos.map (·.2))
  | some s =>
    match dictGet? os s with
    | none => .error .KeyError
    | some (.sheet _ dr) => .ok ((sortByKey (fun p => drawKey (listed dr) p.1) infos).map (·.2))
    | some _ => .error .AttributeError

/-- `table_ids(sheet_id)` of the pinned code: store iteration order -/
def tableIdsPinned (os : Objects) (sid : Option Nat) : PyM (List Nat) := .ok ((sheetTableInfos os sid).map (·.2))

/-- `table_info_id(table_id)`: the first TableInfoArchive (store order) whose `tableModel` is the table -/
def tableInfoId (os : Objects) (tid : Nat) : PyM Nat :=
  match (sheetTableInfos os none).find? (fun p => p.2 = tid) with
  | some p => .ok p.1
  | none => .error .IndexError

/-- `table_name(table_id)` -/
def tableName (os : Objects) (tid : Nat) : PyM Text := do
  match ← getObj os tid with
  | .tableModel nm _ _ _ => .ok nm
  | _ => .error .AttributeError

/-- what the API shows of one table besides its name -/
structure Labels where
  name : Text
  nameEnabled : Bool
  captionEnabled : Bool
  caption : Text
  hdrRows : Nat
  hdrCols : Nat
  x : Nat
  y : Nat
  deriving DecidableEq, Repr

def captionDefault : Text := "Caption".toList

/-- `caption_enabled(table_id)` and `caption_text(table_id)` read side -/
def captionOf (os : Objects) (capRef : Nat) (hidden : Bool) : PyM (Bool × Text) := do
  match ← getObj os capRef with
  | .standinCaption => .ok (false, captionDefault)
  | .captionInfo st =>
    match ← getObj os st with
    | .storage [] => .ok (!hidden, captionDefault)
    | .storage (t :: _) => .ok (!hidden, t)
    | _ => .error .AttributeError
  | _ => .error .AttributeError

/-- `table_name`, `table_name_enabled`, `caption_enabled`, `caption_text`, `num_header_rows`, `num_header_cols`,
    `table_coordinates` of one table -/
def labels (os : Objects) (tid : Nat) : PyM Labels := do
  match ← getObj os tid with
  | .tableModel nm en hr hc =>
    let ti ← tableInfoId os tid
    match ← getObj os ti with
    | .tableInfo _ _ cap hidden x y =>
      let (ce, ct) ← captionOf os cap hidden
      .ok ⟨nm, en, ce, ct, hr, hc, x, y⟩
    | _ => .error .AttributeError
  | _ => .error .AttributeError

def mapM' {α β} (f : α → PyM β) : List α → PyM (List β)
  | [] => .ok []
  | a :: r => do let b ← f a; let bs ← mapM' f r; .ok (b :: bs)

/-- what `Document(...)` shows: for every sheet (in `sheet_ids` order) its name and the names of its tables in
    `table_ids` order -/
def names (os : Objects) : PyM (List (Option Text × List Text)) := do
  let sids ← sheetIds os
  mapM' (fun sid => do
    let nm ← sheetName os sid
    let tids ← tableIds os (some sid)
    let tn ← mapM' (tableName os) tids
    .ok (nm, tn)) sids

def namesPinned (os : Objects) : PyM (List (Option Text × List Text)) := do
  let sids ← sheetIds os
  mapM' (fun sid => do
    let nm ← sheetName os sid
    let tids ← tableIdsPinned os (some sid)
    let tn ← mapM' (tableName os) tids
    .ok (nm, tn)) sids

/-- the labels of every table, sheet by sheet -/
def allLabels (os : Objects) : PyM (List (List Labels)) := do
  let sids ← sheetIds os
  mapM' (fun sid => do
    let tids ← tableIds os (some sid)
    mapM' (labels os) tids) sids

/-! ### setters -/

def setSheetName (d : Doc) (sid : Nat) (s : Text) : PyM Doc :=
  modify d sid fun | .sheet _ dr => .ok (.sheet s dr) | _ => .error .AttributeError

def setTableName (d : Doc) (tid : Nat) (s : Text) : PyM Doc :=
  modify d tid fun | .tableModel _ en hr hc => .ok (.tableModel s en hr hc) | _ => .error .AttributeError

def setNameEnabled (d : Doc) (tid : Nat) (b : Bool) : PyM Doc :=
  modify d tid fun | .tableModel nm _ hr hc => .ok (.tableModel nm b hr hc) | _ => .error .AttributeError

def setHdrRows (d : Doc) (tid : Nat) (n : Nat) : PyM Doc :=
  modify d tid fun | .tableModel nm en _ hc => .ok (.tableModel nm en n hc) | _ => .error .AttributeError

def setHdrCols (d : Doc) (tid : Nat) (n : Nat) : PyM Doc :=
  modify d tid fun | .tableModel nm en hr _ => .ok (.tableModel nm en hr n) | _ => .error .AttributeError

/-- `caption_enabled(table_id, enabled)`: `table_info.super.caption_hidden = not enabled` -/
def setCaptionEnabled (d : Doc) (tid : Nat) (b : Bool) : PyM Doc := do
  let ti ← tableInfoId d.objects tid
  modify d ti fun | .tableInfo p tm c _ x y => .ok (.tableInfo p tm c (!b) x y) | _ => .error .AttributeError

def CE : Text := "CalculationEngine".toList

/-- `create_caption_archive(table_id)`: placement, caption info, text storage (in this order), then the storage is linked
    into the caption info and the caption info into the table info -/
def createCaptionArchive (d : Doc) (tid : Nat) : PyM Doc := do
  let ti ← tableInfoId d.objects tid
  let _ ← getObj d.objects ti
  let (d1, _) ← createObject d CE .other
  let (d2, ci) ← createObject d1 CE (.captionInfo 0)
  let (d3, st) ← createObject d2 CE (.storage [captionDefault])
  let d4 ← modify d3 ci fun | .captionInfo _ => .ok (.captionInfo st) | _ => .error .AttributeError
  modify d4 ti fun | .tableInfo p tm _ h x y => .ok (.tableInfo p tm ci h x y) | _ => .error .AttributeError

/-- `caption_text(table_id, caption)` -/
def setCaption (d : Doc) (tid : Nat) (s : Text) : PyM Doc := do
  let ti ← tableInfoId d.objects tid
  match ← getObj d.objects ti with
  | .tableInfo _ _ cap _ _ _ =>
    let (d1, capObj) ← (do
      match ← getObj d.objects cap with
      | .standinCaption =>
        let d1 ← createCaptionArchive d tid
        match ← getObj d1.objects ti with
        | .tableInfo _ _ cap' _ _ _ => let o ← getObj d1.objects cap'; .ok (d1, o)
        | _ => .error .AttributeError
      | o => .ok (d, o) : PyM (Doc × Obj))
    match capObj with
    | .captionInfo st => modify d1 st fun | .storage _ => .ok (.storage [s]) | _ => .error .AttributeError
    | _ => .error .AttributeError
  | _ => .error .AttributeError

/-! ### `_NumbersModel.add_sheet`, `_NumbersModel.add_table` -/

/-- `add_sheet(sheet_name)`: a SheetArchive in the first IWA member whose name contains "Document"; its reference is appended
    to `DocumentArchive.sheets` -/
def addSheet (d : Doc) (name : Text) : PyM (Doc × Nat) := do
  let (d1, sid) ← createObject d "Document".toList (.sheet name [])
  let d2 ← modify d1 Gen.DOCUMENT_ID fun | .document ss => .ok (.document (ss ++ [sid])) | _ => .error .AttributeError
  .ok (d2, sid)

def patDataList : Text := "Index/Tables/DataList-{}".toList
def patTableDataList : Text := "Index/Tables/TableDataList-{}".toList
def patHeaders : Text := "Index/Tables/HeaderStorageBucket-{}".toList
def patTile : Text := "Index/Tables/Tile-{}".toList

/-- the objects one `recalculate_table_data` creates: the merge map (`recalculate_merged_cells`), then one tile per 256 rows -/
def recalcCreates (numRows : Nat) : List Text := CE :: List.replicate ((numRows - 1) / 256 + 1) patTile

/-- `add_table(sheet_id, table_name, from_table_id, x, y, num_rows, num_cols, header rows, header columns)` with the
    position already decided (`create_drawable`: geometry arithmetic is third-party): string table, table model, column
    headers, stroke sidecar, style / formula / pre-BNC format lists, row headers, table info, two formula-owner
    archives, merge map and one tile per 256 rows (`recalculate_table_data`), the caption objects, `caption_enabled(False)`, and last the
    drawable reference appended to the sheet. -/
def addTable (d : Doc) (sid : Nat) (name : Text) (fromTable : Nat) (x y : Nat) (numRows hdrRows hdrCols : Nat) :
    PyM (Doc × Nat) := do
  let _ ← getObj d.objects fromTable
  let d1 ← createOthers [patDataList] d
  let (d2, tm) ← createObject d1 CE (.tableModel name true hdrRows hdrCols)
  let d3 ← createOthers [patHeaders, CE, patDataList, patTableDataList, patTableDataList, patHeaders] d2
  let (d4, ti) ← createObject d3 CE (.tableInfo sid tm 0 false x y)
  let d5 ← createOthers ([CE, CE] ++ recalcCreates numRows) d4
  let d6 ← createCaptionArchive d5 tm
  let d7 ← setCaptionEnabled d6 tm false
  let d8 ← modify d7 sid fun | .sheet nm dr => .ok (.sheet nm (dr ++ [ti])) | _ => .error .AttributeError
  .ok (d8, tm)

/-! ### histories -/

inductive Op where
  | addSheet (name : Text)
  | addTable (sid : Nat) (name : Text) (fromTable x y numRows hdrRows hdrCols : Nat)
  | setSheetName (sid : Nat) (s : Text)
  | setTableName (tid : Nat) (s : Text)
  | setNameEnabled (tid : Nat) (b : Bool)
  | setCaptionEnabled (tid : Nat) (b : Bool)
  | setCaption (tid : Nat) (s : Text)
  | setHdrRows (tid : Nat) (n : Nat)
  | setHdrCols (tid : Nat) (n : Nat)
  | createOthers (pats : List Text)       -- e.g. the tiles every `Document.save` creates
  deriving Repr, DecidableEq

def step (d : Doc) : Op → PyM Doc
  | .addSheet nm => do let (d', _) ← addSheet d nm; .ok d'
  | .addTable sid nm ft x y nr hr hc => do let (d', _) ← addTable d sid nm ft x y nr hr hc; .ok d'
  | .setSheetName sid s => setSheetName d sid s
  | .setTableName tid s => setTableName d tid s
  | .setNameEnabled tid b => setNameEnabled d tid b
  | .setCaptionEnabled tid b => setCaptionEnabled d tid b
  | .setCaption tid s => setCaption d tid s
  | .setHdrRows tid n => setHdrRows d tid n
  | .setHdrCols tid n => setHdrCols d tid n
  | .createOthers ps => createOthers ps d

/-- a history; a call that raises leaves the document as it was (the API histories never continue after one) -/
def run : Doc → List Op → PyM Doc
  | d, [] => .ok d
  | d, op :: ops => do let d' ← step d op; run d' ops

/-! ### save and load -/

/-- one member of the package: its name and, for an IWA member, the archives (identifier, message) in file order -/
abbrev Member := Text × Option (List (Nat × Obj))

/-- `update_object_file_store()` followed by writing `_file_store` in its order: every archive segment carries the
    current message of its identifier (a segment without a stored object keeps what it had: not representable here and
    excluded by `FilesMatch`). -/
def serialise (d : Doc) : List Member :=
  d.files.map fun f => (f.1, f.2.map fun ids => ids.filterMap fun i => (dictGet? d.objects i).map fun o => (i, o))

/-- all archives in file order -/
def flatArchives (ms : List Member) : List (Nat × Obj) := (ms.filterMap (·.2)).flatten

def maxKey : List Nat → Nat
  | [] => 0
  | a :: r => max a (maxKey r)

/-- `ObjectStore.__init__`: `store_object` for every archive of every member in file order (a repeated identifier keeps its
    first position and takes the last message), `_max_id` rounded up to the next million -/
def load (ms : List Member) : Doc :=
  let objects := (flatArchives ms).foldl (fun acc p => dictSet acc p.1 p.2) []
  { objects := objects,
    files := ms.map fun m => (m.1, m.2.map fun as => as.map (·.1)),
    maxId := roundUpMillion (maxKey (dictKeys objects)) }

end NumbersModel.DocTree
