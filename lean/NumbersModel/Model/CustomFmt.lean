/-
C13 — custom number patterns.  Model of `cell.py`: `_decode_number_format`, `_expand_quotes`,
`_decode_text_format`, the dispatch in `Cell.formatted_value` / `Cell._custom_format`, and of
`model.py`: `add_custom_decimal_format_archive` (the only producer of custom number archives in
the library) — *after* the repairs in fixes/C13-custom-*.patch.

The archive is a plain record whose fields the harness copies from the real
`TSK.FormatStructArchive` (no protobuf is modelled).  No float is modelled: the value the code
formats is `value * scale_factor` (and `* 100.0` for a `%` pattern), a float product; the harness
supplies both products, each as the exact decimal of its `repr` (what `Decimal(repr(float(v)))`
gives the code) and as its exact binary expansion (what `f"{v:.pE}"` works on).

Third-party pieces, replaced by what they are assumed to do (exercised by the correspondence):
  * `sigfig.round(positional_str, decimals=p, type=str)`: half-up on the decimal digits,
    exactly `p` decimals (same call shape as `_format_decimal`);
  * `format(int, "0{w},")`: zero fill *with* grouping, to the least number of digits whose
    grouped length is ≥ w; `format(int, ",")`, `str.rjust/ljust/rstrip/partition/split`;
  * `re.sub(r"'[^']*'", …)`, `re.search(r"([#0.,]+(E[+]\d+)?)", …)`: leftmost, greedy; the `\d`
    class is the generated digit table (`Gen.digitZeros`), passed in as `zeros`;
  * `format(float, ".pE")` as in `NumFmt.formatScientific`.
Core Lean only.
-/
import NumbersModel.Model.NumFmt
import NumbersModel.Model.A1
namespace NumbersModel.CustomFmt
open NumbersModel NumbersModel.Digits NumbersModel.NumFmt

/-! ### the archive -/

/-- the fields of `TSK.FormatStructArchive` (the `default_format` of a `CustomFormatArchive`) that
    `add_custom_decimal_format_archive` fills; the renderer reads the first seven. -/
structure Archive where
  formatString : Text               -- custom_format_string
  scaleIsOne : Bool                 -- scale_factor == 1.0
  currencyCode : Text               -- currency_code
  showThousands : Bool              -- show_thousands_separator
  numNonspaceInt : Nat              -- num_nonspace_integer_digits
  numNonspaceDec : Nat              -- num_nonspace_decimal_digits
  requiresFraction : Bool           -- requires_fraction_replacement
  containsIntegerToken : Bool
  decimalWidth : Nat
  indexFromRightLastInteger : Nat
  isComplex : Bool
  minIntegerWidth : Nat
  numHashDecimalDigits : Nat
  totalNumDecimalDigits : Nat
  useAccountingStyle : Bool
  deriving DecidableEq, Repr

/-- a float as the code sees it: `Decimal(repr(x))` and the exact binary value `Decimal(x)`. -/
structure FloatVal where
  repr : Dec
  exact : Dec
  deriving DecidableEq, Repr

/-! ### small string helpers -/

/-- `str.rjust(w)` -/
def rjust (w : Nat) (s : Text) : Text := List.replicate (w - s.length) ' ' ++ s
/-- `str.ljust(w)` -/
def ljust (w : Nat) (s : Text) : Text := s ++ List.replicate (w - s.length) ' '
/-- `str.rstrip("0")` -/
def rstripZeros (s : Text) : Text := (s.reverse.dropWhile (· == '0')).reverse
/-- `str.replace(c, by)` for a one-character pattern. -/
def replaceChar (c : Char) (by_ : Text) (s : Text) : Text := s.flatMap (fun x => if x = c then by_ else [x])
/-- `str.replace(",", "")` -/
def removeCommas (s : Text) : Text := s.filter (· != ',')

/-- `str.split(".")` -/
def splitOnDot : Text → List Text
  | [] => [[]]
  | c :: r =>
    match splitOnDot r with
    | [] => [[]]                               -- never: the result is non-empty
    | h :: t => if c = '.' then [] :: h :: t else (c :: h) :: t

/-- `format(n, "0{w},")` for `n ≥ 0` given as its digit string: zeros are added on the left until the
    grouped text is at least `w` wide (Python groups the fill too and never starts with a comma). -/
def zeroPadGrouped : Nat → Nat → Text → Text
  | 0, _, s => group3 s
  | fuel + 1, w, s => if (group3 s).length ≥ w then group3 s else zeroPadGrouped fuel w ('0' :: s)

/-! ### `_expand_quotes` -/

/-- the `while index < len(chars)` loop; the flag `in_string` is carried as in the code (it never
    influences the output). -/
def expandQuotes : Text → Bool → Text
  | [], _ => []
  | ['\''], _ => []                                             -- next_char is None: break
  | '\'' :: '\'' :: r, b => '\'' :: expandQuotes r b            -- '' is a literal quote
  | '\'' :: c :: r, b => expandQuotes (c :: r) (!b)             -- opening / closing quote
  | c :: r, b => c :: expandQuotes r b

/-! ### locating the number spec -/

/-- `re.sub(r"'[^']*'", lambda m: "\0" * len(m.group()), s)`; the flag says that an opening quote whose
    closing quote exists has been passed. -/
def maskQuoted : Text → Bool → Text
  | [], _ => []
  | c :: r, false =>
    if c = '\'' ∧ r.contains '\'' then '\x00' :: maskQuoted r true else c :: maskQuoted r false
  | c :: r, true => '\x00' :: maskQuoted r (c != '\'')

def isSpecChar (c : Char) : Bool := c = '#' || c = '0' || c = '.' || c = ','

/-- length of a match of `E[+]\d+` at the head of the text (0: no match). -/
def sciSuffixLen (zeros : List Nat) : Text → Nat
  | 'E' :: '+' :: r =>
    let ds := (A1.spanDigits zeros r).1
    if ds.isEmpty then 0 else 2 + ds.length
  | _ => 0

structure SpecMatch where
  start : Nat          -- match.start()
  spec : Text          -- match.group(1)  (the scientific suffix included)
  sci : Bool           -- match.group(2) is not None
  deriving DecidableEq, Repr

/-- `re.search(r"([#0.,]+(E[+]\d+)?)", t)`; `i` counts the characters skipped so far. -/
def findSpec (zeros : List Nat) : Text → Nat → Option SpecMatch
  | [], _ => none
  | c :: r, i =>
    if isSpecChar c then
      let run := (c :: r).takeWhile isSpecChar
      let rest := (c :: r).dropWhile isSpecChar
      let k := sciSuffixLen zeros rest
      some ⟨i, run ++ rest.take k, k != 0⟩
    else findSpec zeros r (i + 1)

/-- the `(int_part, dec_part)` split of the spec; `a, b = spec.split(".")` raises ValueError unless there
    is exactly one dot. -/
def splitSpec (spec : Text) : PyM (Text × Text) :=
  match spec with
  | '.' :: r => .ok ([], r)
  | _ =>
    if spec.contains '.' then
      match splitOnDot spec with
      | [a, b] => .ok (a, b)
      | _ => .error .ValueError
    else .ok (spec, [])

/-! ### the number itself -/

inductive Pad where
  | none | space | zero
  deriving DecidableEq, Repr

def decPad (a : Archive) (decPart : Text) : Pad :=
  match decPart with
  | [] => .none
  | c :: _ => if c = '#' then .none else if a.numNonspaceDec > 0 then .zero else .space

/-- `(int_pad, int_width)`; `int_part[0]` on an empty string is an IndexError (unreachable: it is guarded
    by `num_integers > 0`). -/
def intPadWidth (a : Archive) (intPart : Text) (integer : Nat) : PyM (Pad × Nat) :=
  let numIntegers := (removeCommas intPart).length
  let intPart' := if !a.showThousands then removeCommas intPart else intPart
  if numIntegers > 0 then
    match intPart' with
    | [] => .error .IndexError
    | c :: _ =>
      if c = '#' then .ok (.none, intPart'.length)
      else if a.numNonspaceInt > 0 then
        if a.showThousands then
          let numCommas := ((natStr integer).length - 1) / 3
          let numCommas := max numCommas ((numIntegers - 1) / 3)
          .ok (.zero, numIntegers + numCommas)
        else .ok (.zero, numIntegers)
      else .ok (.space, intPart'.length)
  else .ok (.none, numIntegers)

/-- `len(decimal_str or "0")` -/
def lenOrZero (s : Text) : Nat := if s = [] then 1 else s.length

/-- the integer part of the text (the `if integer == 0 and … elif …` chain). -/
def integerText (thousands : Bool) (pad dpad : Pad) (width nd integer : Nat) (decimalStr sign : Text) : Text :=
  if integer = 0 ∧ pad = .space ∧ nd = 0 then rjust width []
  else if integer = 0 ∧ pad = .none ∧ dpad = .space then sign
  else if (integer = 0 ∧ pad = .space ∧ dpad ≠ .none) ∨
      (integer = 0 ∧ pad = .space ∧ dpad = .none ∧ lenOrZero decimalStr + 2 > nd) then
    rjust width sign
  else if pad = .zero then
    if thousands then sign ++ zeroPadGrouped width width (natStr integer) else sign ++ zfill width (natStr integer)
  else if pad = .space then
    if thousands then rjust width (sign ++ group3 (natStr integer)) else rjust width (sign ++ natStr integer)
  else if thousands then sign ++ group3 (natStr integer)
  else sign ++ natStr integer

/-- the decimal part of the text (`if num_decimals: …`). -/
def decimalText (dpad : Pad) (numIntegers nd : Nat) (decimal decimalStr : Text) : Text :=
  if nd = 0 then []
  else if dpad = .zero ∨ (dpad = .space ∧ numIntegers = 0) then '.' :: decimal
  else if dpad = .space ∧ decimalStr = [] ∧ numIntegers > 0 then ljust (nd + 1) ['.']
  else if dpad = .space then '.' :: ljust nd decimalStr
  else if decimalStr ≠ [] ∨ numIntegers = 0 then '.' :: (if decimalStr = [] then ['0'] else decimalStr)
  else []

/-- `|value| · 10^nd` rounded half up (`sigfig(positional, decimals=nd)`), as (integer, the `nd` decimals). -/
def roundedParts (value : Dec) (nd : Nat) : Nat × Text :=
  let m := scaleTo value nd
  (m / 10 ^ nd, if nd = 0 then [] else zfill nd (natStr (m % 10 ^ nd)))

/-- the text that replaces the spec: sign, integer part, decimal part. -/
def numberBody (a : Archive) (intPart decPart : Text) (value : Dec) : PyM Text := do
  let nd := decPart.length
  let dpad := decPad a decPart
  let (integer, decimal) := roundedParts value nd
  let decimalStr := rstripZeros decimal
  let sign : Text := if value.isNeg ∧ (integer ≠ 0 ∨ decimalStr ≠ []) then ['-'] else []
  let numIntegers := (removeCommas intPart).length
  let (pad, width) ← intPadWidth a intPart integer
  pure (integerText a.showThousands pad dpad width nd integer decimalStr sign ++
        decimalText dpad numIntegers nd decimal decimalStr)

/-- the pattern after the currency substitution. -/
def patternOf (a : Archive) : Text :=
  if a.currencyCode ≠ [] then replaceChar '¤' (a.currencyCode ++ ['\u00a0']) a.formatString else a.formatString

/-- which product is formatted: `value * scale_factor`, times 100 for a `%` pattern with scale 1. -/
def chosenValue (a : Archive) (v v100 : FloatVal) : FloatVal :=
  if a.formatString.contains '%' && a.scaleIsOne then v100 else v

/-- `_decode_number_format(number_format, value, name)`; `v` = `value * scale_factor`, `v100` = that times
    `100.0`. -/
def decodeNumberFormat (zeros : List Nat) (a : Archive) (v v100 : FloatVal) : PyM Text :=
  let value := chosenValue a v v100
  let fs := patternOf a
  match findSpec zeros (maskQuoted fs false) 0 with
  | none => .ok fs                                   -- warning "Can't parse format string", pattern returned as is
  | some m => do
    let (intPart, decPart) ← splitSpec m.spec
    let pre := fs.take m.start
    let suf := fs.drop (m.start + m.spec.length)
    if m.sci then
      if decPart.length < 4 then .error .ValueError      -- f"{value:.-1E}": "Format specifier missing precision"
      else .ok (expandQuotes (pre ++ formatScientific value.exact (decPart.length - 4) ++ suf) false)
    else do
      let body ← numberBody a intPart decPart value.repr
      .ok (expandQuotes (pre ++ body ++ suf) false)

/-- `_decode_text_format`: `custom_format_string.replace(CUSTOM_TEXT_PLACEHOLDER, value)`. -/
def decodeTextFormat (placeholder : Char) (formatString value : Text) : Text :=
  replaceChar placeholder value formatString

/-! ### the builder: `add_custom_decimal_format_archive` -/

inductive PaddingType where
  | none | zeros | spaces
  deriving DecidableEq, Repr

/-- `re.sub(r"(...)(...)$", r",\1,\2", s)` for more than six integer tokens, `re.sub(r"(...)$", r",\1", s)` for
    more than three (`s` has `n` characters). -/
def insertCommas (s : Text) (n : Nat) : Text :=
  if n > 6 then s.take (s.length - 6) ++ [','] ++ (s.drop (s.length - 6)).take 3 ++ [','] ++ s.drop (s.length - 3)
  else if n > 3 then s.take (s.length - 3) ++ [','] ++ s.drop (s.length - 3)
  else s

def buildFormatString (ifmt dfmt : PaddingType) (ni nd : Nat) : Text :=
  let s : Text := if ni = 0 then [] else if ifmt = .none then List.replicate ni '#' else List.replicate ni '0'
  let s := insertCommas s ni
  if nd > 0 then s ++ '.' :: List.replicate nd (if dfmt = .none then '#' else '0') else s

def buildArchive (ifmt dfmt : PaddingType) (ni nd : Nat) (thousands : Bool) : Archive :=
  let fs := buildFormatString ifmt dfmt ni nd
  let minIntegerWidth := if ni > 0 ∧ ifmt ≠ .none then ni else 0
  let nonspaceDec := if dfmt = .zeros then nd else 0
  let nonspaceInt := if ifmt = .zeros then ni else 0
  let idx := if ni > 0 then nd + 1 else nd
  let idx := if idx = 1 then 0 else if idx = 0 then 1 else idx
  let decimalWidth := if dfmt = .spaces then nd else 0
  { formatString := fs, scaleIsOne := true, currencyCode := [], showThousands := thousands && decide (ni > 0),
    numNonspaceInt := nonspaceInt, numNonspaceDec := nonspaceDec, requiresFraction := false,
    containsIntegerToken := decide (ni > 0), decimalWidth := decimalWidth, indexFromRightLastInteger := idx,
    isComplex := fs.contains '0' && (decide (minIntegerWidth > 0) || decide (nonspaceDec = 0)),
    minIntegerWidth := minIntegerWidth, numHashDecimalDigits := 0, totalNumDecimalDigits := decimalWidth,
    useAccountingStyle := false }

/-! ### dispatch: `Cell.formatted_value` and `Cell._custom_format` -/

inductive FormatType where
  | decimal | currency | boolean | percent | base | fraction | scientific | checkbox | rating
  | customText | customNumber | customDate | other
  deriving DecidableEq, Repr

/-- `constants.FormatType` values (tied to the generated table by `Props.C13.format_types_as_modelled`). -/
def FormatType.ofCode : Nat → FormatType
  | 1 => .boolean | 256 => .decimal | 257 => .currency | 258 => .percent | 259 => .scientific
  | 262 => .fraction | 263 => .checkbox | 267 => .rating | 269 => .base
  | 270 => .customNumber | 271 => .customText | 272 => .customDate
  | _ => .other

/-- what `table_format(table_id, id)` returned: the format type and, if `HasField("custom_uid")`, what the
    custom format map holds for that uid (`none`: the uid is not in the map — `format_map[uuid]` is a KeyError). -/
structure FormatRef where
  formatType : FormatType
  customUid : Option (Option (FormatType × Bool))     -- (default_format.format_type, requires_fraction_replacement)
  deriving DecidableEq, Repr

/-- the ids a cell carries (`None` ↦ `none`) with the formats they resolve to, and the cell type. -/
structure CellFormats where
  isText : Bool                       -- self._type == CellType.TEXT
  isBool : Bool                       -- self._type == CellType.BOOL
  duration : Bool                     -- _duration_format_id is not None and _double is not None
  date : Bool                         -- _date_format_id is not None and _seconds is not None
  textFmt : Option FormatRef
  currencyFmt : Option FormatRef
  boolFmt : Option FormatRef
  numFmt : Option FormatRef
  deriving DecidableEq, Repr

/-- the function that produces the text. -/
inductive Renderer where
  | durationFormat | dateFormat | strValue
  | formatFraction | decodeTextFormat | decodeNumberFormat
  | formatDecimal | formatCurrency | boolText | formatPercent | formatBase | formatScientific | checkbox | rating
  deriving DecidableEq, Repr

/-- the `if … elif …` chain at the head of `_custom_format`. -/
def selectFormat (c : CellFormats) : Option FormatRef :=
  if c.textFmt.isSome ∧ c.isText then c.textFmt
  else if c.currencyFmt.isSome then c.currencyFmt
  else if c.boolFmt.isSome ∧ c.isBool then c.boolFmt
  else if c.numFmt.isSome then c.numFmt
  else none

/-- `Cell._custom_format`. -/
def customFormatRenderer (c : CellFormats) : PyM Renderer :=
  match selectFormat c with
  | none => .ok .strValue
  | some f =>
    match f.customUid with
    | some none => .error .KeyError
    | some (some (ft, frac)) =>
      if frac then .ok .formatFraction
      else if ft = .customText then .ok .decodeTextFormat
      else .ok .decodeNumberFormat
    | none =>
      match f.formatType with
      | .decimal => .ok .formatDecimal
      | .currency => .ok .formatCurrency
      | .boolean => .ok .boolText
      | .percent => .ok .formatPercent
      | .base => .ok .formatBase
      | .fraction => .ok .formatFraction
      | .scientific => .ok .formatScientific
      | .checkbox => .ok .checkbox
      | .rating => .ok .rating
      | _ => .ok .strValue

/-- `Cell.formatted_value`. -/
def formattedValueRenderer (c : CellFormats) : PyM Renderer :=
  if c.duration then .ok .durationFormat
  else if c.date then .ok .dateFormat
  else if c.textFmt.isSome ∨ c.numFmt.isSome ∨ c.currencyFmt.isSome ∨ c.boolFmt.isSome then customFormatRenderer c
  else .ok .strValue

end NumbersModel.CustomFmt
