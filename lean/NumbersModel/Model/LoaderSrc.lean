/-
What the definitions translated from `iwork.py` / `containers.py` (Gen/TrLoad.lean) call for the pieces of the source that
leave the library or that the model keeps abstract.  Every call that leaves the library (pathlib, zipfile, plistlib,
warnings, is_iwa_file, IWAFile.from_buffer) is a field of the SAME `Loader.Ext` record the hand model quantifies over (an
arbitrary `PyM` value: it may raise anything); the few functions below only adapt the shapes:

  * the handler state (`ObjectStore._objects` / `_file_store`) is `Loader.Store`; `store_object` / `store_file` append
  * an attribute of `self` that `__init__` does not set (`_zipf`, `_is_package`) is an `Option`; reading it while unset is
    AttributeError (`PyT.attrGet`)
  * an opened `ZipFile` is its id; `namelist()` / `filelist` / `getinfo` are in-memory look-ups on `Ext.zipNames`
  * a decoded segment is the pair (header.identifier, len(objects)); `archive.objects[0]` is `pyIndex` on that many objects
  * the package walk is the FLATTENED one of the hand model: `iterdir()` of the package yields the depth-first sequence of
    steps (`Ext.pkgSteps`); a step that raises stands for a failing iterdir / is_dir / open / read; sub-directories do not
    occur as entries (their content is inlined), so the recursive call of `_read_objects_from_package` is translated but
    never reached
-/
import NumbersModel.Model.Loader
import NumbersModel.Py.Trans
namespace NumbersModel.Loader
open NumbersModel

/-- `handler.store_file(filename, blob)` -/
def storeFile (st : Store) (name : Text) : Store := { st with files := st.files ++ [name] }
/-- `handler.store_object(filename, identifier, archive)` -/
def storeObject (st : Store) (ident : Nat) : Store := { st with objs := st.objs ++ [ident] }

/-- `archive.objects[i]` on a segment with `a.2` objects -/
def objectAt (a : Nat × Nat) (i : Int) : PyM Unit := pyIndex (List.replicate a.2 ()) i

/-- `zipf.getinfo(name)`: KeyError when there is no such member -/
def getinfo (x : Ext) (z : Nat) (name : Text) : PyM Unit :=
  if (x.zipNames z).contains name then .ok () else .error .KeyError

/-- `[i.filename for i in self._zipf.filelist]` -/
def filelist (x : Ext) (zipf : Option Nat) : PyM (List Text) := do
  let z ← PyT.attrGet zipf
  pure (x.zipNames z)

/-- `self._zipf.read(name)` -/
def zipfRead (x : Ext) (zipf : Option Nat) (name : Text) : PyM Nat := do
  let z ← PyT.attrGet zipf
  x.zipRead z name

/-- `handler.allowed_version(version)`: `re.sub` on something that is not a `str` raises TypeError -/
def allowedVersion (x : Ext) (v : Option Text) : PyM Bool :=
  match v with
  | none => .error .TypeError
  | some s => .ok (x.versionOk s)

/-- `sub_filepath.is_dir()` on a step of the flattened walk: the step's own failure, otherwise not a directory -/
def stepIsDir (s : PyM PkgEntry) : PyM Bool :=
  match s with
  | .error e => .error e
  | .ok _ => .ok false

/-- `sub_filepath.name.lower() == "index.zip"` -/
def stepIsIndexZip (s : PyM PkgEntry) : Bool :=
  match s with
  | .ok (.indexZip _) => true
  | _ => false

/-- `ZipFile(sub_filepath)` -/
def stepOpen (s : PyM PkgEntry) : PyM Nat :=
  match s with
  | .ok (.indexZip o) => o
  | .ok (.file _ _) => .error (.Other "oracle-miss")
  | .error e => .error e

/-- `sub_filepath.open("rb").read()` -/
def stepRead (s : PyM PkgEntry) : PyM Nat :=
  match s with
  | .ok (.file _ r) => r
  | .ok (.indexZip _) => .error (.Other "oracle-miss")
  | .error e => .error e

/-- `re.sub(r".*\.numbers/*", "", str(sub_filepath))` -/
def stepName (s : PyM PkgEntry) : Text :=
  match s with
  | .ok (.file n _) => n
  | _ => []

/-- the content of a sub-directory: inlined in the flattened walk -/
def stepSubdir (_ : PyM PkgEntry) : List (PyM PkgEntry) := []

/-- `max(self._objects.keys())` -/
def maxKey (st : Store) : Int := ((st.objs.foldl max 0 : Nat) : Int)

end NumbersModel.Loader
