/-
Model of the per-row storage layout in src/numbers_parser/model.py:
`recalculate_row_info` (writer: concatenated cell records + one int16 offset per column,
`-1` for "no record", offsets stored divided by 4 — "wide offsets"), `get_storage_buffers_for_row`
(reader), and the 256-row tile split of `recalculate_table_data`.

Cell records are opaque here (`Option Bytes`: the result of `Cell._to_buffer`, `None` for
merged placeholders / unsupported cells); protobuf containers are plain lists.
-/
import NumbersModel.Py.Basic
import NumbersModel.Py.Struct
import NumbersModel.Gen.Constants
namespace NumbersModel.RowStorage
open NumbersModel

/-- the `for col in range(len(data[row]))` loop: `offsets[col] = current_offset >> 2`
    (IndexError if the row is longer than `data[0]`), `cell_storage += buffer`. -/
def rowLoop : List (Option Bytes) → Nat → List Int → Nat → Bytes → Nat → PyM (List Int × Bytes × Nat)
  | [], _, offs, _, st, n => .ok (offs, st, n)
  | none :: r, col, offs, cur, st, n => rowLoop r (col + 1) offs cur st n
  | some b :: r, col, offs, cur, st, n =>
    if col < offs.length then
      rowLoop r (col + 1) (offs.set col ((cur >>> 2 : Nat) : Int)) (cur + b.length) (st ++ b) (n + 1)
    else .error .IndexError

/-- `pack(f"<{len(offsets)}h", *offsets)`. -/
def packOffsets : List Int → PyM Bytes
  | [] => .ok []
  | o :: r => do
    let b ← packI16 o
    let rest ← packOffsets r
    pure (b ++ rest)

/-- `recalculate_row_info`: (`cell_offsets`, `cell_storage_buffer`, `cell_count`) for one row;
    `width0 = len(data[0])`. -/
def rowInfo (width0 : Nat) (cells : List (Option Bytes)) : PyM (Bytes × Bytes × Nat) := do
  let (offs, st, n) ← rowLoop cells 0 (List.replicate width0 (-1)) 0 [] 0
  let ob ← packOffsets offs
  pure (ob, st, n)

/-- `array("h", offsets).tolist()`: ValueError unless the byte length is even. -/
def unpackOffsets : Bytes → PyM (List Int)
  | [] => .ok []
  | [_] => .error .ValueError
  | a :: b :: r => do
    let rest ← unpackOffsets r
    pure (i16OfBytes [a, b] :: rest)

/-- "Find next positive offset": first `x >= 0` in `offsets[col+1:]`. -/
def nextEnd : List Int → Option Int
  | [] => none
  | x :: r => if x ≥ 0 then some x else nextEnd r

/-- end of the record starting at column `col`: `len(storage_buffer)` for the last offset,
    otherwise the next non-negative offset, if any. -/
def stopOf (storageLen : Nat) (rest : List Int) : Int :=
  if rest.isEmpty then (storageLen : Int)              -- col == len(offsets) - 1
  else match nextEnd rest with
    | some x => x
    | none => (storageLen : Int)

/-- the `for col in range(num_cols)` loop of `get_storage_buffers_for_row` over
    `offsets[col:]`; the first argument counts the remaining columns. -/
def bufLoop (storage : Bytes) : Nat → List Int → List (Option Bytes)
  | 0, _ => []
  | _, [] => []                                   -- `if col >= len(offsets): break`
  | n + 1, start :: rest =>
    if start < 0 then none :: bufLoop storage n rest
    else
      some (pySlice storage (some start) (some (stopOf storage.length rest))) :: bufLoop storage n rest

/-- `get_storage_buffers_for_row(storage_buffer, offsets, num_cols, has_wide_offsets)`. -/
def rowBuffers (storage offsets : Bytes) (numCols : Nat) (wide : Bool) : PyM (List (Option Bytes)) := do
  let offs ← unpackOffsets offsets
  let offs := if wide then offs.map (· * 4) else offs
  pure (bufLoop storage numCols offs)

/-! ### tiles -/

/-- the `while tile_idx <= max_tile_idx` loop of `recalculate_table_data` (as repaired:
    `max_tile_idx = (len(data) - 1) >> 8`, which is -1 for an empty list): for every tile
    index `0 .. (len(data) - 1) >> 8` the rows `data[row_start:row_end]`. -/
def tileLoop {α} (data : List α) : Nat → Nat → List (Nat × List α)
  | 0, _ => []
  | fuel + 1, tileIdx =>
    if data.length ≠ 0 ∧ tileIdx ≤ (data.length - 1) >>> 8 then
      let rowStart := tileIdx * Gen.MAX_TILE_SIZE
      let numRows := if data.length - rowStart > Gen.MAX_TILE_SIZE then Gen.MAX_TILE_SIZE
                     else data.length - rowStart
      (tileIdx, (data.drop rowStart).take numRows) :: tileLoop data fuel (tileIdx + 1)
    else []

def tiles {α} (data : List α) : List (Nat × List α) := tileLoop data (data.length + 2) 0

end NumbersModel.RowStorage
