/-
C13 — number display.  Model of `cell.py`: `_format_decimal`, `_format_currency`, `_format_scientific`,
`_format_base` / `_twos_complement`, `_format_fraction` / `_float_to_fraction` /
`_float_to_n_digit_fraction` / `_format_fraction_parts_to`, the star rating — *after* the repairs
in fixes/C13-*.patch.

No float is modelled.  A value crosses the boundary as an exact decimal `Dec` (sign, mantissa,
exponent) that the harness computes with `Decimal(repr(x))` (decimal / currency / percent / base /
rating), `Decimal(x)` (scientific: `%E` formatting works on the exact binary value) or
`x.as_integer_ratio()` (fractions).  Third-party pieces are replaced by what they are assumed to do
for the call shapes used, and that is exercised by the correspondence on every run:

  * `sigfig.round(v, 15, …)`, `sigfig.round(str, decimals=p, type=str)`: round half-up on the
    decimal digits, positional output with exactly `p` decimals, no sign on a zero result;
  * `sigfig.round(int_str, spacer=",", spacing=3)`: groups of three from the right;
  * `format(float, ".pE")`, `round(float)`: correctly rounded, ties to even, on the exact value;
  * `Fraction.limit_denominator` (CPython 3.12 `fractions.py`) is modelled as written.
Core Lean only.
-/
import NumbersModel.Model.TextUtil
namespace NumbersModel.NumFmt
open NumbersModel NumbersModel.Digits

/-- exact decimal: `(-1)^neg · mant · 10^exp`. -/
structure Dec where
  neg : Bool
  mant : Nat
  exp : Int
  deriving DecidableEq, Repr

def numDigits (n : Nat) : Nat := (natStr n).length

/-- `value < 0`. -/
def Dec.isNeg (d : Dec) : Bool := d.neg && d.mant != 0

/-- `value.is_integer()`. -/
def Dec.isInteger (d : Dec) : Bool :=
  if d.exp ≥ 0 then true else d.mant % 10 ^ (-d.exp).toNat == 0

/-- `abs(int(value))` (truncation toward zero). -/
def Dec.truncNat (d : Dec) : Nat :=
  if d.exp ≥ 0 then d.mant * 10 ^ d.exp.toNat else d.mant / 10 ^ (-d.exp).toNat

/-- drop the `k` lowest decimal digits of `m`, rounding half up. -/
def dropHalfUp (m k : Nat) : Nat := if k = 0 then m else (m + 5 * 10 ^ (k - 1)) / 10 ^ k

/-- drop the `k` lowest decimal digits of `m`, rounding half to even. -/
def dropHalfEven (m k : Nat) : Nat :=
  if k = 0 then m else
    let q := m / 10 ^ k
    let r := m % 10 ^ k
    let half := 5 * 10 ^ (k - 1)
    if r > half ∨ (r = half ∧ q % 2 = 1) then q + 1 else q

/-- `sigfig.round(v, n)`: at most `n` significant digits, half up on the decimal digits. -/
def roundSig (d : Dec) (n : Nat) : Dec :=
  let nd := numDigits d.mant
  if d.mant = 0 ∨ nd ≤ n then d else ⟨d.neg, dropHalfUp d.mant (nd - n), d.exp + ((nd - n : Nat) : Int)⟩

/-- `|value|·10^p` rounded half up to an integer (`sigfig.round(str, decimals=p)`). -/
def scaleTo (d : Dec) (p : Nat) : Nat :=
  let e := d.exp + (p : Int)
  if e ≥ 0 then d.mant * 10 ^ e.toNat else dropHalfUp d.mant (-e).toNat

/-- the integer `m` read with `p` decimals: integer-part digits and exactly `p` fraction digits. -/
def splitFixed (m p : Nat) : Text × Text :=
  let s := zfill (p + 1) (natStr m)
  (s.take (s.length - p), s.drop (s.length - p))

/-- strip trailing zeros of the mantissa while the exponent is negative (`rstrip("0")`). -/
def stripZeros : Nat → Nat → Int → Nat × Int
  | 0, m, e => (m, e)
  | fuel + 1, m, e => if e < 0 ∧ m % 10 = 0 ∧ m ≠ 0 then stripZeros fuel (m / 10) (e + 1) else (m, e)

/-- `sigfig.round(v, 15, type=str)` followed by `rstrip("0").rstrip(".")`: positional digits of the
    value rounded to 15 significant digits, without trailing fraction zeros. -/
def autoDigits (d : Dec) : Text × Text :=
  let r := roundSig d 15
  let (m, e) := stripZeros (numDigits r.mant) r.mant r.exp
  if e ≥ 0 then (natStr (m * 10 ^ e.toNat), []) else splitFixed m (-e).toNat

/-- `sigfig.round(int_digits, spacer=",", spacing=3, type=str)` / `f"{n:,}"`. -/
def group3 (s : Text) : Text :=
  let rec go : List Char → Nat → List Char
    | [], _ => []
    | c :: rest, n => if n % 3 = 0 ∧ n ≠ 0 ∧ rest ≠ [] then c :: ',' :: go rest (n - 1) else c :: go rest (n - 1)
  go s (s.length - 1)

structure DecFmt where
  places : Nat
  thousands : Bool
  negStyle : Nat
  deriving DecidableEq, Repr

def AUTO : Nat := 253

/-- the digits `_format_decimal` shows for `|value|`: (integer part, fraction part, is zero). -/
def decimalDigits (d : Dec) (f : DecFmt) : Text × Text × Bool :=
  if d.isInteger ∧ f.places ≥ AUTO then (natStr d.truncNat, [], d.truncNat == 0)
  else if f.places ≥ AUTO then
    let r := autoDigits d
    (r.1, r.2, false)
  else
    let m := scaleTo (roundSig d 15) f.places
    let r := splitFixed m f.places
    (r.1, r.2, m == 0)

/-- integer part (grouped if asked) + `.` + fraction part. -/
def joinDigits (ip fp : Text) (thousands : Bool) : Text :=
  (if thousands then group3 ip else ip) ++ (if fp.isEmpty then [] else '.' :: fp)

/-- `_format_decimal(value, number_format, percent)`. -/
def formatDecimal (d : Dec) (f : DecFmt) (percent : Bool) : Text :=
  let neg := d.isNeg
  let accounting := neg && f.negStyle ≥ 2
  let minus := neg && f.negStyle = 0
  let (ip, fp, zero) := decimalDigits d f
  let body := (if minus && !zero then ['-'] else []) ++ joinDigits ip fp f.thousands
  let body := if percent then body ++ ['%'] else body
  if accounting then '(' :: body ++ [')'] else body

/-- `str.removeprefix("-")`. -/
def removeMinus : Text → Text
  | '-' :: t => t
  | t => t

/-- `CURRENCY_SYMBOLS[code]` if present, else `code + " "`. -/
def currencySymbol (symbols : List (String × String)) (code : Text) : Text :=
  match symbols.find? (fun e => e.1.toList == code) with
  | some e => e.2.toList
  | none => code ++ [' ']

/-- `_format_currency`: `symbols` is `CURRENCY_SYMBOLS`. -/
def formatCurrency (symbols : List (String × String)) (d : Dec) (f : DecFmt) (accounting : Bool) (code : Text) :
    Text :=
  let formatted := formatDecimal d f false
  let symbol := currencySymbol symbols code
  if accounting && d.isNeg then symbol ++ ['\t', '('] ++ removeMinus formatted ++ [')']
  else if accounting then symbol ++ ['\t'] ++ formatted
  else symbol ++ formatted

/-! ### scientific -/

/-- `f"{v:.{p}E}"` for the exact value `d`. -/
def formatScientific (d : Dec) (p : Nat) : Text :=
  let nd := numDigits d.mant
  let (digits, e10) : Nat × Int :=
    if d.mant = 0 then (0, 0)
    else if nd ≤ p + 1 then (d.mant * 10 ^ (p + 1 - nd), d.exp + (nd : Int) - 1)
    else
      let q := dropHalfEven d.mant (nd - (p + 1))
      if q = 10 ^ (p + 1) then (q / 10, d.exp + (nd : Int)) else (q, d.exp + (nd : Int) - 1)
  let s := zfill (p + 1) (natStr digits)
  (if d.neg then ['-'] else []) ++ s.take 1 ++ (if p = 0 then [] else '.' :: s.drop 1) ++ ['E'] ++
    (if e10 < 0 then ['-'] else ['+']) ++ zfill 2 (natStr e10.natAbs)

/-! ### number base -/

def baseChar (x : Nat) : Char := if x < 10 then Char.ofNat (48 + x) else Char.ofNat (55 + x)

/-- digits of `n` in base `b`, most significant first; empty for 0 (the `while value:` loop). -/
def toBaseAux (b : Nat) : Nat → Nat → List Char → List Char
  | 0, _, acc => acc
  | fuel + 1, n, acc => if n = 0 then acc else toBaseAux b fuel (n / b) (baseChar (n % b) :: acc)

def toBase (b n : Nat) : Text := toBaseAux b (n + 1) n []

/-- `round(value)`: nearest integer, ties to even (magnitude). -/
def Dec.roundEvenNat (d : Dec) : Nat :=
  if d.exp ≥ 0 then d.mant * 10 ^ d.exp.toNat else dropHalfEven d.mant (-d.exp).toNat

/-- smallest `k` with `2^k ≥ n` (`math.ceil(math.log2(n))`, n ≥ 1). -/
def clog2Aux : Nat → Nat → Nat → Nat
  | 0, _, k => k
  | fuel + 1, n, k => if 2 ^ k ≥ n then k else clog2Aux fuel n (k + 1)

def clog2 (n : Nat) : Nat := clog2Aux (n + 1) n 0

/-- `_twos_complement(value, base)` for `value = -a`, `a > 0`: the `num_bits`-bit pattern of `-a`. -/
def twosComplement (a base : Nat) : Text :=
  let numBits := max 32 (clog2 a + 1)
  let t := 2 ^ numBits - a                       -- int(inverted.rjust(num_bits, "1"), 2) + 1
  if base = 2 then
    let s := toBase 2 t
    List.replicate (numBits - s.length) '1' ++ s -- .rjust(num_bits, "1")
  else toBase base t

structure BaseFmt where
  base : Nat
  places : Nat
  useMinus : Bool
  deriving DecidableEq, Repr

/-- `_format_base(value, number_format)`. -/
def formatBase (d : Dec) (f : BaseFmt) : Text :=
  let a := d.roundEvenNat
  if a = 0 then zfill f.places ['0']
  else if !f.useMinus && (f.base = 2 || f.base = 8 || f.base = 16) then
    if d.neg then twosComplement a f.base else zfill f.places (toBase f.base a)
  else if d.neg then '-' :: zfill f.places (toBase f.base a)
  else zfill f.places (toBase f.base a)

/-! ### fractions -/

def intText (i : Int) : Text := intStr i

/-- `_format_fraction_parts_to(whole, numerator, denominator)` (repaired: sign kept, `n/n` carried). -/
def fractionParts (whole numerator : Int) (denominator : Nat) : Text :=
  let sign : Text := if whole < 0 ∨ numerator < 0 then ['-'] else []
  let w := whole.natAbs
  let n := numerator.natAbs
  let (w, n) := if n = denominator then (w + 1, 0) else (w, n)
  if w > 0 then
    if n = 0 then sign ++ natStr w
    else sign ++ natStr w ++ [' '] ++ natStr n ++ ['/'] ++ natStr denominator
  else if n = 0 then ['0']
  else sign ++ natStr n ++ ['/'] ++ natStr denominator

/-- `int(value)` as a signed integer. -/
def Dec.truncInt (d : Dec) : Int := if d.neg then -(d.truncNat : Int) else d.truncNat

/-- nearest integer to `p/q` (q > 0), ties to even — Python `round()` of the exact value. -/
def roundRatEven (neg : Bool) (p q : Nat) : Int :=
  let k := p / q
  let r := p % q
  let up := 2 * r > q ∨ (2 * r = q ∧ k % 2 = 1)
  let a : Nat := if up then k + 1 else k
  if neg then -(a : Int) else a

/-- `_float_to_fraction(value, denominator)`; `t = denominator * (value - whole)` is supplied as the
    exact ratio of the float product. -/
def fractionFixed (den : Nat) (d : Dec) (tneg : Bool) (tp tq : Nat) : Text :=
  fractionParts d.truncInt (roundRatEven tneg tp tq) den

/-- the `while True` loop of `Fraction.limit_denominator`; state `(p0, q0, p1, q1, n, d)`.
    `n // d` with `d = 0` is Python's ZeroDivisionError (unreachable for a fraction in lowest terms
    whose denominator exceeds the limit; not proved here — see `fraction_ndigit_partial`). -/
def limitLoop (maxDen : Int) : Nat → Int → Int → Int → Int → Int → Int → PyM (Int × Int × Int × Int × Int × Int)
  | 0, _, _, _, _, _, _ => .error .OutOfFuel
  | fuel + 1, p0, q0, p1, q1, n, d =>
    if d = 0 then .error (.Other "ZeroDivisionError") else
    let a := n / d                         -- floor division
    let q2 := q0 + a * q1
    if q2 > maxDen then .ok (p0, q0, p1, q1, n, d)
    else limitLoop maxDen fuel p1 q1 (p0 + a * p1) q2 d (n - a * d)

/-- `Fraction(num, den).limit_denominator(maxDen)` (CPython 3.12), `den > 0`, lowest terms. -/
def limitDenominator (maxDen : Int) (num den : Int) : PyM (Int × Int) :=
  if den ≤ maxDen then .ok (num, den)
  else do
    let (p0, q0, p1, q1, _, d) ← limitLoop maxDen (den.toNat + 2) 0 1 1 0 num den
    let k := (maxDen - q0) / q1
    if 2 * d * (q0 + k * q1) ≤ den then .ok (p1, q1) else .ok (p0 + k * p1, q0 + k * q1)

/-- `_float_to_n_digit_fraction(value, max_digits)` for `value = num/den` exactly. -/
def fractionDigits (maxDigits : Nat) (num : Int) (den : Nat) : PyM Text := do
  let (n, dd) ← limitDenominator ((10 : Int) ^ maxDigits - 1) num den
  let whole : Int := if num < 0 then -((num.natAbs / den : Nat) : Int) else ((num.natAbs / den : Nat) : Int)
  pure (fractionParts whole (n - whole * dd) dd.toNat)

/-! ### rating -/

/-- `STAR_RATING_VALUE * int(value)`. -/
def formatRating (d : Dec) : Text :=
  if d.isNeg then [] else List.replicate d.truncNat '★'

end NumbersModel.NumFmt
