/-
Model of table geometry and labels across save / reopen (C16): `row_height`, `col_width`
(user-set sizes, the memo, bucket lookup, default, border allowance, rounding as coded),
`recalculate_row_headers` / `recalculate_column_headers` **as repaired**, the memo invalidation of
`set_cell_border`, `table_height` / `table_width`, and the label accessors (`table_name`,
`sheet_name`, `table_name_enabled`, `caption_enabled`, `caption_text`, header counts, coordinates).

Repairs mirrored here:
* fixes/C16-save-stored-sizes.patch — on save every row/column size is read (queried or not) and
  the row's *own* size `reported − ⌊allowance⌋` is written, where the pinned code wrote the
  reported size (which already includes the allowance) for columns and memoised rows and `0`
  for rows that had not been queried;
* fixes/C16-user-sizes-survive-borders.patch — sizes set through the API live in their own dict,
  which `set_cell_border` does not touch (the pinned code kept them in the memo it pops).
`…Pinned` definitions keep the pinned behaviour for the counter-examples.

Numbers: a size or allowance is an integer count of `1/D` points for a common denominator
`D > 0` chosen by the harness (stored sizes are binary32 values, allowances are half border
widths), so `round` (half to even, as Python's) and `floor` are exact integer arithmetic.
One `Axis` is the rows or the columns of one table — the code is the same shape for both.
-/
import NumbersModel.Py.Basic
namespace NumbersModel.Sizes
open NumbersModel

/-- Python `round(x)` for `x = n / D`: nearest integer, ties to even. -/
def roundHE (n : Int) (D : Nat) : Int :=
  let q := n / (D : Int)
  let r := n % (D : Int)
  if 2 * r < D then q else if 2 * r > D then q + 1 else if q % 2 = 0 then q else q + 1

/-- `math.floor(n / D)`. -/
def floorD (n : Int) (D : Nat) : Int := n / (D : Int)

/-- `{x.index: x for x in buckets}[i]` — the last header with the index wins. -/
def lookupLast : List (Nat × Int) → Nat → Option Int
  | [], _ => none
  | (j, s) :: rest, i =>
    match lookupLast rest i with
    | some s' => some s'
    | none => if j = i then some s else none

/-- a Python dict as an association list, most recent binding first. -/
def dictGet : List (Nat × Int) → Nat → Option Int
  | [], _ => none
  | (j, v) :: rest, i => if j = i then some v else dictGet rest i

def dictPop (d : List (Nat × Int)) (i : Nat) : List (Nat × Int) := d.filter (fun p => p.1 ≠ i)

structure Axis where
  n : Nat                          -- number of rows (columns) of the table
  headers : List (Nat × Int)       -- stored header buckets: (index, size · D)
  dflt : Int                       -- default_row_height (default_column_width) · D
  user : List (Nat × Int)          -- sizes set through the API (points)
  memo : List (Nat × Int)          -- memoised reported sizes (points)
  deriving Repr

/-- `round(bucket.size)` if there is a bucket with a non-zero size, else `round(default)`. -/
def base (D : Nat) (ax : Axis) (i : Nat) : Int :=
  match lookupLast ax.headers i with
  | some s => if s ≠ 0 then roundHE s D else roundHE ax.dflt D
  | none => roundHE ax.dflt D

/-- the computed branch of `row_height`: `floor(base + allowance)`; `allow i` is
    `max_top/2 + max_bottom/2` of the row in `1/D` points. -/
def compute (D : Nat) (ax : Axis) (allow : Nat → Int) (i : Nat) : Int :=
  floorD (base D ax i * D + allow i) D

/-- `row_height(row)` / `col_width(col)` without a new value: the reported size and the state
    (the computed branch memoises). -/
def read (D : Nat) (ax : Axis) (allow : Nat → Int) (i : Nat) : Int × Axis :=
  match dictGet ax.user i with
  | some h => (h, ax)
  | none =>
    match dictGet ax.memo i with
    | some h => (h, ax)
    | none => let h := compute D ax allow i; (h, { ax with memo := (i, h) :: ax.memo })

def readVal (D : Nat) (ax : Axis) (allow : Nat → Int) (i : Nat) : Int := (read D ax allow i).1

/-- `row_height(row, height)`. -/
def setSize (ax : Axis) (i : Nat) (h : Int) : Axis := { ax with user := (i, h) :: ax.user }

/-- the memo invalidation in `set_cell_border` (the row and its neighbour). -/
def borderChanged (ax : Axis) (i j : Nat) : Axis := { ax with memo := dictPop (dictPop ax.memo i) j }

/-- `recalculate_row_headers` as repaired: read every size first (memoising), then rewrite the
    headers with `reported − floor(allowance)`. -/
def saveGo (D : Nat) (allow : Nat → Int) : List Nat → Axis → List (Nat × Int) → Axis × List (Nat × Int)
  | [], ax, acc => (ax, acc.reverse)
  | i :: rest, ax, acc =>
    let r := read D ax allow i
    saveGo D allow rest r.2 ((i, (r.1 - floorD (allow i) D) * D) :: acc)

def save (D : Nat) (ax : Axis) (allow : Nat → Int) : Axis :=
  let r := saveGo D allow (List.range ax.n) ax []
  { r.1 with headers := r.2 }

/-- opening the saved file: the stored headers, nothing set, nothing memoised. -/
def reload (ax : Axis) : Axis := { ax with user := [], memo := [] }

def cycle (D : Nat) (ax : Axis) (allow : Nat → Int) : Axis := reload (save D ax allow)

def cycles (D : Nat) (allow : Nat → Int) : Nat → Axis → Axis
  | 0, ax => ax
  | k + 1, ax => cycles D allow k (cycle D ax allow)

/-- `table_height` / `table_width`: the sum of the reported sizes (`floor` / `round` of a sum of ints). -/
def total (D : Nat) (ax : Axis) (allow : Nat → Int) : Int :=
  ((List.range ax.n).map (readVal D ax allow)).foldl (· + ·) 0

/-! ### the pinned commit -/

/-- pinned setter: the size goes into the memo. -/
def setSizePinned (ax : Axis) (i : Nat) (h : Int) : Axis := { ax with memo := (i, h) :: ax.memo }

/-- pinned `recalculate_row_headers`: the memoised value (allowance included) or 0. -/
def saveRowsPinned (D : Nat) (ax : Axis) : Axis :=
  { ax with headers := (List.range ax.n).map (fun i =>
      (i, match dictGet ax.memo i with | some h => h * D | none => 0)) }

/-- pinned `recalculate_column_headers`: every width is read, and written with its allowance. -/
def saveColsPinned (D : Nat) (ax : Axis) (allow : Nat → Int) : Axis :=
  { ax with headers := (List.range ax.n).map (fun i => (i, readVal D ax allow i * D)) }

/-! ### labels -/

structure Labels where
  tableName : Text
  sheetName : Text
  nameEnabled : Bool
  captionHidden : Bool
  captionStore : Option (List Text)   -- none: StandinCaptionArchive; some ts: the caption storage's `text`
  hdrRows : Nat
  hdrCols : Nat
  x : Int
  y : Int
  deriving DecidableEq, Repr

def captionDefault : Text := "Caption".toList

/-- `caption_text(table)`. -/
def Labels.caption (l : Labels) : Text :=
  match l.captionStore with
  | none => captionDefault
  | some [] => captionDefault
  | some (t :: _) => t

/-- `caption_enabled(table)`. -/
def Labels.captionEnabled (l : Labels) : Bool :=
  match l.captionStore with
  | none => false
  | some _ => !l.captionHidden

inductive LabelOp
  | setTableName (s : Text) | setSheetName (s : Text) | setNameEnabled (b : Bool)
  | setCaptionEnabled (b : Bool) | setCaption (s : Text) | setHdrRows (n : Nat) | setHdrCols (n : Nat)
  deriving DecidableEq, Repr

def Labels.apply (l : Labels) : LabelOp → Labels
  | .setTableName s => { l with tableName := s }
  | .setSheetName s => { l with sheetName := s }
  | .setNameEnabled b => { l with nameEnabled := b }
  | .setCaptionEnabled b => { l with captionHidden := !b }
  | .setCaption s => { l with captionStore := some [s] }   -- creates the caption archive if it is a stand-in
  | .setHdrRows n => { l with hdrRows := n }
  | .setHdrCols n => { l with hdrCols := n }

/-- what the API shows. -/
structure Obs where
  tableName : Text
  sheetName : Text
  nameEnabled : Bool
  captionEnabled : Bool
  caption : Text
  hdrRows : Nat
  hdrCols : Nat
  x : Int
  y : Int
  deriving DecidableEq, Repr

def Labels.observe (l : Labels) : Obs :=
  ⟨l.tableName, l.sheetName, l.nameEnabled, l.captionEnabled, l.caption, l.hdrRows, l.hdrCols, l.x, l.y⟩

/-- the archive fields the labels live in (written on save, read on open). -/
structure LabelArchive where
  table_name : Text
  sheet_name : Text
  table_name_enabled : Bool
  caption_hidden : Bool
  caption_text : Option (List Text)
  number_of_header_rows : Nat
  number_of_header_columns : Nat
  position_x : Int
  position_y : Int

def Labels.toArchive (l : Labels) : LabelArchive :=
  ⟨l.tableName, l.sheetName, l.nameEnabled, l.captionHidden, l.captionStore, l.hdrRows, l.hdrCols, l.x, l.y⟩

def Labels.ofArchive (a : LabelArchive) : Labels :=
  ⟨a.table_name, a.sheet_name, a.table_name_enabled, a.caption_hidden, a.caption_text, a.number_of_header_rows,
   a.number_of_header_columns, a.position_x, a.position_y⟩

end NumbersModel.Sizes
