/-
What the definitions translated from `iwafile.py` (Gen/TrIwa.lean) call for the third-party pieces of the source.
-/
import NumbersModel.Model.Iwa
import NumbersModel.Py.Trans
namespace NumbersModel.Iwa
open NumbersModel

/-- `_DecodeVarint32(buf, pos)` (google.protobuf.internal.decoder, pure Python): the hand model `varintDec32` (compared with the
    real function on every run of the C05 check), with the `int`s the translated source computes with -/
def varintDec32Int (buf : Bytes) (pos : Int) : PyM (Int × Int) :=
  match varintDec32 buf pos.toNat with
  | .ok (v, p) => .ok ((v : Int), (p : Int))
  | .error e => .error e

end NumbersModel.Iwa
