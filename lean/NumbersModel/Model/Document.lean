/-
C02 — the whole document through `Document.save` / `Document(path)`, COMPOSED from the component models (core Lean only):

  * the document tree  = Model/DocTree.lean   (`Doc`, `serialise`, `load`, `sheetIds`, `sheetName`, `tableIds`, `tableName`)
  * per table, the cell grid + string table = Model/TablePipeline.lean (`saveTable` = `recalculate_table_data`,
    `loadTable` = `Table.__init__`, `recell` = the in-memory cell the next save sees)
  * per table, the merge state = Model/Merge.lean (`MMap`, `anchorsOf` + `packRanges` = `recalculate_merged_cells`,
    `loadRanges` = `calculate_merge_cell_ranges`)
  * per table, the formula list (key → stored AST nodes) read through Model/Formula.lean `formulaText`
  * per table, the format list (key → `TSK.FormatStructArchive`) read through Model/FormatDispatch.lean `formattedValue`
  * per table, the rich-text list (key → payload) as an OPAQUE token (bullets / hyperlinks / the text of a rich cell have no
    reload theorem of their own: `rich_text_opaque` in PARTIAL of harness/checks/c02.py)

`Document.save` (src/numbers_parser/document.py) as written: `for sheet in self.sheets: for table in sheet.tables:` a pivot
table is left alone (warning "Not modifying pivot table"), every other table goes through `recalculate_table_data`
(→ `recalculate_merged_cells`, tiles, string list); then `_NumbersModel.save` writes the object store
(`DocTree.serialise`).  The formula list, the format list and the rich-text list are NOT rewritten by a save of an unmodified
document: the archives stay in the store and travel with the package, so `saveTableSt` hands them on unchanged.

`Document(path)` as written: the store is rebuilt in file order (`DocTree.load`), then `for sheet_id in sheet_ids(): for
table_id in table_ids(sheet_id): Table(model, table_id)` — `Table.__init__` reads the merge map
(`calculate_merge_cell_ranges`) and rebuilds every cell (`TablePipeline.loadTable` with `is_merge_reference` read from that
map).

`dump` is what harness/checks/c02.py `dump()` reads: sheet names in order; per sheet the table names in order; per table
rows × columns, the merge ranges, and per cell: class, value (payload bytes / text / rich token), formula text
(`Formula.formulaText` on the stored nodes with the host's reference texts), formatted value
(`FormatDispatch.formattedValue` on the cell the stored record + the format list give), bullets / hyperlinks token, merge
flag / placeholder range.

Harness-supplied (third-party) interpretations, parameters of `dump` (`Env`): what the payload bytes denote as Python values
(`interp`: decimal128 / IEEE double decoding, `repr`, `datetime`; Model/FormatDispatch `Cell` without its format slots) and
the A1 text of a reference node at a host cell (`refText`: `node_to_ref`, property C09).
-/
import NumbersModel.Model.DocTree
import NumbersModel.Model.TablePipeline
import NumbersModel.Model.Merge
import NumbersModel.Model.Formula
import NumbersModel.Model.FormatDispatch
namespace NumbersModel.Document
open NumbersModel NumbersModel.Layout NumbersModel.CellRecord NumbersModel.TablePipeline

/-! ### per-table state -/

/-- what a saved table consists of: the TST objects of the cell data, the packed merge ranges of the
    `MergeRegionMapArchive`, and the three lists a save does not rewrite. -/
structure SavedTableSt where
  table : SavedTable
  ranges : List (Nat × Nat)
  formulas : List (Int × List Formula.Node)
  formats : List (Int × FormatDispatch.Fmt)
  rich : List (Int × Nat)
  deriving Repr

/-- a table of an open document: `Table._data`, the `MergeCells` map, and the lists the accessors consult.
    `pivot = some s`: a pivot table — `Document.save` does not touch it, its stored objects `s` stay as they are. -/
structure TableSt where
  grid : List (List TCell)
  mmap : Merge.MMap
  formulas : List (Int × List Formula.Node)
  formats : List (Int × FormatDispatch.Fmt)
  rich : List (Int × Nat)
  pivot : Option SavedTableSt := none
  deriving Repr

/-- `merge_cells.is_merge_reference((row, col))` -/
def isRef (m : Merge.MMap) (r c : Nat) : Bool :=
  match m.get ((r : Int), (c : Int)) with
  | some (.ref ..) => true
  | _ => false

/-- the body of the `for table in sheet.tables` loop of `Document.save` -/
def saveTableSt (t : TableSt) : PyM SavedTableSt :=
  match t.pivot with
  | some s => .ok s                                            -- "Not modifying pivot table"
  | none => do
    let s ← saveTable t.grid                                   -- recalculate_table_data
    let rs ← Merge.packRanges (Merge.anchorsOf t.mmap)          -- recalculate_merged_cells
    pure { table := s, ranges := rs, formulas := t.formulas, formats := t.formats, rich := t.rich }

/-- `Table(model, table_id)` on the stored objects of a table that is not a pivot table -/
def loadLive (s : SavedTableSt) : PyM TableSt := do
  let m := Merge.loadRanges s.ranges                           -- calculate_merge_cell_ranges
  let g ← loadTable (isRef m) s.table                          -- Table.__init__
  pure { grid := g.map (·.map recell), mmap := m, formulas := s.formulas, formats := s.formats, rich := s.rich }

/-- `Table(model, table_id)`; `pivot` = `is_a_pivot_table(table_id)` (a flag of the `TableInfoArchive`, which a save does
    not change) -/
def loadTableSt (pivot : Bool) (s : SavedTableSt) : PyM TableSt := do
  let t ← loadLive s
  pure (if pivot then { t with pivot := some s } else t)

/-! ### the document -/

structure Doc where
  tree : DocTree.Doc
  tables : List (Nat × TableSt)
  deriving Repr

structure SavedDoc where
  members : List DocTree.Member
  tables : List (Nat × Bool × SavedTableSt)         -- table id ↦ (`is_a_pivot_table`, stored objects)
  deriving Repr

/-- `[t for sheet_id in sheet_ids() for t in table_ids(sheet_id)]` -/
def allTableIds (os : DocTree.Objects) : PyM (List Nat) := do
  let sids ← DocTree.sheetIds os
  let tss ← DocTree.mapM' (fun sid => DocTree.tableIds os (some sid)) sids
  pure tss.flatten

/-- `Document.save`: every table reached through the sheets, in `table_ids` order, then the store -/
def saveDoc (d : Doc) : PyM SavedDoc := do
  let tids ← allTableIds d.tree.objects
  let saved ← DocTree.mapM' (fun tid => do
    let t ← dictGet d.tables tid
    let s ← saveTableSt t
    pure (tid, t.pivot.isSome, s)) tids
  pure { members := DocTree.serialise d.tree, tables := saved }

/-- `Document(path)` -/
def loadDoc (s : SavedDoc) : PyM Doc := do
  let tree := DocTree.load s.members
  let tids ← allTableIds tree.objects
  let tabs ← DocTree.mapM' (fun tid => do
    let (pv, st) ← dictGet s.tables tid
    let t ← loadTableSt pv st
    pure (tid, t)) tids
  pure { tree := tree, tables := tabs }

/-! ### what the library reads -/

/-- what the accessors read of an in-memory cell: class, payload bytes of a number / date / bool / duration, the string of a
    text cell, the twelve ids.  (A `MergedCell` has none of these; an empty or rich cell has no payload of its own.) -/
structure CellView where
  kind : Kind
  payload : Bytes
  text : Text
  ids : Ids
  deriving DecidableEq, Repr

def cellView (c : TCell) : CellView :=
  match c.kind with
  | .merged => ⟨.merged, [], [], {}⟩
  | .number | .currency | .date | .bool | .duration => ⟨c.kind, c.payload, [], c.ids⟩
  | .text => ⟨.text, [], c.text, c.ids⟩
  | k => ⟨k, [], [], c.ids⟩

/-- the interpretations the harness supplies -/
structure Env where
  fenv : FormatDispatch.Env
  /-- table id, row, column, what was read ↦ the cell as the formatters see it, WITHOUT its format slots -/
  interp : Nat → Nat → Nat → CellView → FormatDispatch.Cell
  /-- table id, row, column, index of the node in its formula ↦ `str(node_to_ref(table_id, row, col, node))` -/
  refText : Nat → Nat → Nat → Nat → Text

def lookupI {β} (l : List (Int × β)) (k : Int) : Option β := (l.find? (fun p => p.1 == k)).map (·.2)

/-- the format archive a format id names (`table_format(table_id, id)`); an id the list does not hold reads as no format
    here — on the real side it raises, which the check reports as such -/
def fmtOf (formats : List (Int × FormatDispatch.Fmt)) (id : Option Int) : Option FormatDispatch.Fmt :=
  id.bind (lookupI formats)

/-- the cell the formatters see: the interpretation of the stored bytes + the archives the six format ids name -/
def displayCell (env : Env) (tid r c : Nat) (v : CellView) (formats : List (Int × FormatDispatch.Fmt)) :
    FormatDispatch.Cell :=
  { env.interp tid r c v with
    numFmt := fmtOf formats v.ids.numFmt, currencyFmt := fmtOf formats v.ids.curFmt,
    textFmt := fmtOf formats v.ids.textFmt, boolFmt := fmtOf formats v.ids.boolFmt,
    dateFmt := fmtOf formats v.ids.dateFmt, durationFmt := fmtOf formats v.ids.durFmt }

def setRefs (f : Nat → Text) : Nat → List Formula.Node → List Formula.Node
  | _, [] => []
  | i, n :: ns => { n with refText := f i } :: setRefs f (i + 1) ns

/-- `cell.formula if cell.is_formula else None` -/
def formulaOf (env : Env) (tid r c : Nat) (v : CellView) (formulas : List (Int × List Formula.Node)) : Option (PyM Text) :=
  match v.ids.formula with
  | none => none
  | some k =>
    match lookupI formulas k with
    | none => some (.ok ("INVALID_KEY!(".toList ++ intStr k ++ ")".toList))
    | some nodes => some (Formula.formulaText (setRefs (env.refText tid r c) 0 nodes))

inductive MergeObs where
  | plain
  | anchor (h w : Int)                    -- `("merged", cell.size)`
  | placeholder (r0 c0 r1 c1 : Int)       -- `("placeholder", cell.merge_range)`
  deriving DecidableEq, Repr

def mergeObs : Option Merge.MRef → MergeObs
  | none => .plain
  | some (.anchor h w) => .anchor h w
  | some (.ref r0 c0 r1 c1) => .placeholder r0 c0 r1 c1

/-- one item of the `cells` list of `dump()` -/
structure CellObs where
  cls : Kind
  value : Bytes × Text
  formula : Option (PyM Text)
  formatted : PyM Text
  rich : Option (Option Nat)              -- the rich-text payload the cell names: value of a rich cell, bullets, hyperlinks
  merge : MergeObs
  deriving DecidableEq, Repr

/-- what the observation of a table depends on besides the cells: the three lists and the merge map -/
structure Lists where
  formulas : List (Int × List Formula.Node)
  formats : List (Int × FormatDispatch.Fmt)
  rich : List (Int × Nat)
  mget : Merge.Key → Option Merge.MRef

def TableSt.lists (t : TableSt) : Lists := ⟨t.formulas, t.formats, t.rich, t.mmap.get⟩

def obsCell (env : Env) (tid : Nat) (l : Lists) (r c : Nat) (v : CellView) : CellObs :=
  { cls := v.kind, value := (v.payload, v.text),
    formula := formulaOf env tid r c v l.formulas,
    formatted := FormatDispatch.formattedValue env.fenv (displayCell env tid r c v l.formats),
    rich := v.ids.rich.map (lookupI l.rich),
    merge := mergeObs (l.mget ((r : Int), (c : Int))) }

def obsRow (env : Env) (tid : Nat) (l : Lists) (r : Nat) : Nat → List CellView → List CellObs
  | _, [] => []
  | c, v :: vs => obsCell env tid l r c v :: obsRow env tid l r (c + 1) vs

def obsRows (env : Env) (tid : Nat) (l : Lists) : Nat → List (List CellView) → List (List CellObs)
  | _, [] => []
  | r, row :: rows => obsRow env tid l r 0 row :: obsRows env tid l (r + 1) rows

def rangesRow (r : Nat) : Nat → List CellObs → List (Int × Int × Int × Int)
  | _, [] => []
  | c, o :: os =>
    match o.merge with
    | .anchor h w => ((r : Int), (c : Int), (r : Int) + h - 1, (c : Int) + w - 1) :: rangesRow r (c + 1) os
    | _ => rangesRow r (c + 1) os

/-- `table.merge_ranges`: the rectangles of the cells that are merge anchors, in row-major order -/
def rangesOf : Nat → List (List CellObs) → List (Int × Int × Int × Int)
  | _, [] => []
  | r, row :: rows => rangesRow r 0 row ++ rangesOf (r + 1) rows

inductive TableObs where
  | pivot                                                   -- `(table.name, "PIVOT")`
  | live (numRows numCols : Nat) (ranges : List (Int × Int × Int × Int)) (rows : List (List CellObs))
  deriving DecidableEq, Repr

/-- `(table.num_rows, table.num_cols, table.merge_ranges, rows)` from what the cells show -/
def obsViews (env : Env) (tid : Nat) (l : Lists) (views : List (List CellView)) : TableObs :=
  let rows := obsRows env tid l 0 views
  .live views.length ((views.head?.map List.length).getD 0) (rangesOf 0 rows) rows

def obsTable (env : Env) (tid : Nat) (t : TableSt) : TableObs :=
  if t.pivot.isSome then .pivot else obsViews env tid t.lists (t.grid.map (·.map cellView))

abbrev Observation := List (Option Text × List (Text × TableObs))

/-- `dump(doc)` of harness/checks/c02.py -/
def dump (env : Env) (d : Doc) : PyM Observation := do
  let os := d.tree.objects
  let sids ← DocTree.sheetIds os
  DocTree.mapM' (fun sid => do
    let nm ← DocTree.sheetName os sid
    let tids ← DocTree.tableIds os (some sid)
    let ts ← DocTree.mapM' (fun tid => do
      let tn ← DocTree.tableName os tid
      let t ← dictGet d.tables tid
      pure (tn, obsTable env tid t)) tids
    pure (nm, ts)) sids

/-- open → save → open → dump -/
def resaveDump (env : Env) (d : Doc) : PyM Observation := do
  let s ← saveDoc d
  let d' ← loadDoc s
  dump env d'

end NumbersModel.Document
