/-
Model of reference resolution and printing:
  model.py   `node_to_ref` (with `resolve_range`, `resolve_range_end`, `range_end`)
  xrefs.py   `CellRange.__str__`, `_format_*`, `expand_ref`,
             `ScopedNameRefCache.calculate_named_ranges` / `_calculate_name_scopes` / `_calculate_scope_types`
over an abstract document (sheets × tables with names, header counts and header labels).

The model mirrors the code as FIXED by fixes/C09-*.patch; the flag `pinned := true` selects the
pinned behaviour at the three repaired places (used only for the counter-examples in Props/C09):
  * an empty header text is a name                      (`_calculate_name_scopes`: `if name is None`)
  * a name shared by a row and a column names both       (`all_names` of one axis only)
  * `_format_row_span` / `_format_column_span` test only the first end for "unnamed".

Opaque: `table_uuids_to_id` (the node carries the resulting table id), header label text
(`formatted_value`, supplied per row / column).
-/
import NumbersModel.Model.A1
import NumbersModel.Model.Formula
namespace NumbersModel.Refs
open NumbersModel NumbersModel.A1

structure Table where
  id : Nat
  name : Text
  nHeaderRows : Nat
  nHeaderCols : Nat
  nRows : Nat
  nCols : Nat
  /-- `_row_data(table, r)` for every row r: text of the cell in the innermost header column -/
  rowLabels : List Text
  /-- `_column_data(table, c)` for every column c -/
  colLabels : List Text
  deriving DecidableEq, Repr, Inhabited

structure Sheet where
  id : Nat
  name : Text
  tables : List Table
  deriving DecidableEq, Repr, Inhabited

abbrev Doc := List Sheet

/-- (sheet id, table) in document order: `for sid in sheet_ids(): for tid in table_ids(sid)` -/
def flat (doc : Doc) : List (Nat × Table) :=
  doc.flatMap (fun s => s.tables.map (fun t => (s.id, t)))

/-- `model.table_names()` -/
def tableNames (doc : Doc) : List Text := (flat doc).map (·.2.name)

/-- `self.objects[table_id]` -/
def findTable (doc : Doc) (tid : Nat) : PyM Table :=
  match (flat doc).find? (fun p => p.2.id = tid) with
  | some p => .ok p.2
  | none => .error .KeyError

/-- `model.table_id_to_sheet_id` (None when the table is in no sheet) -/
def sheetOf (doc : Doc) (tid : Nat) : Option Nat :=
  ((flat doc).find? (fun p => p.2.id = tid)).map (·.1)

/-- `model.sheet_name(sheet_id)`; `None` is formatted as the text `None` by the f-string -/
def sheetNameText (doc : Doc) (sid : Option Nat) : Text :=
  match sid with
  | none => "None".toList
  | some i => match doc.find? (fun s => s.id = i) with
    | some s => s.name
    | none => "None".toList

/-! ### name scopes -/

inductive Scope where
  | document | sheet | table | none
  deriving DecidableEq, Repr, Inhabited

structure ScopedRef where
  name : Text
  scope : Scope
  deriving DecidableEq, Repr, Inhabited

def labelAt (labels : List Text) (idx : Nat) : PyM Text :=
  match labels[idx]? with
  | some t => .ok t
  | none => .error .IndexError

/-- `[data_lookup(table_id, idx) for idx in range(a, b)]` -/
def labelsRange (labels : List Text) (a b : Nat) : PyM (List Text) :=
  ((List.range b).drop a).mapM (labelAt labels)

/-- the `for idx in range(range_end)` loop of `_calculate_name_scopes`:
    per index the kept name (or none), and the `names` list that is counted (in order). -/
def axisLoop (pinned : Bool) (labels allNames : List Text) (first : Nat) :
    List Nat → PyM (List (Option Text) × List (Option Text))
  | [] => .ok ([], [])
  | idx :: rest => do
    let (sc, nm) ← axisLoop pinned labels allNames first rest
    if idx < first then .ok (none :: sc, none :: nm)
    else do
      let name ← labelAt labels idx
      if !pinned && name.isEmpty then .ok (none :: sc, nm)
      else if allNames.count name > 1 then .ok (none :: sc, none :: nm)
      else .ok (some name :: sc, some name :: nm)

/-- `_calculate_name_scopes` for one axis.  `labels/first/rangeEnd/thisHeader` describe this axis
    (`thisHeader` = number of header lines that carry its labels, i.e. header *columns* for rows),
    `other*` the other axis. -/
def axisScopes (pinned : Bool) (labels : List Text) (first rangeEnd thisHeader : Nat)
    (otherLabels : List Text) (otherFirst otherEnd : Nat) :
    PyM (List (Option Text) × List (Option Text)) :=
  if thisHeader = 0 then .ok (List.replicate rangeEnd none, [])
  else do
    let own ← labelsRange labels first rangeEnd
    let allNames ←
      if !pinned && first > 0 then do
        let other ← labelsRange otherLabels otherFirst otherEnd
        pure (own ++ other)
      else pure own
    axisLoop pinned labels allNames first (List.range rangeEnd)

structure TableNames where
  sheet : Nat
  table : Table
  rowScopes : List (Option Text)
  colScopes : List (Option Text)
  /-- what this table adds to `doc_name_refs` / `sheet_name_refs[sheet]` (rows then columns) -/
  counted : List (Option Text)
  deriving Repr, Inhabited

def tableAxisNames (pinned : Bool) (sid : Nat) (t : Table) : PyM TableNames := do
  let (rs, rn) ← axisScopes pinned t.rowLabels t.nHeaderRows t.nRows t.nHeaderCols
    t.colLabels t.nHeaderCols t.nCols
  let (cs, cn) ← axisScopes pinned t.colLabels t.nHeaderCols t.nCols t.nHeaderRows
    t.rowLabels t.nHeaderRows t.nRows
  .ok { sheet := sid, table := t, rowScopes := rs, colScopes := cs, counted := rn ++ cn }

/-- `_calculate_scope_types` for one name. -/
def scopeOf (docNames sheetNames : List (Option Text)) (tableNames : List Text) (tname name : Text) : Scope :=
  if docNames.count (some name) = 1 then .document
  else if sheetNames.count (some name) = 1 then .sheet
  else if tableNames.count tname = 1 then .table
  else .none

structure TableCache where
  tid : Nat
  rows : List (Option ScopedRef)
  cols : List (Option ScopedRef)
  deriving Repr, Inhabited

/-- `calculate_named_ranges`: `row_ranges` / `col_ranges` keyed by table id. -/
def nameCache (pinned : Bool) (doc : Doc) : PyM (List TableCache) := do
  let tns ← (flat doc).mapM (fun p => tableAxisNames pinned p.1 p.2)
  let docNames := tns.flatMap (·.counted)
  let tnames := tableNames doc
  .ok (tns.map fun tn =>
    let sheetNames := (tns.filter (fun x => x.sheet = tn.sheet)).flatMap (·.counted)
    let tag := fun (o : Option Text) => o.map (fun n =>
      ({ name := n, scope := scopeOf docNames sheetNames tnames tn.table.name n } : ScopedRef))
    { tid := tn.table.id, rows := tn.rowScopes.map tag, cols := tn.colScopes.map tag })

/-- `row_ranges[table_id]` -/
def cacheOf (cache : List TableCache) (tid : Nat) : PyM TableCache :=
  match cache.find? (fun c => c.tid = tid) with
  | some c => .ok c
  | none => .error .KeyError

/-- `row_range[idx]` (a dict keyed 0..n-1) -/
def rangeAt (l : List (Option ScopedRef)) (idx : Int) : PyM (Option ScopedRef) :=
  if idx < 0 then .error .KeyError
  else match l[idx.toNat]? with
    | some x => .ok x
    | none => .error .KeyError

/-! ### node_to_ref -/

structure RangeEntry where
  rbegin : Int
  /-- `range_end` if `HasField("range_end")` -/
  rend : Option Int
  deriving DecidableEq, Repr, Inhabited

/-- the fields of a reference node that `node_to_ref` reads. -/
structure RefNode where
  hasTract : Bool := false
  relRow : List RangeEntry := []
  absRow : List RangeEntry := []
  relCol : List RangeEntry := []
  absCol : List RangeEntry := []
  beginRowAbs : Bool := false
  endRowAbs : Bool := false
  beginColAbs : Bool := false
  endColAbs : Bool := false
  hasRow : Bool := false
  row : Int := 0
  rowAbs : Bool := false
  hasCol : Bool := false
  col : Int := 0
  colAbs : Bool := false
  /-- `table_uuids_to_id(uuid)` when `AST_cross_table_reference_extra_info` is present -/
  toTable : Option Nat := none
  deriving DecidableEq, Repr, Inhabited

structure CellRange where
  rowStart : Option Int := none
  rowEnd : Option Int := none
  colStart : Option Int := none
  colEnd : Option Int := none
  rowStartAbs : Bool := false
  rowEndAbs : Bool := false
  colStartAbs : Bool := false
  colEndAbs : Bool := false
  fromTable : Nat
  toTable : Nat
  deriving DecidableEq, Repr, Inhabited

def ROW_OPEN : Int := 0x7FFFFFFF
def COL_OPEN : Int := 0x7FFF

def first (l : List RangeEntry) : PyM RangeEntry :=
  match l with
  | e :: _ => .ok e
  | [] => .error .IndexError

/-- `range_end(obj)` -/
def rangeEnd (e : RangeEntry) : Int := match e.rend with | some x => x | none => e.rbegin

/-- `resolve_range` -/
def resolveRange (isAbs : Bool) (absL relL : List RangeEntry) (offset maxVal : Int) : PyM Int :=
  if isAbs then do let e ← first absL; .ok e.rbegin
  else do
    let openEnded ← (if relL.isEmpty then do let e ← first absL; pure (e.rbegin == maxVal) else pure false)
    if openEnded then .ok maxVal
    else do let e ← first relL; .ok (offset + e.rbegin)

/-- `resolve_range_end` -/
def resolveRangeEnd (isAbs : Bool) (absL relL : List RangeEntry) (offset maxVal : Int) : PyM Int :=
  if isAbs then do let e ← first absL; .ok (rangeEnd e)
  else do
    let openEnded ← (if relL.isEmpty then do let e ← first absL; pure (rangeEnd e == maxVal) else pure false)
    if openEnded then .ok maxVal
    else do let e ← first relL; .ok (offset + rangeEnd e)

def openToNone (v maxVal : Int) : Option Int := if v = maxVal then none else some v

/-- `model.node_to_ref(table_id, row, col, node)` -/
def nodeToRef (tid : Nat) (row col : Int) (n : RefNode) : PyM CellRange :=
  let toT := match n.toTable with | some t => t | none => tid
  if n.hasTract then do
    let rb ← resolveRange n.beginRowAbs n.absRow n.relRow row ROW_OPEN
    let re ← resolveRangeEnd n.endRowAbs n.absRow n.relRow row ROW_OPEN
    let cb ← resolveRange n.beginColAbs n.absCol n.relCol col COL_OPEN
    let ce ← resolveRangeEnd n.endColAbs n.absCol n.relCol col COL_OPEN
    .ok { rowStart := openToNone rb ROW_OPEN, rowEnd := openToNone re ROW_OPEN,
          colStart := openToNone cb COL_OPEN, colEnd := openToNone ce COL_OPEN,
          rowStartAbs := n.beginRowAbs, rowEndAbs := n.endRowAbs,
          colStartAbs := n.beginColAbs, colEndAbs := n.endColAbs, fromTable := tid, toTable := toT }
  else
    let r := if n.rowAbs then n.row else row + n.row
    let c := if n.colAbs then n.col else col + n.col
    if n.hasRow ∧ ¬ n.hasCol then
      .ok { rowStart := some r, rowStartAbs := n.rowAbs, fromTable := tid, toTable := toT }
    else if n.hasCol ∧ ¬ n.hasRow then
      .ok { colStart := some c, colStartAbs := n.colAbs, fromTable := tid, toTable := toT }
    else
      .ok { rowStart := some r, colStart := some c, rowStartAbs := n.rowAbs, colStartAbs := n.colAbs,
            fromTable := tid, toTable := toT }

/-! ### expand_ref and __str__ -/

/-- `s.replace("'", "'''")` -/
def tripleQuotes : Text → Text
  | [] => []
  | c :: r => if c = '\'' then '\'' :: '\'' :: '\'' :: tripleQuotes r else c :: tripleQuotes r

/-- the quoting step of `expand_ref` -/
def quoteRef (s : Text) : Text :=
  if Gen.OPERATOR_PRECEDENCE.any (fun k => Formula.hasSub k.1 s) then '\'' :: s ++ ['\'']
  else if s.contains '\'' then tripleQuotes s
  else s

inductive Prefix where
  | none
  | table (t : Text)
  | sheetTable (s t : Text)
  deriving DecidableEq, Repr, Inhabited

def renderPrefix : Prefix → Text
  | .none => []
  | .table t => t ++ "::".toList
  | .sheetTable s t => s ++ "::".toList ++ t ++ "::".toList

/-- the qualification `expand_ref` chooses (after the `no_prefix or is_document_unique` test).
    `scope` is the label's scope, `none` for plain (A1 / numeric) references. -/
def choosePrefix (doc : Doc) (fromT toT : Nat) (scope : Option Scope) (isAbs : Bool) : PyM Prefix :=
  if fromT = toT then .ok .none
  else do
    let t ← findTable doc toT
    let sameSheet := sheetOf doc fromT == sheetOf doc toT
    if sameSheet ∧ scope = some .sheet then
      .ok (if isAbs then .table t.name else .none)
    else
      let tableUnique := scope = some .table ∨ (tableNames doc).count t.name = 1
      if sameSheet ∨ tableUnique then .ok (.table t.name)
      else .ok (.sheetTable (sheetNameText doc (sheetOf doc toT)) t.name)

/-- `CellRange.expand_ref(ref, is_abs, no_prefix)`; `ref` is a plain string or a `ScopedNameRef`. -/
def expandRef (doc : Doc) (cr : CellRange) (name : Text) (scope : Option Scope) (isAbs noPrefix : Bool) :
    PyM Text :=
  let refStr := quoteRef ((if isAbs then ['$'] else []) ++ name)
  if noPrefix ∨ scope = some .document then .ok refStr
  else do
    let p ← choosePrefix doc cr.fromTable cr.toTable scope isAbs
    .ok (renderPrefix p ++ refStr)

def expandScoped (doc : Doc) (cr : CellRange) (r : ScopedRef) (isAbs noPrefix : Bool) : PyM Text :=
  expandRef doc cr r.name (some r.scope) isAbs noPrefix

def expandPlain (doc : Doc) (cr : CellRange) (s : Text) (isAbs noPrefix : Bool) : PyM Text :=
  expandRef doc cr s none isAbs noPrefix

def colon (a b : Text) : Text := a ++ [':'] ++ b

/-- `str(row_start + 1)` -/
def rowNum (r : Int) : Text := intStr (r + 1)

/-- the PINNED named-span branch of `_format_row_span` / `_format_column_span`, entered whenever the first
    end is named: `row_range[row_end].scope` is evaluated only if the first end is not document-unique,
    `expand_ref(row_range[row_end], …)` afterwards. -/
def pinnedSpan (doc : Doc) (cr : CellRange) (s : ScopedRef) (startAbs endAbs : Bool)
    (lookupEnd : PyM (Option ScopedRef)) : PyM Text := do
  if s.scope = .document then
    let a ← expandScoped doc cr s startAbs true
    match ← lookupEnd with
    | some e => let b ← expandScoped doc cr e endAbs true; .ok (colon a b)
    | none => if endAbs then .ok (colon a "$None".toList) else .error .TypeError
  else
    match ← lookupEnd with
    | some e =>
      let a ← expandScoped doc cr s startAbs (e.scope = .document)
      let b ← expandScoped doc cr e endAbs true
      .ok (colon a b)
    | none => .error .AttributeError

/-- `_format_row_range` -/
def formatRowRange (pinned : Bool) (doc : Doc) (cr : CellRange) (rowStart : Int) (rowEnd : Option Int)
    (rr : List (Option ScopedRef)) : PyM Text := do
  match rowEnd with
  | none =>
    match ← rangeAt rr rowStart with
    | none =>
      let a ← expandPlain doc cr (rowNum rowStart) cr.rowStartAbs false
      let b ← expandPlain doc cr (rowNum rowStart) cr.rowStartAbs true
      .ok (colon a b)
    | some s => expandScoped doc cr s cr.rowStartAbs false
  | some rowEnd =>
    match ← rangeAt rr rowStart with
    | none =>
      let a ← expandPlain doc cr (rowNum rowStart) cr.rowStartAbs false
      let b ← expandPlain doc cr (rowNum rowEnd) cr.rowEndAbs true
      .ok (colon a b)
    | some s =>
      if pinned then
        pinnedSpan doc cr s cr.rowStartAbs cr.rowEndAbs (rangeAt rr rowEnd)
      else
        match ← rangeAt rr rowEnd with
        | none =>
          let a ← expandPlain doc cr (rowNum rowStart) cr.rowStartAbs false
          let b ← expandPlain doc cr (rowNum rowEnd) cr.rowEndAbs true
          .ok (colon a b)
        | some e =>
          let a ← expandScoped doc cr s cr.rowStartAbs (s.scope = .document ∨ e.scope = .document)
          let b ← expandScoped doc cr e cr.rowEndAbs true
          .ok (colon a b)

/-- `_format_col_range` -/
def formatColRange (pinned : Bool) (doc : Doc) (cr : CellRange) (colStart : Int) (colEnd : Option Int)
    (cc : List (Option ScopedRef)) : PyM Text := do
  match colEnd with
  | none =>
    match ← rangeAt cc colStart with
    | none =>
      let n ← colName colStart cr.colStartAbs
      expandPlain doc cr n false false
    | some s => expandScoped doc cr s cr.colStartAbs false
  | some colEnd =>
    match ← rangeAt cc colStart with
    | none =>
      let n1 ← colName colStart cr.colStartAbs
      let a ← expandPlain doc cr n1 false false
      let n2 ← colName colEnd cr.colEndAbs
      let b ← expandPlain doc cr n2 false true
      .ok (colon a b)
    | some s =>
      if pinned then
        pinnedSpan doc cr s cr.colStartAbs cr.colEndAbs (rangeAt cc colEnd)
      else
        match ← rangeAt cc colEnd with
        | none =>
          let n1 ← colName colStart cr.colStartAbs
          let a ← expandPlain doc cr n1 false false
          let n2 ← colName colEnd cr.colEndAbs
          let b ← expandPlain doc cr n2 false true
          .ok (colon a b)
        | some e =>
          let a ← expandScoped doc cr s cr.colStartAbs (s.scope = .document ∨ e.scope = .document)
          let b ← expandScoped doc cr e cr.colEndAbs true
          .ok (colon a b)

/-- `_format_cell_range` -/
def formatCellRange (doc : Doc) (cr : CellRange) (rowStart colStart : Int) : PyM Text :=
  match cr.rowEnd, cr.colEnd with
  | some rowEnd, some colEnd => do
    let c1 ← rowcolToCell rowStart colStart cr.rowStartAbs cr.colStartAbs
    let a ← expandPlain doc cr c1 false false
    let c2 ← rowcolToCell rowEnd colEnd cr.rowEndAbs cr.colEndAbs
    let b ← expandPlain doc cr c2 false true
    .ok (colon a b)
  | _, _ => do
    let c1 ← rowcolToCell rowStart colStart cr.rowStartAbs cr.colStartAbs
    expandPlain doc cr c1 false false

/-- `CellRange.__str__` (the name cache is refreshed first). -/
def rangeStr (pinned : Bool) (doc : Doc) (cr : CellRange) : PyM Text := do
  let cache ← nameCache pinned doc
  match cr.colStart, cr.rowStart with
  | none, some rs => do
    let c ← cacheOf cache cr.toTable
    formatRowRange pinned doc cr rs cr.rowEnd c.rows
  | none, none => .error .KeyError     -- `row_range[None]`
  | some cs, none => do
    let c ← cacheOf cache cr.toTable
    formatColRange pinned doc cr cs cr.colEnd c.cols
  | some cs, some rs => formatCellRange doc cr rs cs

/-- `str(model.node_to_ref(table_id, row, col, node))` -/
def refText (pinned : Bool) (doc : Doc) (tid : Nat) (row col : Int) (n : RefNode) : PyM Text := do
  let cr ← nodeToRef tid row col n
  rangeStr pinned doc cr

/-! ## Specification side -/

/-- which table a printed qualification denotes, given the document's own names, read from
    table `host`: no prefix = the host table; `T::` = the table named T in the host's sheet if there is
    exactly one, else the only table named T in the document; `S::T::` = the only table named T in the
    only sheet named S. -/
def resolveTable (doc : Doc) (host : Nat) : Prefix → Option Nat
  | .none => some host
  | .table t =>
    match (flat doc).filter (fun p => some p.1 = sheetOf doc host ∧ p.2.name = t) with
    | [p] => some p.2.id
    | [] =>
      match (flat doc).filter (fun p => p.2.name = t) with
      | [p] => some p.2.id
      | _ => none
    | _ => none
  | .sheetTable s t =>
    match doc.filter (fun sh => sh.name = s) with
    | [sh] =>
      match sh.tables.filter (fun tb => tb.name = t) with
      | [tb] => some tb.id
      | _ => none
    | _ => none

/-- one axis of a stored range: begin/end coordinates and their `$` flags. -/
structure StoredAxis where
  b : Int
  e : Int
  bAbs : Bool
  eAbs : Bool
  deriving DecidableEq, Repr, Inhabited

/-- how Numbers stores one axis of a colon tract for a host offset `host`:
    (relative list, absolute list).  `short` = omit `range_end` when it equals `range_begin`. -/
def encodeAxis (host : Int) (s : StoredAxis) (short : Bool) : List RangeEntry × List RangeEntry :=
  let ent := fun (b e : Int) => ({ rbegin := b, rend := if short ∧ b = e then none else some e } : RangeEntry)
  match s.bAbs, s.eAbs with
  | true, true => ([], [ent s.b s.e])
  | false, false => ([ent (s.b - host) (s.e - host)], [])
  | true, false => ([{ rbegin := s.e - host, rend := none }], [{ rbegin := s.b, rend := none }])
  | false, true => ([{ rbegin := s.b - host, rend := none }], [{ rbegin := s.e, rend := none }])

def encodeRect (row col : Int) (rs cs : StoredAxis) (short : Bool) (to : Option Nat) : RefNode :=
  { hasTract := true,
    relRow := (encodeAxis row rs short).1, absRow := (encodeAxis row rs short).2,
    relCol := (encodeAxis col cs short).1, absCol := (encodeAxis col cs short).2,
    beginRowAbs := rs.bAbs, endRowAbs := rs.eAbs, beginColAbs := cs.bAbs, endColAbs := cs.eAbs,
    toTable := to }

def encodeRows (row : Int) (rs : StoredAxis) (short : Bool) (to : Option Nat) : RefNode :=
  { hasTract := true,
    relRow := (encodeAxis row rs short).1, absRow := (encodeAxis row rs short).2,
    relCol := [], absCol := [{ rbegin := COL_OPEN, rend := none }],
    beginRowAbs := rs.bAbs, endRowAbs := rs.eAbs, toTable := to }

def encodeCols (col : Int) (cs : StoredAxis) (short : Bool) (to : Option Nat) : RefNode :=
  { hasTract := true,
    relCol := (encodeAxis col cs short).1, absCol := (encodeAxis col cs short).2,
    relRow := [], absRow := [{ rbegin := ROW_OPEN, rend := none }],
    beginColAbs := cs.bAbs, endColAbs := cs.eAbs, toTable := to }

end NumbersModel.Refs
