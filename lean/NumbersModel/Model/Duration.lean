/-
C14 — duration display.  Model of `cell.py: Cell._duration_format`, `_auto_units`, `_unit_format`
over **integer milliseconds** (the cell stores seconds in a double; for whole milliseconds up to
far beyond ten years every intermediate of the Python code — `int(d / unit)`, `d -= unit * dd`,
`int(round(1000 * d))` — is the exact integer result; that is an assumption about IEEE doubles
which the correspondence exercises at every unit boundary ±1 ms).  Core Lean only.
-/
import NumbersModel.Model.TextUtil
namespace NumbersModel.Duration
open NumbersModel NumbersModel.Digits

/-! `DurationUnits` / `DurationStyle` enum values (constants.py) -/
def WEEK : Nat := 1
def DAY : Nat := 2
def HOUR : Nat := 4
def MINUTE : Nat := 8
def SECOND : Nat := 16
def MILLISECOND : Nat := 32
def COMPACT : Nat := 0
def SHORT : Nat := 1
def LONG : Nat := 2

def msSecond : Nat := 1000
def msMinute : Nat := 60 * 1000
def msHour : Nat := 3600 * 1000
def msDay : Nat := 86400 * 1000
def msWeek : Nat := 604800 * 1000

/-- the duration archive fields the code reads. -/
structure Fmt where
  style : Nat
  largest : Nat
  smallest : Nat
  auto : Bool
  deriving DecidableEq, Repr

/-- `_unit_format(unit, value, style, abbrev)`. -/
def unitFormat (uname : Text) (value : Nat) (style : Nat) (abbr : Option Text) : Text :=
  let plural : Text := if value = 1 then [] else ['s']
  let ab : Text := match abbr with
    | some a => a
    | none => uname.take 1
  if style = COMPACT then []
  else if style = SHORT then ab
  else ' ' :: uname ++ plural

/-- `_auto_units(cell_value, number_format)` → `(unit_smallest, unit_largest)`. -/
def autoUnits (ms : Nat) (f : Fmt) : Nat × Nat :=
  if ms = 0 then (DAY, DAY)
  else
    let largest :=
      if ms ≥ msWeek then WEEK
      else if ms ≥ msDay then DAY
      else if ms ≥ msHour then HOUR
      else if ms ≥ msMinute then MINUTE
      else if ms ≥ msSecond then SECOND
      else MILLISECOND
    let smallest :=
      if ms % msSecond ≠ 0 then MILLISECOND          -- math.floor(v) != v
      else if ms % msMinute ≠ 0 then SECOND          -- v % 60
      else if ms % msHour ≠ 0 then MINUTE
      else if ms % msDay ≠ 0 then HOUR
      else if ms % msWeek ≠ 0 then DAY
      else f.smallest                                -- falls through: the format's own value
    (max smallest largest, largest)

/-- one rendered unit: its size in ms, the number shown, the text. -/
structure Item where
  unitMs : Nat
  value : Nat
  text : Text
  deriving DecidableEq, Repr

/-- One `if <unit shown>: dd = int(d / UNIT); if <smaller units follow>: d -= UNIT * dd;
    dstr.append(...)` block; state = (remaining `d` in ms, `dstr`). -/
def block (active reduce : Bool) (unitMs : Nat) (mk : Nat → Text) (s : Nat × List Item) :
    Nat × List Item :=
  if active then
    let dd := s.1 / unitMs
    (if reduce then s.1 - unitMs * dd else s.1, s.2 ++ [⟨unitMs, dd, mk dd⟩])
  else s

def unitInRange (largest smallest u : Nat) : Bool := largest ≤ u && smallest ≥ u

/-- `pad_digits(d, largest, smallest, unit_type)` (called with the two units swapped; symmetric). -/
def padDigits (d a b u : Nat) : Bool := (a = u && b = u) || d ≥ 10

def labelled (name : Text) (style : Nat) (abbr : Option Text) (dd : Nat) : Text :=
  natStr dd ++ unitFormat name dd style abbr

/-- minutes / seconds: two digits in the compact style unless it is the only unit. -/
def clockField (name : Text) (style largest smallest u : Nat) (dd : Nat) : Text :=
  if style = COMPACT then
    (if padDigits dd smallest largest u then [] else ['0']) ++ natStr dd
  else labelled name style none dd

def milliField (style : Nat) (dd : Nat) : Text :=
  if style = COMPACT then
    let padding : Text := if dd ≥ 10 then ['0'] else ['0', '0']
    let padding : Text := if dd ≥ 100 then [] else padding
    padding ++ natStr dd
  else labelled "millisecond".toList style (some "ms".toList) dd

/-- the straight-line body of `_duration_format` after the units are known. -/
def durationItems (style largest smallest ms : Nat) : List Item :=
  let s : Nat × List Item := (ms, [])
  let s := block (largest == WEEK) (smallest != WEEK) msWeek (labelled "week".toList style none) s
  let s := block (unitInRange largest smallest DAY) (decide (smallest > DAY)) msDay (labelled "day".toList style none) s
  let s := block (unitInRange largest smallest HOUR) (decide (smallest > HOUR)) msHour (labelled "hour".toList style none) s
  let s := block (unitInRange largest smallest MINUTE) (decide (smallest > MINUTE)) msMinute
    (clockField "minute".toList style largest smallest MINUTE) s
  let s := block (unitInRange largest smallest SECOND) (decide (smallest > SECOND)) msSecond
    (clockField "second".toList style largest smallest SECOND) s
  let s := block (decide (smallest ≥ MILLISECOND)) false 1 (milliField style) s
  s.2

/-- `sep.join(dstr)`. -/
def joinWith (sep : Text) : List Text → Text
  | [] => []
  | [t] => t
  | t :: rest => t ++ sep ++ joinWith sep rest

/-- `re.sub(r":(\d\d\d)$", r".\1", s)` on the texts that occur (ASCII digits only, no newline):
    a colon followed by exactly three final digits becomes a full stop. -/
def fixMillis (t : Text) : Text :=
  match t.reverse with
  | c :: b :: a :: ':' :: r =>
    if isDigit a && isDigit b && isDigit c then (c :: b :: a :: '.' :: r).reverse else t
  | _ => t

/-- the units actually used: automatic or as stored. -/
def effectiveUnits (ms : Nat) (f : Fmt) : Nat × Nat :=
  if f.auto then autoUnits ms f else (f.smallest, f.largest)

/-- `Cell._duration_format` for a cell holding `ms` milliseconds. -/
def durationFormat (ms : Nat) (f : Fmt) : Text :=
  let u := effectiveUnits ms f
  let items := durationItems f.style u.2 u.1 ms
  let s := joinWith (if f.style = 0 then [':'] else [' ']) (items.map (·.text))
  if f.style = COMPACT then fixMillis s else s

end NumbersModel.Duration
