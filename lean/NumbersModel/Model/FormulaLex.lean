/-
Character-level lexer for the printed formula language (C08 `lex_render`), the front end of
Model/FormulaParse.lean's token parser.

* `"…"` string literal, a doubled quote inside is one quote character (`Formula.scanBody`);
* operators: the glyphs the renderer prints `+ - × ÷ ^ & = ≠ < > ≤ ≥ %` and their ASCII spellings
  `* / <= >= <>`; brackets `( ) { }`; separators `, ;`;
* everything else is a WORD: a maximal run of non-delimiter characters and `'…'` quoted name segments
  (inside which every character, delimiters included, belongs to the word; `''` is a doubled apostrophe).
  Spaces, `:`, `$`, `.`, `!`, `#` are word characters (`Table 1::$A$1:B2`, `#REF!`).
  A word directly followed by `(` is a function name (the parenthesis belongs to the token);
  otherwise a word that is a decimal number text (`Formula.decValue`) is a number, `TRUE` / `FALSE` are
  booleans, any other word is a reference / name.
-/
import NumbersModel.Model.FormulaParse
namespace NumbersModel.Formula.Parse
open NumbersModel NumbersModel.Formula

/-- one-character tokens (all but `<` and `>`, which may start a two-character operator). -/
def single (c : Char) : Option Tok :=
  if c = '+' then some (.op .add)
  else if c = '-' then some (.op .sub)
  else if c = '×' then some (.op .mul)
  else if c = '*' then some (.op .mul)
  else if c = '÷' then some (.op .div)
  else if c = '/' then some (.op .div)
  else if c = '^' then some (.op .pow)
  else if c = '&' then some (.op .concat)
  else if c = '=' then some (.op .eq)
  else if c = '≠' then some (.op .ne)
  else if c = '≥' then some (.op .ge)
  else if c = '≤' then some (.op .le)
  else if c = '%' then some .pct
  else if c = '(' then some .lp
  else if c = ')' then some .rp
  else if c = '{' then some .lb
  else if c = '}' then some .rb
  else if c = ',' then some .comma
  else if c = ';' then some .semi
  else none

/-- operator / bracket / separator token starting with `c` (the input is `c :: r`), and what is left. -/
def opTok (c : Char) (r : Text) : Option (Tok × Text) :=
  if c = '<' then
    match r with
    | '=' :: r' => some (.op .le, r')
    | '>' :: r' => some (.op .ne, r')
    | _ => some (.op .lt, r)
  else if c = '>' then
    match r with
    | '=' :: r' => some (.op .ge, r')
    | _ => some (.op .gt, r)
  else (single c).map (fun t => (t, r))

/-- characters that end a word (outside a quoted segment). -/
def isDelim (c : Char) : Bool := c = '"' || c = '<' || c = '>' || (single c).isSome

/-- a word: `(word, rest)`.  The flag says whether we are inside a `'…'` segment; an apostrophe toggles
    it (so `''` inside a segment leaves and re-enters).  `none`: the input ends inside a segment. -/
def scanWord : Bool → Text → Option (Text × Text)
  | false, [] => some ([], [])
  | true, [] => none
  | false, c :: r =>
    if c = '\'' then (scanWord true r).map (fun p => (c :: p.1, p.2))
    else if isDelim c then some ([], c :: r)
    else (scanWord false r).map (fun p => (c :: p.1, p.2))
  | true, c :: r => (scanWord (c != '\'') r).map (fun p => (c :: p.1, p.2))

def classify (w : Text) : Tok :=
  if (decValue w).isSome then .num w
  else if w = "TRUE".toList then .bool true
  else if w = "FALSE".toList then .bool false
  else .name w

/-- the input after the parenthesis that makes the preceding word a function name. -/
def callTail : Text → Option Text
  | '(' :: r => some r
  | _ => none

def lexGo : Nat → Text → Option (List Tok)
  | 0, _ => none
  | _ + 1, [] => some []
  | f + 1, c :: r =>
    if c = '"' then
      match scanBody r with
      | some (s, r') => (lexGo f r').map (Tok.str s :: ·)
      | none => none
    else
      match opTok c r with
      | some (t, r') => (lexGo f r').map (t :: ·)
      | none =>
        match scanWord false (c :: r) with
        | some (w, r') =>
          if w.isEmpty then none
          else
            match callTail r' with
            | some r'' => (lexGo f r'').map (Tok.fn w :: ·)
            | none => (lexGo f r').map (classify w :: ·)
        | none => none

/-- characters → tokens (every token consumes at least one character, so the fuel suffices). -/
def lex (s : Text) : Option (List Tok) := lexGo (s.length + 1) s

/-- what a formula text denotes. -/
def readText (s : Text) : Option PT := (lex s).bind parseToks

/-! ### which atoms the lexer reads back -/

/-- `w` is, as a whole, one word. -/
def wordOK (w : Text) : Bool := !w.isEmpty && scanWord false w == some (w, [])

/-- a number text: a decimal `ddd` / `ddd.ddd` (what `number_to_str` prints for a finite non-negative value). -/
def numSafe (t : Text) : Bool := (decValue t).isSome && wordOK t

/-- a reference / name text the lexer keeps as one name token: one word (quoted segments closed; any
    character outside a quoted segment is not an operator, bracket, separator or double quote), not a
    decimal number, not `TRUE` / `FALSE`.  Satisfied by A1 references with or without `$`, ranges,
    `Table::` / `Sheet::Table::` prefixes made of such characters, and names the reader quotes. -/
def nameSafe (t : Text) : Bool :=
  wordOK t && (decValue t).isNone && t != "TRUE".toList && t != "FALSE".toList

mutual
/-- every atom of the tree is read back by the lexer. -/
def LexSafe : PT → Bool
  | .num t => numSafe t
  | .str _ => true
  | .bool _ => true
  | .name t => nameSafe t
  | .empty => true
  | .bin _ l r => LexSafe l && LexSafe r
  | .neg e => LexSafe e
  | .pct e => LexSafe e
  | .paren es => LexSafes es
  | .call f args => wordOK f && LexSafes args
  | .arr rows => LexSafeRows rows
def LexSafes : List PT → Bool
  | [] => true
  | e :: es => LexSafe e && LexSafes es
def LexSafeRows : List (List PT) → Bool
  | [] => true
  | r :: rs => LexSafes r && LexSafeRows rs
end

mutual
/-- the only condition on a stored expression: its reference texts are `nameSafe` and its numbers
    stored without exponent print as decimals (everything else the renderer prints is read back). -/
def RefsSafe : Expr → Bool
  | .num (.plain r) => numSafe r
  | .num _ => true
  | .str _ => true
  | .bool _ _ => true
  | .date _ => true
  | .ref t => nameSafe t
  | .empty => true
  | .bin _ l r => RefsSafe l && RefsSafe r
  | .neg e => RefsSafe e
  | .pct e => RefsSafe e
  | .paren es => RefsSafeList es
  | .call _ args => RefsSafeList args
  | .arr _ _ es => RefsSafeList es
def RefsSafeList : List Expr → Bool
  | [] => true
  | e :: es => RefsSafe e && RefsSafeList es
end

end NumbersModel.Formula.Parse
