/-
Model of the IWA archive codec in src/numbers_parser/iwafile.py:

  IWACompressedChunk._decompress_all / to_buffer   chunk framing: 0x00 marker, 3-byte LE length,
                                                   65536-byte slicing, "uncompress failed => raw" fallback
  is_iwa_file                                      the sniffing loop over the chunk frames
  _VarintBytes / _DecodeVarint32                   (google.protobuf.internal, pure Python) varint codec
  get_archive_info_and_remainder,
  IWAArchiveSegment.from_buffer / to_buffer        varint-prefixed ArchiveInfo, per-message slicing by
                                                   message_info.length, should_merge/patch class choice,
                                                   length fix-up on encode
  IWACompressedChunk.from_buffer, IWAFile.from_buffer / to_buffer

Third-party functions are the fields of `Ext` (snappy compress/uncompress, protobuf parse/serialise of
ArchiveInfo and of messages, the accessors of a parsed ArchiveInfo).  Nothing is assumed of them here;
the laws they must satisfy are hypotheses of the theorems in Props/C05.lean.
-/
import NumbersModel.Py.Basic
namespace NumbersModel.Iwa
open NumbersModel

/-- the slice size of `IWACompressedChunk.to_buffer` (`uncompressed[:65536]`). -/
def chunkSize : Nat := 65536

/-! ### chunk framing -/

/-- `struct.pack("<I", n)[:3]` : struct.error for n ≥ 2^32, otherwise the low three bytes
    (a length ≥ 2^24 is *silently truncated* by the `[:3]`). -/
def le24 (n : Nat) : PyM Bytes :=
  if n < 4294967296 then
    .ok [UInt8.ofNat (n % 256), UInt8.ofNat (n / 256 % 256), UInt8.ofNat (n / 65536 % 256)]
  else .error .StructError

/-- `unpack("<I", bytes(header[1:]) + b"\x00")[0]` for `header = data[:4]` (1..4 bytes):
    struct.error unless the header has exactly four bytes. -/
def unle24 (header : Bytes) : PyM Nat :=
  match header with
  | [_, a, b, c] => .ok (a.toNat + 256 * b.toNat + 65536 * c.toNat)
  | _ => .error .StructError

/-- `b"\x00" + struct.pack("<I", len(payload))[:3] + payload`. -/
def frameChunk (payload : Bytes) : PyM Bytes := do
  let l ← le24 payload.length
  .ok ((0 : UInt8) :: l ++ payload)

/-- the `while uncompressed:` loop of `to_buffer`: slices of at most `k` bytes. -/
def slices (k : Nat) : Nat → Bytes → PyM (List Bytes)
  | 0, s => if s.isEmpty then .ok [] else .error .OutOfFuel
  | fuel + 1, s =>
    if s.isEmpty then .ok []
    else do
      let r ← slices k fuel (s.drop k)
      .ok (s.take k :: r)

/-- frames for a list of payloads, concatenated (`b"".join([...])`). -/
def frameAll : List Bytes → PyM Bytes
  | [] => .ok []
  | p :: ps => do
    let f ← frameChunk p
    let r ← frameAll ps
    .ok (f ++ r)

/-- second half of `IWACompressedChunk.to_buffer` on the uncompressed stream. -/
def frameStream (compress : Bytes → Bytes) (s : Bytes) : PyM Bytes := do
  let sl ← slices chunkSize s.length s
  frameAll (sl.map compress)

/-- `b"".join(cls._decompress_all(data))`. -/
def decompressAll (uncompress : Bytes → PyM Bytes) : Nat → Bytes → PyM Bytes
  | 0, data => if data.isEmpty then .ok [] else .error .OutOfFuel
  | fuel + 1, data =>
    match data with
    | [] => .ok []
    | first :: _ =>
      if first ≠ 0 then .error .ValueError
      else do
        let length ← unle24 (data.take 4)
        let chunk := (data.drop 4).take length
        let rest := data.drop (4 + length)
        let piece := match uncompress chunk with
          | .ok x => x
          | .error _ => chunk          -- `except Exception: yield chunk`
        let more ← decompressAll uncompress fuel rest
        .ok (piece ++ more)

def decompress (uncompress : Bytes → PyM Bytes) (data : Bytes) : PyM Bytes :=
  decompressAll uncompress data.length data

/-- the loop of `is_iwa_file(data)`; `none` = `return False` (marker byte not zero),
    `some n` = the accumulated `length` when the data is used up. -/
def isIwaLoop : Nat → Bytes → Nat → PyM (Option Nat)
  | 0, data, acc => if data.isEmpty then .ok (some acc) else .error .OutOfFuel
  | fuel + 1, data, acc =>
    match data with
    | [] => .ok (some acc)
    | first :: _ =>
      if first ≠ 0 then .ok none
      else do
        let seg ← unle24 (data.take 4)
        isIwaLoop fuel (data.drop (4 + seg)) (acc + (seg + 4))

/-- `is_iwa_file(data)`. -/
def isIwaFile (data : Bytes) : PyM Bool := do
  match ← isIwaLoop data.length data 0 with
  | none => .ok false
  | some n => .ok (n == data.length)

/-! ### varints (`google.protobuf.internal.encoder._VarintBytes`, `decoder._DecodeVarint32`) -/

/-- `_VarintBytes(value)` for `value ≥ 0` : low 7 bits first, continuation bit 0x80. -/
def varintEncAux : Nat → Nat → Bytes
  | 0, _ => []
  | fuel + 1, n =>
    if n / 128 = 0 then [UInt8.ofNat (n % 128)]
    else UInt8.ofNat (128 + n % 128) :: varintEncAux fuel (n / 128)

def varintEnc (n : Nat) : Bytes := varintEncAux (n + 1) n

/-- `_DecodeVarint32(buffer, pos)` : `result |= (b & 0x7f) << shift` (written with `+`/`*`: the new
    bits lie above all bits already set), stop at a byte without 0x80, `result &= 2^32-1`;
    `buffer[pos]` past the end is IndexError; a tenth continuation byte is DecodeError. -/
def varintDecAux (buf : Bytes) : Nat → Nat → Nat → Nat → PyM (Nat × Nat)
  | 0, _, _, _ => .error .OutOfFuel
  | fuel + 1, pos, shift, result =>
    match buf[pos]? with
    | none => .error .IndexError
    | some b =>
      let result := result + (b.toNat % 128) * 2 ^ shift
      if b.toNat / 128 = 0 then .ok (result % 4294967296, pos + 1)
      else if shift + 7 ≥ 64 then .error (.Other "DecodeError")
      else varintDecAux buf fuel (pos + 1) (shift + 7) result

def varintDec32 (buf : Bytes) (pos : Nat) : PyM (Nat × Nat) := varintDecAux buf 10 pos 0 0

/-! ### archive segments -/

/-- the fields of a `TSP.MessageInfo` that the codec reads. -/
structure MsgInfo where
  type : Nat
  length : Nat
  baseIdx : Nat
  deriving DecidableEq, Repr

/-- Third-party functions (parameters of the model).  `H` = a parsed `ArchiveInfo`, `M` = a parsed
    message object (either a generated protobuf class instance or a `ProtobufPatch`). -/
structure Ext (H M : Type) where
  /-- `snappy.compress` -/
  compress : Bytes → Bytes
  /-- `snappy.uncompress` (raises on anything that is not a snappy block) -/
  uncompress : Bytes → PyM Bytes
  /-- `ArchiveInfo.FromString` -/
  parseInfo : Bytes → PyM H
  /-- `header.SerializeToString()` (EncodeError when a required field is missing) -/
  serInfo : H → PyM Bytes
  /-- `not repr(archive_info)` -/
  reprEmpty : H → Bool
  /-- `archive_info.should_merge` -/
  shouldMerge : H → Bool
  /-- `archive_info.message_infos` -/
  infos : H → List MsgInfo
  /-- `header.message_infos[i].length = v` -/
  setLength : H → Nat → Nat → H
  /-- `type in ID_NAME_MAP` -/
  known : Nat → Bool
  /-- `ID_NAME_MAP[type].FromString(payload)`; the flag selects `ProtobufPatch.FromString` -/
  parseMsg : Nat → Bool → Bytes → PyM M
  /-- `obj.SerializeToString()` -/
  serMsg : M → PyM Bytes

structure Seg (H M : Type) where
  header : H
  objects : List M

instance {H M} [DecidableEq H] [DecidableEq M] : DecidableEq (Seg H M) := fun a b =>
  match a, b with
  | ⟨h1, o1⟩, ⟨h2, o2⟩ =>
    if h : h1 = h2 ∧ o1 = o2 then isTrue (by rw [h.1, h.2]) else
      isFalse (fun e => h (by injection e with e1 e2; exact ⟨e1, e2⟩))

def notImplemented : PyExc := .Other "NotImplementedError"

section
variable {H M : Type} (e : Ext H M)

/-- the class chosen for one message: `(type used for the lookup, is it a ProtobufPatch)`.
    `message_infos[base_message_index]` out of range is IndexError (not caught by `except KeyError`);
    an unknown type is the library's `NotImplementedError`. -/
def klassFor (h : H) (mi : MsgInfo) (havePayloads : Bool) : PyM (Nat × Bool) :=
  if mi.type = 0 ∧ e.shouldMerge h = true ∧ havePayloads = true then
    match (e.infos h)[mi.baseIdx]? with
    | none => .error .IndexError
    | some base => if e.known base.type then .ok (base.type, true) else .error notImplemented
  else if e.known mi.type then .ok (mi.type, false) else .error notImplemented

/-- the `for message_info in archive_info.message_infos:` loop; `n` is the running offset. -/
def msgLoop (h : H) (payload : Bytes) : List MsgInfo → Nat → List M → PyM (List M × Nat)
  | [], n, acc => .ok (acc, n)
  | mi :: rest, n, acc => do
    let (t, patch) ← klassFor e h mi (!acc.isEmpty)
    match e.parseMsg t patch ((payload.drop n).take mi.length) with
    | .error _ => .error .ValueError
    | .ok m => msgLoop h payload rest (n + mi.length) (acc ++ [m])

/-- `IWAArchiveSegment.from_buffer(buf)` → (segment, remaining bytes). -/
def segFromBuffer (buf : Bytes) : PyM (Seg H M × Bytes) := do
  let (msgLen, pos) ← varintDec32 buf 0
  let h ← e.parseInfo ((buf.drop pos).take msgLen)
  let payload := buf.drop (pos + msgLen)
  if e.reprEmpty h then .error .ValueError
  else do
    let (objs, n) ← msgLoop e h payload (e.infos h) 0 []
    .ok (⟨h, objs⟩, payload.drop n)

/-- `except EncodeError: raise ValueError` around `len(obj.SerializeToString())`. -/
def encodeErrorToValueError {α} : PyM α → PyM α
  | .error (.Other "EncodeError") => .error .ValueError
  | x => x

/-- the `for obj, message_info in zip(self.objects, self.header.message_infos):` length fix-up. -/
def fixLoop : List M → Nat → H → PyM H
  | [], _, h => .ok h
  | o :: os, i, h =>
    match (e.infos h)[i]? with
    | none => .ok h
    | some mi => do
      let b ← encodeErrorToValueError (e.serMsg o)
      fixLoop os (i + 1) (if b.length ≠ mi.length then e.setLength h i b.length else h)

def serAll : List M → PyM (List Bytes)
  | [] => .ok []
  | o :: os => do
    let b ← e.serMsg o
    let r ← serAll os
    .ok (b :: r)

/-- `IWAArchiveSegment.to_buffer()` → (bytes, header as mutated by the fix-up).
    `header.ByteSize()` is taken to be `len(header.SerializeToString())`. -/
def segToBuffer (s : Seg H M) : PyM (Bytes × Seg H M) := do
  let h ← fixLoop e s.objects 0 s.header
  let hb ← e.serInfo h
  let bs ← serAll e s.objects
  .ok (varintEnc hb.length ++ hb ++ bs.flatten, ⟨h, s.objects⟩)

/-- `b"".join([archive.to_buffer() for archive in self.archives])` (with the mutated segments). -/
def segsToBuffer : List (Seg H M) → PyM (Bytes × List (Seg H M))
  | [] => .ok ([], [])
  | s :: ss => do
    let (b, s') ← segToBuffer e s
    let (r, ss') ← segsToBuffer ss
    .ok (b ++ r, s' :: ss')

/-- the `while data:` loop of `IWACompressedChunk.from_buffer` over the uncompressed stream. -/
def segsFromStream : Nat → Bytes → PyM (List (Seg H M))
  | 0, data => if data.isEmpty then .ok [] else .error .OutOfFuel
  | fuel + 1, data =>
    if data.isEmpty then .ok []
    else do
      let (s, rest) ← segFromBuffer e data
      let more ← segsFromStream fuel rest
      .ok (s :: more)

/-- `IWACompressedChunk.from_buffer(data)` (the second component of its result is always `None`). -/
def chunkFromBuffer (data : Bytes) : PyM (List (Seg H M)) := do
  let s ← decompress e.uncompress data
  segsFromStream e s.length s

/-- `IWACompressedChunk.to_buffer()`. -/
def chunkToBuffer (segs : List (Seg H M)) : PyM Bytes := do
  let (s, _) ← segsToBuffer e segs
  frameStream e.compress s

/-- `IWAFile.from_buffer(data, filename)` : no chunk for empty data, otherwise exactly one chunk
    (the inner call returns `None` as remaining data); with a filename every exception becomes
    ValueError. -/
def fileFromBuffer (hasName : Bool) (data : Bytes) : PyM (List (List (Seg H M))) :=
  if data.isEmpty then .ok []
  else match chunkFromBuffer e data with
    | .ok c => .ok [c]
    | .error x => if hasName then .error .ValueError else .error x

/-- `IWAFile.to_buffer()`. -/
def fileToBuffer : List (List (Seg H M)) → PyM Bytes
  | [] => .ok []
  | c :: cs => do
    let b ← chunkToBuffer e c
    let r ← fileToBuffer cs
    .ok (b ++ r)

end

end NumbersModel.Iwa
