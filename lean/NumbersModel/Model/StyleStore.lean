/-
Model of the style *storage path* (C15): which attribute of a `Style` is written to which field of
which archive, with which conversion, and how it is read back.

Writers (src/numbers_parser/model.py): `add_paragraph_style`, `update_paragraph_style`,
`add_cell_style`; readers: `cell_text_style`, `table_style`, `char_property` / `para_property` /
`cell_property` (own field, else the *one* parent `super.parent`, there the protobuf default when
unset), `cell_alignment`, `cell_bg_color`, `cell_font_color` … `cell_text_wrap`, `rgb`, and
`Style.from_storage` (src/numbers_parser/cell.py) in its evaluation order; `Alignment.__new__` with the
name maps; `create_font_name_map`.

Numbers.  A Python `float` and a protobuf `float` field are rationals; storing into a `float`
field is `Num.f32`, the result of a Python `float` operation is rounded by `Num.f64`.  The
theorems take `Num` as a parameter with the laws they need as hypotheses; the driver runs
`Num.ieee` (correctly rounded binary32 / binary64, round-half-even), which is also what the
colour theorem for the concrete formats is decided with.

Tables (font map, alignment maps, enum members, underline / strikethru numbers, reader
defaults, protobuf defaults) are the regenerated `Gen.Constants`.

Not in the record: `super.style_identifier` (`"numbers-parser-" + name.lower().replace(" ", "-")`,
never read back), `override_count`, the constant colour members (`model`, `a`, `rgbspace`), `technique`
of an image fill.
-/
import NumbersModel.Py.Basic
import NumbersModel.Gen.Constants
namespace NumbersModel.StyleStore
open NumbersModel

/-! ### numbers -/

structure Num where
  f32 : Rat → Rat
  f64 : Rat → Rat

def pow2 (e : Int) : Rat :=
  if e ≥ 0 then ((2 ^ e.toNat : Nat) : Rat) else 1 / ((2 ^ (-e).toNat : Nat) : Rat)

/-- Python `round(x)` of a float: to the nearest integer, ties to even. -/
def roundHalfEven (x : Rat) : Int :=
  let f := x.floor
  let d := x - (f : Rat)
  if d < 1 / 2 then f else if 1 / 2 < d then f + 1 else if f % 2 = 0 then f else f + 1

/-- ⌊log2 x⌋ for `x > 0`. -/
def floorLog2 (x : Rat) : Int :=
  let e0 : Int := (Nat.log2 x.num.natAbs : Int) - (Nat.log2 x.den : Int)
  if pow2 e0 ≤ x then (if pow2 (e0 + 1) ≤ x then e0 + 1 else e0) else e0 - 1

/-- correctly rounded binary floating point with `p` significant bits and least exponent `emin`
    of a normal number (gradual underflow below; no overflow: the values of this model are small). -/
def roundBinary (p : Nat) (emin : Int) (x : Rat) : Rat :=
  if x = 0 then 0 else
  let a := if x < 0 then -x else x
  let e := floorLog2 a
  let q := pow2 ((if e < emin then emin else e) - (p : Int) + 1)
  let m : Rat := ((roundHalfEven (a / q) : Int) : Rat) * q
  if x < 0 then -m else m

def Num.ieee : Num := ⟨roundBinary 24 (-126), roundBinary 53 (-1022)⟩

/-! ### values -/

/-- a font name / family as code points -/
abbrev Codes := List Nat

structure Rgb where
  r : Int
  g : Int
  b : Int
  deriving DecidableEq, Repr

/-- a `TSP.Color` message (members `r`, `g`, `b`; float fields) -/
structure ColorArc where
  r : Rat
  g : Rat
  b : Rat
  deriving DecidableEq, Repr

/-- `c / 255` as a Python float, stored into a float field -/
def chanToArc (n : Num) (c : Int) : Rat := n.f32 (n.f64 ((c : Rat) / 255))
/-- `round(x * 255)` -/
def chanOfArc (n : Num) (x : Rat) : Int := roundHalfEven (n.f64 (x * 255))

/-- the dict `{"model": "rgb", "r": c.r / 255, "g": c.g / 255, "b": c.b / 255, …}` -/
def colorToArc (n : Num) (c : Rgb) : ColorArc := ⟨chanToArc n c.r, chanToArc n c.g, chanToArc n c.b⟩
/-- `rgb(obj)` -/
def rgbOfArc (n : Num) (a : ColorArc) : Rgb := ⟨chanOfArc n a.r, chanOfArc n a.g, chanOfArc n a.b⟩

/-- `Style.bg_color`: `None`, an `RGB`, or a list of `RGB` (gradient; read only) -/
inductive Bg where
  | none
  | rgb (c : Rgb)
  | gradient (cs : List Rgb)
  deriving DecidableEq, Repr

/-- a `BackgroundImage`: file name and the identity of its bytes -/
structure Image where
  filename : Text
  data : Nat
  deriving DecidableEq, Repr

/-- the sixteen public attributes of a `Style` (alignment as the two `IntEnum` values) -/
structure Sty where
  halign : Nat
  valign : Nat
  bgImage : Option Image
  bgColor : Bg
  fontColor : Rgb
  fontSize : Rat
  fontName : Codes
  bold : Bool
  italic : Bool
  strikethrough : Bool
  underline : Bool
  firstIndent : Rat
  leftIndent : Rat
  rightIndent : Rat
  textInset : Rat
  textWrap : Bool
  name : Text
  deriving DecidableEq, Repr

/-! ### `Alignment.__new__` -/

def lowerAscii (t : Text) : Text :=
  t.map fun c => if 'A' ≤ c ∧ c ≤ 'Z' then Char.ofNat (c.toNat + 32) else c

def lookupStr {β} : List (String × β) → Text → Option β
  | [], _ => none
  | (k, v) :: rest, t => if k.toList = t then some v else lookupStr rest t

/-- `Alignment(horizontal: str, vertical: str)`: lower-cased names through `HORIZONTAL_MAP` /
    `VERTICAL_MAP`, `TypeError` for a name that is in neither (horizontal checked first). -/
def alignmentOfNames (h v : Text) : PyM (Nat × Nat) :=
  match lookupStr Gen.horizontalMap (lowerAscii h) with
  | none => .error .TypeError
  | some hv =>
    match lookupStr Gen.verticalMap (lowerAscii v) with
    | none => .error .TypeError
    | some vv => .ok (hv, vv)

/-- `HorizontalJustification(x)` / `VerticalJustification(x)`: `ValueError` for a non-member -/
def enumOf (members : List Nat) (x : Nat) : PyM Nat :=
  if members.contains x then .ok x else .error .ValueError

/-! ### fonts -/

/-- `create_font_name_map`: the first name of each family, in dict order. -/
def createFontNameMap : List (Codes × Codes) → List (Codes × Codes) → List (Codes × Codes)
  | [], acc => acc
  | (k, v) :: rest, acc =>
    if (acc.find? (fun e => e.1 = v)).isSome then createFontNameMap rest acc
    else createFontNameMap rest (acc ++ [(v, k)])

def fontFamilyToName : List (Codes × Codes) := createFontNameMap Gen.fontNameToFamily []

def lookupCodes : List (Codes × Codes) → Codes → Option Codes
  | [], _ => none
  | (k, v) :: rest, t => if k = t then some v else lookupCodes rest t

/-- `FONT_FAMILY_TO_NAME[family]` / `FONT_NAME_TO_FAMILY[name]` -/
def dictGet (d : List (Codes × Codes)) (k : Codes) : PyM Codes :=
  match lookupCodes d k with
  | some v => .ok v
  | none => .error .KeyError

/-! ### archives -/

structure CharProps where
  fontColor : Option ColorArc
  bold : Option Bool
  italic : Option Bool
  underline : Option Nat
  strikethru : Option Nat
  fontSize : Option Rat
  fontName : Option Codes
  tsdFill : Option ColorArc          -- `tsd_fill.color`
  deriving DecidableEq, Repr

structure ParaProps where
  alignment : Option Nat
  firstLineIndent : Option Rat
  leftIndent : Option Rat
  rightIndent : Option Rat
  deriving DecidableEq, Repr

/-- a `TSWP.ParagraphStyleArchive` -/
structure ParaArc where
  name : Text                        -- `super.name`
  parent : Option Nat                -- `super.parent.identifier`
  char : CharProps
  para : ParaProps
  deriving DecidableEq, Repr

structure Padding where
  left : Rat
  top : Rat
  right : Rat
  bottom : Rat
  deriving DecidableEq, Repr

/-- a `TSD.FillArchive` (three optional members, not a oneof) -/
structure Fill where
  color : Option ColorArc
  gradient : Option (List ColorArc)  -- colours of `gradient.stops`
  image : Option Nat                 -- `image.imagedata.identifier`
  deriving DecidableEq, Repr

def Fill.empty : Fill := ⟨none, none, none⟩

/-- a `TST.CellStyleArchive` -/
structure CellArc where
  name : Text
  parent : Option Nat
  fill : Option Fill                 -- `cell_properties.cell_fill`
  padding : Option Padding
  textWrap : Option Bool
  verticalAlignment : Option Nat
  deriving DecidableEq, Repr

inductive Obj where
  | para (a : ParaArc)
  | cell (a : CellArc)
  deriving DecidableEq, Repr

/-! ### writers -/

def underlineOf (b : Bool) : Nat := if b then Gen.kSingleUnderline else Gen.kNoUnderline
def strikethruOf (b : Bool) : Nat := if b then Gen.kSingleStrikethru else Gen.kNoStrikethru

/-- `add_paragraph_style`: the archive `create_object_from_dict` builds. -/
def addParagraphStyle (n : Num) (s : Sty) : PyM ParaArc := do
  let font ← dictGet fontFamilyToName s.fontName
  pure {
    name := s.name
    parent := none
    char := {
      fontColor := some (colorToArc n s.fontColor)
      bold := some s.bold
      italic := some s.italic
      underline := some (underlineOf s.underline)
      strikethru := some (strikethruOf s.strikethrough)
      fontSize := some (n.f32 s.fontSize)
      fontName := some font
      tsdFill := some (colorToArc n s.fontColor) }
    para := {
      alignment := some s.halign
      firstLineIndent := some (n.f32 s.firstIndent)
      leftIndent := some (n.f32 s.leftIndent)
      rightIndent := some (n.f32 s.rightIndent) } }

/-- `update_paragraph_style` **as repaired** (fixes/C15-style-rename-is-saved.patch): the same members
    assigned on the existing archive, `super.name` included; the parent reference is left alone. -/
def updateParagraphStyle (n : Num) (s : Sty) (old : ParaArc) : PyM ParaArc := do
  let font ← dictGet fontFamilyToName s.fontName
  pure { old with
    name := s.name
    char := {
      fontColor := some (colorToArc n s.fontColor)
      bold := some s.bold
      italic := some s.italic
      underline := some (underlineOf s.underline)
      strikethru := some (strikethruOf s.strikethrough)
      fontSize := some (n.f32 s.fontSize)
      fontName := some font
      tsdFill := some (colorToArc n s.fontColor) }
    para := {
      alignment := some s.halign
      firstLineIndent := some (n.f32 s.firstIndent)
      leftIndent := some (n.f32 s.leftIndent)
      rightIndent := some (n.f32 s.rightIndent) } }

/-- `update_paragraph_style` of the pinned commit: `super.name` is not assigned, although `name` is one of
    `Style._text_attrs()` (a renamed style keeps its old name in the file). -/
def updateParagraphStylePinned (n : Num) (s : Sty) (old : ParaArc) : PyM ParaArc := do
  let p ← updateParagraphStyle n s old
  pure { p with name := old.name }

/-- the image table of the document: `_images` (digest → identifier) with the `datas` entries
    (identifier → file name) and the next identifier. -/
structure Images where
  entries : List (Nat × Image)       -- identifier, (file_name, bytes)
  next : Nat
  deriving DecidableEq, Repr

/-- the `bg_image` branch of `add_cell_style`: an image with the same bytes re-uses its identifier. -/
def internImage (imgs : Images) (img : Image) : Nat × Images :=
  match imgs.entries.find? (fun e => e.2.data = img.data) with
  | some e => (e.1, imgs)
  | none => (imgs.next, ⟨imgs.entries ++ [(imgs.next, img)], imgs.next + 1⟩)

/-- `add_cell_style`. `bg_image` wins over `bg_color`; a gradient list has no `.r` (AttributeError). -/
def addCellStyle (n : Num) (s : Sty) (imgs : Images) : PyM (CellArc × Images) := do
  let (fill, imgs') ←
    match s.bgImage with
    | some img =>
      let (id, imgs') := internImage imgs img
      pure (some ({ Fill.empty with image := some id }), imgs')
    | none =>
      match s.bgColor with
      | .rgb c => pure (some ({ Fill.empty with color := some (colorToArc n c) }), imgs)
      | .gradient _ => throw .AttributeError
      | .none => pure (none, imgs)
  let p := n.f32 s.textInset
  pure ({
    name := s.name
    parent := none
    fill := fill
    padding := some ⟨p, p, p, p⟩
    textWrap := some s.textWrap
    verticalAlignment := some s.valign }, imgs')

/-! ### readers -/

abbrev Store := List (Nat × Obj)

/-- `self.objects[id]` -/
def getObj (st : Store) (id : Nat) : PyM Obj :=
  match st.find? (fun e => e.1 = id) with
  | some e => .ok e.2
  | none => .error .KeyError

/-- an attribute access on an object of the other archive type has no such member -/
def asPara : Obj → PyM ParaArc
  | .para a => .ok a
  | .cell _ => .error .AttributeError

def asCell : Obj → PyM CellArc
  | .cell a => .ok a
  | .para _ => .error .AttributeError

/-- the table a cell lives in, as far as styles go -/
structure TableCtx where
  styleList : List (Nat × Nat)       -- `styleTable` data list: key → `reference.identifier`
  nRows : Nat
  nHeaderRows : Nat
  nHeaderCols : Nat
  nFooterRows : Nat
  headerRowStyle : Nat
  headerColStyle : Nat
  footerRowStyle : Nat
  bodyStyle : Nat
  deriving DecidableEq, Repr

structure CellIds where
  row : Nat
  col : Nat
  textStyleId : Option Nat
  cellStyleId : Option Nat
  deriving DecidableEq, Repr

/-- `table_style(table_id, key)`: `lookup_value` then `self.objects[…]` -/
def tableStyle (st : Store) (t : TableCtx) (key : Nat) : PyM Obj :=
  match t.styleList.find? (fun e => e.1 = key) with
  | some e => getObj st e.2
  | none => .error .KeyError

/-- `cell_text_style` -/
def cellTextStyle (st : Store) (t : TableCtx) (c : CellIds) : PyM Obj :=
  match c.textStyleId with
  | some k => tableStyle st t k
  | none =>
    if c.row < t.nHeaderRows then getObj st t.headerRowStyle
    else if c.col < t.nHeaderCols then getObj st t.headerColStyle
    else if t.nFooterRows > 0 ∧ ((t.nRows : Int) - t.nFooterRows ≤ c.row ∧ (c.row : Int) < (t.nRows : Int) - t.nFooterRows + t.nFooterRows)
      then getObj st t.footerRowStyle
    else getObj st t.bodyStyle

/-- the parent the `*_property` readers fall back to: `self.objects[style.super.parent.identifier]`
    (identifier 0 when the reference is unset) -/
def parentOf (st : Store) (parent : Option Nat) : PyM Obj := getObj st (parent.getD 0)

/-- `char_property` / `para_property`: own member if set, else the parent's member (its protobuf
    default when the parent does not set it either; no further level). -/
def paraInherit {α} (st : Store) (s : ParaArc) (sel : ParaArc → Option α) (dflt : α) : PyM α :=
  match sel s with
  | some v => .ok v
  | none => do
    let p ← parentOf st s.parent
    let p ← asPara p
    pure ((sel p).getD dflt)

/-- `cell_property` -/
def cellInherit {α} (st : Store) (s : CellArc) (sel : CellArc → Option α) (dflt : α) : PyM α :=
  match sel s with
  | some v => .ok v
  | none => do
    let p ← parentOf st s.parent
    let p ← asCell p
    pure ((sel p).getD dflt)

def pdColor : ColorArc := ⟨Gen.pdColorR, Gen.pdColorG, Gen.pdColorB⟩
def pdPadding : Padding := ⟨Gen.pdPaddingLeft, Gen.pdPaddingLeft, Gen.pdPaddingLeft, Gen.pdPaddingLeft⟩

/-- the cell style of a cell that has one -/
def cellStyleOf (st : Store) (t : TableCtx) (c : CellIds) : PyM (Option CellArc) :=
  match c.cellStyleId with
  | none => .ok none
  | some k => do
    let o ← tableStyle st t k
    let a ← asCell o
    pure (some a)

/-- `cell_alignment` -/
def cellAlignment (st : Store) (t : TableCtx) (c : CellIds) : PyM (Nat × Nat) := do
  let ts ← cellTextStyle st t c
  let ts ← asPara ts
  let h ← paraInherit st ts (·.para.alignment) Gen.pdAlignment
  let h ← enumOf Gen.hjustValues h
  match ← cellStyleOf st t c with
  | none => pure (h, Gen.vjustTop)
  | some cs =>
    let v ← cellInherit st cs (·.verticalAlignment) Gen.pdVerticalAlignment
    let v ← enumOf Gen.vjustValues v
    pure (h, v)

/-- `Cell._image_data` → `BackgroundImage`: the image of the fill, through the `datas` entries
    (`next(...)` over no match is `StopIteration`). -/
def cellImage (st : Store) (t : TableCtx) (imgs : Images) (c : CellIds) : PyM (Option Image) := do
  match ← cellStyleOf st t c with
  | none => pure none
  | some cs =>
    match (cs.fill.getD Fill.empty).image with
    | none => pure none
    | some id =>
      match imgs.entries.find? (fun e => e.1 = id) with
      | some e => pure (some e.2)
      | none => throw (.Other "StopIteration")

/-- `cell_bg_color`: the cell style's own fill only (no parent) -/
def cellBgColor (n : Num) (st : Store) (t : TableCtx) (c : CellIds) : PyM Bg := do
  match ← cellStyleOf st t c with
  | none => pure .none
  | some cs =>
    let f := cs.fill.getD Fill.empty
    match f.color with
    | some col => pure (.rgb (rgbOfArc n col))
    | none =>
      match f.gradient with
      | some stops => pure (.gradient (stops.map (rgbOfArc n)))
      | none => pure .none

/-- `Style.from_storage(cell, model)`: the readers in the order the constructor call evaluates them. -/
def fromStorage (n : Num) (st : Store) (t : TableCtx) (imgs : Images) (c : CellIds) : PyM Sty := do
  let bgImage ← cellImage st t imgs c
  let (h, v) ← cellAlignment st t c
  let bgColor ← cellBgColor n st t c
  let ts ← cellTextStyle st t c
  let ts ← asPara ts
  let fontColor ← paraInherit st ts (·.char.fontColor) pdColor
  let fontSize ← paraInherit st ts (·.char.fontSize) Gen.pdFontSize
  let fontName ← paraInherit st ts (·.char.fontName) Gen.pdFontName
  let fontName ← dictGet Gen.fontNameToFamily fontName
  let bold ← paraInherit st ts (·.char.bold) Gen.pdBold
  let italic ← paraInherit st ts (·.char.italic) Gen.pdItalic
  let strikethru ← paraInherit st ts (·.char.strikethru) Gen.pdStrikethru
  let underline ← paraInherit st ts (·.char.underline) Gen.pdUnderline
  let firstIndent ← paraInherit st ts (·.para.firstLineIndent) Gen.pdFirstLineIndent
  let leftIndent ← paraInherit st ts (·.para.leftIndent) Gen.pdLeftIndent
  let rightIndent ← paraInherit st ts (·.para.rightIndent) Gen.pdRightIndent
  let (textInset, textWrap) ←
    match ← cellStyleOf st t c with
    | none => pure (Gen.defaultTextInset, Gen.defaultTextWrap)
    | some cs => do
      let pad ← cellInherit st cs (·.padding) pdPadding
      let wrap ← cellInherit st cs (·.textWrap) Gen.pdTextWrap
      pure (pad.left, wrap)
  pure {
    halign := h, valign := v, bgImage := bgImage, bgColor := bgColor
    fontColor := rgbOfArc n fontColor, fontSize := fontSize, fontName := fontName
    bold := bold, italic := italic
    strikethrough := strikethru != Gen.kNoStrikethru
    underline := underline != Gen.kNoUnderline
    firstIndent := firstIndent, leftIndent := leftIndent, rightIndent := rightIndent
    textInset := textInset, textWrap := textWrap, name := ts.name }

/-! ### which archive a cell is pointed at -/

/-- the de-duplication key of `update_cell_styles` (as repaired: a tuple), on values:
    `(alignment.vertical, first_indent, left_indent, right_indent, text_inset, text_wrap, repr(bg_color), bg_image.filename)` -/
structure Fingerprint where
  valign : Nat
  firstIndent : Rat
  leftIndent : Rat
  rightIndent : Rat
  textInset : Rat
  textWrap : Bool
  bgColor : Bg
  bgImage : Option Text
  deriving DecidableEq, Repr

def fingerprint (s : Sty) : Fingerprint :=
  ⟨s.valign, s.firstIndent, s.leftIndent, s.rightIndent, s.textInset, s.textWrap, s.bgColor, s.bgImage.map (·.filename)⟩

/-- the `styleTable` data list of a table: (key, referenced object) in list order, and `next_key` -/
structure StyleList where
  entries : List (Nat × Nat)
  nextKey : Nat
  deriving DecidableEq, Repr

/-- `DataLists.lookup_key(table_id, Reference(identifier=obj))` -/
def StyleList.lookupKey (dl : StyleList) (obj : Nat) : Nat × StyleList :=
  match dl.entries.find? (fun e => e.2 = obj) with
  | some e => (e.1, dl)
  | none => (dl.nextKey, ⟨dl.entries ++ [(dl.nextKey, obj)], dl.nextKey + 1⟩)

/-- the style part of `Cell._to_buffer`: a cell whose `_style` is set is pointed at the style's text
    object and cell object (each only if the style has one); a cell without `_style` keeps its ids. -/
def toBufferIds (dl : StyleList) (c : CellIds) (style : Option (Option Nat × Option Nat)) : CellIds × StyleList :=
  match style with
  | none => (c, dl)
  | some (tobj, cobj) =>
    let r1 : CellIds × StyleList :=
      match tobj with
      | some o => ({ c with textStyleId := some (dl.lookupKey o).1 }, (dl.lookupKey o).2)
      | none => (c, dl)
    match cobj with
    | some o => ({ r1.1 with cellStyleId := some (r1.2.lookupKey o).1 }, (r1.2.lookupKey o).2)
    | none => r1

/-- all cells of a table in the order they are saved -/
def toBufferAll : StyleList → List (CellIds × Option (Option Nat × Option Nat)) → List CellIds × StyleList
  | dl, [] => ([], dl)
  | dl, (c, sty) :: rest =>
    let r := toBufferIds dl c sty
    let rs := toBufferAll r.2 rest
    (r.1 :: rs.1, rs.2)

/-! ### a cell that was given a style, saved: write, then read -/

/-- what a reload reads for a cell whose text style and cell style are the archives written for `s`
    (at object identifiers `pid ≠ cid`, under data-list keys `pk ≠ ck`), whatever else is in the store. -/
def storeWith (rest : Store) (pid cid : Nat) (p : ParaArc) (c : CellArc) : Store :=
  (pid, .para p) :: (cid, .cell c) :: rest

/-- the float members of a style as the file can hold them -/
def quantize (n : Num) (s : Sty) : Sty :=
  { s with fontSize := n.f32 s.fontSize, firstIndent := n.f32 s.firstIndent, leftIndent := n.f32 s.leftIndent,
           rightIndent := n.f32 s.rightIndent, textInset := n.f32 s.textInset }

end NumbersModel.StyleStore
