/-
C09 — the RESOLVER SPEC: what a printed reference denotes, read the way a user of Numbers reads it,
given nothing but the document's own names (sheet names, table names, header texts).

This file is specification, not a model of repository code: it shares only the plain data types
`Table / Sheet / Doc / Prefix` with Model/Refs.lean and none of the functions that mirror xrefs.py
(`nameCache`, `scopeOf`, `choosePrefix`, `expandRef`, …) or model.py (`flat`, `sheetOf`, `findTable`).

Reading rules
  * a header cell NAMES its row / column iff its text is non-empty and no other header cell of the same
    table (row header or column header) shows the same text (`labelHits`);
  * an unqualified label denotes the unique such header cell in the host table, else the unique one in the
    host's sheet, else the unique one in the document (`resolveLabel … .none`);
  * `T::label` — the header cell named `label` in the unique table named `T` of the host's sheet, else of
    the document; `S::T::label` — likewise in the unique table `T` of the unique sheet `S`;
  * a span `a:b` is read the same way with "table in which both `a` and `b` are names" (`resolveSpan`).
The text-level reader (`parseRefText`, `resolveText`) splits the qualification at `::` outside quotes,
recognises `$`, quotes, A1 cells, column letters and row numbers, and is what the driver runs on the text
printed by the real library.
-/
import NumbersModel.Model.Refs
namespace NumbersModel.RefsSpec
open NumbersModel
open NumbersModel.Refs (Table Sheet Doc Prefix)

inductive Axis where
  | row | col
  deriving DecidableEq, Repr, Inhabited

/-- (table id, axis, zero-based row / column index) -/
abbrev Target := Nat × Axis × Nat

/-- the header cells of a table with the text they show: the cells of the innermost header column below
    the header rows (they label rows), and the cells of the innermost header row right of the header
    columns (they label columns). -/
def headerCells (t : Table) : List (Axis × Nat × Text) :=
  (if t.nHeaderCols = 0 then [] else
    ((List.range t.nRows).filter (t.nHeaderRows ≤ ·)).filterMap
      (fun r => t.rowLabels[r]?.map (fun l => (Axis.row, r, l)))) ++
  (if t.nHeaderRows = 0 then [] else
    ((List.range t.nCols).filter (t.nHeaderCols ≤ ·)).filterMap
      (fun c => t.colLabels[c]?.map (fun l => (Axis.col, c, l))))

/-- what `lab` denotes inside table `t`: the one header cell showing it — nothing when the text is empty
    or shown by several header cells of `t` (then only coordinates identify those rows / columns). -/
def labelHits (t : Table) (lab : Text) : List Target :=
  if lab = [] then []
  else match (headerCells t).filter (fun c => c.2.2 = lab) with
    | [c] => [(t.id, c.1, c.2.1)]
    | _ => []

/-- both ends of a span `a:b` inside table `t` -/
def spanHits (t : Table) (a b : Text) : List (Target × Target) :=
  match labelHits t a, labelHits t b with
  | [x], [y] => [(x, y)]
  | _, _ => []

/-- the first non-empty level decides: it must hold exactly one candidate. -/
def firstUnique {α : Type} : List (List α) → Option α
  | [] => none
  | [] :: rest => firstUnique rest
  | [x] :: _ => some x
  | _ :: _ => none

def allTables (doc : Doc) : List Table := doc.flatMap (·.tables)

/-- the table(s) with id `host` -/
def hostTables (doc : Doc) (host : Nat) : List Table := (allTables doc).filter (fun t => t.id = host)

/-- the tables of the sheet(s) that contain the host table -/
def hostSheetTables (doc : Doc) (host : Nat) : List Table :=
  (doc.filter (fun s => s.tables.any (fun t => t.id = host))).flatMap (·.tables)

def named (ts : List Table) (n : Text) : List Table := ts.filter (fun t => t.name = n)

/-- generic reader: `f t` = what the label part denotes inside table `t`. -/
def resolveWith {β : Type} (f : Table → List β) (doc : Doc) (host : Nat) : Prefix → Option β
  | .none =>
    firstUnique [(hostTables doc host).flatMap f, (hostSheetTables doc host).flatMap f, (allTables doc).flatMap f]
  | .table tn =>
    match firstUnique [named (hostSheetTables doc host) tn, named (allTables doc) tn] with
    | some t => firstUnique [f t]
    | none => none
  | .sheetTable sn tn =>
    match doc.filter (fun s => s.name = sn) with
    | [s] =>
      match named s.tables tn with
      | [t] => firstUnique [f t]
      | _ => none
    | _ => none

/-- what `[S::][T::]lab`, printed in a formula of table `host`, denotes. -/
def resolveLabel (doc : Doc) (host : Nat) (q : Prefix) (lab : Text) : Option Target :=
  resolveWith (fun t => labelHits t lab) doc host q

/-- what `[S::][T::]a:b` denotes. -/
def resolveSpan (doc : Doc) (host : Nat) (q : Prefix) (a b : Text) : Option (Target × Target) :=
  resolveWith (fun t => spanHits t a b) doc host q

/-- which table a qualification alone denotes (for A1 / numeric references). -/
def resolveQual (doc : Doc) (host : Nat) (q : Prefix) : Option Nat :=
  resolveWith (fun t => [t.id]) doc host q

/-- one level of qualification less. -/
def dropLevel : Prefix → Option Prefix
  | .none => none
  | .table _ => some .none
  | .sheetTable _ t => some (.table t)

/-! ### text level -/

/-- one end of the label part of a printed reference -/
inductive EndTok where
  | cell (r c : Nat) (rAbs cAbs : Bool)
  | row (r : Nat) (abs : Bool)
  | col (c : Nat) (abs : Bool)
  | label (name : Text) (abs : Bool)
  deriving DecidableEq, Repr, Inhabited

inductive SplitSt where
  | out      -- outside quotes
  | colon    -- outside quotes, one `:` seen and not yet placed (only when splitting at `::`)
  | inq      -- inside quotes
  | inqq     -- inside quotes, a quote just seen: closes the stretch unless another quote follows (`''`)
  deriving DecidableEq, Repr, Inhabited

structure SplitState where
  st : SplitSt := .out
  buf : Text := []
  /-- finished parts, last first -/
  acc : List Text := []
  deriving Repr, Inhabited

/-- a character met outside quotes -/
def outStep (two : Bool) (buf : Text) (acc : List Text) (c : Char) : SplitState :=
  if c = '\'' then { st := .inq, buf := buf ++ [c], acc := acc }
  else if c = ':' then
    if two then { st := .colon, buf := buf, acc := acc } else { st := .out, buf := [], acc := buf :: acc }
  else { st := .out, buf := buf ++ [c], acc := acc }

def splitStep (two : Bool) (s : SplitState) (c : Char) : SplitState :=
  match s.st with
  | .out => outStep two s.buf s.acc c
  | .colon =>
    if c = ':' then { st := .out, buf := [], acc := s.buf :: s.acc }
    else outStep two (s.buf ++ [':']) s.acc c
  | .inq =>
    if c = '\'' then { s with st := .inqq, buf := s.buf ++ [c] } else { s with buf := s.buf ++ [c] }
  | .inqq =>
    if c = '\'' then { s with st := .inq, buf := s.buf ++ [c] } else outStep two s.buf s.acc c

/-- split at `::` (`two = true`) or at `:` outside single-quoted stretches; inside quotes `''` is an
    escaped quote.  `none` for an unterminated quote. -/
def splitOutside (two : Bool) (text : Text) : Option (List Text) :=
  let s := text.foldl (splitStep two) {}
  match s.st with
  | .out | .inqq => some (s.buf :: s.acc).reverse
  | .colon => some ((s.buf ++ [':']) :: s.acc).reverse
  | .inq => none

def isUpperAZ (c : Char) : Bool := 'A' ≤ c ∧ c ≤ 'Z'
def isDigit09 (c : Char) : Bool := '0' ≤ c ∧ c ≤ '9'

/-- bijective base 26: A = 0, Z = 25, AA = 26 -/
def colOf (s : Text) : Nat := s.foldl (fun v ch => v * 26 + (ch.toNat - 64)) 0 - 1
def numOf (s : Text) : Nat := s.foldl (fun v ch => v * 10 + (ch.toNat - 48)) 0

def stripDollar : Text → Bool × Text
  | '$' :: r => (true, r)
  | r => (false, r)

/-- `''` → `'` -/
def unescape : Text → Text
  | '\'' :: '\'' :: r => '\'' :: unescape r
  | c :: r => c :: unescape r
  | [] => []

/-- the text inside `'…'` (or `$'…'`, kept with its `$`), if the end is quoted -/
def quotedInner : Text → Option Text
  | '\'' :: r => if r ≠ [] ∧ r.getLast? = some '\'' then some (unescape r.dropLast) else none
  | '$' :: '\'' :: r => if r ≠ [] ∧ r.getLast? = some '\'' then some ('$' :: unescape r.dropLast) else none
  | _ => none

def parseEnd (t : Text) : EndTok :=
  match quotedInner t with
  | some inner => .label (stripDollar inner).2 (stripDollar inner).1
  | none =>
    let s1 := (stripDollar t).2
    let cAbs := (stripDollar t).1
    let ls := s1.takeWhile isUpperAZ
    let s2 := s1.dropWhile isUpperAZ
    let s3 := (stripDollar s2).2
    let rAbs := (stripDollar s2).1
    if ls ≠ [] ∧ s3 ≠ [] ∧ s3.all isDigit09 then .cell (numOf s3 - 1) (colOf ls) rAbs cAbs
    else if ls ≠ [] ∧ s2 = [] then .col (colOf ls) cAbs
    else if s1 ≠ [] ∧ s1.all isDigit09 then .row (numOf s1 - 1) cAbs
    else .label s1 cAbs

/-- qualification and ends of a printed reference text -/
def parseRefText (text : Text) : Option (Prefix × List EndTok) := do
  let parts ← splitOutside true text
  let (q, last) ← (match parts with
    | [l] => some (Prefix.none, l)
    | [t, l] => some (Prefix.table t, l)
    | [s, t, l] => some (Prefix.sheetTable s t, l)
    | _ => none)
  let ends ← splitOutside false last
  if ends.length = 1 ∨ ends.length = 2 then some (q, ends.map parseEnd) else none

/-- a resolved end: a cell, a whole row or a whole column, with its `$` marks -/
inductive Denot where
  | cell (r c : Nat) (rAbs cAbs : Bool)
  | row (r : Nat) (abs : Bool)
  | col (c : Nat) (abs : Bool)
  deriving DecidableEq, Repr, Inhabited

def axisDenot (x : Target) (abs : Bool) : Denot :=
  match x.2.1 with
  | .row => .row x.2.2 abs
  | .col => .col x.2.2 abs

def plainDenot : EndTok → Option Denot
  | .cell r c ra ca => some (.cell r c ra ca)
  | .row r a => some (.row r a)
  | .col c a => some (.col c a)
  | .label _ _ => none

/-- (table id, ends) denoted by a printed reference text read from table `host`. -/
def resolveText (doc : Doc) (host : Nat) (text : Text) : Option (Nat × List Denot) := do
  let (q, ends) ← parseRefText text
  match ends with
  | [.label a aAbs] =>
    let x ← resolveLabel doc host q a
    some (x.1, [axisDenot x aAbs])
  | [.label a aAbs, .label b bAbs] =>
    let (x, y) ← resolveSpan doc host q a b
    some (x.1, [axisDenot x aAbs, axisDenot y bAbs])
  | _ =>
    let t ← resolveQual doc host q
    let ds ← ends.mapM plainDenot
    some (t, ds)

end NumbersModel.RefsSpec
