/-
C06 — storage-layout mechanisms of the reader (src/numbers_parser/model.py, containers.py), core Lean only.

* Python `dict` as an insertion-ordered association list (`dictSet`, `dictGet`).
* `DataLists.add_table` / `lookup_value` / `lookup_key` and `_NumbersModel.table_string`
  (with its `KeyError → ''` fallback) over the entries of a `TST.TableDataList`.
* `row_storage_map` + `storage_buffers` + `storage_buffer`: which stored row record a row index reads.
* `get_storage_buffers_for_row`: byte ("narrow") versus 4-byte-unit ("wide") cell offsets.
* `ObjectStore.store_object` folded over (member order × segment order).

The functions mirror the code *after* the two repairs of this property (fixes/C06-*.patch); the
behaviour of the pinned commit is kept as `…Pinned` so that its failure can be exhibited.
-/
import NumbersModel.Py.Basic
import NumbersModel.Gen.Constants
namespace NumbersModel.Layout
open NumbersModel

/-! ### Python dict: insertion ordered, assignment to an existing key keeps its position -/
section dict
variable {κ β : Type} [DecidableEq κ]

def dictSet : List (κ × β) → κ → β → List (κ × β)
  | [], k, v => [(k, v)]
  | (k', v') :: r, k, v => if k' = k then (k', v) :: r else (k', v') :: dictSet r k v

def dictGet? : List (κ × β) → κ → Option β
  | [], _ => none
  | (k', v') :: r, k => if k' = k then some v' else dictGet? r k

/-- `d[k]` -/
def dictGet (d : List (κ × β)) (k : κ) : PyM β :=
  match dictGet? d k with
  | some v => .ok v
  | none => .error .KeyError

def dictKeys (d : List (κ × β)) : List κ := d.map Prod.fst
end dict

/-! ### lookup lists -/

/-- `TST.TableDataList.ListEntry`: `value` stands for the payload field the list is about
    (`string`, `format`, `reference`, `formula`, `cell_spec` …), compared through `value_key`. -/
structure Entry (ν : Type) where
  key : Nat
  refcount : Nat
  value : ν
  deriving DecidableEq, Repr

/-- the four maps `add_table` builds (`by_key` keeps the payload of the entry object). -/
structure Index (ν : Type) where
  byKey : List (Nat × ν) := []
  keyIndex : List (Nat × Nat) := []
  byValue : List (ν × Nat) := []
  nextKey : Nat := 1
  deriving Repr

variable {ν : Type} [DecidableEq ν]

/-- loop body of `add_table` (after fixes/C06-datalist-index-every-entry.patch): the maximum is
    tracked conditionally, every entry is indexed. -/
def addTableGo : List (Entry ν) → Nat → Nat → Index ν → Index ν
  | [], _, maxKey, st => { st with nextKey := maxKey + 1 }
  | e :: r, i, maxKey, st =>
    addTableGo r (i + 1) (if e.key > maxKey then e.key else maxKey)
      { st with byKey := dictSet st.byKey e.key e.value,
                keyIndex := dictSet st.keyIndex e.key i,
                byValue := dictSet st.byValue e.value e.key }

def addTable (entries : List (Entry ν)) : Index ν := addTableGo entries 0 0 {}

/-- the pinned commit: an entry is indexed only when its key exceeds every earlier key. -/
def addTableGoPinned : List (Entry ν) → Nat → Nat → Index ν → Index ν
  | [], _, maxKey, st => { st with nextKey := maxKey + 1 }
  | e :: r, i, maxKey, st =>
    if e.key > maxKey then
      addTableGoPinned r (i + 1) e.key
        { st with byKey := dictSet st.byKey e.key e.value,
                  keyIndex := dictSet st.keyIndex e.key i,
                  byValue := dictSet st.byValue e.value e.key }
    else addTableGoPinned r (i + 1) maxKey st

def addTablePinned (entries : List (Entry ν)) : Index ν := addTableGoPinned entries 0 0 {}

/-- `DataLists.lookup_value`: `by_key[key]` (KeyError when absent). -/
def lookupValue (idx : Index ν) (key : Nat) : PyM ν := dictGet idx.byKey key

/-- `_NumbersModel.table_string`: `try: lookup_value(…).string  except KeyError: ''`. -/
def tableString (idx : Index Text) (key : Nat) : PyM Text :=
  match lookupValue idx key with
  | .ok s => .ok s
  | .error .KeyError => .ok []
  | .error e => .error e

/-- a loaded list with its index (`self._datalists[table_id]`). -/
structure DataList (ν : Type) where
  entries : List (Entry ν)
  nextListID : Nat
  idx : Index ν

def bumpRefcount : List (Entry ν) → Nat → PyM (List (Entry ν))
  | [], _ => .error .IndexError
  | e :: r, 0 => .ok ({ e with refcount := e.refcount + 1 } :: r)
  | e :: r, i + 1 => (bumpRefcount r i).map (e :: ·)

/-- `DataLists.lookup_key`: the key of a value, allocating a new entry when the value is new. -/
def lookupKey (dl : DataList ν) (value : ν) : PyM (Nat × DataList ν) :=
  match dictGet? dl.idx.byValue value with
  | none =>
    let key := dl.idx.nextKey
    let entries := dl.entries ++ [⟨key, 1, value⟩]
    .ok (key, { entries := entries, nextListID := dl.nextListID + 1,
                idx := { byKey := dictSet dl.idx.byKey key value,
                         keyIndex := dictSet dl.idx.keyIndex key (entries.length - 1),
                         byValue := dictSet dl.idx.byValue value key,
                         nextKey := dl.idx.nextKey + 1 } })
  | some key => do
    let index ← dictGet dl.idx.keyIndex key
    let entries ← bumpRefcount dl.entries index
    pure (key, { dl with entries := entries })

/-! ### row index → stored row record -/

/-- `TST.TileRowInfo` reduced to what the mapping reads; `payload` is the decoded row. -/
structure RowInfo (ρ : Type) where
  tileRowIndex : Nat
  payload : ρ
  deriving Repr

/-- one `TileStorage.Tile` reference with the `TST.Tile` it points to. -/
structure Tile (ρ : Type) where
  tileid : Nat
  rowInfos : List (RowInfo ρ)
  deriving Repr

/-- `tile_size or MAX_TILE_SIZE` -/
def effTileSize (tileSize : Nat) : Nat := if tileSize = 0 then Gen.MAX_TILE_SIZE else tileSize

abbrev RowMap := List (Nat × Option Nat)

/-- `{i: None for i in range(number_of_rows)}` -/
def initRowMap (numRows : Nat) : RowMap := (List.range numRows).map (fun i => (i, none))

variable {ρ : Type}

/-- inner loop of `row_storage_map` (fixed): each row-info goes to the row it declares. -/
def mapRowInfos (base : Nat) : List (RowInfo ρ) → Nat → RowMap → RowMap × Nat
  | [], idx, m => (m, idx)
  | r :: rest, idx, m => mapRowInfos base rest (idx + 1) (dictSet m (base + r.tileRowIndex) (some idx))

def mapTiles (ts : Nat) : List (Tile ρ) → Nat → RowMap → RowMap
  | [], _, m => m
  | t :: rest, idx, m =>
    let (m', idx') := mapRowInfos (t.tileid * ts) t.rowInfos idx m
    mapTiles ts rest idx' m'

def rowStorageMap (numRows tileSize : Nat) (tiles : List (Tile ρ)) : RowMap :=
  mapTiles (effTileSize tileSize) tiles 0 (initRowMap numRows)

/-- the pinned commit: the k-th header record (whatever row it names) gets the k-th stored record. -/
def mapHeadersPinned : List Nat → Nat → RowMap → RowMap
  | [], _, m => m
  | h :: rest, idx, m => mapHeadersPinned rest (idx + 1) (dictSet m h (some idx))

def rowStorageMapPinned (numRows : Nat) (headers : List Nat) : RowMap :=
  mapHeadersPinned headers 0 (initRowMap numRows)

/-- the row index each stored record declares (`tileid · tile_size + tile_row_index`), in storage order. -/
def declaredRows (ts : Nat) (tiles : List (Tile ρ)) : List Nat :=
  (tiles.map (fun t => t.rowInfos.map (fun r => t.tileid * ts + r.tileRowIndex))).flatten

/-- `storage_buffers`: the decoded rows in tile order, then row-info order. -/
def storageBuffers (tiles : List (Tile ρ)) : List ρ :=
  (tiles.map (fun t => t.rowInfos.map (·.payload))).flatten

/-- the row part of `storage_buffer`: KeyError when the row is not a key of the map at all, `None` for an
    unmapped row (before `storage_buffers` is even computed), then whatever decoding the stored rows
    raises, then `None` for a position beyond the list. -/
def storageRowWith {σ : Type} (m : RowMap) (bufs : PyM (List σ)) (row : Nat) : PyM (Option σ) := do
  let off ← dictGet m row
  match off with
  | none => pure none
  | some o => do
    let b ← bufs
    pure b[o]?

def storageRow (numRows tileSize : Nat) (tiles : List (Tile ρ)) (row : Nat) : PyM (Option ρ) :=
  storageRowWith (rowStorageMap numRows tileSize tiles) (.ok (storageBuffers tiles)) row

def storageRowPinned (numRows : Nat) (headers : List Nat) (tiles : List (Tile ρ)) (row : Nat) : PyM (Option ρ) :=
  storageRowWith (rowStorageMapPinned numRows headers) (.ok (storageBuffers tiles)) row

/-- what the mapping can see of a table: declared size, the row-header records (row indices, bucket
    order) and the tiles. -/
structure TableRows (ρ : Type) where
  numRows : Nat
  tileSize : Nat
  headers : List Nat
  tiles : List (Tile ρ)

def readRow (tb : TableRows ρ) (row : Nat) : PyM (Option ρ) := storageRow tb.numRows tb.tileSize tb.tiles row
def readRowPinned (tb : TableRows ρ) (row : Nat) : PyM (Option ρ) :=
  storageRowPinned tb.numRows tb.headers tb.tiles row

/-! ### cell offsets inside a row buffer -/

/-- `array("h", data).tolist()` on a little-endian host. -/
def unpackH : Bytes → PyM (List Int)
  | [] => .ok []
  | [_] => .error .ValueError
  | lo :: hi :: r =>
    let u : Nat := lo.toNat + 256 * hi.toNat
    let v : Int := if u ≥ 32768 then (u : Int) - 65536 else u
    (unpackH r).map (v :: ·)

/-- `struct.pack("<Nh", *l)`; `struct.error` when a value does not fit. -/
def packH : List Int → PyM Bytes
  | [] => .ok []
  | v :: r =>
    if v < -32768 ∨ v > 32767 then .error .StructError else
    let u : Nat := (if v < 0 then v + 65536 else v).toNat
    (packH r).map (fun t => UInt8.ofNat (u % 256) :: UInt8.ofNat (u / 256) :: t)

/-- "Find next positive offset", else the end of the buffer. -/
def nextEnd (bufLen : Nat) : List Int → Int
  | [] => bufLen
  | x :: r => if x ≥ 0 then x else nextEnd bufLen r

/-- the column loop of `get_storage_buffers_for_row`: stops at `num_cols` or at the end of the offsets. -/
def rowCells (buf : Bytes) : List Int → Nat → List (Option Bytes)
  | [], _ => []
  | _ :: _, 0 => []
  | start :: rest, n + 1 =>
    (if start < 0 then none else some (pySlice buf (some start) (some (nextEnd buf.length rest))))
      :: rowCells buf rest n

def getStorageBuffersForRow (buf offsets : Bytes) (numCols : Nat) (wide : Bool) : PyM (List (Option Bytes)) := do
  let offs ← unpackH offsets
  let offs := if wide then offs.map (· * 4) else offs
  pure (rowCells buf offs numCols)

/-- the byte offset that stands for the 4-byte-unit offset `o` (`-1` marks an absent cell). -/
def narrowOf (o : Int) : Int := if o < 0 then -1 else 4 * o

/-- a stored row as it is in the file: buffer, packed offsets, offset width -/
structure RawRow where
  buf : Bytes
  offsets : Bytes
  wide : Bool

/-- `storage_buffer(table, row, col)` over raw row-infos: the map is consulted first, the rows are
    decoded (all of them, in storage order — `storage_buffers`) only for a mapped row. -/
def storageBuffer (numRows numCols tileSize : Nat) (tiles : List (Tile RawRow)) (row col : Nat) :
    PyM (Option Bytes) := do
  let decoded := (storageBuffers tiles).mapM (fun r => getStorageBuffersForRow r.buf r.offsets numCols r.wide)
  match ← storageRowWith (rowStorageMap numRows tileSize tiles) decoded row with
  | none => pure none
  | some cells => pure (match cells[col]? with | some c => c | none => none)

/-! ### object store -/

structure Store (α : Type) where
  objects : List (Nat × α) := []
  fileOf : List (Nat × String) := []

variable {α : Type}

/-- `ObjectStore.store_object` -/
def storeObject (st : Store α) (filename : String) (identifier : Nat) (obj : α) : Store α :=
  { objects := dictSet st.objects identifier obj, fileOf := dictSet st.fileOf identifier filename }

/-- one `.iwa` member: its name and the (identifier, first message) of each archive segment. -/
abbrev Member (α : Type) := String × List (Nat × α)

/-- `_store_blob` over the members in traversal order. -/
def fillStore (members : List (Member α)) : Store α :=
  members.foldl (fun st m => m.2.foldl (fun st s => storeObject st m.1 s.1 s.2) st) {}

def memberIds (members : List (Member α)) : List Nat :=
  (members.map (fun m => m.2.map Prod.fst)).flatten

/-- `max(self._objects.keys())`; ValueError on an empty store. -/
def maxKey : List (Nat × α) → PyM Nat
  | [] => .error .ValueError
  | (k, _) :: r => .ok (r.foldl (fun m kv => if kv.1 > m then kv.1 else m) k)

end NumbersModel.Layout
