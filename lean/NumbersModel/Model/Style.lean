/-
Model of the style bookkeeping that decides what `save` writes (C15):

* `Style.__setattr__` dirty flags, driven by the live tables `Style._text_attrs()` /
  `Style._cell_attrs()` (regenerated into `Gen.Constants`), the dataclass constructor (which
  assigns every field through `__setattr__`) and `Style.from_storage` **as repaired** (flags
  cleared after construction: a style that was only read is not a change;
  fixes/C15-style-read-is-not-a-change.patch);
* the de-duplication key of `update_cell_styles` **as repaired** (a tuple of the attributes;
  fixes/C15-style-fingerprint-tuple.patch) and as pinned (their `str()`s concatenated).

Attribute values cross the boundary as text: for the repaired key the canonical text of the
value (`repr(float(x))` for numbers, so that values that compare equal have equal text), for the
pinned key the `str()` the code concatenates.
-/
import NumbersModel.Py.Basic
import NumbersModel.Gen.Constants
namespace NumbersModel.Style
open NumbersModel

structure Flags where
  updText : Bool
  updCell : Bool
  deriving DecidableEq, Repr

/-- `Style.__setattr__(name, …)` on the flags. -/
def setAttr (f : Flags) (name : String) : Flags :=
  ⟨f.updText || Gen.styleTextAttrs.contains name, f.updCell || Gen.styleCellAttrs.contains name⟩

/-- the dataclass `__init__`: every field is assigned in declaration order. -/
def constructed : Flags := Gen.styleFields.foldl setAttr ⟨false, false⟩

/-- `Style.from_storage` of the pinned commit: the flags the constructor leaves behind. -/
def fromStoragePinned : Flags := constructed

/-- `Style.from_storage` as repaired: both flags cleared after construction. -/
def fromStorage : Flags := ⟨false, false⟩

/-- what `add_cell_style` stores, i.e. what the key has to determine. -/
structure CellAttrs where
  vertical : Text
  firstIndent : Text
  leftIndent : Text
  rightIndent : Text
  textInset : Text
  textWrap : Text
  bgColor : Text      -- pinned: `str(r)+str(g)+str(b)` or empty; repaired: `repr(bg_color)`
  bgImage : Text      -- file name or empty
  deriving DecidableEq, Repr

/-- the pinned fingerprint: a bare concatenation. -/
def keyPinned (a : CellAttrs) : Text :=
  a.vertical ++ a.firstIndent ++ a.leftIndent ++ a.rightIndent ++ a.textInset ++ a.textWrap ++
    a.bgColor ++ a.bgImage

/-- the repaired fingerprint: a tuple. -/
def key (a : CellAttrs) : List Text :=
  [a.vertical, a.firstIndent, a.leftIndent, a.rightIndent, a.textInset, a.textWrap, a.bgColor, a.bgImage]

def indexOf? {κ} [DecidableEq κ] : List κ → κ → Nat → Option Nat
  | [], _, _ => none
  | x :: xs, k, i => if x = k then some i else indexOf? xs k (i + 1)

/-- `update_cell_styles`: cells in row-major order as (`_update_cell_style`, attributes); result is,
    per cell, the number of the cell-style object it is pointed at (in creation order), or `none`
    if the cell is skipped.  `seen` is the `cell_styles` dict (keys in creation order). -/
def dedupGo {κ} [DecidableEq κ] (key : CellAttrs → κ) : List (Bool × CellAttrs) → List κ → List (Option Nat)
  | [], _ => []
  | (false, _) :: rest, seen => none :: dedupGo key rest seen
  | (true, a) :: rest, seen =>
    match indexOf? seen (key a) 0 with
    | some i => some i :: dedupGo key rest seen
    | none => some seen.length :: dedupGo key rest (seen ++ [key a])

def dedup {κ} [DecidableEq κ] (key : CellAttrs → κ) (cells : List (Bool × CellAttrs)) : List (Option Nat) :=
  dedupGo key cells []

end NumbersModel.Style
