/-
Model of the CSV → Numbers → CSV pipeline: `Converter._transform_data` / `Converter.save`
(src/numbers_parser/_csv2numbers.py) and `cell_as_string` / `print_table`
(src/numbers_parser/_cat_numbers.py).

External behaviour is a parameter: `pyFloat v` is the outcome of `float(v.replace(",", ""))`
(ValueError, a finite value, nan or ±inf), `norm` is `re.sub(r"\s+", " ", v.strip())`,
`render` is how the exporter prints a stored number.  Numbers are opaque (`ν`).
Rows are Python dicts keyed by the header cells: `dict(zip(header, row))`, then
`row.values()` — modelled as insertion-ordered association lists.
-/
import NumbersModel.Py.Basic
import NumbersModel.Model.CsvCodec
namespace NumbersModel.Csv
open NumbersModel

inductive FloatCls (ν : Type) where
  | valueError
  | finite (x : ν)
  | nan
  | inf
  deriving Repr

inductive Cell (ν : Type) where
  | text (t : Text)
  | num (x : ν)
  deriving Repr

structure Opts where
  noHeader : Bool
  reverse : Bool
  whitespace : Bool
  deriving Repr

/-- `dict[k] = v` on an insertion-ordered dict: overwrite in place or append. -/
def dictSet {κ} [DecidableEq κ] : List (κ × Text) → κ → Text → List (κ × Text)
  | [], k, v => [(k, v)]
  | (k', v') :: rest, k, v => if k' = k then (k', v) :: rest else (k', v') :: dictSet rest k v

/-- `dict(zip(header, row))` -/
def dictZip {κ} [DecidableEq κ] (header : List κ) (row : List Text) : List (κ × Text) :=
  (header.zip row).foldl (fun d kv => dictSet d kv.1 kv.2) []

/-- the per-cell coercion of `_transform_data` as repaired: only finite floats become numbers. -/
def coerce {ν} (pyFloat : Text → FloatCls ν) (v : Text) : Cell ν :=
  match pyFloat v with
  | .finite x => .num x
  | _ => .text v

/-- the pinned coercion: every successful `float()` is written — nan/inf then crash in `write`. -/
def coercePinned {ν} (pyFloat : Text → FloatCls ν) (v : Text) : PyM (Cell ν) :=
  match pyFloat v with
  | .finite x => .ok (.num x)
  | .valueError => .ok (.text v)
  | _ => .error .ValueError

def dataRow {ν κ} [DecidableEq κ] (pyFloat : Text → FloatCls ν) (norm : Text → Text) (o : Opts)
    (header : List κ) (row : List Text) : List (Cell ν) :=
  (dictZip header row).map (fun kv => coerce pyFloat (if o.whitespace then norm kv.2 else kv.2))

/-- `Converter.__post_init__` on the rows the reader returned (`_read_csv` splits off the header row,
    `_transform_data` builds and coerces the row dicts) and the rows `save` lays out.  A file without any row is
    refused with RuntimeError (fixes/C20-one-line-errors.patch; before it `next(csvreader)` let StopIteration
    escape and `self.data[0]` raised IndexError). -/
def convert {ν} (pyFloat : Text → FloatCls ν) (norm : Text → Text) (o : Opts) (grid : List (List Text)) :
    PyM (List (List (Cell ν))) :=
  if o.noHeader then
    match grid with
    | [] => .error .RuntimeError
    | first :: _ =>
      let rows := if o.reverse then grid.reverse else grid
      .ok (rows.map (dataRow pyFloat norm o (List.range first.length)))
  else
    match grid with
    | [] => .error .RuntimeError
    | header :: data =>
      let rows := if o.reverse then data.reverse else data
      .ok (header.map Cell.text :: rows.map (dataRow pyFloat norm o header))

def maxLen {α} : List (List α) → Nat
  | [] => 0
  | r :: rest => max r.length (maxLen rest)

/-- the table `save` creates: `max(len(row)) ` (at least 1) columns; cells that are never written stay empty and
    are exported as the empty string, like a written `""` -/
def padTable {ν} (rows : List (List (Cell ν))) : List (List (Cell ν)) :=
  let w := max (maxLen rows) 1
  rows.map (fun r => r ++ List.replicate (w - r.length) (Cell.text []))

/-- `cell_as_string` for text and number cells (brief mode, without the formulas or formatting options). -/
def exportCell {ν} (render : ν → Text) : Cell ν → Text
  | .text t => t
  | .num x => render x

def exportGrid {ν} (render : ν → Text) (t : List (List (Cell ν))) : List (List Text) :=
  t.map (·.map (exportCell render))

/-- csv2numbers on the text of a CSV file, then cat-numbers -b on the document: the text printed.
    Saving and reopening the document is the identity on cells here (that is C01's statement). -/
def importExport {ν} (cfg : CsvCodec.Cfg) (pyFloat : Text → FloatCls ν) (norm : Text → Text) (render : ν → Text)
    (o : Opts) (csvText : Text) : PyM Text :=
  match CsvCodec.readGrid cfg csvText with
  | .error e => .error e
  | .ok grid =>
    match convert pyFloat norm o grid with
    | .error e => .error e
    | .ok table => .ok (CsvCodec.writeGrid (exportGrid render (padTable table)))

/-- what one cell of a data row must come back as -/
def cellOut {ν} (pyFloat : Text → FloatCls ν) (norm : Text → Text) (render : ν → Text) (o : Opts) (v : Text) : Text :=
  exportCell render (coerce pyFloat (if o.whitespace then norm v else v))

/-- the grid the export must parse to: the header row unchanged (header mode), the data rows in file order or
    reversed, every data cell as `cellOut` -/
def expectedGrid {ν} (pyFloat : Text → FloatCls ν) (norm : Text → Text) (render : ν → Text) (o : Opts)
    (grid : List (List Text)) : List (List Text) :=
  if o.noHeader then
    (if o.reverse then grid.reverse else grid).map (·.map (cellOut pyFloat norm render o))
  else
    match grid with
    | [] => []
    | header :: data => header :: (if o.reverse then data.reverse else data).map (·.map (cellOut pyFloat norm render o))

end NumbersModel.Csv
