/-
Model of the CSV → Numbers → CSV pipeline: `Converter._transform_data` / `Converter.save`
(src/numbers_parser/_csv2numbers.py) and `cell_as_string` / `print_table`
(src/numbers_parser/_cat_numbers.py).

External behaviour is a parameter: `pyFloat v` is the outcome of `float(v.replace(",", ""))`
(ValueError, a finite value, nan or ±inf), `norm` is `re.sub(r"\s+", " ", v.strip())`,
`render` is how the exporter prints a stored number.  Numbers are opaque (`ν`).
Rows are Python dicts keyed by the header cells: `dict(zip(header, row))`, then
`row.values()` — modelled as insertion-ordered association lists.
-/
import NumbersModel.Py.Basic
namespace NumbersModel.Csv
open NumbersModel

inductive FloatCls (ν : Type) where
  | valueError
  | finite (x : ν)
  | nan
  | inf
  deriving Repr

inductive Cell (ν : Type) where
  | text (t : Text)
  | num (x : ν)
  deriving Repr

structure Opts where
  noHeader : Bool
  reverse : Bool
  whitespace : Bool
  deriving Repr

/-- `dict[k] = v` on an insertion-ordered dict: overwrite in place or append. -/
def dictSet {κ} [DecidableEq κ] : List (κ × Text) → κ → Text → List (κ × Text)
  | [], k, v => [(k, v)]
  | (k', v') :: rest, k, v => if k' = k then (k', v) :: rest else (k', v') :: dictSet rest k v

/-- `dict(zip(header, row))` -/
def dictZip {κ} [DecidableEq κ] (header : List κ) (row : List Text) : List (κ × Text) :=
  (header.zip row).foldl (fun d kv => dictSet d kv.1 kv.2) []

/-- the per-cell coercion of `_transform_data` as repaired: only finite floats become numbers. -/
def coerce {ν} (pyFloat : Text → FloatCls ν) (v : Text) : Cell ν :=
  match pyFloat v with
  | .finite x => .num x
  | _ => .text v

/-- the pinned coercion: every successful `float()` is written — nan/inf then crash in `write`. -/
def coercePinned {ν} (pyFloat : Text → FloatCls ν) (v : Text) : PyM (Cell ν) :=
  match pyFloat v with
  | .finite x => .ok (.num x)
  | .valueError => .ok (.text v)
  | _ => .error .ValueError

def dataRow {ν κ} [DecidableEq κ] (pyFloat : Text → FloatCls ν) (norm : Text → Text) (o : Opts)
    (header : List κ) (row : List Text) : List (Cell ν) :=
  (dictZip header row).map (fun kv => coerce pyFloat (if o.whitespace then norm kv.2 else kv.2))

/-- the table written by `Converter.save` for a CSV grid (first row = header unless `noHeader`). -/
def convert {ν} (pyFloat : Text → FloatCls ν) (norm : Text → Text) (o : Opts) (grid : List (List Text)) :
    List (List (Cell ν)) :=
  if o.noHeader then
    let width := (grid.head?.map List.length).getD 0
    let rows := if o.reverse then grid.reverse else grid
    rows.map (dataRow pyFloat norm o (List.range width))
  else
    match grid with
    | [] => []
    | header :: data =>
      let rows := if o.reverse then data.reverse else data
      header.map Cell.text :: rows.map (dataRow pyFloat norm o header)

/-- `cell_as_string` for text and number cells (brief mode, without the formulas or formatting options). -/
def exportCell {ν} (render : ν → Text) : Cell ν → Text
  | .text t => t
  | .num x => render x

def exportGrid {ν} (render : ν → Text) (t : List (List (Cell ν))) : List (List Text) :=
  t.map (·.map (exportCell render))

end NumbersModel.Csv
