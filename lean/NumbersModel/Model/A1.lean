/-
Model of the A1-notation helpers in src/numbers_parser/xrefs.py
(`xl_col_to_name`, `xl_rowcol_to_cell`, `xl_range`, `xl_cell_to_rowcol`,
`xl_col_to_offset`) and of `parse_numbers_range.col_to_index` in tokenizer.py.

The two regexes
    range_parts = (\$?)([A-Z]{1,3})(\$?)(\d+)        col_parts = (\$?)([A-Z]{1,3})
are used with `re.match` (prefix semantics).  They are modelled by a deterministic
scanner; no backtracking alternative can succeed (after fewer letters the next
character is still a letter), so the scanner is: optional `$`, the maximal run of ASCII
upper-case letters which must have length 1..3 *when digits must follow*, optional `$`,
maximal run of `\d` characters (≥ 1).  For `col_parts` nothing has to follow, so the
greedy `{1,3}` simply takes the first up-to-three letters.
`\d` in a `str` pattern matches every Unicode `Nd` code point; `int()` evaluates them.
The digit blocks are supplied as a parameter (`zeros` : code points of the zero digit of
each block of ten), generated from the running interpreter.
-/
import NumbersModel.Py.Basic
namespace NumbersModel.A1
open NumbersModel

/-- `chr(ord('A') + remainder - 1)` for remainder 1..26 given as `r0 = remainder-1`. -/
def letter (r0 : Nat) : Char := Char.ofNat (65 + r0)

/-- the `while col:` loop of `xl_col_to_name` on the 1-indexed column. -/
def lettersAux : Nat → Nat → List Char → List Char
  | 0, _, acc => acc
  | fuel + 1, col, acc =>
    if col = 0 then acc
    else
      let remainder := if col % 26 = 0 then 26 else col % 26
      lettersAux fuel ((col - 1) / 26) (letter (remainder - 1) :: acc)

/-- letters of the zero-indexed column `c` (no `$`). -/
def letters (c : Nat) : List Char := lettersAux (c + 1) (c + 1) []

/-- `xl_col_to_name(col, col_abs)`. -/
def colName (col : Int) (colAbs : Bool) : PyM Text :=
  if col < 0 then .error .IndexError
  else .ok ((if colAbs then ['$'] else []) ++ letters col.toNat)

/-- `xl_rowcol_to_cell(row, col, row_abs, col_abs)`. -/
def rowcolToCell (row col : Int) (rowAbs colAbs : Bool) : PyM Text :=
  if row < 0 then .error .IndexError
  else if col < 0 then .error .IndexError
  else do
    let cs ← colName col colAbs
    .ok (cs ++ (if rowAbs then ['$'] else []) ++ natStr (row.toNat + 1))

/-- `xl_range(r1, c1, r2, c2)`. -/
def xlRange (r1 c1 r2 c2 : Int) : PyM Text := do
  let a ← rowcolToCell r1 c1 false false
  let b ← rowcolToCell r2 c2 false false
  if a = b then .ok a else .ok (a ++ [':'] ++ b)

/-- the `for expn, char in enumerate(reversed(s))` sum, on the already reversed string. -/
def colSumRev : List Char → Nat → Int
  | [], _ => 0
  | ch :: rest, e => ((ch.toNat : Int) - 65 + 1) * (26 : Int) ^ e + colSumRev rest (e + 1)

/-- `col_to_index(col_str)` (tokenizer.py) and the inner loop of `xl_cell_to_rowcol`:
    1-indexed sum minus one. -/
def colIndex (s : List Char) : Int := colSumRev s.reverse 0 - 1

def isUpper (c : Char) : Bool := 'A' ≤ c ∧ c ≤ 'Z'

/-- value of a `\d` character, `none` if the character is not in any digit block. -/
def digitVal (zeros : List Nat) (c : Char) : Option Nat :=
  match zeros.find? (fun z => z ≤ c.toNat ∧ c.toNat < z + 10) with
  | some z => some (c.toNat - z)
  | none => none

/-- maximal prefix of `\d` characters, as digit values, and the rest. -/
def spanDigits (zeros : List Nat) : List Char → List Nat × List Char
  | [] => ([], [])
  | c :: cs =>
    match digitVal zeros c with
    | some v => let (ds, r) := spanDigits zeros cs; (v :: ds, r)
    | none => ([], c :: cs)

def digitsToNat (ds : List Nat) : Nat := ds.foldl (fun a d => a * 10 + d) 0

def dropDollar : List Char → List Char
  | '$' :: r => r
  | r => r

/-- `xl_cell_to_rowcol(cell_str)` -/
def cellToRowCol (zeros : List Nat) (s : List Char) : PyM (Int × Int) :=
  if s = [] then .ok (0, 0)
  else
    let s1 := dropDollar s
    let ls := s1.takeWhile isUpper
    let s2 := s1.dropWhile isUpper
    if ls.length = 0 ∨ ls.length > 3 then .error .IndexError
    else
      let s3 := dropDollar s2
      let (ds, _) := spanDigits zeros s3
      if ds = [] then .error .IndexError
      else .ok ((digitsToNat ds : Int) - 1, colIndex ls)

/-- `xl_col_to_offset(col_str)` -/
def colToOffset (s : List Char) : PyM Int :=
  if s = [] then .ok 0
  else
    let s1 := dropDollar s
    let ls := (s1.takeWhile isUpper).take 3
    if ls.length = 0 then .error .IndexError
    else .ok (colIndex ls)

/-! ### the two regex matches as group-returning scanners (used by the translated definitions in
`Gen/Translated.lean`; `cellToRowCol` / `colToOffset` above are shown equal to the compositions in
`Lemmas/Translated.lean`) -/

def takeDollar : List Char → List Char
  | '$' :: _ => ['$']
  | _ => []

def isDigitCh (zeros : List Nat) (c : Char) : Bool := (digitVal zeros c).isSome

/-- `range_parts.match(s)` for `(\$?)([A-Z]{1,3})(\$?)(\d+)`: the four groups, `none` if there is no match. -/
def rangePartsMatch (zeros : List Nat) (s : List Char) : Option (Text × Text × Text × Text) :=
  let s1 := dropDollar s
  let ls := s1.takeWhile isUpper
  let s2 := s1.dropWhile isUpper
  if ls.length = 0 ∨ ls.length > 3 then none
  else
    let s3 := dropDollar s2
    let ds := s3.takeWhile (isDigitCh zeros)
    if ds = [] then none
    else some (takeDollar s, ls, takeDollar s2, ds)

/-- `col_parts.match(s)` for `(\$?)([A-Z]{1,3})`. -/
def colPartsMatch (s : List Char) : Option (Text × Text) :=
  let s1 := dropDollar s
  let ls := (s1.takeWhile isUpper).take 3
  if ls.length = 0 then none else some (takeDollar s, ls)

/-- `int(s)` for a string of `\d` characters (any Unicode decimal digits); ValueError otherwise. -/
def intOfDigits (zeros : List Nat) (s : List Char) : PyM Int :=
  if s = [] then .error .ValueError
  else if s.all (isDigitCh zeros) then
    .ok (digitsToNat (s.filterMap (digitVal zeros)) : Int)
  else .error .ValueError

end NumbersModel.A1
