/-
Spec-side reader for C08 (`parse_show_partial`): a precedence-climbing parser over TOKENS for the
operator fragment {atoms, the 12 binary operators, unary minus, postfix percent, parenthesised
expression}.  All binary operators are left-associative, comparisons bind loosest, unary minus binds
tighter than every binary operator, `%` tighter still.  `prec` agrees with the library's own
OPERATOR_PRECEDENCE on the operators it lists (checked in Props/C08).
-/
import NumbersModel.Model.Formula
namespace NumbersModel.Formula.Parse
open NumbersModel NumbersModel.Formula

inductive Tok where
  | atom (n : Nat) | op (o : BinOp) | lp | rp | pct
  deriving DecidableEq, Repr, Inhabited

/-- expression trees of the fragment (`paren` = a LIST node with one element). -/
inductive PE where
  | atom (n : Nat)
  | bin (o : BinOp) (l r : PE)
  | neg (e : PE)
  | pct (e : PE)
  | paren (e : PE)
  deriving DecidableEq, Repr, Inhabited

def prec : BinOp → Nat
  | .pow => 5 | .mul => 4 | .div => 4 | .add => 3 | .sub => 3 | .concat => 2
  | .gt => 1 | .ge => 1 | .lt => 1 | .le => 1 | .eq => 1 | .ne => 1

/-- the token stream of the rendered text. -/
def toks : PE → List Tok
  | .atom n => [.atom n]
  | .bin o l r => toks l ++ .op o :: toks r
  | .neg e => .op .sub :: toks e
  | .pct e => toks e ++ [.pct]
  | .paren e => .lp :: (toks e ++ [.rp])

/-- binding level of the outermost construct. -/
def lvl : PE → Nat
  | .bin o _ _ => prec o
  | .neg _ => 6
  | .pct _ => 7
  | .atom _ => 8
  | .paren _ => 8

/-- parenthesised the way Numbers stores it: an operand that binds looser than its context is wrapped
    in a LIST node (left operands may bind equally: left associativity). -/
def WP : PE → Prop
  | .atom _ => True
  | .bin o l r => WP l ∧ WP r ∧ prec o ≤ lvl l ∧ prec o < lvl r
  | .neg e => WP e ∧ 6 ≤ lvl e
  | .pct e => WP e ∧ 7 ≤ lvl e
  | .paren e => WP e

def pPostfix (e : PE) : List Tok → PE × List Tok
  | .pct :: r => pPostfix (.pct e) r
  | r => (e, r)

mutual
def pPrimary : Nat → List Tok → Option (PE × List Tok)
  | 0, _ => none
  | _ + 1, .atom n :: r => some (.atom n, r)
  | f + 1, .lp :: r =>
    match pExpr f 1 r with
    | some (e, .rp :: r') => some (.paren e, r')
    | _ => none
  | _ + 1, _ => none
def pUnary : Nat → List Tok → Option (PE × List Tok)
  | 0, _ => none
  | f + 1, .op o :: r =>
    if o = .sub then
      match pUnary f r with
      | some (e, r') => some (.neg e, r')
      | none => none
    else none
  | f + 1, .atom n :: r =>
    match pPrimary f (.atom n :: r) with
    | some (e, r') => some (pPostfix e r')
    | none => none
  | f + 1, .lp :: r =>
    match pPrimary f (.lp :: r) with
    | some (e, r') => some (pPostfix e r')
    | none => none
  | _ + 1, .rp :: _ => none
  | _ + 1, .pct :: _ => none
  | _ + 1, [] => none
def pExpr : Nat → Nat → List Tok → Option (PE × List Tok)
  | 0, _, _ => none
  | f + 1, m, ts =>
    match pUnary f ts with
    | some (lhs, r) => pLoop f m lhs r
    | none => none
def pLoop : Nat → Nat → PE → List Tok → Option (PE × List Tok)
  | 0, _, _, _ => none
  | f + 1, m, lhs, .op o :: r =>
    if m ≤ prec o then
      match pExpr f (prec o + 1) r with
      | some (rhs, r') => pLoop f m (.bin o lhs rhs) r'
      | none => none
    else some (lhs, .op o :: r)
  | _ + 1, _, lhs, r => some (lhs, r)
end

/-- the whole input must be one expression. -/
def parse (fuel : Nat) (ts : List Tok) : Option PE :=
  match pExpr fuel 1 ts with
  | some (e, []) => some e
  | _ => none

/-- the fragment inside `Expr` (atoms are opaque reference texts `name n`). -/
def embed (name : Nat → Text) : PE → Expr
  | .atom n => .ref (name n)
  | .bin o l r => .bin o (embed name l) (embed name r)
  | .neg e => .neg (embed name e)
  | .pct e => .pct (embed name e)
  | .paren e => .paren [embed name e]

def tokText (name : Nat → Text) : Tok → Text
  | .atom n => name n
  | .op o => glyph o
  | .lp => ['(']
  | .rp => [')']
  | .pct => ['%']

end NumbersModel.Formula.Parse
