/-
Spec-side reader for C08 (`parse_show`): what a formula TEXT denotes.

`PT` is the tree a text can denote (every constructor of `Formula.Expr` has its counterpart: number /
string / boolean literal, reference text, omitted argument, the 12 binary operators, unary minus,
postfix percent, parenthesised list `(a,b,…)`, function call `NAME(arg,arg,…)` with omitted arguments,
array literal `{a,b;c,d}` as rows).  `canon : Expr → PT` forgets exactly what the text cannot show
(how a number is stored, which of the two boolean node kinds was used, a date literal versus the
`DATE(y,m,d)` call it is printed as, a function id versus its name, an array's flat storage versus
its rows).

`parse` is a fuel-indexed precedence-climbing parser over TOKENS: all binary operators are
left-associative, comparisons bind loosest, unary minus binds tighter than every binary operator, `%`
tighter still; separators are the ones `Formula.function/list/array` print (`,` between arguments,
list elements and array cells, `;` between array rows).  `prec` agrees with the library's own
OPERATOR_PRECEDENCE on the operators it lists (checked in Props/C08).  The character-level lexer is in
Model/FormulaLex.lean.
-/
import NumbersModel.Model.Formula
namespace NumbersModel.Formula.Parse
open NumbersModel NumbersModel.Formula

inductive Tok where
  /-- a decimal number text -/
  | num (t : Text)
  /-- a string literal (content, quotes undoubled) -/
  | str (s : Text)
  | bool (b : Bool)
  /-- a reference / name text -/
  | name (t : Text)
  /-- a function name together with its opening parenthesis -/
  | fn (t : Text)
  | op (o : BinOp) | lp | rp | lb | rb | comma | semi | pct
  deriving DecidableEq, Repr, Inhabited

/-- what a formula text denotes. -/
inductive PT where
  | num (t : Text)
  | str (s : Text)
  | bool (b : Bool)
  | name (t : Text)
  | empty
  | bin (o : BinOp) (l r : PT)
  | neg (e : PT)
  | pct (e : PT)
  | paren (es : List PT)
  | call (f : Text) (args : List PT)
  | arr (rows : List (List PT))
  deriving Repr, Inhabited

def prec : BinOp → Nat
  | .pow => 5 | .mul => 4 | .div => 4 | .add => 3 | .sub => 3 | .concat => 2
  | .gt => 1 | .ge => 1 | .lt => 1 | .le => 1 | .eq => 1 | .ne => 1

mutual
/-- the token stream of the rendered text. -/
def toks : PT → List Tok
  | .num t => [.num t]
  | .str s => [.str s]
  | .bool b => [.bool b]
  | .name t => [.name t]
  | .empty => []
  | .bin o l r => toks l ++ .op o :: toks r
  | .neg e => .op .sub :: toks e
  | .pct e => toks e ++ [.pct]
  | .paren es => .lp :: (toksSeq es ++ [.rp])
  | .call f args => .fn f :: (toksSeq args ++ [.rp])
  | .arr rows => .lb :: (toksRows rows ++ [.rb])
/-- `a,b,c` -/
def toksSeq : List PT → List Tok
  | [] => []
  | e :: es => toks e ++ toksTail es
/-- `,b,c` -/
def toksTail : List PT → List Tok
  | [] => []
  | e :: es => .comma :: (toks e ++ toksTail es)
/-- `a,b;c,d` -/
def toksRows : List (List PT) → List Tok
  | [] => []
  | r :: rs => toksSeq r ++ toksRowsTail rs
/-- `;c,d` -/
def toksRowsTail : List (List PT) → List Tok
  | [] => []
  | r :: rs => .semi :: (toksSeq r ++ toksRowsTail rs)
end

/-- binding level of the outermost construct. -/
def lvl : PT → Nat
  | .bin o _ _ => prec o
  | .neg _ => 6
  | .pct _ => 7
  | .empty => 0
  | _ => 8

def isEmpty : PT → Bool
  | .empty => true
  | _ => false

mutual
/-- a (non-empty) expression parenthesised the way Numbers stores it: an operand that binds looser than
    its context is wrapped in a LIST node (left operands may bind equally: left associativity); omitted
    arguments occur only as arguments of a call with at least two arguments (a lone omitted argument
    prints like no argument at all); lists, arrays and array rows are non-empty. -/
def WP : PT → Bool
  | .num _ => true
  | .str _ => true
  | .bool _ => true
  | .name _ => true
  | .empty => false
  | .bin o l r => WP l && WP r && decide (prec o ≤ lvl l) && decide (prec o < lvl r)
  | .neg e => WP e && decide (6 ≤ lvl e)
  | .pct e => WP e && decide (7 ≤ lvl e)
  | .paren es => !es.isEmpty && WPs es
  | .call _ args => !(args.length == 1 && WPLone args) && WPArgs args
  | .arr rows => !rows.isEmpty && WPRows rows
def WPs : List PT → Bool
  | [] => true
  | e :: es => WP e && WPs es
/-- the list is one omitted argument -/
def WPLone : List PT → Bool
  | [] => false
  | e :: _ => isEmpty e
def WPArgs : List PT → Bool
  | [] => true
  | e :: es => (isEmpty e || WP e) && WPArgs es
def WPRows : List (List PT) → Bool
  | [] => true
  | r :: rs => !r.isEmpty && WPs r && WPRows rs
end

/-- `NAME()` has no argument (a lone omitted argument is not distinguishable from none). -/
def normArgs : List PT → List PT
  | [e] => if isEmpty e then [] else [e]
  | as => as

/-- the input after a leading unary minus. -/
def negTail : List Tok → Option (List Tok)
  | .op .sub :: r => some r
  | _ => none

/-- the next token ends a function argument. -/
def argEnds : List Tok → Bool
  | .comma :: _ => true
  | .rp :: _ => true
  | _ => false

def pPostfix (e : PT) : List Tok → PT × List Tok
  | .pct :: r => pPostfix (.pct e) r
  | r => (e, r)

mutual
def pPrimary : Nat → List Tok → Option (PT × List Tok)
  | 0, _ => none
  | _ + 1, .num t :: r => some (.num t, r)
  | _ + 1, .str s :: r => some (.str s, r)
  | _ + 1, .bool b :: r => some (.bool b, r)
  | _ + 1, .name t :: r => some (.name t, r)
  | f + 1, .fn n :: r =>
    match pArg f r with
    | some (a, r1) =>
      match pArgsTail f r1 with
      | some (as, .rp :: r2) => some (.call n (normArgs (a :: as)), r2)
      | _ => none
    | none => none
  | f + 1, .lp :: r =>
    match pExpr f 1 r with
    | some (e, r1) =>
      match pItemsTail f r1 with
      | some (es, .rp :: r2) => some (.paren (e :: es), r2)
      | _ => none
    | none => none
  | f + 1, .lb :: r =>
    match pExpr f 1 r with
    | some (e, r1) =>
      match pItemsTail f r1 with
      | some (es, r2) =>
        match pRowsTail f r2 with
        | some (rows, .rb :: r3) => some (.arr ((e :: es) :: rows), r3)
        | _ => none
      | none => none
    | none => none
  | _ + 1, _ => none
def pUnary : Nat → List Tok → Option (PT × List Tok)
  | 0, _ => none
  | f + 1, ts =>
    match negTail ts with
    | some r =>
      match pUnary f r with
      | some (e, r') => some (.neg e, r')
      | none => none
    | none =>
      match pPrimary f ts with
      | some (e, r') => some (pPostfix e r')
      | none => none
def pExpr : Nat → Nat → List Tok → Option (PT × List Tok)
  | 0, _, _ => none
  | f + 1, m, ts =>
    match pUnary f ts with
    | some (lhs, r) => pLoop f m lhs r
    | none => none
def pLoop : Nat → Nat → PT → List Tok → Option (PT × List Tok)
  | 0, _, _, _ => none
  | f + 1, m, lhs, .op o :: r =>
    if m ≤ prec o then
      match pExpr f (prec o + 1) r with
      | some (rhs, r') => pLoop f m (.bin o lhs rhs) r'
      | none => none
    else some (lhs, .op o :: r)
  | _ + 1, _, lhs, r => some (lhs, r)
/-- one function argument: nothing at all before `,` or `)` is an omitted argument. -/
def pArg : Nat → List Tok → Option (PT × List Tok)
  | 0, _ => none
  | f + 1, ts => if argEnds ts then some (.empty, ts) else pExpr f 1 ts
/-- `,arg,arg…` -/
def pArgsTail : Nat → List Tok → Option (List PT × List Tok)
  | 0, _ => none
  | f + 1, .comma :: r =>
    match pArg f r with
    | some (a, r1) =>
      match pArgsTail f r1 with
      | some (as, r2) => some (a :: as, r2)
      | none => none
    | none => none
  | _ + 1, r => some ([], r)
/-- `,expr,expr…` -/
def pItemsTail : Nat → List Tok → Option (List PT × List Tok)
  | 0, _ => none
  | f + 1, .comma :: r =>
    match pExpr f 1 r with
    | some (e, r1) =>
      match pItemsTail f r1 with
      | some (es, r2) => some (e :: es, r2)
      | none => none
    | none => none
  | _ + 1, r => some ([], r)
/-- `;row;row…` -/
def pRowsTail : Nat → List Tok → Option (List (List PT) × List Tok)
  | 0, _ => none
  | f + 1, .semi :: r =>
    match pExpr f 1 r with
    | some (e, r1) =>
      match pItemsTail f r1 with
      | some (es, r2) =>
        match pRowsTail f r2 with
        | some (rows, r3) => some ((e :: es) :: rows, r3)
        | none => none
      | none => none
    | none => none
  | _ + 1, r => some ([], r)
end

/-- the whole input must be one expression. -/
def parse (fuel : Nat) (ts : List Tok) : Option PT :=
  match pExpr fuel 1 ts with
  | some (e, []) => some e
  | _ => none

/-- the parser with the fuel that always suffices (Lemmas/FormulaParse `parseToks_toks`). -/
def parseToks (ts : List Tok) : Option PT := parse (4 * ts.length + 3) ts

/-! ### from stored expressions to what their text denotes -/

/-- split into `r` rows of `c` cells. -/
def chunksG {α : Type} : Nat → Nat → List α → List (List α)
  | 0, _, _ => []
  | r + 1, c, xs => xs.take c :: chunksG r c (xs.drop c)

def dateCanon (micros : Int) : PT :=
  let (y, m, d) := civil (epochOrdinal + micros / 86400000000).toNat
  .call "DATE".toList [.num (natStr y), .num (natStr m), .num (natStr d)]

mutual
def canon : Expr → PT
  | .num n => .num (numText n)
  | .str s => .str s
  | .bool _ b => .bool b
  | .date m => dateCanon m
  | .ref t => .name t
  | .empty => .empty
  | .bin op l r => .bin op (canon l) (canon r)
  | .neg e => .neg (canon e)
  | .pct e => .pct (canon e)
  | .paren es => .paren (canonList es)
  | .call f args => .call (funcName f) (canonList args)
  | .arr c r es => .arr (chunksG r c (canonList es))
def canonList : List Expr → List PT
  | [] => []
  | e :: es => canon e :: canonList es
end

mutual
/-- the conventional infix renderer on `PT` (same separators as `Formula.render`). -/
def renderPT : PT → Text
  | .num t => t
  | .str s => quoteLit s
  | .bool b => boolText b
  | .name t => t
  | .empty => []
  | .bin op l r => renderPT l ++ glyph op ++ renderPT r
  | .neg e => '-' :: renderPT e
  | .pct e => renderPT e ++ ['%']
  | .paren es => '(' :: (renderSeq es ++ [')'])
  | .call f args => f ++ '(' :: (renderSeq args ++ [')'])
  | .arr rows => '{' :: (renderRows rows ++ ['}'])
def renderSeq : List PT → Text
  | [] => []
  | e :: es => renderPT e ++ renderTail es
def renderTail : List PT → Text
  | [] => []
  | e :: es => ',' :: (renderPT e ++ renderTail es)
def renderRows : List (List PT) → Text
  | [] => []
  | r :: rs => renderSeq r ++ renderRowsTail rs
def renderRowsTail : List (List PT) → Text
  | [] => []
  | r :: rs => ';' :: (renderSeq r ++ renderRowsTail rs)
end

def opName : BinOp → Text
  | .add => "add".toList | .sub => "sub".toList | .mul => "mul".toList | .div => "div".toList
  | .pow => "pow".toList | .concat => "concat".toList | .gt => "gt".toList | .ge => "ge".toList
  | .lt => "lt".toList | .le => "le".toList | .eq => "eq".toList | .ne => "ne".toList

mutual
/-- a readable s-expression of a tree (used in examples; the driver prints its own encoded form). -/
def sexp : PT → Text
  | .num t => "(num ".toList ++ t ++ [')']
  | .str s => "(str ".toList ++ quoteLit s ++ [')']
  | .bool b => "(bool ".toList ++ boolText b ++ [')']
  | .name t => "(name ".toList ++ t ++ [')']
  | .empty => "(empty)".toList
  | .bin o l r => '(' :: opName o ++ ' ' :: sexp l ++ ' ' :: sexp r ++ [')']
  | .neg e => "(neg ".toList ++ sexp e ++ [')']
  | .pct e => "(pct ".toList ++ sexp e ++ [')']
  | .paren es => "(paren".toList ++ sexps es ++ [')']
  | .call f args => "(call ".toList ++ f ++ sexps args ++ [')']
  | .arr rows => "(arr".toList ++ sexpRows rows ++ [')']
def sexps : List PT → Text
  | [] => []
  | e :: es => ' ' :: sexp e ++ sexps es
def sexpRows : List (List PT) → Text
  | [] => []
  | r :: rs => " (row".toList ++ sexps r ++ [')'] ++ sexpRows rs
end

/-- `Expr` trees whose text is read back: parenthesised the way Numbers stores them. -/
def WellParen (e : Expr) : Bool := WP (canon e)

end NumbersModel.Formula.Parse
