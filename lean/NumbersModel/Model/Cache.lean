/-
Model of the memoisation decorator in src/numbers_parser/numbers_cache.py (`cache(num_args)`):
the key is `".".join(str(args[x]) for x in range(num_args))`; a hit returns the stored value,
a miss computes, stores and returns.  Arguments are modelled as Python ints (table ids, rows,
columns, keys — what the decorated methods of model.py are called with).
-/
import NumbersModel.Py.Basic
namespace NumbersModel.Cache
open NumbersModel

/-- `".".join(str(a) for a in args)` -/
def cacheKey : List Int → Text
  | [] => []
  | [a] => intStr a
  | a :: b :: r => intStr a ++ ['.'] ++ cacheKey (b :: r)

abbrev Store (β : Type) := List (Text × β)

def lookup {β} (s : Store β) (k : Text) : Option β := (s.find? (fun e => e.1 = k)).map (·.2)

/-- one call of a method decorated with `@cache(num_args = args.length)`. -/
def memoCall {β} (f : List Int → β) (s : Store β) (args : List Int) : β × Store β :=
  match lookup s (cacheKey args) with
  | some v => (v, s)
  | none => (f args, (cacheKey args, f args) :: s)

/-- a sequence of calls, all with `n` key arguments, threading the instance's cache. -/
def memoCalls {β} (f : List Int → β) : Store β → List (List Int) → List β × Store β
  | s, [] => ([], s)
  | s, a :: r =>
    let (v, s1) := memoCall f s a
    let (vs, s2) := memoCalls f s1 r
    (v :: vs, s2)

end NumbersModel.Cache
