/-
Model of container loading (C17): `ObjectStore.__init__` (containers.py) → `IWork.open` → `_open`,
`document_version`, `_open_zipfile`, `_read_objects_from_zipfile` (recursion into `Index.zip`),
`_read_objects_from_package`, `_store_blob` (iwork.py), as they are AFTER fixes/C17-load-error-translation.patch:

  * `IWork.open` is a translation boundary around the old body `_open`:
        except (FileError, FileFormatError, UnsupportedError, Warning): raise
        except OSError  -> FileError
        except Exception -> FileFormatError
  * in `_store_blob` the walk over `iwaf.chunks[0].archives` / `archive.objects[0]` is inside the
    `try … except Exception -> FileFormatError` that already surrounded `IWAFile.from_buffer`
  * `ObjectStore.__init__` raises FileFormatError when no object was stored (was: `max()` of an empty sequence)

Every call that leaves the library is a field of `Ext` returning `PyM _` (= it may raise ANY exception);
nothing is assumed about which.  Blobs and opened zip files are opaque ids: the loader never looks inside a
blob except through `is_iwa_file`, `IWAFile.from_buffer`, `plistlib.loads` and `ZipFile(BytesIO(blob))`,
which are externals here (C05 models the first two).  In-memory lookups on an already opened `ZipFile`
(`namelist()`, `filelist`, `getinfo`) are data (`zipNames`).
-/
import NumbersModel.Py.Basic
namespace NumbersModel.Loader
open NumbersModel

/-- what one step of walking a package directory (`iterdir`, `is_dir`, `open`, `read`) produces -/
inductive PkgEntry where
  /-- a file named `index.zip` (any case): the result of `ZipFile(path)` -/
  | indexZip (open_ : PyM Nat)
  /-- any other file: its package-relative name and the result of reading it -/
  | file (name : Text) (read : PyM Nat)

structure Ext where
  /-- `filepath.exists()` -/
  pathExists : PyM Bool
  /-- `handler.allowed_format(filepath.suffix)` (string comparison) -/
  suffixOk : Bool
  /-- `filepath.is_dir()`, first and second call -/
  isDir : Nat → PyM Bool
  /-- `ZipFile(filepath, …)` → id of the opened zip -/
  openZipPath : PyM Nat
  /-- `zipf.namelist()` / `[x.filename for x in zipf.filelist]` -/
  zipNames : Nat → List Text
  /-- `zipf.read(filename)` → blob id -/
  zipRead : Nat → Text → PyM Nat
  /-- `ZipFile(BytesIO(blob))` -/
  openZipBytes : Nat → PyM Nat
  /-- `plistlib.loads(blob)["fileFormatVersion"]`; `none` = present but not a `str` -/
  plistVersion : Nat → PyM (Option Text)
  /-- `handler.allowed_version(version)` for a `str` -/
  versionOk : Text → Bool
  /-- `warnings.warn(…, RuntimeWarning)` at the two call sites (raises iff warnings are escalated) -/
  warn : Nat → PyM Unit
  /-- `is_iwa_file(blob)` -/
  sniff : Nat → PyM Bool
  /-- `IWAFile.from_buffer(blob, filename)` → chunks → archives → (header.identifier, len(objects)) -/
  decode : Nat → Text → PyM (List (List (Nat × Nat)))
  /-- package form: `properties_filename.exists()`, `build_filename.exists()`, reading Properties.plist -/
  propsExists : PyM Bool
  buildExists : PyM Bool
  propsRead : PyM Nat
  /-- package form: the depth-first walk of the folder; a step may raise (iterdir/is_dir/open/read) -/
  pkgSteps : List (PyM PkgEntry)
  /-- `isinstance(e, OSError)` / `isinstance(e, Warning)` for the `except` clauses of `IWork.open` -/
  isOSError : PyExc → Bool
  isWarning : PyExc → Bool
  /-- Python's recursion limit for `Index.zip` inside `Index.zip` … (RecursionError beyond) -/
  depth : Nat

/-- which of the three repairs of fixes/C17-load-error-translation.patch are present.  `fixed` is the code the
    model mirrors; `pinned` is the code before the patch (used only for the counter-example witnesses). -/
structure Variant where
  boundary : Bool      -- `IWork.open` translates what escapes `_open`
  loopInTry : Bool     -- `_store_blob`: the walk over the decoded archives is inside the `try`
  emptyCheck : Bool    -- `ObjectStore.__init__` rejects an empty object store
  deriving DecidableEq, Repr

def fixed : Variant := ⟨true, true, true⟩
def pinned : Variant := ⟨false, false, false⟩

/-- `str.endswith` -/
def endsWith (s suffix : Text) : Bool := suffix.isSuffixOf s

/-- `str.lower()` (ASCII letters only; names with other cased letters are outside the model) -/
def lower (s : Text) : Text := s.map Char.toLower

/-- the handler state: identifiers passed to `store_object`, names passed to `store_file` -/
structure Store where
  objs : List Nat := []
  files : List Text := []
  deriving DecidableEq, Repr

def invalidFile : PyExc := .Other "InvalidFileException"
def recursionError : PyExc := .Other "RecursionError"

/-- the `for archive in iwaf.chunks[0].archives:` loop: `archive.objects[0]` needs one object -/
def storeSegs : List (Nat × Nat) → Store → PyM Store
  | [], st => .ok st
  | (ident, nobj) :: rest, st =>
    if nobj = 0 then .error .IndexError
    else storeSegs rest { st with objs := st.objs ++ [ident] }

/-- `_store_blob(filename, blob)` (fixed: the loop is inside the `try`). -/
def storeBlob (v : Variant) (x : Ext) (filename : Text) (blob : Nat) (st : Store) : PyM Store :=
  if endsWith filename ".iwa".toList then do
    let isIwa ← x.sniff blob                      -- outside the `try`
    if isIwa then
      if v.loopInTry then
        let body : PyM Store := do
          let chunks ← x.decode blob filename
          let c0 ← pyIndex chunks 0                 -- `iwaf.chunks[0]`
          storeSegs c0 st
        match body with
        | .ok st' => .ok { st' with files := st'.files ++ [filename] }
        | .error _ => .error .FileFormatError        -- `except Exception as e: raise FileFormatError`
      else
        match x.decode blob filename with
        | .error _ => .error .FileFormatError
        | .ok chunks => do
          let c0 ← pyIndex chunks 0
          let st' ← storeSegs c0 st
          .ok { st' with files := st'.files ++ [filename] }
    else .ok { st with files := st.files ++ [filename] }
  else .ok { st with files := st.files ++ [filename] }

/-- `_open_zipfile`: only `BadZipFile` is translated here. -/
def openZipfile (r : PyM Nat) : PyM Nat :=
  match r with
  | .error .BadZipFile => .error .FileFormatError
  | r => r

/-- the `for filename in zipf.namelist():` loop; `nested` is `_read_objects_from_zipfile` one level deeper. -/
def readMembers (v : Variant) (x : Ext) (nested : Nat → Store → PyM Store) (zid : Nat) : List Text → Store → PyM Store
  | [], st => .ok st
  | filename :: rest, st => do
    let blob ← x.zipRead zid filename
    let st' ←
      if endsWith (lower filename) "index.zip".toList then do
        let inner ← openZipfile (x.openZipBytes blob)
        nested inner st
      else storeBlob v x filename blob st
    readMembers v x nested zid rest st'

/-- `_read_objects_from_zipfile(zipf)`; `fuel` = remaining recursion depth. -/
def readZip (v : Variant) (x : Ext) : Nat → Nat → Store → PyM Store
  | 0, _, _ => .error recursionError
  | fuel + 1, zid, st =>
    if (x.zipNames zid).contains ".iwph".toList then .error .UnsupportedError     -- `getinfo(".iwph")` found
    else readMembers v x (readZip v x fuel) zid (x.zipNames zid) st

/-- `_read_objects_from_package` flattened to its depth-first sequence of steps. -/
def readPackage (v : Variant) (x : Ext) : List (PyM PkgEntry) → Store → PyM Store
  | [], st => .ok st
  | step :: rest, st => do
    let entry ← step
    let st' ← match entry with
      | .indexZip o => do
        let zid ← openZipfile o
        readZip v x x.depth zid st
      | .file name read => do
        let blob ← read
        storeBlob v x name blob st
    readPackage v x rest st'

def isMetadataName (n : Text) : Bool :=
  endsWith n "Metadata/Properties.plist".toList || endsWith n "Metadata/BuildVersionHistory.plist".toList

/-- `sorted(metadata)[-1]` -/
def lastSorted : List Text → PyM Text
  | [] => .error .IndexError
  | a :: rest => .ok (rest.foldl (fun m s => if m < s then s else m) a)

/-- the `document_version` property; `zid = none` for the package form. -/
def documentVersion (x : Ext) (zid : Option Nat) : PyM (Option Text) := do
  let plistBlob ←
    match zid with
    | none => do
      let p ← x.propsExists
      let both ← if p then x.buildExists else pure false      -- `not a.exists() or not b.exists()`
      if !both then .error .FileFormatError
      else x.propsRead
    | some z => do
      let metadata := (x.zipNames z).filter isMetadataName
      if metadata.length ≠ 2 then .error .FileFormatError
      else do
        let name ← lastSorted metadata
        x.zipRead z name
  match x.plistVersion plistBlob with
  | .ok v => .ok v
  | .error e =>
    if e = invalidFile then do                                  -- `except plistlib.InvalidFileException`
      x.warn 0
      .ok (some [])
    else .error e

/-- `IWork._open(filepath)` (the body of `open` before the fix). -/
def openBody (v : Variant) (x : Ext) : PyM Store := do
  let ex ← x.pathExists
  if !ex then .error .FileError
  else if !x.suffixOk then .error .FileFormatError
  else do
    let d1 ← x.isDir 0
    let zid : Option Nat ← if d1 then pure none else do
      let z ← openZipfile x.openZipPath
      pure (some z)
    let ver ← documentVersion x zid
    match ver with
    | none => .error .TypeError                                  -- `re.sub(…, version)` on a non-str
    | some version => do
      if !x.versionOk version then x.warn 1
      let d2 ← x.isDir 1
      if d2 then readPackage v x x.pkgSteps {}
      else match zid with
        | none => .error .AttributeError                         -- `self._zipf` was never set
        | some z => readZip v x x.depth z {}

def isLibraryError : PyExc → Bool
  | .FileError | .FileFormatError | .UnsupportedError => true
  | _ => false

/-- `IWork.open(filepath)`: the translation boundary. -/
def open_ (v : Variant) (x : Ext) : PyM Store :=
  match openBody v x with
  | .ok st => .ok st
  | .error e =>
    if !v.boundary then .error e
    else if isLibraryError e || x.isWarning e then .error e
    else if x.isOSError e then .error .FileError
    else .error .FileFormatError

/-- `max(self._objects.keys())` then `math.ceil(max_id / 1000000) * 1000000` -/
def roundUpMillion (m : Nat) : Nat := ((m + 999999) / 1000000) * 1000000

/-- `ObjectStore.__init__(filepath)` → (`_max_id`, number of distinct object ids, number of distinct file names). -/
def load (v : Variant) (x : Ext) : PyM (Nat × Nat × Nat) := do
  let st ← open_ v x
  if st.objs.isEmpty then .error (if v.emptyCheck then .FileFormatError else .ValueError)
  else .ok (roundUpMillion (st.objs.foldl max 0), st.objs.eraseDups.length, st.files.eraseDups.length)

/-- `Document.__init__(filename)` after `_NumbersModel(path)` (= `load`) has returned: the eager construction of the
    sheets and tables (`sheet_ids()`, `ItemsList(model, refs, Sheet)`, every `Table.__init__` reading its cells) is a
    computation over the decoded objects, `build`, that may raise ANYTHING when an object the document needs is missing or
    damaged (a `.iwa` member with broken framing is stored as a blob, so its objects are simply absent).  `docBoundary`:
    the constructor translates what escapes that stage (library errors and Warnings pass unchanged). -/
def openDocument {δ} (v : Variant) (docBoundary : Bool) (x : Ext) (build : Nat × Nat × Nat → PyM δ) : PyM δ :=
  match load v x with
  | .error e => .error e
  | .ok st =>
    match build st with
    | .ok d => .ok d
    | .error e =>
      if !docBoundary then .error e
      else if isLibraryError e || x.isWarning e then .error e
      else .error .FileFormatError

end NumbersModel.Loader
