/-
Model of cell addressing and bounds in `Table` (src/numbers_parser/document.py):
`cell`, `_validate_cell_coords` (used by `write`, `set_cell_style`, `set_cell_formatting`,
`set_cell_border`), `iter_rows`, `iter_cols`.  A position is given in A1 form (decoded by
`xl_cell_to_rowcol`, Model/A1.lean) or as a row/column pair.  The table is represented by
its dimensions; which stored cell an access reaches is returned as the index pair used for
`self._data[row][col]` (growth itself is `add_row`/`add_column`, property C03).
-/
import NumbersModel.Model.A1
namespace NumbersModel.Addressing
open NumbersModel NumbersModel.A1

inductive Pos where
  | a1 (s : Text)
  | rc (row col : Int)
  deriving Repr

structure Dims where
  rows : Nat
  cols : Nat
  deriving DecidableEq, Repr

/-- the first lines of `cell` / `_validate_cell_coords`: `(row, col) = xl_cell_to_rowcol(args[0])` or `args`. -/
def resolve (zeros : List Nat) : Pos → PyM (Int × Int)
  | .a1 s => cellToRowCol zeros s
  | .rc r c => .ok (r, c)

/-- `Table.cell(*args)`: the index pair read, or IndexError. -/
def cellRead (zeros : List Nat) (d : Dims) (p : Pos) : PyM (Int × Int) := do
  let (row, col) ← resolve zeros p
  if row ≥ d.rows ∨ row < 0 then .error .IndexError
  else if col ≥ d.cols ∨ col < 0 then .error .IndexError
  else .ok (row, col)

/-- `for _ in range(n, k + 1): add()` — each iteration adds one. -/
def growTo (n : Nat) (k : Int) : Nat := n + (k + 1 - n).toNat

/-- `Table._validate_cell_coords(*args)` (as repaired: negatives rejected before anything grows):
    new dimensions and the index pair addressed. -/
def validate (zeros : List Nat) (maxRows maxCols : Nat) (d : Dims) (p : Pos) : PyM (Dims × (Int × Int)) := do
  let (row, col) ← resolve zeros p
  if row < 0 then .error .IndexError
  else if col < 0 then .error .IndexError
  else if row ≥ maxRows then .error .IndexError
  else if col ≥ maxCols then .error .IndexError
  else .ok (⟨growTo d.rows row, growTo d.cols col⟩, (row, col))

/-- the pinned `_validate_cell_coords`: no negative test; `self._data[row][col]` then wraps. -/
def validatePinned (zeros : List Nat) (maxRows maxCols : Nat) (d : Dims) (p : Pos) : PyM (Dims × (Int × Int)) := do
  let (row, col) ← resolve zeros p
  if row ≥ maxRows then .error .IndexError
  else if col ≥ maxCols then .error .IndexError
  else
    let d' : Dims := ⟨growTo d.rows row, growTo d.cols col⟩
    let r := if row < 0 then row + d'.rows else row
    let c := if col < 0 then col + d'.cols else col
    if r < 0 ∨ c < 0 then .error .IndexError else .ok (d', (r, c))

def rangeIncl (lo hi : Int) : List Int :=
  (List.range (hi + 1 - lo).toNat).map (fun (i : Nat) => lo + Int.ofNat i)

/-- `iter_rows(min_row, max_row, min_col, max_col)` as repaired: the (row, col) index pairs of every
    yielded tuple, in order; bounds are checked before anything is yielded. -/
def iterRows (d : Dims) (minRow maxRow minCol maxCol : Option Int) : PyM (List (List (Int × Int))) :=
  let minRow := minRow.getD 0
  let maxRow := maxRow.getD ((d.rows : Int) - 1)
  let minCol := minCol.getD 0
  let maxCol := maxCol.getD ((d.cols : Int) - 1)
  if minRow < 0 then .error .IndexError
  else if maxRow ≥ d.rows then .error .IndexError
  else if minCol < 0 then .error .IndexError
  else if maxCol ≥ d.cols then .error .IndexError
  else .ok ((rangeIncl minRow maxRow).map (fun r => (rangeIncl minCol maxCol).map (fun c => (r, c))))

/-- `iter_cols`: one tuple per column, rows inside. -/
def iterCols (d : Dims) (minRow maxRow minCol maxCol : Option Int) : PyM (List (List (Int × Int))) :=
  let minRow := minRow.getD 0
  let maxRow := maxRow.getD ((d.rows : Int) - 1)
  let minCol := minCol.getD 0
  let maxCol := maxCol.getD ((d.cols : Int) - 1)
  if minRow < 0 then .error .IndexError
  else if maxRow ≥ d.rows then .error .IndexError
  else if minCol < 0 then .error .IndexError
  else if maxCol ≥ d.cols then .error .IndexError
  else .ok ((rangeIncl minCol maxCol).map (fun c => (rangeIncl minRow maxRow).map (fun r => (r, c))))

/-- what `iter_rows` yields once its bounds prefix has accepted `(minRow, maxRow, minCol, maxCol)` -/
def rowsOf (b : Int × Int × Int × Int) : List (List (Int × Int)) :=
  (rangeIncl b.1 b.2.1).map (fun r => (rangeIncl b.2.2.1 b.2.2.2).map (fun c => (r, c)))

/-- … and `iter_cols` (columns outside, rows inside) -/
def colsOf (b : Int × Int × Int × Int) : List (List (Int × Int)) :=
  (rangeIncl b.2.2.1 b.2.2.2).map (fun c => (rangeIncl b.1 b.2.1).map (fun r => (r, c)))

/-- the pinned `x or default` idiom: `None` and `0` both select the default. -/
def orDefault (x : Option Int) (dflt : Int) : Int :=
  match x with
  | none => dflt
  | some v => if v = 0 then dflt else v

end NumbersModel.Addressing
