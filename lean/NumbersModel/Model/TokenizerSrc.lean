/-
What the definitions translated from `tokenizer.py` (Gen/TrTok.lean) call for the third-party pieces of the source: the
regular expressions.  Each is a hand-derived scanner with its law recorded at the TARGETS entry of harness/py2lean.py that
names it as an extern; the pattern texts are generated constants (Props/C18 `tables_as_modelled`) or literals compared at
translation time.
-/
import NumbersModel.Model.Tokenizer
namespace NumbersModel.Tokenizer
open NumbersModel

/-- `re.match(".+\\(|\\)", value)` as a truth value (in `Token.make_subexp(value, func=True)`): at the start of `value`
    either one or more characters other than a newline followed by `(` (`.+` backtracks, so: some `(` at position ≥ 1 with no
    newline before it), or `)`. -/
def funcSubexpMatch (v : Text) : Bool :=
  match v with
  | [] => false
  | c :: r => (c != '\n' && (r.takeWhile (· != '\n')).contains '(') || c == ')'

/-- `regex.match(s)` of a compiled pattern given by its scanner, `.group(0)` of the match: the matched prefix -/
def reMatch0 (scan : Text → Option Nat) (s : Text) : Option Text := (scan s).map (s.take ·)

/-- `Tokenizer.STRING_REGEXES[delim]`: a dict with exactly the keys `"` and `'` (read from the live class at translation
    time); the values are the two compiled patterns, i.e. the scanners `dqMatch` / `sqMatch`. -/
def stringRegexes (ws : List Nat) (delim : Text) : PyM (Text → Option Text) :=
  if delim = ['"'] then .ok (reMatch0 dqMatch)
  else if delim = ['\''] then .ok (reMatch0 (sqMatch ws))
  else .error .KeyError

end NumbersModel.Tokenizer
