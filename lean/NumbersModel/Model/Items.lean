/-
Model of `ItemsList` (src/numbers_parser/containers.py) and of the name handling in
`Document.add_sheet` / `Sheet._add_table` (src/numbers_parser/document.py).

An item is (id, name, lname) where `lname` is `name.lower()` as computed by the running
interpreter (`str.lower` is third-party behaviour: the harness supplies it, the theorems
hold for every `lower`).  Auto-generated names are `"<Prefix> <n>"`, tested against
`"<prefix> <n>"`; that `("<Prefix> <n>").lower() == "<prefix> <n>"` is a stated hypothesis.
-/
import NumbersModel.Py.Basic
namespace NumbersModel.Items
open NumbersModel

structure Item where
  id : Nat
  name : Text
  lname : Text
  deriving DecidableEq, Repr

abbrev Coll := List Item

/-- `ItemsList.__getitem__` for an `int` key, as repaired (IndexError below `-len`). -/
def getByIndex (items : Coll) (key : Int) : PyM Item :=
  let n : Int := items.length
  let k := if key < 0 then key + n else key
  if k < 0 then .error .IndexError
  else if k ≥ n then .error .IndexError
  else match items[k.toNat]? with
    | some it => .ok it
    | none => .error .IndexError

/-- the pinned code: no lower-bound test, so `items[k]` with `-len ≤ k < 0` wraps again. -/
def getByIndexPinned (items : Coll) (key : Int) : PyM Item :=
  let n : Int := items.length
  let k := if key < 0 then key + n else key
  if k ≥ n then .error .IndexError
  else pyIndex items k

/-- `ItemsList.__getitem__` for a `str` key: first item whose name is exactly `key`. -/
def getByName (items : Coll) (key : Text) : PyM Item :=
  match items.find? (fun it => it.name = key) with
  | some it => .ok it
  | none => .error .KeyError

/-- `ItemsList.__contains__`: `key.lower() in [x.name.lower() for x in items]`. -/
def containsCI (items : Coll) (lkey : Text) : Bool := items.any (fun it => it.lname = lkey)

def autoLower (prefixL : Text) (n : Nat) : Text := prefixL ++ [' '] ++ natStr n
def autoName (prefixU : Text) (n : Nat) : Text := prefixU ++ [' '] ++ natStr n

/-- `while f"sheet {num}" in self._sheets: num += 1`  (fuel = number of items + 1). -/
def pickNum (items : Coll) (prefixL : Text) : Nat → Nat → PyM Nat
  | 0, _ => .error .OutOfFuel
  | fuel + 1, n => if containsCI items (autoLower prefixL n) then pickNum items prefixL fuel (n + 1) else .ok n

/-- name choice of `add_sheet` / `_add_table`: explicit (refused if a sibling has it,
    ignoring case) or the next free generated one. Returns the new collection. -/
def add (items : Coll) (prefixU prefixL : Text) (newId : Nat) (name : Option (Text × Text)) : PyM Coll :=
  match name with
  | some (nm, lnm) =>
    if containsCI items lnm then .error .IndexError
    else .ok (items ++ [⟨newId, nm, lnm⟩])
  | none => do
    let n ← pickNum items prefixL (items.length + 1) 1
    .ok (items ++ [⟨newId, autoName prefixU n, autoLower prefixL n⟩])

/-- `item.name = value` (no check in the code). -/
def rename (items : Coll) (idx : Nat) (nm lnm : Text) : Coll :=
  items.mapIdx (fun i it => if i = idx then { it with name := nm, lname := lnm } else it)

end NumbersModel.Items
