/-
Model of `Tokenizer` in src/numbers_parser/tokenizer.py (class Tokenizer / Token).

State mirrors the Python object: `items` (tokens emitted so far), `stack` (`token_stack`, top
= last element), `token` (the characters of the operand being accumulated) and `rest`
(`formula[offset:]`; the Python offset can run one past the end after the one-character
`≥`/`≤`/`≠` quirk of `parse_operator`, which `List.drop` reproduces).

The two STRING_REGEXES are replaced by deterministic scanners derived from the patterns
(recorded in Gen.stringRegexDq / Gen.stringRegexSq; Props/C18 proves the generated strings
are the ones these scanners were derived from):

  "(?:[^"]*"")*[^"]*"(?!")
      after the opening quote, quote runs of even length are consumed as doubled quotes;
      the first run of odd length ends the match at its last quote (the look-ahead forbids
      ending inside a run); no odd run → no match.
  (?:'[^']*(?:''[^']*)*')(?:\s*:\s*'[^']*(?:''[^']*)*')*
      no look-ahead, greedy with backtracking: the quoted part ends at the *furthest*
      position reachable by consuming doubled quotes, i.e. at the end of the first odd run,
      or — if every run is even — one quote before the end of the last run; each
      `\s*:\s*'…'` continuation either matches whole (same rule) or the match stops.
`Token.make_operand`'s NUMBER/RANGE distinction needs `float()` and is irrelevant to the
property; both are reported as subtype `NR`.
-/
import NumbersModel.Py.Basic
namespace NumbersModel.Tokenizer
open NumbersModel

inductive TType where
  | OPERAND | FUNC | ARRAY | PAREN | SEP | OP_PRE | OP_IN | OP_POST
  deriving DecidableEq, Repr

inductive SubT where
  | none | TEXT | ERROR | LOGICAL | NR | OPEN | CLOSE | ARG | ROW
  deriving DecidableEq, Repr

structure Tok where
  value : Text
  type : TType
  subtype : SubT
  deriving DecidableEq, Repr

structure St where
  items : List Tok
  stack : List Tok
  token : Text
  rest : Text
  deriving Repr

/-- `Token.make_operand` (NUMBER/RANGE merged). -/
def makeOperand (v : Text) : Tok :=
  let st :=
    if v.head? = some '"' then SubT.TEXT
    else if v.head? = some '#' then SubT.ERROR
    else if v = "TRUE".toList ∨ v = "FALSE".toList then SubT.LOGICAL
    else SubT.NR
  ⟨v, .OPERAND, st⟩

/-! ### the string scanners -/

/-- after the opening `"`: characters consumed up to and including the closing quote. -/
def dqScan : List Char → Option Nat
  | [] => none
  | c :: cs =>
    if c ≠ '"' then (dqScan cs).map (· + 1)
    else match cs with
      | '"' :: cs' => (dqScan cs').map (· + 2)
      | _ => some 1

def dqMatch : List Char → Option Nat
  | '"' :: r => (dqScan r).map (· + 1)
  | _ => none

/-- after the opening `'`: `n` characters consumed so far, `fb` the best end found so far
    (reached by giving back the last doubled quote). -/
def sqScan : List Char → Nat → Option Nat → Option Nat
  | [], _, fb => fb
  | c :: cs, n, fb =>
    if c ≠ '\'' then sqScan cs (n + 1) fb
    else match cs with
      | '\'' :: cs' => sqScan cs' (n + 2) (some (n + 1))
      | _ => some (n + 1)

def sqPart : List Char → Option Nat
  | '\'' :: r => (sqScan r 0 none).map (· + 1)
  | _ => none

def isWs (ws : List Nat) (c : Char) : Bool := ws.contains c.toNat

/-- the `(?:\s*:\s*'…')*` continuations: number of further characters matched. -/
def sqCont (ws : List Nat) : Nat → List Char → Nat
  | 0, _ => 0
  | f + 1, s =>
    let s1 := s.dropWhile (isWs ws)
    match s1 with
    | ':' :: s2 =>
      let s3 := s2.dropWhile (isWs ws)
      match sqPart s3 with
      | some n =>
        let used := (s.length - s3.length) + n
        used + sqCont ws f (s.drop used)
      | none => 0
    | _ => 0

def sqMatch (ws : List Nat) (s : List Char) : Option Nat :=
  match sqPart s with
  | some n => some (n + sqCont ws s.length (s.drop n))
  | none => none

/-! ### SN_RE = ^[1-9](\.[0-9]+)?E$  (`$` also matches before one trailing newline) -/

def isDigit09 (c : Char) : Bool := '0' ≤ c ∧ c ≤ '9'

def snTail : List Char → Bool
  | ['E'] => true
  | ['E', '\n'] => true
  | _ => false

def snMatch : List Char → Bool
  | d :: r =>
    if '1' ≤ d ∧ d ≤ '9' then
      match r with
      | '.' :: r' =>
        let ds := r'.takeWhile isDigit09
        ds.length ≥ 1 && snTail (r'.dropWhile isDigit09)
      | _ => snTail r
    else false
  | [] => false

/-! ### one loop iteration -/

def opChars : List Char := "+-*/^&=><%×÷≥≤≠".toList
def twoCharOps : List (List Char) :=
  [">=".toList, "<=".toList, "<>".toList, "≥".toList, "≤".toList, "≠".toList]

def assertEmpty (st : St) : PyM Unit :=
  if st.token ≠ [] then .error .TokenizerError else .ok ()

def saveToken (st : St) : St :=
  if st.token ≠ [] then { st with items := st.items ++ [makeOperand st.token], token := [] } else st

/-- a quoted name may follow a table prefix or a range colon (`Table 1::'a-b'`, `1:'a-b'`):
    `delim == "'" and self.token and self.token[-1].endswith(":")`. -/
def linked (st : St) : Bool :=
  match st.rest with
  | '\'' :: _ => st.token.getLast? = some ':'
  | _ => false

/-- `parse_string` (as repaired: a linked quoted name continues the pending token);
    returns the new state with `rest` advanced by the match length. -/
def quoteGuard (st : St) : PyM Unit := if linked st then .ok () else assertEmpty st

def parseString (ws : List Nat) (st : St) : PyM St := do
  quoteGuard st
  let m := match st.rest with
    | '"' :: _ => dqMatch st.rest
    | _ => sqMatch ws st.rest
  match m with
  | none => .error .TokenizerError
  | some n =>
    if st.token ≠ [] then .ok { st with token := st.token ++ st.rest.take n, rest := st.rest.drop n }
    else .ok { st with items := st.items ++ [makeOperand (st.rest.take n)], rest := st.rest.drop n }

/-- the pinned `parse_string`: every quote needs an empty pending token. -/
def parseStringPinned (ws : List Nat) (st : St) : PyM St := do
  assertEmpty st
  let m := match st.rest with
    | '"' :: _ => dqMatch st.rest
    | _ => sqMatch ws st.rest
  match m with
  | none => .error .TokenizerError
  | some n => .ok { st with items := st.items ++ [makeOperand (st.rest.take n)], rest := st.rest.drop n }

def parseError (codes : List (List Char)) (st : St) : PyM St := do
  assertEmpty st
  match codes.find? (fun e => e.isPrefixOf st.rest) with
  | some e => .ok { st with items := st.items ++ [makeOperand e], rest := st.rest.drop e.length }
  | none => .error .TokenizerError

def parseOperator (st : St) : PyM St :=
  let two := st.rest.take 2
  if twoCharOps.contains two then
    .ok { st with items := st.items ++ [⟨two, .OP_IN, .none⟩], rest := st.rest.drop 2 }
  else
    match st.rest with
    | [] => .error .IndexError
    | c :: r =>
      let tok : Tok :=
        if c = '%' then ⟨[c], .OP_POST, .none⟩
        else if "*/^&=><×÷≥≤≠".toList.contains c then ⟨[c], .OP_IN, .none⟩
        else match st.items.getLast? with
          | none => ⟨[c], .OP_PRE, .none⟩
          | some prev =>
            if prev.subtype = .CLOSE ∨ prev.type = .OP_POST ∨ prev.type = .OPERAND
            then ⟨[c], .OP_IN, .none⟩ else ⟨[c], .OP_PRE, .none⟩
      .ok { st with items := st.items ++ [tok], rest := r }

def parseOpener (st : St) : PyM St :=
  match st.rest with
  | '{' :: r => do
    assertEmpty st
    let t : Tok := ⟨['{'], .ARRAY, .OPEN⟩
    .ok { st with items := st.items ++ [t], stack := st.stack ++ [t], rest := r }
  | '(' :: r =>
    let t : Tok := if st.token ≠ [] then ⟨st.token ++ ['('], .FUNC, .OPEN⟩ else ⟨['('], .PAREN, .OPEN⟩
    .ok { st with items := st.items ++ [t], stack := st.stack ++ [t], token := [], rest := r }
  | _ => .error .TokenizerError

/-- `Token.get_closer` for a token taken from the stack. -/
def getCloser (t : Tok) : Tok :=
  match t.type with
  | .ARRAY => ⟨['}'], .ARRAY, .CLOSE⟩
  | .FUNC => ⟨[')'], .FUNC, .CLOSE⟩
  | _ => ⟨[')'], .PAREN, .CLOSE⟩

/-- `parse_closer`.  `emptyStackExc` is what popping an empty `token_stack` raises. -/
def parseCloser (emptyStackExc : PyExc) (st : St) : PyM St :=
  match st.rest with
  | c :: r =>
    if c ≠ ')' ∧ c ≠ '}' then .error .TokenizerError
    else match st.stack.reverse with
      | [] => .error emptyStackExc
      | top :: below =>
        let t := getCloser top
        if t.value ≠ [c] then .error .TokenizerError
        else .ok { st with items := st.items ++ [t], stack := below.reverse, rest := r }
  | [] => .error .IndexError

def parseSeparator (st : St) : PyM St :=
  match st.rest with
  | ';' :: r => .ok { st with items := st.items ++ [⟨[';'], .SEP, .ROW⟩], rest := r }
  | ',' :: r =>
    let t : Tok := match st.stack.getLast? with
      | none => ⟨[','], .OP_IN, .none⟩
      | some top => if top.type = .PAREN then ⟨[','], .OP_IN, .none⟩ else ⟨[','], .SEP, .ARG⟩
    .ok { st with items := st.items ++ [t], rest := r }
  | _ => .error .TokenizerError

structure Cfg where
  enders : List Char
  codes : List (List Char)
  ws : List Nat
  emptyStackExc : PyExc

/-- one iteration of the `while` loop in `Tokenizer.parse` (requires `rest ≠ []`). -/
def step (cfg : Cfg) (st : St) : PyM St :=
  match st.rest with
  | [] => .ok st
  | c :: r =>
    -- check_scientific_notation
    if (c = '+' ∨ c = '-') ∧ st.token.length ≥ 1 ∧ snMatch st.token then
      .ok { st with token := st.token ++ [c], rest := r }
    else
      let st1 := if cfg.enders.contains c then saveToken st else st
      if c = '"' ∨ c = '\'' then parseString cfg.ws st1
      else if c = '#' then parseError cfg.codes st1
      else if opChars.contains c then parseOperator st1
      else if c = '{' ∨ c = '(' then parseOpener st1
      else if c = ')' ∨ c = '}' then parseCloser cfg.emptyStackExc st1
      else if c = ';' ∨ c = ',' then parseSeparator st1
      else .ok { st1 with token := st1.token ++ [c], rest := r }

def loop (cfg : Cfg) : Nat → St → PyM St
  | 0, st => if st.rest = [] then .ok (saveToken st) else .error .OutOfFuel
  | fuel + 1, st =>
    if st.rest = [] then .ok (saveToken st)
    else do
      let st' ← step cfg st
      loop cfg fuel st'

/-- `Tokenizer(formula).items` -/
def tokenize (cfg : Cfg) (s : Text) : PyM (List Tok) := do
  let st ← loop cfg (s.length + 1) ⟨[], [], [], s⟩
  .ok st.items

end NumbersModel.Tokenizer
