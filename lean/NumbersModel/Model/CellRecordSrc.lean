/-
What the definition translated from `Cell._from_storage` (Gen/TrCellRec.lean) calls for the payload readers the model keeps
uninterpreted: `_unpack_decimal128(b)` and `unpack("<d", b)[0]` hand the payload bytes on (C01 interprets them), or raise what a
short slice makes them raise.
-/
import NumbersModel.Model.CellRecord
namespace NumbersModel.CellRecord
open NumbersModel

/-- `_unpack_decimal128(buffer[offset:offset + 16])`: reads `buffer[15]`, so IndexError on a short slice -/
def readD128 (s : Bytes) : PyM Bytes := if s.length = 16 then .ok s else .error .IndexError

/-- `unpack("<d", buffer[offset:offset + 8])[0]`: struct.error unless there are exactly eight bytes -/
def readDouble (s : Bytes) : PyM Bytes := if s.length = 8 then .ok s else .error .StructError

/-- what the field walk of `_from_storage` has established when it reaches `cell_type = buffer[1]`: `flags`, the raw payloads,
    the fourteen ids of `storage_flags` in class order (`_formula_error_id` is never read) -/
def fieldsView (buf : Bytes) : PyM (Int × Option Bytes × Option Bytes × Option Bytes × Option Int × Option Int × Option Int ×
    Option Int × Option Int × Option Int × Option Int × Option Int × Option Int × Option Int × Option Int × Option Int ×
    Option Int × Option Int) := do
  let version ← pyIndex buf 0
  if version ≠ 5 then throw .UnsupportedError
  let flags ← unpackI32 (bslice buf 8 4)
  let raw ← decodeFields ((flags % 4294967296).toNat) buf
  pure (flags, raw.d128, raw.double, raw.seconds, raw.string.map i32OfBytes, raw.ids.rich, raw.ids.cellStyle,
    raw.ids.textStyle, raw.ids.formula, raw.ids.control, none, raw.ids.suggest, raw.ids.numFmt, raw.ids.curFmt,
    raw.ids.dateFmt, raw.ids.durFmt, raw.ids.textFmt, raw.ids.boolFmt)

/-- a `Raw` that carries only the three payloads (all the dispatch looks at) -/
def payloadRaw (d128 double seconds : Option Bytes) : Raw :=
  { d128 := d128, double := double, seconds := seconds, string := none, rich := none, cellStyle := none,
    textStyle := none, formula := none, control := none, suggest := none, numFmt := none, curFmt := none,
    dateFmt := none, durFmt := none, textFmt := none, boolFmt := none }

/-- the rest of `_from_storage` after the field walk, on what the walk established: the cell-class dispatch on `buffer[1]` (it
    only asks whether the `seconds` / `double` payloads are there) and `_extras` -/
def finishDecode (buf : Bytes) (v : Int × Option Bytes × Option Bytes × Option Bytes × Option Int × Option Int × Option Int ×
    Option Int × Option Int × Option Int × Option Int × Option Int × Option Int × Option Int × Option Int × Option Int ×
    Option Int × Option Int) : PyM Decoded := do
  let (flags, d128, double, seconds, sid, rich, cellStyle, textStyle, formula, control, _ferr, suggest, numFmt, curFmt,
    dateFmt, durFmt, textFmt, boolFmt) := v
  let ctype ← pyIndex buf 1
  let kind ← dispatch ctype (payloadRaw d128 double seconds)
  let extras ← unpackU16 (bslice buf 6 2)
  pure { kind := kind, d128 := d128, double := double, seconds := seconds, stringId := sid,
         ids := { rich := rich, cellStyle := cellStyle, textStyle := textStyle, formula := formula, control := control,
                  suggest := suggest, numFmt := numFmt, curFmt := curFmt, dateFmt := dateFmt, durFmt := durFmt,
                  textFmt := textFmt, boolFmt := boolFmt },
         extras := extras, flags := flags }

end NumbersModel.CellRecord
