/-
Model of cell borders (C15): `CellBorder` setters with `_order` stamps (cell.py),
`cell_for_stroke`, `set_cell_border`, `add_stroke` run patching, `extract_strokes(_in_layers)`
(model.py) and `Table.set_cell_border` (document.py) **as repaired**:

* `Table.set_cell_border` records the stroke first (`add_stroke` stamps `border_value._order`
  with `max_order + 1`) and only then hands the border to the cells, so the cells' "newer wins"
  test sees the real stamp (fixes/C15-stroke-order-before-cells.patch).  `apiStrokePinned` keeps
  the call order of the pinned commit for the counter-example.
* `cell_for_stroke` hands out the anchor of a merge for its bottom (right) edge when the merge is
  one row high (one column wide) (fixes/C15-anchor-outer-edges.patch).

A stroke payload (width, colour, pattern) is an opaque number: the model is about precedence,
not about the encoding of the payload (protobuf float32 width, colour as r/255, checked by the
correspondence run).  Cells are a function `row → col → CellBorder`; the table shape (rows,
columns, which cells are merge anchors / merged placeholders) is `Table`.

Simplification that is justified by a lemma: the `top` setter of `CellBorder` reads the property
`self.top` (None when `_top_merged`) where the other three read the raw slot.  `cell_for_stroke`
never hands out a cell for its top side when that side is merged (`cfs_top_not_merged`), so the
difference is unreachable and all four setters are modelled alike.
-/
import NumbersModel.Py.Basic
namespace NumbersModel.Border
open NumbersModel

inductive Side | top | right | bottom | left
  deriving DecidableEq, Repr

/-- a `Border` object as a cell or a stroke run holds it: payload and `_order` stamp. -/
structure Bd where
  stroke : Nat
  order : Nat
  deriving DecidableEq, Repr

inductive Kind
  | plain
  | anchor (h w : Nat)               -- `is_merged`, `size == (h, w)`
  | ref (rs cs re ce : Nat)          -- `MergedCell` with `rect == (rs, cs, re, ce)`
  deriving DecidableEq, Repr

structure Table where
  nrows : Nat
  ncols : Nat
  kind : Nat → Nat → Kind

/-- `cell_for_stroke(table, side, row, col) is not None` (row, col ≥ 0; the callers test `< 0`). -/
def cfs (t : Table) (sd : Side) (row col : Nat) : Bool :=
  if row ≥ t.nrows ∨ col ≥ t.ncols then false else
  match t.kind row col with
  | .ref rs cs re ce =>
    (match sd with
     | .top => row == rs | .right => col == ce | .bottom => row == re | .left => col == cs)
  | .anchor h w =>
    (match sd with
     | .top => true | .left => true | .bottom => h == 1 | .right => w == 1)
  | .plain => true

/-- `CellBorder._top_merged` etc. as computed by `Cell._set_merge`. -/
def mergedFlag (t : Table) (sd : Side) (row col : Nat) : Bool :=
  match t.kind row col with
  | .ref rs cs re ce =>
    (match sd with
     | .top => row > rs | .right => col < ce | .bottom => row < re | .left => col > cs)
  | _ => false

/-- the four slots `_top`, `_right`, `_bottom`, `_left` of a `CellBorder`. -/
structure CB where
  top : Option Bd := none
  right : Option Bd := none
  bottom : Option Bd := none
  left : Option Bd := none
  deriving DecidableEq, Repr

def CB.get (cb : CB) : Side → Option Bd
  | .top => cb.top | .right => cb.right | .bottom => cb.bottom | .left => cb.left

def CB.set (cb : CB) (sd : Side) (v : Option Bd) : CB :=
  match sd with
  | .top => { cb with top := v } | .right => { cb with right := v }
  | .bottom => { cb with bottom := v } | .left => { cb with left := v }

/-- `if self._x is None or value._order > self._x._order: self._x = value`. -/
def putSlot (old : Option Bd) (v : Bd) : Option Bd :=
  match old with
  | none => some v
  | some o => if v.order > o.order then some v else some o

def CB.put (cb : CB) (sd : Side) (v : Bd) : CB := cb.set sd (putSlot (cb.get sd) v)

abbrev Cells := Nat → Nat → CB

def Cells.empty : Cells := fun _ _ => {}

def Cells.upd (cs : Cells) (r c : Nat) (f : CB → CB) : Cells :=
  fun r' c' => if r' = r ∧ c' = c then f (cs r c) else cs r' c'

def putIf (t : Table) (cs : Cells) (sd : Side) (row col : Nat) (v : Bd) : Cells :=
  if cfs t sd row col then cs.upd row col (fun cb => cb.put sd v) else cs

/-- `_NumbersModel.set_cell_border`: the two cells adjacent to one unit of stroke.
    (`row - 1` / `col - 1` below zero: `cell_for_stroke` returns None.) -/
def setCellBorder (t : Table) (cs : Cells) (row col : Nat) (sd : Side) (v : Bd) : Cells :=
  match sd with
  | .top =>
    let cs := putIf t cs .top row col v
    if row = 0 then cs else putIf t cs .bottom (row - 1) col v
  | .right =>
    let cs := putIf t cs .right row col v
    putIf t cs .left row (col + 1) v
  | .bottom =>
    let cs := putIf t cs .bottom row col v
    putIf t cs .top (row + 1) col v
  | .left =>
    let cs := putIf t cs .left row col v
    if col = 0 then cs else putIf t cs .right row (col - 1) v

/-- `for n in range(start, start + length): set_cell_border(...)` along the stroke. -/
def strokeCells (t : Table) (cs : Cells) (row col : Nat) (sd : Side) (len : Nat) (v : Bd) : Cells :=
  (List.range len).foldl (fun cs i =>
    match sd with
    | .top => setCellBorder t cs row (col + i) sd v
    | .bottom => setCellBorder t cs row (col + i) sd v
    | .left => setCellBorder t cs (row + i) col sd v
    | .right => setCellBorder t cs (row + i) col sd v) cs

/-! ### stroke layers -/

structure Run where
  origin : Nat
  len : Nat
  bd : Bd
  deriving DecidableEq, Repr

structure Layer where
  index : Nat
  runs : List Run
  deriving DecidableEq, Repr

structure Sidecar where
  top : List Layer := []
  left : List Layer := []
  right : List Layer := []
  bottom : List Layer := []
  maxOrder : Nat := 0
  deriving DecidableEq, Repr

def Sidecar.fam (sc : Sidecar) : Side → List Layer
  | .top => sc.top | .left => sc.left | .right => sc.right | .bottom => sc.bottom

def Sidecar.setFam (sc : Sidecar) (sd : Side) (ls : List Layer) : Sidecar :=
  match sd with
  | .top => { sc with top := ls } | .left => { sc with left := ls }
  | .right => { sc with right := ls } | .bottom => { sc with bottom := ls }

/-- one iteration of the run loop in `add_stroke`:
    (the run afterwards, runs appended to the layer, `stroke_patched`). -/
def patchRun (origin len : Nat) (new : Run) (r : Run) : Run × List Run × Bool :=
  let s := r.origin
  let e := r.origin + r.len
  if origin ≤ s ∧ origin + len ≥ e then (new, [], true)                          -- overwrite
  else if origin = s ∧ len < r.len then
    ({ r with origin := origin + len, len := r.len - len }, [], false)             -- head
  else if (s ≤ origin ∧ origin < e) ∧ origin + len = e then
    ({ r with len := r.len - len }, [], false)                                     -- tail
  else if (s ≤ origin ∧ origin < e) ∧ (s ≤ origin + len ∧ origin + len < e) then
    ({ r with len := origin - s },
     [{ r with origin := origin + len, len := e - origin - len }], false)          -- middle
  else (r, [], false)

/-- the whole loop.  (A run appended by the "middle" case starts at `origin + len`; whether or
    not the iterator reaches it, none of the four cases applies to it: `patchRun_tail_inert`.) -/
def patchRuns (origin len : Nat) (new : Run) : List Run → List Run × List Run × Bool
  | [] => ([], [], false)
  | r :: rs =>
    let a := patchRun origin len new r
    let b := patchRuns origin len new rs
    (a.1 :: b.1, a.2.1 ++ b.2.1, a.2.2 || b.2.2)

/-- `stroke_runs.sort(key=lambda x: x.origin)` — a stable sort, written as insertion sort so that
    it reduces in the kernel. -/
def insertRun (x : Run) : List Run → List Run
  | [] => [x]
  | y :: ys => if x.origin ≤ y.origin then x :: y :: ys else y :: insertRun x ys

def sortRuns : List Run → List Run
  | [] => []
  | x :: xs => insertRun x (sortRuns xs)

def patchLayer (origin len : Nat) (new : Run) (l : Layer) : Layer :=
  let p := patchRuns origin len new l.runs
  { l with runs := sortRuns (p.1 ++ p.2.1 ++ (if p.2.2 then [] else [new])) }

/-- `for layer_id in layer_ids: if ….row_column_index == index: stroke_layer = …` — the *last*
    layer with the index is patched. Returns the new list and whether one was found. -/
def patchFamily (idx origin len : Nat) (new : Run) : List Layer → List Layer × Bool
  | [] => ([], false)
  | l :: ls =>
    let r := patchFamily idx origin len new ls
    if r.2 then (l :: r.1, true)
    else if l.index = idx then (patchLayer origin len new l :: ls, true)
    else (l :: ls, false)

def addToFamily (idx origin len : Nat) (new : Run) (ls : List Layer) : List Layer :=
  let r := patchFamily idx origin len new ls
  if r.2 then r.1 else ls ++ [⟨idx, [new]⟩]

/-- layer index and run origin of a stroke starting at (row, col). -/
def layerIdx (sd : Side) (row col : Nat) : Nat :=
  match sd with | .top => row | .bottom => row | .left => col | .right => col
def runOrigin (sd : Side) (row col : Nat) : Nat :=
  match sd with | .top => col | .bottom => col | .left => row | .right => row

/-- `add_stroke`: bump `max_order`, stamp the border, patch or create the layer. -/
def addStroke (sc : Sidecar) (sd : Side) (row col len stroke : Nat) : Sidecar × Bd :=
  let bd : Bd := ⟨stroke, sc.maxOrder + 1⟩
  let new : Run := ⟨runOrigin sd row col, len, bd⟩
  let sc' := { sc with maxOrder := sc.maxOrder + 1 }
  (sc'.setFam sd (addToFamily (layerIdx sd row col) (runOrigin sd row col) len new (sc.fam sd)), bd)

/-! ### the API call -/

structure Op where
  sd : Side
  row : Nat
  col : Nat
  len : Nat
  stroke : Nat
  deriving DecidableEq, Repr

/-- the "edge is merged; border not set" test of `Table.set_cell_border` (start cell only). -/
def refused (t : Table) (sd : Side) (row col : Nat) : Bool :=
  match t.kind row col with
  | .anchor h w => (sd == .right && decide (w > 1)) || (sd == .bottom && decide (h > 1))
  | .ref rs cs re ce =>
    (sd == .top && decide (rs < row)) || (sd == .right && decide (ce > col)) ||
    (sd == .bottom && decide (re > row)) || (sd == .left && decide (cs < col))
  | .plain => false

structure St where
  cells : Cells
  sc : Sidecar

/-- `Table.set_cell_border` after argument validation, as repaired: stroke recorded (and the
    border stamped) first, cells second. -/
def applyOp (t : Table) (st : St) (op : Op) : St :=
  if refused t op.sd op.row op.col then st else
  let r := addStroke st.sc op.sd op.row op.col op.len op.stroke
  ⟨strokeCells t st.cells op.row op.col op.sd op.len r.2, r.1⟩

def applyOps (t : Table) (st : St) (ops : List Op) : St := ops.foldl (applyOp t) st

/-- with `_validate_cell_coords` (IndexError outside the table). -/
def apiStroke (t : Table) (st : St) (op : Op) : PyM St :=
  if op.row ≥ t.nrows ∨ op.col ≥ t.ncols then .error .IndexError else .ok (applyOp t st op)

def apiStrokes (t : Table) : St → List Op → PyM St
  | st, [] => .ok st
  | st, op :: ops => do
    let st' ← apiStroke t st op
    apiStrokes t st' ops

/-- the pinned commit: cells are updated while a fresh `Border` still carries `_order == 0`;
    `add_stroke` stamps the shared object afterwards (so a slot that took the border shows the
    new stamp, a slot that refused it keeps what it had). -/
def applyOpPinned (t : Table) (st : St) (op : Op) : St :=
  if refused t op.sd op.row op.col then st else
  let r := addStroke st.sc op.sd op.row op.col op.len op.stroke
  let marker : Bd := ⟨op.stroke, 0⟩
  let cs := strokeCells t st.cells op.row op.col op.sd op.len marker
  ⟨fun row col =>
      let restamp := fun (x : Option Bd) => if x = some marker then some r.2 else x
      let cb := cs row col
      ⟨restamp cb.top, restamp cb.right, restamp cb.bottom, restamp cb.left⟩, r.1⟩

/-! ### loading -/

def extractRuns (t : Table) (cs : Cells) (sd : Side) (idx : Nat) (rs : List Run) : Cells :=
  rs.foldl (fun cs r =>
    match sd with
    | .top => strokeCells t cs idx r.origin sd r.len r.bd
    | .bottom => strokeCells t cs idx r.origin sd r.len r.bd
    | .left => strokeCells t cs r.origin idx sd r.len r.bd
    | .right => strokeCells t cs r.origin idx sd r.len r.bd) cs

/-- `extract_strokes_in_layers`. -/
def extractFamily (t : Table) (cs : Cells) (sd : Side) (ls : List Layer) : Cells :=
  ls.foldl (fun cs l => extractRuns t cs sd l.index l.runs) cs

/-- `extract_strokes`: top, left, right, bottom layers in this order, onto fresh `CellBorder`s. -/
def extract (t : Table) (sc : Sidecar) : Cells :=
  let cs := extractFamily t Cells.empty .top sc.top
  let cs := extractFamily t cs .left sc.left
  let cs := extractFamily t cs .right sc.right
  extractFamily t cs .bottom sc.bottom

/-- `Cell.border.<side>`: None for a merged (interior) side, else the slot. -/
def view (t : Table) (cs : Cells) (row col : Nat) (sd : Side) : Option Nat :=
  if mergedFlag t sd row col then none else ((cs row col).get sd).map (·.stroke)

/-! ### specification: an edge map with "most recent stroke wins" -/

/-- `h r c`: the horizontal unit edge above row `r` in column `c`;
    `v r c`: the vertical unit edge left of column `c` in row `r`. -/
inductive Edge
  | h (r c : Nat)
  | v (r c : Nat)
  deriving DecidableEq, Repr

def edgeOf (sd : Side) (r c : Nat) : Edge :=
  match sd with
  | .top => .h r c | .bottom => .h (r + 1) c | .left => .v r c | .right => .v r (c + 1)

/-- the edge at position `p` of a run / stroke in layer `idx` of family `sd`. -/
def posEdge (sd : Side) (idx p : Nat) : Edge :=
  match sd with
  | .top => .h idx p | .bottom => .h (idx + 1) p | .left => .v p idx | .right => .v p (idx + 1)

/-- the unit edges a stroke of `len` units starting at (row, col) is drawn along. -/
def coversB (sd : Side) (row col len : Nat) (e : Edge) : Bool :=
  match sd, e with
  | .top, .h r c => r == row && decide (col ≤ c) && decide (c < col + len)
  | .bottom, .h r c => r == row + 1 && decide (col ≤ c) && decide (c < col + len)
  | .left, .v r c => c == col && decide (row ≤ r) && decide (r < row + len)
  | .right, .v r c => c == col + 1 && decide (row ≤ r) && decide (r < row + len)
  | _, _ => false

def Op.covers (op : Op) (e : Edge) : Bool := coversB op.sd op.row op.col op.len e

/-- last writer wins. -/
def lww (ops : List Op) (e : Edge) : Option Nat :=
  ops.foldl (fun acc op => if op.covers e then some op.stroke else acc) none

/-- the strokes the API does not refuse. -/
def accepted (t : Table) (ops : List Op) : List Op :=
  ops.filter (fun op => !refused t op.sd op.row op.col)

def St.init (maxOrder : Nat) : St := ⟨Cells.empty, { maxOrder := maxOrder }⟩

/-! ### edits that re-create cells: `Table.write`, `merge_cells`, `add_row` / `add_column` at the end

As repaired (fixes/C15-borders-survive-cell-recreation.patch).  The per-cell `CellBorder` objects are
a cache of the stroke layers: `extract_strokes` fills them once (`@cache`) and `set_cell_border`
keeps them up to date.

* `Table.write` replaces the `Cell` object; the new cell is given the `_border` object of the
  cell it replaces (`writeCell`).
* `merge_cells` lets `_set_merge` hand every cell of the table a fresh `CellBorder` (with the
  merged-side flags of the new layout), `add_row` / `add_column` create fresh cells; both then
  call `_NumbersModel.refresh_strokes`, which drops the table's `extract_strokes` cache entry
  (`stale`).  The next use of the borders — `Cell.border`, or `Table.set_cell_border` before it
  records its stroke — runs `extract_strokes` again *onto the cells as they are*
  (`extractOnto`): a slot takes a run only if it is empty or the run is more recent, so
  cells that kept their borders are left alone and fresh cells are filled.
The stored layers are not touched by any of these edits.
-/

/-- `extract_strokes` run on cells that may already carry borders. -/
def extractOnto (t : Table) (cs : Cells) (sc : Sidecar) : Cells :=
  let cs := extractFamily t cs .top sc.top
  let cs := extractFamily t cs .left sc.left
  let cs := extractFamily t cs .right sc.right
  extractFamily t cs .bottom sc.bottom

/-- a table of an open document: shape, borders and layers, and whether the `extract_strokes`
    cache entry has been dropped. -/
structure Doc where
  t : Table
  st : St
  stale : Bool := false

/-- `self._model.extract_strokes(table_id)` through the cache. -/
def Doc.ensure (d : Doc) : Doc :=
  if d.stale then { d with st := ⟨extractOnto d.t d.st.cells d.st.sc, d.st.sc⟩, stale := false } else d

/-- a step of an editing history.  `merge rs cs dh dw` is `merge_cells` of the rectangle
    `(rs, cs) .. (rs + dh, cs + dw)`; `addRows n` / `addCols n` are `add_row(n)` / `add_column(n)`
    without a start index (appended). -/
inductive Step
  | stroke (op : Op)
  | write (row col : Nat)
  | merge (rs cs dh dw : Nat)
  | addRows (n : Nat)
  | addCols (n : Nat)
  deriving DecidableEq, Repr

/-- the merge map after `add_anchor` / `add_reference`, as `_set_merge` and `isinstance(cell,
    MergedCell)` see it. -/
def mergeKind (kind : Nat → Nat → Kind) (rs cs re ce : Nat) : Nat → Nat → Kind := fun r c =>
  if rs ≤ r ∧ r ≤ re ∧ cs ≤ c ∧ c ≤ ce then
    if r = rs ∧ c = cs then .anchor (re - rs + 1) (ce - cs + 1) else .ref rs cs re ce
  else kind r c

/-- `Table.write` on the borders: the new cell object gets a fresh `CellBorder` from `_set_merge`
    and then the `_border` of the cell it replaces. -/
def writeCell (cs : Cells) (row col : Nat) : Cells :=
  let border := cs row col
  let cs := cs.upd row col (fun _ => {})
  cs.upd row col (fun _ => border)

/-- the `_set_merge` sweep of `merge_cells`: a fresh `CellBorder` for every cell of the table. -/
def sweepCells (t : Table) (cs : Cells) : Cells :=
  fun r c => if r < t.nrows ∧ c < t.ncols then {} else cs r c

/-- the cells `add_row(n)` / `add_column(n)` append: fresh ones at the new positions. -/
def growCells (t t' : Table) (cs : Cells) : Cells :=
  fun r c => if (r < t'.nrows ∧ c < t'.ncols) ∧ ¬ (r < t.nrows ∧ c < t.ncols) then {} else cs r c

/-- the table shape after a step (strokes and writes leave it alone). -/
def stepTable (t : Table) : Step → Table
  | .merge rs cs dh dw => { t with kind := mergeKind t.kind rs cs (rs + dh) (cs + dw) }
  | .addRows n => { t with nrows := t.nrows + n }
  | .addCols n => { t with ncols := t.ncols + n }
  | _ => t

/-- one API call.  IndexError: `_validate_cell_coords` (stroke, write), `self._data[row][col]` for a
    placeholder position outside the table (merge_cells; the anchor cell itself is not indexed). -/
def Doc.step (d : Doc) : Step → PyM Doc
  | .stroke op =>
    if op.row ≥ d.t.nrows ∨ op.col ≥ d.t.ncols then .error .IndexError
    else if refused d.t op.sd op.row op.col then .ok d          -- warns and returns before `extract_strokes`
    else
      let d := d.ensure
      .ok { d with st := applyOp d.t d.st op }
  | .write row col =>
    if row ≥ d.t.nrows ∨ col ≥ d.t.ncols then .error .IndexError
    else .ok { d with st := ⟨writeCell d.st.cells row col, d.st.sc⟩ }
  | .merge rs cs dh dw =>
    if dh + dw > 0 ∧ (rs + dh ≥ d.t.nrows ∨ cs + dw ≥ d.t.ncols) then .error .IndexError
    else
      let t' := stepTable d.t (.merge rs cs dh dw)
      .ok { t := t', st := ⟨sweepCells t' d.st.cells, d.st.sc⟩, stale := true }
  | .addRows n =>
    let t' := stepTable d.t (.addRows n)
    .ok { t := t', st := ⟨growCells d.t t' d.st.cells, d.st.sc⟩, stale := true }
  | .addCols n =>
    let t' := stepTable d.t (.addCols n)
    .ok { t := t', st := ⟨growCells d.t t' d.st.cells, d.st.sc⟩, stale := true }

def Doc.run : Doc → List Step → PyM Doc
  | d, [] => .ok d
  | d, s :: ss => do
    let d' ← d.step s
    Doc.run d' ss

/-- `table.cell(row, col).border.<side>` (the property runs `extract_strokes` first). -/
def Doc.view (d : Doc) (row col : Nat) (sd : Side) : Option Nat := Border.view d.t d.ensure.st.cells row col sd

/-- what a reopened copy of the saved document reports. -/
def Doc.savedView (d : Doc) (row col : Nat) (sd : Side) : Option Nat := Border.view d.t (extract d.t d.st.sc) row col sd

/-- the pinned commit: `write` leaves the fresh `CellBorder` in place, `merge_cells` and
    `add_row` / `add_column` do not drop the cache entry. -/
def Doc.stepPinned (d : Doc) : Step → PyM Doc
  | .write row col =>
    if row ≥ d.t.nrows ∨ col ≥ d.t.ncols then .error .IndexError
    else .ok { d with st := ⟨d.st.cells.upd row col (fun _ => {}), d.st.sc⟩ }
  | .merge rs cs dh dw =>
    if dh + dw > 0 ∧ (rs + dh ≥ d.t.nrows ∨ cs + dw ≥ d.t.ncols) then .error .IndexError
    else
      let t' := stepTable d.t (.merge rs cs dh dw)
      .ok { d with t := t', st := ⟨sweepCells t' d.st.cells, d.st.sc⟩ }
  | .addRows n =>
    let t' := stepTable d.t (.addRows n)
    .ok { d with t := t', st := ⟨growCells d.t t' d.st.cells, d.st.sc⟩ }
  | .addCols n =>
    let t' := stepTable d.t (.addCols n)
    .ok { d with t := t', st := ⟨growCells d.t t' d.st.cells, d.st.sc⟩ }
  | s => d.step s

def Doc.runPinned : Doc → List Step → PyM Doc
  | d, [] => .ok d
  | d, s :: ss => do
    let d' ← d.stepPinned s
    Doc.runPinned d' ss

/-- a new document. -/
def Doc.init (t : Table) (maxOrder : Nat) : Doc := ⟨t, St.init maxOrder, false⟩

/-! specification for editing histories: the edge map of the strokes the API accepted (the refusal
    test looks at the table as it is when the stroke is drawn); writes, merges and appended rows /
    columns do not draw anything. -/

abbrev EdgeMap := Edge → Option Nat

def stepEdges (t : Table) (em : EdgeMap) : Step → EdgeMap
  | .stroke op =>
    if op.row < t.nrows ∧ op.col < t.ncols ∧ refused t op.sd op.row op.col = false then
      fun e => if op.covers e then some op.stroke else em e
    else em
  | _ => em

/-- table shape and edge map after a history. -/
def histSpec : Table → EdgeMap → List Step → Table × EdgeMap
  | t, em, [] => (t, em)
  | t, em, s :: ss => histSpec (stepTable t s) (stepEdges t em s) ss

end NumbersModel.Border
