/-
Model of the v5 cell storage record codec in src/numbers_parser/cell.py:
`Cell._to_buffer` (encoder) and `Cell._from_storage` (decoder), plus `specEncode`, an
independent encoder written from the published layout (docs/Numbers.md "Cell formats" for
bytes 0..7 and, as that section says, the SheetJS IWA notes for the flag order):

  byte 0 version (5) | byte 1 cell type | 2..5 unused | 6..7 "extras" | 8..11 flags (LE int32)
  then, for every set flag bit in ASCENDING bit order, its field:
    bit 0  decimal128 (16 bytes)      bit 1 double (8)          bit 2 seconds (8)
    bit 3  string id                  bit 4 rich-text id        bit 5 cell-style id
    bit 6  text-style id              bit 7 cond-style id       bit 8 cond-rule-style id
    bit 9  formula id                 bit 10 control id         bit 11 formula-error id
    bit 12 suggest id                 bit 13 number-format id   bit 14 currency-format id
    bit 15 date-format id             bit 16 duration-format id bit 17 text-format id
    bit 18 bool-format id             bit 19 comment id         bit 20 import-warning id
  (all fields from bit 3 on are 4-byte little-endian int32).

Third-party pieces are parameters of the model: the 16-byte decimal128 payload
(`_pack_decimal128`, modelled in Model/Decimal128.lean for C01), the 8-byte doubles
(`struct.pack("<d", …)`) and the string-table key (`model.table_string_key`) arrive as
opaque bytes / an integer; `decode` hands the raw payload bytes back uninterpreted.

`encode`/`decode` mirror the code AFTER the two repairs in fixes/C04-*.patch;
`encodePinned`/`decodeFieldsPinned` mirror the pinned tree (used only for the
counter-example `example`s in Props/C04.lean).
-/
import NumbersModel.Py.Basic
import NumbersModel.Py.Struct
namespace NumbersModel.CellRecord
open NumbersModel

/-- which branch of the `isinstance` chain in `_to_buffer` a cell takes. `currency` is a
    `NumberCell` whose `_type` is `CellType.CURRENCY`; `other` is any other `Cell` subclass
    (e.g. `ErrorCell`): warned about and not stored. -/
inductive Kind where
  | number | currency | text | date | bool | duration | empty | merged | rich | other
  deriving DecidableEq, Repr, Inhabited

/-- the twelve optional reference attributes `_to_buffer` emits (Python `None` = `none`). -/
structure Ids where
  rich : Option Int := none
  cellStyle : Option Int := none
  textStyle : Option Int := none
  formula : Option Int := none
  control : Option Int := none
  suggest : Option Int := none
  numFmt : Option Int := none
  curFmt : Option Int := none
  dateFmt : Option Int := none
  durFmt : Option Int := none
  textFmt : Option Int := none
  boolFmt : Option Int := none
  deriving DecidableEq, Repr, Inhabited

structure Cell where
  kind : Kind
  /-- `_pack_decimal128(self.value)` (number, currency) or `pack("<d", …)` (date, bool,
      duration); ignored by the other kinds. -/
  payload : Bytes
  /-- `self._model.table_string_key(self._table_id, self.value)` (text cells only). -/
  stringKey : Int
  /-- `self._string_id`: only feeds bit 0x80 of byte 6. -/
  stringId : Option Int
  ids : Ids
  deriving DecidableEq, Repr, Inhabited

/-- running state of `_to_buffer` after the 12-byte header was allocated:
    `flags`, `length`, the bytes appended after the header, and byte 6. -/
structure Acc where
  flags : Nat
  length : Nat
  body : Bytes
  b6 : Nat
  deriving DecidableEq, Repr

/-- `if self._x_id is not None: flags |= mask; length += 4; storage += pack("<i", self._x_id);
    storage[6] |= x6`. -/
def putId (mask x6 : Nat) (id : Option Int) (a : Acc) : PyM Acc :=
  match id with
  | none => .ok a
  | some v => do
    let b ← packI32 v
    pure { flags := a.flags ||| mask, length := a.length + 4, body := a.body ++ b, b6 := a.b6 ||| x6 }

/-- the `isinstance` chain: initial flags, payload length, cell type, payload bytes;
    `none` = the function returns `None` (merged placeholder / unsupported class). -/
def kindHeader (c : Cell) : PyM (Option (Nat × Nat × UInt8 × Bytes)) :=
  match c.kind with
  | .number => .ok (some (1, 16, 2, c.payload))
  | .currency => .ok (some (1, 16, 10, c.payload))
  | .text => do let v ← packI32 c.stringKey; pure (some (8, 4, 3, v))
  | .date => .ok (some (4, 8, 5, c.payload))
  | .bool => .ok (some (2, 8, 6, c.payload))
  | .duration => .ok (some (2, 8, 7, c.payload))
  | .empty => .ok (some (0, 0, 0, []))
  | .merged => .ok none
  | .rich => .ok (some (0, 0, 9, []))       -- fixed: the id is emitted once, by the 0x10 step
  | .other => .ok none

/-- pinned tree: the rich-text branch also writes the id as the payload. -/
def kindHeaderPinned (c : Cell) : PyM (Option (Nat × Nat × UInt8 × Bytes)) :=
  match c.kind with
  | .rich => do let v ← packOptI32 c.ids.rich; pure (some (0, 4, 9, v))
  | _ => kindHeader c

/-- `storage[8:12] = pack("<i", flags); if len(storage) < 32: storage += bytearray(32 - length);
    return storage[0:length]`. -/
def finish (ctype : UInt8) (a : Acc) : PyM Bytes := do
  let fl ← packI32 a.flags
  let storage : Bytes := [5, ctype, 0, 0, 0, 0, UInt8.ofNat a.b6, 0] ++ fl ++ a.body
  let storage ←
    if storage.length < 32 then
      (if 32 < a.length then (.error .ValueError : PyM Bytes)      -- bytearray(negative)
       else .ok (storage ++ List.replicate (32 - a.length) 0))
    else .ok storage
  pure (storage.take a.length)

def encodeWith (hdr : Cell → PyM (Option (Nat × Nat × UInt8 × Bytes))) (c : Cell) :
    PyM (Option Bytes) := do
  match ← hdr c with
  | none => pure none
  | some (flags, len, ctype, value) =>
    let a : Acc := { flags := flags, length := 12 + len, body := value, b6 := 0 }
    let a ← putId 0x10 0 c.ids.rich a
    let a ← putId 0x20 0 c.ids.cellStyle a
    let a ← putId 0x40 0 c.ids.textStyle a
    let a ← putId 0x200 0 c.ids.formula a
    let a ← putId 0x400 0 c.ids.control a
    let a ← putId 0x1000 0 c.ids.suggest a
    let a ← putId 0x2000 1 c.ids.numFmt a
    let a ← putId 0x4000 2 c.ids.curFmt a
    let a ← putId 0x8000 8 c.ids.dateFmt a
    let a ← putId 0x10000 4 c.ids.durFmt a
    let a ← putId 0x20000 0 c.ids.textFmt a
    let a ← putId 0x40000 0x20 c.ids.boolFmt a
    let a := if c.stringId.isSome then { a with b6 := a.b6 ||| 0x80 } else a
    let r ← finish ctype a
    pure (some r)

/-- `Cell._to_buffer` (style-object lookups at the top of the function are outside the model:
    they only assign `_text_style_id` / `_cell_style_id` before encoding starts). -/
def encode : Cell → PyM (Option Bytes) := encodeWith kindHeader
def encodePinned : Cell → PyM (Option Bytes) := encodeWith kindHeaderPinned

/-! ### decoder -/

/-- truthiness of `flags & mask`. -/
def hasFlag (flags mask : Nat) : Bool := flags &&& mask != 0

/-- `if flags & mask: x = <read>(buffer[offset:offset+w]); offset += w` where the reader
    raises `short` when the slice is shorter than `w`. Returns the raw bytes. -/
def rd (short : PyExc) (w : Nat) (present : Bool) (buf : Bytes) (off : Nat) :
    PyM (Option Bytes × Nat) :=
  if present then
    let s := bslice buf off w
    if s.length = w then .ok (some s, off + w) else .error short
  else .ok (none, off)

/-- `if flags & mask: offset += w` (field not interpreted). -/
def skp (w : Nat) (present : Bool) (off : Nat) : Nat := if present then off + w else off

/-- raw fields picked up by the offset walk (payloads and `storage_flags`). -/
structure Raw where
  d128 : Option Bytes
  double : Option Bytes
  seconds : Option Bytes
  string : Option Bytes
  rich : Option Bytes
  cellStyle : Option Bytes
  textStyle : Option Bytes
  formula : Option Bytes
  control : Option Bytes
  suggest : Option Bytes
  numFmt : Option Bytes
  curFmt : Option Bytes
  dateFmt : Option Bytes
  durFmt : Option Bytes
  textFmt : Option Bytes
  boolFmt : Option Bytes
  deriving DecidableEq, Repr

/-- the sequential offset walk of `_from_storage` (fixed code: every uninterpreted field
    is skipped at its own position). -/
def decodeFields (flags : Nat) (buf : Bytes) : PyM Raw := do
  let off := 12
  let (d128, off) ← rd .IndexError 16 (hasFlag flags 0x1) buf off
  let (double, off) ← rd .StructError 8 (hasFlag flags 0x2) buf off
  let (seconds, off) ← rd .StructError 8 (hasFlag flags 0x4) buf off
  let (string, off) ← rd .StructError 4 (hasFlag flags 0x8) buf off
  let (rich, off) ← rd .StructError 4 (hasFlag flags 0x10) buf off
  let (cellStyle, off) ← rd .StructError 4 (hasFlag flags 0x20) buf off
  let (textStyle, off) ← rd .StructError 4 (hasFlag flags 0x40) buf off
  let off := skp 4 (hasFlag flags 0x80) off
  let off := skp 4 (hasFlag flags 0x100) off
  let (formula, off) ← rd .StructError 4 (hasFlag flags 0x200) buf off
  let (control, off) ← rd .StructError 4 (hasFlag flags 0x400) buf off
  let off := skp 4 (hasFlag flags 0x800) off
  let (suggest, off) ← rd .StructError 4 (hasFlag flags 0x1000) buf off
  let (numFmt, off) ← rd .StructError 4 (hasFlag flags 0x2000) buf off
  let (curFmt, off) ← rd .StructError 4 (hasFlag flags 0x4000) buf off
  let (dateFmt, off) ← rd .StructError 4 (hasFlag flags 0x8000) buf off
  let (durFmt, off) ← rd .StructError 4 (hasFlag flags 0x10000) buf off
  let (textFmt, off) ← rd .StructError 4 (hasFlag flags 0x20000) buf off
  let (boolFmt, _) ← rd .StructError 4 (hasFlag flags 0x40000) buf off
  pure { d128, double, seconds, string, rich, cellStyle, textStyle, formula, control, suggest,
         numFmt, curFmt, dateFmt, durFmt, textFmt, boolFmt }

/-- `bin(flags & 0x900).count("1")`. -/
def lateSkips (flags : Nat) : Nat :=
  (if hasFlag flags 0x100 then 1 else 0) + (if hasFlag flags 0x800 then 1 else 0)

/-- pinned tree: 0x100 and 0x800 are skipped only after 0x1000 was read. -/
def decodeFieldsPinned (flags : Nat) (buf : Bytes) : PyM Raw := do
  let off := 12
  let (d128, off) ← rd .IndexError 16 (hasFlag flags 0x1) buf off
  let (double, off) ← rd .StructError 8 (hasFlag flags 0x2) buf off
  let (seconds, off) ← rd .StructError 8 (hasFlag flags 0x4) buf off
  let (string, off) ← rd .StructError 4 (hasFlag flags 0x8) buf off
  let (rich, off) ← rd .StructError 4 (hasFlag flags 0x10) buf off
  let (cellStyle, off) ← rd .StructError 4 (hasFlag flags 0x20) buf off
  let (textStyle, off) ← rd .StructError 4 (hasFlag flags 0x40) buf off
  let off := skp 4 (hasFlag flags 0x80) off
  let (formula, off) ← rd .StructError 4 (hasFlag flags 0x200) buf off
  let (control, off) ← rd .StructError 4 (hasFlag flags 0x400) buf off
  let (suggest, off) ← rd .StructError 4 (hasFlag flags 0x1000) buf off
  let off := off + 4 * lateSkips flags
  let (numFmt, off) ← rd .StructError 4 (hasFlag flags 0x2000) buf off
  let (curFmt, off) ← rd .StructError 4 (hasFlag flags 0x4000) buf off
  let (dateFmt, off) ← rd .StructError 4 (hasFlag flags 0x8000) buf off
  let (durFmt, off) ← rd .StructError 4 (hasFlag flags 0x10000) buf off
  let (textFmt, off) ← rd .StructError 4 (hasFlag flags 0x20000) buf off
  let (boolFmt, _) ← rd .StructError 4 (hasFlag flags 0x40000) buf off
  pure { d128, double, seconds, string, rich, cellStyle, textStyle, formula, control, suggest,
         numFmt, curFmt, dateFmt, durFmt, textFmt, boolFmt }

/-- the class `_from_storage` instantiates. -/
inductive DKind where
  | empty | number | text | date | bool | duration | error | rich | currency
  deriving DecidableEq, Repr, Inhabited

/-- observable result of `_from_storage`: class, raw payloads (`_d128`, `_double`,
    `_seconds` before interpretation), the copied `storage_flags`, `_extras`, `_flags`. -/
structure Decoded where
  kind : DKind
  d128 : Option Bytes
  double : Option Bytes
  seconds : Option Bytes
  stringId : Option Int
  ids : Ids
  extras : Nat
  flags : Int
  deriving DecidableEq, Repr

/-- the `cell_type` dispatch. Constructing a date needs `seconds`, a bool / duration needs
    `double` (`timedelta(seconds=None)`, `None > 0.0` raise TypeError). -/
def dispatch (ctype : UInt8) (raw : Raw) : PyM DKind :=
  match ctype.toNat with
  | 0 => .ok .empty
  | 2 => .ok .number
  | 3 => .ok .text
  | 5 => if raw.seconds.isSome then .ok .date else .error .TypeError
  | 6 => if raw.double.isSome then .ok .bool else .error .TypeError
  | 7 => if raw.double.isSome then .ok .duration else .error .TypeError
  | 8 => .ok .error
  | 9 => .ok .rich
  | 10 => .ok .currency
  | _ => .error .UnsupportedError

def Raw.ids (raw : Raw) : Ids :=
  { rich := raw.rich.map i32OfBytes, cellStyle := raw.cellStyle.map i32OfBytes,
    textStyle := raw.textStyle.map i32OfBytes, formula := raw.formula.map i32OfBytes,
    control := raw.control.map i32OfBytes, suggest := raw.suggest.map i32OfBytes,
    numFmt := raw.numFmt.map i32OfBytes, curFmt := raw.curFmt.map i32OfBytes,
    dateFmt := raw.dateFmt.map i32OfBytes, durFmt := raw.durFmt.map i32OfBytes,
    textFmt := raw.textFmt.map i32OfBytes, boolFmt := raw.boolFmt.map i32OfBytes }

def decodeWith (fields : Nat → Bytes → PyM Raw) (buf : Bytes) : PyM Decoded := do
  let version ← pyIndex buf 0
  if version ≠ 5 then throw .UnsupportedError
  let flags ← unpackI32 (bslice buf 8 4)
  let uflags := (flags % 4294967296).toNat      -- Python `&` on a negative int: two's complement
  let raw ← fields uflags buf
  let ctype ← pyIndex buf 1
  let kind ← dispatch ctype raw
  let extras ← unpackU16 (bslice buf 6 2)
  pure { kind := kind, d128 := raw.d128, double := raw.double, seconds := raw.seconds,
         stringId := raw.string.map i32OfBytes, ids := raw.ids, extras := extras, flags := flags }

/-- `Cell._from_storage` (value interpretation of the payloads and the string / rich-text
    table look-ups are outside this model: C01 / C06). -/
def decode : Bytes → PyM Decoded := decodeWith decodeFields
def decodePinned : Bytes → PyM Decoded := decodeWith decodeFieldsPinned

/-! ### independent encoder from the published layout -/

/-- width in bytes of the field announced by flag bit `i`. -/
def fieldWidth (i : Nat) : Nat := if i = 0 then 16 else if i = 1 ∨ i = 2 then 8 else 4

/-- a record as the layout describes it: header bytes and, for each of the 21 documented
    flag bits in ascending order, the field's bytes if present. -/
structure SpecRecord where
  ctype : UInt8
  unused : Bytes          -- bytes 2..5
  extras : Bytes          -- bytes 6..7
  fields : List (Option Bytes)   -- index = flag bit
  deriving DecidableEq, Repr

def optBytes : Option Bytes → Bytes
  | none => []
  | some b => b

/-- flags word: bit `i` set iff field `i` is present (binary numeral, low bit first). -/
def flagsOf : List (Option Bytes) → Nat
  | [] => 0
  | f :: r => (if f.isSome then 1 else 0) + 2 * flagsOf r

def fieldsBody : List (Option Bytes) → Bytes
  | [] => []
  | f :: r => optBytes f ++ fieldsBody r

def specEncode (r : SpecRecord) : Bytes :=
  [5, r.ctype] ++ r.unused ++ r.extras ++ leBytes 4 (flagsOf r.fields) ++ fieldsBody r.fields

end NumbersModel.CellRecord
