/-
Model of `main()` of src/numbers_parser/_csv2numbers.py and of what it calls for the options of C20
(header / --no-header, --whitespace, --reverse; without --date, --transform, --rename, --delete: with `None` arguments
`transform_columns`, `rename_columns`, `delete_columns` return at once), AFTER fixes/C20-one-line-errors.patch:

  * `_read_csv`: `except FileNotFoundError` → RuntimeError, `except csv.Error` → RuntimeError, and (patch)
    `except (OSError, UnicodeError, LookupError)` → RuntimeError; a file without rows → RuntimeError (patch; before:
    `next(csvreader)` raised StopIteration inside the `try`, `len(self.data[0])` raised IndexError in `_transform_data`)
  * `save`: `num_cols = max([len(row) …] + [1])` (patch; before `max(…, default=1)`, 0 for a blank first line),
    RuntimeError when the grid exceeds MAX_ROW_COUNT x MAX_COL_COUNT (patch; before: IndexError from `Document(…)`),
    `doc.save` inside `try … except OSError` → RuntimeError (patch)
  * `main`: `except RuntimeError as e: print(e, file=stderr); exit(1)` around the loop over the files.

The CSV parsing itself is not an external: it is `CsvCodec.readGrid` with `strict = True` (the code sets
`csv.excel.strict = True`).  Every call that leaves the module is a field of `FileExt` returning `PyM _`
(it may raise anything); which class an exception belongs to (`isinstance` in the `except` clauses) is `Classes`.
`Variant` says which repairs are present: `fixed` is the code the model mirrors, `pinned` the code before the patch.
-/
import NumbersModel.Py.Basic
import NumbersModel.Gen.Constants
import NumbersModel.Model.Csv
namespace NumbersModel.CsvMain
open NumbersModel NumbersModel.Csv NumbersModel.CsvCodec

structure Variant where
  readErrors : Bool    -- `_read_csv` translates OSError / UnicodeError / LookupError
  emptyCheck : Bool    -- a file without rows is refused
  minCols : Bool       -- at least one column
  sizeCheck : Bool     -- oversize grids are refused before `Document(…)`
  saveErrors : Bool    -- OSError of `doc.save` is translated
  deriving DecidableEq, Repr

def fixed : Variant := ⟨true, true, true, true, true⟩
def pinned : Variant := ⟨false, false, false, false, false⟩

/-- `isinstance(e, …)` for the classes named in the `except` clauses -/
structure Classes where
  isFileNotFound : PyExc → Bool
  isCsvError : PyExc → Bool
  isOSError : PyExc → Bool
  isUnicodeError : PyExc → Bool
  isLookupError : PyExc → Bool
  isRuntimeError : PyExc → Bool

/-- what the file object gives: the text its line iterator yields (`splitLines`), and the exception (if any) it
    raises when asked for more (undecodable bytes, I/O error) -/
structure Content where
  text : Text
  fail : Option PyExc

structure FileExt (ν : Type) where
  /-- `Path(x).with_suffix(".numbers")`, consulted only without `-o` -/
  deriveOutput : PyM Unit
  /-- `open(input_filename, encoding=…, newline="")` -/
  openFile : PyM Content
  /-- `csv.field_size_limit()` -/
  fieldLimit : Nat
  pyFloat : Text → FloatCls ν
  norm : Text → Text
  /-- `Document(num_rows=…, num_cols=…, …)` -/
  newDocument : Nat → Nat → PyM Unit
  /-- `table.write(row, col, value)` -/
  write : Nat → Nat → Cell ν → PyM Unit
  /-- `doc.save(output_filename)` -/
  saveDoc : PyM Unit

/-- the errors of the modelled reader are `csv.Error` -/
def isModelCsvError (e : PyExc) : Bool :=
  e == errDelimExpected || e == errUnexpectedEnd || e == errNewlineInUnquoted || e == errFieldLimit

def stopIteration : PyExc := .Other "StopIteration"

/-- the `except` clauses of `_read_csv`, in order -/
def translateRead (v : Variant) (c : Classes) (e : PyExc) : PyExc :=
  if c.isFileNotFound e then .RuntimeError
  else if isModelCsvError e || c.isCsvError e then .RuntimeError
  else if v.readErrors && (c.isOSError e || c.isUnicodeError e || c.isLookupError e) then .RuntimeError
  else e

/-- `_read_csv`: the rows, or what leaves the method -/
def readCsv {ν} (v : Variant) (c : Classes) (x : FileExt ν) (o : Opts) : PyM (List (List Text)) :=
  match x.openFile with
  | .error e => .error (translateRead v c e)
  | .ok content =>
    match readGrid { strict := true, limit := x.fieldLimit, iterFails := content.fail } content.text with
    | .error e => .error (translateRead v c e)
    | .ok rows =>
      if rows.isEmpty then
        if v.emptyCheck then .error .RuntimeError
        else if o.noHeader then .error .IndexError                 -- `len(self.data[0])` in `_transform_data`
        else .error (translateRead v c stopIteration)               -- `next(csvreader)` inside the `try`
      else .ok rows

def writeRow {ν} (x : FileExt ν) (r : Nat) : Nat → List (Cell ν) → PyM Unit
  | _, [] => .ok ()
  | col, cell :: rest =>
    match x.write r col cell with
    | .error e => .error e
    | .ok () => writeRow x r (col + 1) rest

def writeRows {ν} (x : FileExt ν) : Nat → List (List (Cell ν)) → PyM Unit
  | _, [] => .ok ()
  | r, row :: rest =>
    match writeRow x r 0 row with
    | .error e => .error e
    | .ok () => writeRows x (r + 1) rest

/-- `Converter.save` on the laid-out rows -/
def save {ν} (v : Variant) (c : Classes) (x : FileExt ν) (data : List (List (Cell ν))) : PyM Unit :=
  let numRows := max data.length 1
  let numCols := if v.minCols then max (maxLen data) 1 else if data.isEmpty then 1 else maxLen data
  if v.sizeCheck && (decide (numRows > Gen.MAX_ROW_COUNT) || decide (numCols > Gen.MAX_COL_COUNT)) then .error .RuntimeError
  else
    match x.newDocument numRows numCols with
    | .error e => .error e
    | .ok () =>
      match writeRows x 0 data with
      | .error e => .error e
      | .ok () =>
        match x.saveDoc with
        | .error e => if v.saveErrors && c.isOSError e then .error .RuntimeError else .error e
        | .ok () => .ok ()

/-- the body of the `for` loop of `main` for one file -/
def convertFile {ν} (v : Variant) (c : Classes) (o : Opts) (x : FileExt ν) : PyM Unit :=
  match readCsv v c x o with
  | .error e => .error e
  | .ok rows =>
    match convert x.pyFloat x.norm o rows with
    | .error e => .error e
    | .ok table => save v c x table

def convertAll {ν} (v : Variant) (c : Classes) (o : Opts) : List (FileExt ν) → PyM Unit
  | [] => .ok ()
  | x :: rest =>
    match convertFile v c o x with
    | .error e => .error e
    | .ok () => convertAll v c o rest

def deriveAll {ν} : List (FileExt ν) → PyM Unit
  | [] => .ok ()
  | x :: rest =>
    match x.deriveOutput with
    | .error e => .error e
    | .ok () => deriveAll rest

/-- what the process shows: exit status, lines printed on stdout and on stderr -/
structure Outcome where
  exit : Nat
  stdoutLines : Nat
  stderrLines : Nat
  deriving DecidableEq, Repr

structure Args where
  version : Bool
  /-- number of names after `-o`; `none` when the option is absent -/
  outputs : Option Nat
  /-- lines of `parser.print_help()` -/
  helpLines : Nat

/-- the part of `main()` after the output names are known: `n` of them -/
def runFiles {ν} (v : Variant) (c : Classes) (o : Opts) (files : List (FileExt ν)) (n : Nat) : PyM Outcome :=
  if files.length ≠ n then .ok ⟨1, 0, 1⟩              -- "The numbers of input and output file names do not match"
  else
    match convertAll v c o files with
    | .ok () => .ok ⟨0, 0, 0⟩
    | .error e =>
      if e == .RuntimeError || c.isRuntimeError e then .ok ⟨1, 0, 1⟩     -- `print(e, file=stderr); exit(1)`
      else .error e

/-- `main()` after `parse_args()`; `.error e` = `e` leaves `main` (the interpreter prints a traceback) -/
def main {ν} (v : Variant) (c : Classes) (o : Opts) (args : Args) (files : List (FileExt ν)) : PyM Outcome :=
  if args.version then .ok ⟨0, 1, 0⟩
  else if files.isEmpty then .ok ⟨1, 0, 1 + args.helpLines⟩
  else
    match args.outputs with
    | some n => runFiles v c o files n
    | none =>
      match deriveAll files with                        -- `[Path(x).with_suffix(".numbers") for x in args.csvfile]`
      | .error e => .error e
      | .ok () => runFiles v c o files files.length

end NumbersModel.CsvMain
