/-
Model of the post-fix → infix renderer in src/numbers_parser/formula.py:
`TableFormulas.formula` (node-type dispatch through `_formula_type_lookup` and
`NODE_FUNCTION_MAP`), every `Formula.*` handler with its pop order as written, and
`number_to_str`.  The spec side (`Expr`, `compile`, `render`) is at the end.

Stack convention: the Python list `_stack` grows at its end; here the *head* of the list is
the top of the stack.  `popn(n)` returns `(top, second, …)` = `st.take n`; the final
`"".join(reversed(stack))` is the concatenation top-first = `st.flatten`.

External (harness-supplied) values carried by a node:
* `numRepr`   = `repr(node.AST_number_node_number)` (CPython float repr is third-party)
* `dateMicros`= `timedelta(seconds=node.AST_date_node_dateNum)` in whole microseconds
* `refText`   = `str(model.node_to_ref(table_id,row,col,node))` (C09's business)
-/
import NumbersModel.Py.Basic
import NumbersModel.Gen.Constants
namespace NumbersModel.Formula
open NumbersModel

/-- the fields of an `ASTNodeArchive` that the handlers read. -/
structure Node where
  ty : Nat
  fnIndex : Nat := 0
  fnNumArgs : Nat := 0
  numRepr : Text := []
  decLow : Nat := 0
  decHigh : Nat := 0
  hasTokenBool : Bool := false
  tokenBool : Bool := false
  boolVal : Bool := false
  str : Text := []
  dateMicros : Int := 0
  arrCols : Nat := 0
  arrRows : Nat := 0
  listNumArgs : Nat := 0
  refText : Text := []
  deriving DecidableEq, Repr, Inhabited

/-- `sep.join(xs)` -/
def join (sep : Text) : List Text → Text
  | [] => []
  | [x] => x
  | x :: y :: r => x ++ sep ++ join sep (y :: r)

/-- `Formula.popn(n)`: `(values, rest)`, values top first; IndexError ("pop from empty list"). -/
def popn (n : Nat) (st : List Text) : PyM (List Text × List Text) :=
  if st.length < n then .error .IndexError else .ok (st.take n, st.drop n)

/-- `s.replace('"', '""')` -/
def doubleQuotes : Text → Text
  | [] => []
  | c :: r => if c = '"' then '"' :: '"' :: doubleQuotes r else c :: doubleQuotes r

/-- `Formula.string`: `f'"{value}"'` with the quotes doubled. -/
def quoteLit (s : Text) : Text := '"' :: doubleQuotes s ++ ['"']

/-! ### number_to_str -/

/-- `s.split("e")` for a one-character separator. -/
def splitOn (sep : Char) : Text → List Text
  | [] => [[]]
  | c :: r =>
    if c = sep then [] :: splitOn sep r
    else match splitOn sep r with
      | [] => [[c]]            -- unreachable: splitOn never returns []
      | h :: t => (c :: h) :: t

def isAsciiDigit (c : Char) : Bool := '0' ≤ c ∧ c ≤ '9'

def digitsVal (ds : List Char) : Nat := ds.foldl (fun a d => a * 10 + (d.toNat - 48)) 0

/-- `int(s)` for the exponent texts `repr` produces: optional sign, then ASCII digits.
    (Python also accepts surrounding white space, `_` and Unicode digits; `repr` never emits them.) -/
def pyInt (s : Text) : PyM Int :=
  let (neg, ds) := match s with
    | '-' :: r => (true, r)
    | '+' :: r => (false, r)
    | r => (false, r)
  if ds = [] ∨ ¬ ds.all isAsciiDigit then .error .ValueError
  else .ok (if neg then -(digitsVal ds : Int) else (digitsVal ds : Int))

/-- `re.sub(r"[,-.]", "", number)`: the class `,-.` is the *range* U+002C..U+002E = `,` `-` `.` -/
def stripPunct (s : Text) : Text := s.filter (fun c => ¬ (',' ≤ c ∧ c ≤ '.'))

/-- characters after the first `.` (`number.partition(".")[2]`). -/
def afterDot : Text → Text
  | [] => []
  | c :: r => if c = '.' then r else afterDot r

def zeros (n : Nat) : Text := List.replicate n '0'

/-- `number_to_str(v)` on `v_str = repr(v)`, as written (pinned): the mantissa digits are padded with
    `abs(exp) - 1` zeros on either side.  For a positive exponent this is right only when the mantissa
    has exactly one fraction digit — KNOWN FINDING (see Props/C08 `pinned_number_to_str_wrong`); the
    repair `numberToStrFixed` cannot be applied because tests/test_all_formulas.py::test_extra_functions
    expects the wrong text for a stored 1e+21. -/
def numberToStr (r : Text) : PyM Text :=
  if r.contains 'e' then
    match splitOn 'e' r with
    | [number, exp] => do
      let number := stripPunct number
      let e ← pyInt exp
      let zs := zeros (e.natAbs - 1)
      if e > 0 then .ok (number ++ zs)
      else .ok ('0' :: '.' :: zs ++ number)
    | _ => .error .ValueError
  else .ok r

/-- the proposed repair (notes/C08-number-to-str-exponent.patch.proposed): pad with
    `exp - (fraction digits)` zeros for a positive exponent. -/
def numberToStrFixed (r : Text) : PyM Text :=
  if r.contains 'e' then
    match splitOn 'e' r with
    | [number, exp] => do
      let numDp := (afterDot number).length
      let number := stripPunct number
      let e ← pyInt exp
      if e > 0 then .ok (number ++ zeros (e.toNat - numDp))
      else .ok ('0' :: '.' :: zeros (e.natAbs - 1) ++ number)
    | _ => .error .ValueError
  else .ok r

/-! ### dates: `datetime(2001,1,1) + timedelta(seconds=x)` → year, month, day -/

/-- civil date of a proleptic-Gregorian ordinal (1 = 0001-01-01), as `datetime` computes it. -/
def civil (ord : Nat) : Nat × Nat × Nat :=
  let z := ord + 305            -- days since 0000-03-01
  let era := z / 146097
  let doe := z % 146097
  let yoe := (doe - doe / 1460 + doe / 36524 - doe / 146096) / 365
  let y := yoe + era * 400
  let doy := doe - (365 * yoe + yoe / 4 - yoe / 100)
  let mp := (5 * doy + 2) / 153
  let d := doy - (153 * mp + 2) / 5 + 1
  let m := if mp < 10 then mp + 3 else mp - 9
  (if m ≤ 2 then y + 1 else y, m, d)

/-- ordinal of 2001-01-01 -/
def epochOrdinal : Int := 730486
/-- ordinal of 9999-12-31 -/
def maxOrdinal : Int := 3652059

def dateText (micros : Int) : PyM Text :=
  let ord := epochOrdinal + micros / 86400000000   -- Int `/` on a positive divisor is floor division
  if ord < 1 ∨ ord > maxOrdinal then .error (.Other "OverflowError")
  else
    let (y, m, d) := civil ord.toNat
    .ok ("DATE(".toList ++ natStr y ++ [','] ++ natStr m ++ [','] ++ natStr d ++ [')'])

/-! ### handlers -/

/-- `arg2, arg1 = self.popn(2); self.push(f"{arg1}<glyph>{arg2}")` -/
def binop (glyph : Text) (st : List Text) : PyM (List Text) := do
  let (vals, rest) ← popn 2 st
  match vals with
  | [arg2, arg1] => .ok ((arg1 ++ glyph ++ arg2) :: rest)
  | _ => .error .ValueError

/-- `Formula.equals`: `arg1, arg2 = self.popn(2); self.push(f"{arg2}={arg1}")` -/
def equalsH (st : List Text) : PyM (List Text) := do
  let (vals, rest) ← popn 2 st
  match vals with
  | [arg1, arg2] => .ok ((arg2 ++ ['='] ++ arg1) :: rest)
  | _ => .error .ValueError

def funcName (idx : Nat) : Text :=
  match Gen.FUNCTION_MAP.lookup idx with
  | some n => n
  | none => "UNDEFINED!".toList

/-- `Formula.function`: the argument count is clamped to the stack size (with a warning). -/
def functionH (n : Node) (st : List Text) : PyM (List Text) := do
  let numArgs := if st.length < n.fnNumArgs then st.length else n.fnNumArgs
  let (args, rest) ← popn numArgs st
  .ok ((funcName n.fnIndex ++ ['('] ++ join [','] args.reverse ++ [')']) :: rest)

def listH (n : Node) (st : List Text) : PyM (List Text) := do
  let (args, rest) ← popn n.listNumArgs st
  .ok ((['('] ++ join [','] args.reverse ++ [')']) :: rest)

/-- the `for _row_num in range(num_rows)` loop of `Formula.array`; `rows` in append order. -/
def arrayRows : Nat → Nat → List Text → List Text → PyM (List Text × List Text)
  | 0, _, st, rows => .ok (rows, st)
  | r + 1, cols, st, rows => do
    let (args, st') ← popn cols st
    arrayRows r cols st' (rows ++ [join [','] args.reverse])

def arrayH (n : Node) (st : List Text) : PyM (List Text) :=
  if n.arrRows = 1 then do
    let (args, rest) ← popn n.arrCols st
    .ok ((['{'] ++ join [','] args.reverse ++ ['}']) :: rest)
  else do
    let (rows, rest) ← arrayRows n.arrRows n.arrCols st []
    .ok ((['{'] ++ join [';'] rows.reverse ++ ['}']) :: rest)

def boolText (b : Bool) : Text := if b then "TRUE".toList else "FALSE".toList

def booleanH (n : Node) (st : List Text) : PyM (List Text) :=
  .ok ((if n.hasTokenBool then boolText n.tokenBool else boolText n.boolVal) :: st)

def numberH (n : Node) (st : List Text) : PyM (List Text) :=
  if n.decHigh = 0x3040000000000000 then .ok (natStr n.decLow :: st)
  else do
    let t ← numberToStr n.numRepr
    .ok (t :: st)

/-- `needle in s` -/
def hasSub (needle : Text) : Text → Bool
  | [] => needle.isEmpty
  | c :: r => needle.isPrefixOf (c :: r) || hasSub needle r

/-- `s.split("::")` -/
def splitColons : Text → List Text
  | [] => [[]]
  | [c] => [[c]]
  | c :: d :: r =>
    if c = ':' ∧ d = ':' then [] :: splitColons r
    else match splitColons (d :: r) with
      | [] => [[c]]
      | h :: t => (c :: h) :: t

/-- `Formula.range` (COLON_NODE / COLON_NODE_WITH_UIDS) -/
def rangeH (st : List Text) : PyM (List Text) := do
  let (vals, rest) ← popn 2 st
  match vals with
  | [arg2, arg1] =>
    let funcRange := arg1.contains '(' || arg2.contains '('
    if hasSub "::".toList arg1 ∧ ¬ funcRange then
      match splitColons arg1, splitColons arg2 with
      | p0 :: p1 :: _, _ :: q1 :: _ => .ok ((p0 ++ "::".toList ++ p1 ++ [':'] ++ q1) :: rest)
      | _, _ => .error .IndexError
    else .ok ((arg1 ++ [':'] ++ arg2) :: rest)
  | _ => .error .ValueError

/-- `getattr(formula, name)(row, col, node)` -/
def handler (h : Text) (n : Node) (st : List Text) : PyM (List Text) :=
  if h = "add".toList then binop ['+'] st
  else if h = "sub".toList then binop ['-'] st
  else if h = "mul".toList then binop ['×'] st
  else if h = "div".toList then binop ['÷'] st
  else if h = "power".toList then binop ['^'] st
  else if h = "concat".toList then binop ['&'] st
  else if h = "greater_than".toList then binop ['>'] st
  else if h = "greater_than_or_equal".toList then binop ['≥'] st
  else if h = "less_than".toList then binop ['<'] st
  else if h = "less_than_or_equal".toList then binop ['≤'] st
  else if h = "not_equals".toList then binop ['≠'] st
  else if h = "equals".toList then equalsH st
  else if h = "negate".toList then
    match st with
    | a :: rest => .ok (('-' :: a) :: rest)
    | [] => .error .IndexError
  else if h = "percent".toList then
    match st with
    | a :: rest => .ok ((a ++ ['%']) :: rest)
    | [] => .error .IndexError
  else if h = "function".toList then functionH n st
  else if h = "list".toList then listH n st
  else if h = "array".toList then arrayH n st
  else if h = "boolean".toList then booleanH n st
  else if h = "number".toList then numberH n st
  else if h = "string".toList then .ok (quoteLit n.str :: st)
  else if h = "date".toList then do
    let t ← dateText n.dateMicros
    .ok (t :: st)
  else if h = "empty".toList then .ok ([] :: st)
  else if h = "xref".toList then .ok (n.refText :: st)
  else if h = "range".toList then rangeH st
  else .error .AttributeError

/-- one iteration of the `for node in all_formulas[formula_key]` loop. -/
def step (n : Node) (st : List Text) : PyM (List Text) :=
  match Gen.AST_NODE_TYPES.lookup n.ty with
  | none => .error .KeyError
  | some tn =>
    if tn = "REFERENCE_ERROR_WITH_UIDS".toList then .ok ("#REF!".toList :: st)
    else match Gen.NODE_FUNCTION_MAP.lookup tn with
      | none => .ok st                 -- unsupported node type: warning, skipped
      | some none => .ok st            -- mapped to None: skipped
      | some (some h) => handler h n st

def exec : List Node → List Text → PyM (List Text)
  | [], st => .ok st
  | n :: ns, st => do
    let st' ← step n st
    exec ns st'

/-- `TableFormulas.formula` for a key that is present: `str(formula)`. -/
def formulaText (nodes : List Node) : PyM Text := do
  let st ← exec nodes []
  .ok st.flatten

/-! ## Specification side: expression trees, Numbers' serialisation, the conventional renderer -/

inductive BinOp where
  | add | sub | mul | div | pow | concat | gt | ge | lt | le | eq | ne
  deriving DecidableEq, Repr, Inhabited

/-- number literals by the shape of what is stored. -/
inductive NumLit where
  /-- `decimal_high = 0x3040000000000000`, coefficient in `decimal_low` -/
  | int (n : Nat)
  /-- any other stored number whose `repr` has no exponent (text such as `0.5`, `12.0`) -/
  | plain (r : Text)
  /-- `repr` in exponent form: one integer digit `i`, fraction digits `f`, exponent `e` -/
  | sci (i : Char) (f : List Char) (e : Int)
  deriving DecidableEq, Repr, Inhabited

inductive Expr where
  | num (n : NumLit)
  | str (s : Text)
  | bool (viaToken : Bool) (b : Bool)
  | date (micros : Int)
  | ref (t : Text)
  | empty
  | bin (op : BinOp) (l r : Expr)
  | neg (e : Expr)
  | pct (e : Expr)
  | paren (es : List Expr)
  | call (fid : Nat) (args : List Expr)
  | arr (cols rows : Nat) (es : List Expr)
  deriving Repr, Inhabited

def glyph : BinOp → Text
  | .add => ['+'] | .sub => ['-'] | .mul => ['×'] | .div => ['÷'] | .pow => ['^'] | .concat => ['&']
  | .gt => ['>'] | .ge => ['≥'] | .lt => ['<'] | .le => ['≤'] | .eq => ['='] | .ne => ['≠']

/-- `ASTNodeType` enum numbers. -/
def opType : BinOp → Nat
  | .add => 1 | .sub => 2 | .mul => 3 | .div => 4 | .pow => 5 | .concat => 6
  | .gt => 7 | .ge => 8 | .lt => 9 | .le => 10 | .eq => 11 | .ne => 12

def pad2 (t : Text) : Text := if t.length < 2 then zeros (2 - t.length) ++ t else t

/-- CPython `repr` text of the exponent form. -/
def sciRepr (i : Char) (f : List Char) (e : Int) : Text :=
  i :: (if f = [] then [] else '.' :: f) ++ 'e' :: (if e < 0 then '-' else '+') :: pad2 (natStr e.natAbs)

def numNode : NumLit → Node
  | .int n => { ty := 17, decHigh := 0x3040000000000000, decLow := n }
  | .plain r => { ty := 17, decHigh := 0, numRepr := r }
  | .sci i f e => { ty := 17, decHigh := 0, numRepr := sciRepr i f e }

/-- plain decimal text of a number literal. -/
def numText : NumLit → Text
  | .int n => natStr n
  | .plain r => r
  | .sci i f e =>
    if e > 0 then i :: f ++ zeros (e.toNat - f.length)
    else '0' :: '.' :: zeros (e.natAbs - 1) ++ i :: f

/-- split into rows of `c` cells (`r` rows). -/
def chunks : Nat → Nat → List Text → List (List Text)
  | 0, _, _ => []
  | r + 1, c, xs => xs.take c :: chunks r c (xs.drop c)

mutual
/-- post-fix serialisation, the way Numbers stores an expression (explicit LIST nodes for
    parentheses, EMPTY_ARGUMENT nodes for omitted arguments, row-major arrays). -/
def compile : Expr → List Node
  | .num n => [numNode n]
  | .str s => [{ ty := 19, str := s }]
  | .bool false b => [{ ty := 18, boolVal := b }]
  | .bool true b => [{ ty := 23, hasTokenBool := true, tokenBool := b }]
  | .date m => [{ ty := 20, dateMicros := m }]
  | .ref t => [{ ty := 36, refText := t }]
  | .empty => [{ ty := 22 }]
  | .bin op l r => compile l ++ compile r ++ [{ ty := opType op }]
  | .neg e => compile e ++ [{ ty := 13 }]
  | .pct e => compile e ++ [{ ty := 15 }]
  | .paren es => compileList es ++ [{ ty := 25, listNumArgs := es.length }]
  | .call f args => compileList args ++ [{ ty := 16, fnIndex := f, fnNumArgs := args.length }]
  | .arr c r es => compileList es ++ [{ ty := 24, arrCols := c, arrRows := r }]
def compileList : List Expr → List Node
  | [] => []
  | e :: es => compile e ++ compileList es
end

def dateSpec (micros : Int) : Text :=
  let (y, m, d) := civil (epochOrdinal + micros / 86400000000).toNat
  "DATE(".toList ++ natStr y ++ [','] ++ natStr m ++ [','] ++ natStr d ++ [')']

mutual
/-- the conventional infix renderer. -/
def render : Expr → Text
  | .num n => numText n
  | .str s => quoteLit s
  | .bool _ b => boolText b
  | .date m => dateSpec m
  | .ref t => t
  | .empty => []
  | .bin op l r => render l ++ glyph op ++ render r
  | .neg e => '-' :: render e
  | .pct e => render e ++ ['%']
  | .paren es => ['('] ++ join [','] (renderList es) ++ [')']
  | .call f args => funcName f ++ ['('] ++ join [','] (renderList args) ++ [')']
  | .arr c r es => ['{'] ++ join [';'] ((chunks r c (renderList es)).map (join [','])) ++ ['}']
def renderList : List Expr → List Text
  | [] => []
  | e :: es => render e :: renderList es
end

/-- exponent-form literals as `repr` prints them: digits only, non-zero exponent. -/
def sciShape (i : Char) (f : List Char) (e : Int) : Bool :=
  isAsciiDigit i && f.all isAsciiDigit && e != 0

/-- the exponent-form literals the PINNED `number_to_str` renders faithfully: negative exponent, or a
    positive exponent with exactly one fraction digit (known finding for the others). -/
def sciOk (i : Char) (f : List Char) (e : Int) : Bool :=
  sciShape i f e && (decide (e < 0) || decide (f.length = 1))

mutual
/-- what "well-formed stored expression" needs for the renderer not to fail: dates inside
    `datetime`'s range, arrays with the declared shape, exponent-form numbers shaped as `repr` prints them. -/
def WellFormed : Expr → Bool
  | .num (.sci i f e) => sciOk i f e
  | .num (.plain r) => !r.contains 'e'
  | .num (.int _) => true
  | .str _ => true
  | .bool _ _ => true
  | .date m => decide (1 ≤ epochOrdinal + m / 86400000000 ∧ epochOrdinal + m / 86400000000 ≤ maxOrdinal)
  | .ref _ => true
  | .empty => true
  | .bin _ l r => WellFormed l && WellFormed r
  | .neg e => WellFormed e
  | .pct e => WellFormed e
  | .paren es => WellFormedList es
  | .call _ args => WellFormedList args
  | .arr c r es => WellFormedList es && decide (es.length = r * c) && decide (1 ≤ r)
def WellFormedList : List Expr → Bool
  | [] => true
  | e :: es => WellFormed e && WellFormedList es
end

/-! ### readers used to state literal faithfulness -/

/-- the conventional reader of a string literal's body (after the opening quote): a doubled quote is a
    quote character, a single quote ends the literal.  Returns (content, rest of input). -/
def scanBody : Text → Option (Text × Text)
  | [] => none
  | '"' :: '"' :: r => (scanBody r).map (fun p => ('"' :: p.1, p.2))
  | '"' :: r => some ([], r)
  | c :: r => (scanBody r).map (fun p => (c :: p.1, p.2))

def scanString : Text → Option (Text × Text)
  | '"' :: r => scanBody r
  | _ => none

/-- value of a plain decimal text `ddd` / `ddd.ddd` as (n, k) meaning n / 10^k. -/
def decValue (t : Text) : Option (Nat × Nat) :=
  match splitOn '.' t with
  | [a] => if a ≠ [] ∧ a.all isAsciiDigit then some (digitsVal a, 0) else none
  | [a, b] => if a ≠ [] ∧ (a ++ b).all isAsciiDigit then some (digitsVal (a ++ b), b.length) else none
  | _ => none

end NumbersModel.Formula
