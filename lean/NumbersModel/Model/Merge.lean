/-
Model of merged regions (C12):
  * `MergeCells` (model.py): the per-table dict `(row, col) -> MergeAnchor(size) | MergeReference(rect)`
  * `Cell._set_merge`, `Cell._merged_cell`, `MergedCell` (cell.py): the per-cell merge attributes
  * `Table.merge_cells`, `Table.merge_ranges`, the merge part of `Table.write` (document.py),
    with fixes/C12-merge-placeholders.patch applied (placeholders for *every* non-anchor cell)
  * `_NumbersModel.recalculate_merged_cells` (save: `col << 16 | row` packing of origin and size)
    and `calculate_merge_cell_ranges` (load: `>> 16` / `& 0xFFFF` unpacking), `Table.__init__`
    (placeholders where the map has a reference)
combined with the grid operations of Model/Grid.lean (cells carry a payload `MCell`).

Modelling notes
  * `MergeCells._references` is a `defaultdict(lambda: False)`: probing a missing key inserts
    `False`.  Such entries are invisible to every reader except through the *order* in which the
    saved ranges are listed, which is unobservable for pairwise disjoint rectangles; the model's
    `get` does not insert.  Assigning an existing key keeps its position (`MMap.set`).
  * `Table.add_row` / `add_column` / `delete_row` / `delete_column` end with `Table._move_merges`
    (fixes/C12-merge-map-shift.patch): unless every merged rectangle ends before the edit, the map is
    cleared, every cell is un-merged (`MergedCell` -> empty cell, every other cell `_set_merge(None)`)
    and the rectangles are merged again where their cells are now (`moveMerges`, `unmerge`, `remerge`,
    `shiftRect`).  New cells created by `add_row` / `add_column` / auto-extension call
    `_set_merge(map.get((row, col)))` for the position they are created at, and the default fill's
    `write` does the same; both read the map *before* `_move_merges`.  The model gives these cells the
    payload of a position without a merge entry (`emptyCell`, `valCell`): that is what the code computes
    when every rectangle ends before the edit (the early `return`), and in the other case the three
    merge attributes are overwritten by `_set_merge(None)` before anything can observe them (class and
    value are the same either way).  `mstepPinned` keeps the edits without `_move_merges` (the pinned
    behaviour) for the counter-example in Props/C12.lean.
  * `_move_merges` hands the moved rectangle to `merge_cells` as `"<A1>:<A1>"` text; that
    `xl_cell_to_rowcol (xl_rowcol_to_cell r c) = (r, c)` is C10's; the model passes the coordinates.
  * `merge_cells` takes the range in A1 notation; the parsing is C10's `cellToRowCol`, the model
    takes the four parsed coordinates.
  * `recalculate_merged_cells` also removes the table's merge-owner range records from the formula-owner
    archives (fixes/C12-stale-merge-owner-records.patch).  Documents created by the library have none;
    the model's `reload` reads the merge region map only (tables loaded from documents written by
    Numbers are covered by the check's fixture oracles, not by the model).
Core Lean only.
-/
import NumbersModel.Model.Grid
namespace NumbersModel.Merge
open NumbersModel NumbersModel.Grid

/-- `MergeAnchor(size=(rows, cols))` / `MergeReference(rect=(row_start, col_start, row_end, col_end))`. -/
inductive MRef where
  | anchor (h w : Int)
  | ref (r0 c0 r1 c1 : Int)
  deriving DecidableEq, Repr

abbrev Key := Int × Int
/-- the `_references` dict, in insertion order. -/
abbrev MMap := List (Key × MRef)

/-- `self._references[row_col]` (a missing key reads as `False` = `none`). -/
def MMap.get : MMap → Key → Option MRef
  | [], _ => none
  | (k', v) :: rest, k => if k' = k then some v else MMap.get rest k

/-- `self._references[row_col] = v` (an existing key keeps its place). -/
def MMap.set : MMap → Key → MRef → MMap
  | [], k, v => [(k, v)]
  | (k', v') :: rest, k, v => if k' = k then (k', v) :: rest else (k', v') :: MMap.set rest k v

/-- what the property observes of a cell besides its position. -/
structure MCell where
  /-- `isinstance(cell, MergedCell)`: a placeholder, `value` is `None` -/
  ph : Bool
  /-- value token (0 = `None`) -/
  val : Nat
  /-- `cell.is_merged` -/
  merged : Bool
  /-- `cell.size` -/
  size : Option (Int × Int)
  /-- `cell.rect` (`cell.merge_range` is `xl_range(*rect)`) -/
  rect : Option (Int × Int × Int × Int)
  deriving DecidableEq, Repr

/-- `Cell._set_merge(merge_ref)`. -/
def setMerge (m : Option MRef) (x : MCell) : MCell :=
  match m with
  | some (.anchor h w) => { x with merged := true, size := some (h, w), rect := none }
  | some (.ref r0 c0 r1 c1) => { x with merged := false, size := none, rect := some (r0, c0, r1, c1) }
  | none => { x with merged := false, size := some (1, 1), rect := none }

/-- a value cell before `_set_merge`. -/
def rawCell (v : Nat) : MCell := { ph := false, val := v, merged := false, size := none, rect := none }
/-- `MergedCell(row, col)` before `_set_merge`. -/
def rawPlaceholder : MCell := { ph := true, val := 0, merged := false, size := none, rect := none }
/-- `Cell._empty_cell` at a position without a merge entry. -/
def emptyCell : MCell := setMerge none (rawCell 0)
/-- a written / default-filled cell at a position without a merge entry. -/
def valCell (v : Nat) : MCell := setMerge none (rawCell v)

/-- `(row_start, col_start, row_end, col_end)`. -/
abbrev Rct := Int × Int × Int × Int

/-- the rectangle an anchor entry `((row, col), (rows, cols))` stands for:
    `[row, col, row + num_rows - 1, col + num_cols - 1]`. -/
def rectOf (a : Key × (Int × Int)) : Rct := (a.1.1, a.1.2, a.1.1 + a.2.1 - 1, a.1.2 + a.2.2 - 1)

structure MState where
  grid : Grid.State MCell
  mmap : MMap
  deriving DecidableEq, Repr

def minit (nr nc : Nat) : MState := { grid := Grid.init emptyCell nr nc, mmap := [] }

/-- `Table.write(row, col, value)`: the new cell gets `_set_merge(merge_cells.get((row, col)))`. -/
def mwrite (s : MState) (row col : Int) (v : Nat) : PyM MState := do
  let g ← Grid.write emptyCell s.grid row col (setMerge (s.mmap.get (row, col)) (rawCell v))
  pure { s with grid := g }

/-- the anchors of the map, in dict order: `MergeCells.merge_cells()` with their sizes. -/
def anchorsOf : MMap → List (Key × (Int × Int))
  | [] => []
  | (k, .anchor h w) :: rest => (k, (h, w)) :: anchorsOf rest
  | (_, .ref ..) :: rest => anchorsOf rest

/-- the edits without `_move_merges`: the grid changes, the merge map stays (the library before
    fixes/C12-merge-map-shift.patch).  `mstep` runs `moveMerges` after it; Props/C12.lean keeps the
    counter-example for the unrepaired behaviour. -/
def mstepPinned (s : MState) (op : Grid.Op Nat) : PyM MState :=
  match op with
  | .write r c v => mwrite s r c v
  | .addRow n st d => do
    let g ← Grid.addRow emptyCell s.grid n st (d.map valCell); pure { s with grid := g }
  | .addCol n st d => do
    let g ← Grid.addCol emptyCell s.grid n st (d.map valCell); pure { s with grid := g }
  | .delRow n st => do let g ← Grid.delRow s.grid n st; pure { s with grid := g }
  | .delCol n st => do let g ← Grid.delCol s.grid n st; pure { s with grid := g }

/-! ### `Table._move_merges` (fixes/C12-merge-map-shift.patch) -/

/-- `(rect[axis], rect[axis + 2])` after the assignments in the loop body of `_move_merges`. -/
def shiftSpan (start count first last : Int) : Int × Int :=
  if count > 0 then
    (if start ≤ first then first + count else first, if start ≤ last then last + count else last)
  else
    (if start ≤ first then max (first + count) start else first,
     if start ≤ last then max (last + count) (start - 1) else last)

/-- the body of the `for rect in rects` loop up to the `continue`: where the rectangle is after `count`
    rows (`rows = true`: `axis == 0`) or columns were inserted at `start` (`count > 0`) or `-count` of
    them deleted from `start` on; `none` = `continue` (deleted, or reduced to a single cell).
    ```
    (first, last) = (rect[axis], rect[axis + 2])
    if count > 0:
        rect[axis] = first + count if start <= first else first
        rect[axis + 2] = last + count if start <= last else last
    else:
        rect[axis] = max(first + count, start) if start <= first else first
        rect[axis + 2] = max(last + count, start - 1) if start <= last else last
    shrunk = rect[axis + 2] - rect[axis] < last - first
    if rect[axis] > rect[axis + 2] or (shrunk and rect[:2] == rect[2:]): continue
    ``` -/
def shiftRect (rows : Bool) (start count : Int) (q : Rct) : Option Rct :=
  let first := if rows then q.1 else q.2.1
  let last := if rows then q.2.2.1 else q.2.2.2
  let fl := shiftSpan start count first last
  let q' : Rct := if rows then (fl.1, q.2.1, fl.2, q.2.2.2) else (q.1, fl.1, q.2.2.1, fl.2)
  if fl.1 > fl.2 ∨ (fl.2 - fl.1 < last - first ∧ q'.1 = q'.2.2.1 ∧ q'.2.1 = q'.2.2.2) then none
  else some q'

/-- the un-merge sweep of `_move_merges`:
    ```
    for row, cells in enumerate(self._data):
        for col, cell in enumerate(cells):
            if isinstance(cell, MergedCell): cells[col] = Cell._empty_cell(self._table_id, row, col, self._model)
            else: cell._set_merge(None)
    ```
    (the map is empty at this point, so the new empty cell has no merge entry). -/
def unmerge (d : List (List (CellM MCell))) : List (List (CellM MCell)) :=
  d.mapIdx (fun row cells => cells.mapIdx (fun col cell =>
    if cell.val.ph then (⟨(row : Int), (col : Int), emptyCell⟩ : CellM MCell)
    else { cell with val := setMerge none cell.val }))
/-- one iteration of the placeholder loops of `Table.merge_cells`:
    ```
    if (row, col) == (row_start, col_start): continue          # fixes/C12-merge-placeholders.patch
    self._data[row][col] = Cell._merged_cell(self._table_id, row, col, self._model)
    merge_cells.add_reference(row, col, (row_start, col_start, row_end, col_end))
    ``` -/
def placeOne (r0 c0 r1 c1 : Int) (row col : Int) (st : List (List (CellM MCell)) × MMap) :
    PyM (List (List (CellM MCell)) × MMap) :=
  if row = r0 ∧ col = c0 then .ok st
  else do
    let (d, m) := st
    let rowl ← pyIndex d row
    let rowl' ← pySetItem rowl col ⟨row, col, setMerge (m.get (row, col)) rawPlaceholder⟩
    let d' ← pySetItem d row rowl'
    pure (d', m.set (row, col) (.ref r0 c0 r1 c1))

/-- the final sweep `for row, cells in enumerate(self._data): for col, cell in enumerate(cells):
    cell._set_merge(merge_cells.get((row, col)))`. -/
def sweep (d : List (List (CellM MCell))) (m : MMap) : List (List (CellM MCell)) :=
  d.mapIdx (fun row cells => cells.mapIdx (fun col cell =>
    { cell with val := setMerge (m.get ((row : Int), (col : Int))) cell.val }))

/-- `Table.merge_cells("<r0,c0>:<r1,c1>")` for one range. -/
def mergeOne (s : MState) (r0 c0 r1 c1 : Int) : PyM MState := do
  let numRows := r1 - r0 + 1
  let numCols := c1 - c0 + 1
  let m1 := s.mmap.set (r0, c0) (.anchor numRows numCols)
  let (d2, m2) ← forRange (fun row st =>
      forRange (fun col st => placeOne r0 c0 r1 c1 row col st) (c1 + 1 - c0).toNat c0 st)
    (r1 + 1 - r0).toNat r0 (s.grid.data, m1)
  pure { grid := { s.grid with data := sweep d2 m2 }, mmap := m2 }

/-- `Table.merge_cells([...])`: `for x in cell_range: self.merge_cells(x)`. -/
def mergeList (s : MState) : List (Int × Int × Int × Int) → PyM MState
  | [] => .ok s
  | (r0, c0, r1, c1) :: rest => do
    let s' ← mergeOne s r0 c0 r1 c1
    mergeList s' rest

/-- the `for rect in rects` loop of `_move_merges`: the moved rectangle is merged again
    (`self.merge_cells("<A1>:<A1>")`) unless it is skipped. -/
def remerge (rows : Bool) (start count : Int) (s : MState) : List Rct → PyM MState
  | [] => .ok s
  | q :: rest =>
    match shiftRect rows start count q with
    | none => remerge rows start count s rest
    | some (r0, c0, r1, c1) => do
      let s' ← mergeOne s r0 c0 r1 c1
      remerge rows start count s' rest

/-- `Table._move_merges(axis, start, count)`: nothing to do if the rows / columns were appended
    (`start + count == (self.num_rows, self.num_cols)[axis]`, the dimensions being those after the
    edit) or if every merged rectangle ends before `start` (in particular: no merges); otherwise clear
    the map, un-merge every cell, merge the moved rectangles again. -/
def moveMerges (s : MState) (rows : Bool) (start count : Int) : PyM MState :=
  if count > 0 ∧ start + count = (if rows then s.grid.numRows else s.grid.numCols) then .ok s
  else
    let rects := (anchorsOf s.mmap).map rectOf
    if rects.all (fun q => decide ((if rows then q.2.2.1 else q.2.2.2) < start)) then .ok s
    else remerge rows start count { grid := { s.grid with data := unmerge s.grid.data }, mmap := [] } rects

/-- `start_row if start_row is not None else <default>`. -/
def startOrI (start : Option Int) (dflt : Int) : Int := match start with | some st => st | none => dflt

/-- `Table.write` / `add_row` / `add_column` / `delete_row` / `delete_column` with the merge
    bookkeeping: the structural edits end with `_move_merges` (for insertions `start` defaults to the
    old dimension, for deletions to the new one). -/
def mstep (s : MState) (op : Grid.Op Nat) : PyM MState :=
  match op with
  | .write r c v => mwrite s r c v
  | .addRow n st _ => do
    let s1 ← mstepPinned s op
    moveMerges s1 true (startOrI st s.grid.numRows) n
  | .addCol n st _ => do
    let s1 ← mstepPinned s op
    moveMerges s1 false (startOrI st s.grid.numCols) n
  | .delRow n st => do
    let s1 ← mstepPinned s op
    moveMerges s1 true (startOrI st s1.grid.numRows) (-n)
  | .delCol n st => do
    let s1 ← mstepPinned s op
    moveMerges s1 false (startOrI st s1.grid.numCols) (-n)

/-- `Table.merge_ranges`, as rectangles in row-major order of their anchors (the library returns
    the sorted set of their `xl_range` strings). -/
def mergeRanges (s : MState) : PyM (List (Int × Int × Int × Int)) :=
  let cells := (s.grid.data.mapIdx (fun row cells => cells.mapIdx (fun col cell => ((row : Int), (col : Int), cell.val)))).flatten
  cells.foldr (fun (row, col, x) acc => do
    let rest ← acc
    if x.merged then
      match x.size with
      | some (h, w) => pure ((row, col, row + h - 1, col + w - 1) :: rest)
      | none => .error .TypeError          -- `size[0]` on None
    else pure rest) (.ok [])

/-! ### save / load -/

/-- `hi << 16 | lo` stored into a protobuf `uint32` field (`ValueError` outside 0..2^32-1). -/
def pack32 (hi lo : Int) : PyM Nat :=
  if hi < 0 ∨ lo < 0 then .error .ValueError
  else
    let v := (hi.toNat <<< 16) ||| lo.toNat
    if v ≥ 2 ^ 32 then .error .ValueError else .ok v

/-- `recalculate_merged_cells`: `CellRange(origin = col << 16 | row, size = ncols << 16 | nrows)`. -/
def packRanges : List (Key × (Int × Int)) → PyM (List (Nat × Nat))
  | [] => .ok []
  | ((row, col), (h, w)) :: rest => do
    let o ← pack32 col row
    let sz ← pack32 w h
    let tl ← packRanges rest
    pure ((o, sz) :: tl)

/-- `for i in range(lo, lo + n): s = f i s` for loop bodies that cannot raise. -/
def pureRange {σ} (f : Int → σ → σ) : Nat → Int → σ → σ
  | 0, _, s => s
  | n + 1, i, s => pureRange f n (i + 1) (f i s)

/-- the body of the `for cell_range in cell_ranges.cell_range` loop of `calculate_merge_cell_ranges`. -/
def loadRange (m : MMap) (packed : Nat × Nat) : MMap :=
  let colStart : Int := (packed.1 >>> 16 : Nat)
  let rowStart : Int := (packed.1 &&& 0xFFFF : Nat)
  let numCols : Int := (packed.2 >>> 16 : Nat)
  let numRows : Int := (packed.2 &&& 0xFFFF : Nat)
  let rowEnd := rowStart + numRows - 1
  let colEnd := colStart + numCols - 1
  let m1 := pureRange (fun row m =>
      pureRange (fun col m => m.set (row, col) (.ref rowStart colStart rowEnd colEnd))
        (colEnd + 1 - colStart).toNat colStart m)
    (rowEnd + 1 - rowStart).toNat rowStart m
  m1.set (rowStart, colStart) (.anchor numRows numCols)

/-- `calculate_merge_cell_ranges` on a freshly opened document (no merge-owner formula records). -/
def loadRanges (packed : List (Nat × Nat)) : MMap := packed.foldl loadRange []

/-- what `Table.__init__` puts at `(row, col)`: a placeholder where the map has a reference,
    otherwise the stored value; then `_set_merge`. -/
def initCell (m : MMap) (stored : Nat) (row col : Int) : CellM MCell :=
  match m.get (row, col) with
  | some (.ref r0 c0 r1 c1) => ⟨row, col, setMerge (some (.ref r0 c0 r1 c1)) rawPlaceholder⟩
  | other => ⟨row, col, setMerge other (rawCell stored)⟩

/-- the value saved for a cell: placeholders have no storage. -/
def storedVal (x : MCell) : Nat := if x.ph then 0 else x.val

/-- `Document.save` followed by `Document(path)` for one table: dimensions from the data
    (`number_of_rows = len(data)`, `number_of_columns = len(data[0])`), values cell by cell (C01),
    the merge map through `packRanges` / `loadRanges`, cells rebuilt by `Table.__init__`. -/
def reload (s : MState) : PyM MState := do
  let packed ← packRanges (anchorsOf s.mmap)
  let row0 ← pyIndex s.grid.data 0
  let m := loadRanges packed
  let data := s.grid.data.mapIdx (fun row cells => cells.mapIdx (fun col cell =>
    initCell m (storedVal cell.val) (row : Int) (col : Int)))
  pure { grid := { numRows := s.grid.data.length, numCols := row0.length, data := data }, mmap := m }

end NumbersModel.Merge
