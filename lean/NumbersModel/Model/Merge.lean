/-
Model of merged regions (C12):
  * `MergeCells` (model.py): the per-table dict `(row, col) -> MergeAnchor(size) | MergeReference(rect)`
  * `Cell._set_merge`, `Cell._merged_cell`, `MergedCell` (cell.py): the per-cell merge attributes
  * `Table.merge_cells`, `Table.merge_ranges`, the merge part of `Table.write` (document.py),
    with fixes/C12-merge-placeholders.patch applied (placeholders for *every* non-anchor cell)
  * `_NumbersModel.recalculate_merged_cells` (save: `col << 16 | row` packing of origin and size)
    and `calculate_merge_cell_ranges` (load: `>> 16` / `& 0xFFFF` unpacking), `Table.__init__`
    (placeholders where the map has a reference)
combined with the grid operations of Model/Grid.lean (cells carry a payload `MCell`).

Modelling notes
  * `MergeCells._references` is a `defaultdict(lambda: False)`: probing a missing key inserts
    `False`.  Such entries are invisible to every reader except through the *order* in which the
    saved ranges are listed, which is unobservable for pairwise disjoint rectangles; the model's
    `get` does not insert.  Assigning an existing key keeps its position (`MMap.set`).
  * New cells created by `add_row` / `add_column` / auto-extension call
    `_set_merge(map.get((row, col)))` for the position they are created at.  The model gives
    them the constant payload `emptyCell` (no merge entry), which is what the code does whenever
    the new positions lie outside every merged rectangle.  Structural edits before / inside a
    merged rectangle are a known defect of the library (the map is not shifted): the check does
    not run the model past such an edit.
  * `merge_cells` takes the range in A1 notation; the parsing is C10's `cellToRowCol`, the model
    takes the four parsed coordinates.
Core Lean only.
-/
import NumbersModel.Model.Grid
namespace NumbersModel.Merge
open NumbersModel NumbersModel.Grid

/-- `MergeAnchor(size=(rows, cols))` / `MergeReference(rect=(row_start, col_start, row_end, col_end))`. -/
inductive MRef where
  | anchor (h w : Int)
  | ref (r0 c0 r1 c1 : Int)
  deriving DecidableEq, Repr

abbrev Key := Int × Int
/-- the `_references` dict, in insertion order. -/
abbrev MMap := List (Key × MRef)

/-- `self._references[row_col]` (a missing key reads as `False` = `none`). -/
def MMap.get : MMap → Key → Option MRef
  | [], _ => none
  | (k', v) :: rest, k => if k' = k then some v else MMap.get rest k

/-- `self._references[row_col] = v` (an existing key keeps its place). -/
def MMap.set : MMap → Key → MRef → MMap
  | [], k, v => [(k, v)]
  | (k', v') :: rest, k, v => if k' = k then (k', v) :: rest else (k', v') :: MMap.set rest k v

/-- what the property observes of a cell besides its position. -/
structure MCell where
  /-- `isinstance(cell, MergedCell)`: a placeholder, `value` is `None` -/
  ph : Bool
  /-- value token (0 = `None`) -/
  val : Nat
  /-- `cell.is_merged` -/
  merged : Bool
  /-- `cell.size` -/
  size : Option (Int × Int)
  /-- `cell.rect` (`cell.merge_range` is `xl_range(*rect)`) -/
  rect : Option (Int × Int × Int × Int)
  deriving DecidableEq, Repr

/-- `Cell._set_merge(merge_ref)`. -/
def setMerge (m : Option MRef) (x : MCell) : MCell :=
  match m with
  | some (.anchor h w) => { x with merged := true, size := some (h, w), rect := none }
  | some (.ref r0 c0 r1 c1) => { x with merged := false, size := none, rect := some (r0, c0, r1, c1) }
  | none => { x with merged := false, size := some (1, 1), rect := none }

/-- a value cell before `_set_merge`. -/
def rawCell (v : Nat) : MCell := { ph := false, val := v, merged := false, size := none, rect := none }
/-- `MergedCell(row, col)` before `_set_merge`. -/
def rawPlaceholder : MCell := { ph := true, val := 0, merged := false, size := none, rect := none }
/-- `Cell._empty_cell` at a position without a merge entry. -/
def emptyCell : MCell := setMerge none (rawCell 0)
/-- a written / default-filled cell at a position without a merge entry. -/
def valCell (v : Nat) : MCell := setMerge none (rawCell v)

structure MState where
  grid : Grid.State MCell
  mmap : MMap
  deriving DecidableEq, Repr

def minit (nr nc : Nat) : MState := { grid := Grid.init emptyCell nr nc, mmap := [] }

/-- `Table.write(row, col, value)`: the new cell gets `_set_merge(merge_cells.get((row, col)))`. -/
def mwrite (s : MState) (row col : Int) (v : Nat) : PyM MState := do
  let g ← Grid.write emptyCell s.grid row col (setMerge (s.mmap.get (row, col)) (rawCell v))
  pure { s with grid := g }

/-- the structural edits (new cells: see the modelling notes). -/
def mstep (s : MState) (op : Grid.Op Nat) : PyM MState :=
  match op with
  | .write r c v => mwrite s r c v
  | .addRow n st d => do
    let g ← Grid.addRow emptyCell s.grid n st (d.map valCell); pure { s with grid := g }
  | .addCol n st d => do
    let g ← Grid.addCol emptyCell s.grid n st (d.map valCell); pure { s with grid := g }
  | .delRow n st => do let g ← Grid.delRow s.grid n st; pure { s with grid := g }
  | .delCol n st => do let g ← Grid.delCol s.grid n st; pure { s with grid := g }

/-- one iteration of the placeholder loops of `Table.merge_cells`:
    ```
    if (row, col) == (row_start, col_start): continue          # fixes/C12-merge-placeholders.patch
    self._data[row][col] = Cell._merged_cell(self._table_id, row, col, self._model)
    merge_cells.add_reference(row, col, (row_start, col_start, row_end, col_end))
    ``` -/
def placeOne (r0 c0 r1 c1 : Int) (row col : Int) (st : List (List (CellM MCell)) × MMap) :
    PyM (List (List (CellM MCell)) × MMap) :=
  if row = r0 ∧ col = c0 then .ok st
  else do
    let (d, m) := st
    let rowl ← pyIndex d row
    let rowl' ← pySetItem rowl col ⟨row, col, setMerge (m.get (row, col)) rawPlaceholder⟩
    let d' ← pySetItem d row rowl'
    pure (d', m.set (row, col) (.ref r0 c0 r1 c1))

/-- the final sweep `for row, cells in enumerate(self._data): for col, cell in enumerate(cells):
    cell._set_merge(merge_cells.get((row, col)))`. -/
def sweep (d : List (List (CellM MCell))) (m : MMap) : List (List (CellM MCell)) :=
  d.mapIdx (fun row cells => cells.mapIdx (fun col cell =>
    { cell with val := setMerge (m.get ((row : Int), (col : Int))) cell.val }))

/-- `Table.merge_cells("<r0,c0>:<r1,c1>")` for one range. -/
def mergeOne (s : MState) (r0 c0 r1 c1 : Int) : PyM MState := do
  let numRows := r1 - r0 + 1
  let numCols := c1 - c0 + 1
  let m1 := s.mmap.set (r0, c0) (.anchor numRows numCols)
  let (d2, m2) ← forRange (fun row st =>
      forRange (fun col st => placeOne r0 c0 r1 c1 row col st) (c1 + 1 - c0).toNat c0 st)
    (r1 + 1 - r0).toNat r0 (s.grid.data, m1)
  pure { grid := { s.grid with data := sweep d2 m2 }, mmap := m2 }

/-- `Table.merge_cells([...])`: `for x in cell_range: self.merge_cells(x)`. -/
def mergeList (s : MState) : List (Int × Int × Int × Int) → PyM MState
  | [] => .ok s
  | (r0, c0, r1, c1) :: rest => do
    let s' ← mergeOne s r0 c0 r1 c1
    mergeList s' rest

/-- `Table.merge_ranges`, as rectangles in row-major order of their anchors (the library returns
    the sorted set of their `xl_range` strings). -/
def mergeRanges (s : MState) : PyM (List (Int × Int × Int × Int)) :=
  let cells := (s.grid.data.mapIdx (fun row cells => cells.mapIdx (fun col cell => ((row : Int), (col : Int), cell.val)))).flatten
  cells.foldr (fun (row, col, x) acc => do
    let rest ← acc
    if x.merged then
      match x.size with
      | some (h, w) => pure ((row, col, row + h - 1, col + w - 1) :: rest)
      | none => .error .TypeError          -- `size[0]` on None
    else pure rest) (.ok [])

/-! ### save / load -/

/-- `hi << 16 | lo` stored into a protobuf `uint32` field (`ValueError` outside 0..2^32-1). -/
def pack32 (hi lo : Int) : PyM Nat :=
  if hi < 0 ∨ lo < 0 then .error .ValueError
  else
    let v := (hi.toNat <<< 16) ||| lo.toNat
    if v ≥ 2 ^ 32 then .error .ValueError else .ok v

/-- the anchors of the map, in dict order: `MergeCells.merge_cells()` with their sizes. -/
def anchorsOf : MMap → List (Key × (Int × Int))
  | [] => []
  | (k, .anchor h w) :: rest => (k, (h, w)) :: anchorsOf rest
  | (_, .ref ..) :: rest => anchorsOf rest

/-- `recalculate_merged_cells`: `CellRange(origin = col << 16 | row, size = ncols << 16 | nrows)`. -/
def packRanges : List (Key × (Int × Int)) → PyM (List (Nat × Nat))
  | [] => .ok []
  | ((row, col), (h, w)) :: rest => do
    let o ← pack32 col row
    let sz ← pack32 w h
    let tl ← packRanges rest
    pure ((o, sz) :: tl)

/-- `for i in range(lo, lo + n): s = f i s` for loop bodies that cannot raise. -/
def pureRange {σ} (f : Int → σ → σ) : Nat → Int → σ → σ
  | 0, _, s => s
  | n + 1, i, s => pureRange f n (i + 1) (f i s)

/-- the body of the `for cell_range in cell_ranges.cell_range` loop of `calculate_merge_cell_ranges`. -/
def loadRange (m : MMap) (packed : Nat × Nat) : MMap :=
  let colStart : Int := (packed.1 >>> 16 : Nat)
  let rowStart : Int := (packed.1 &&& 0xFFFF : Nat)
  let numCols : Int := (packed.2 >>> 16 : Nat)
  let numRows : Int := (packed.2 &&& 0xFFFF : Nat)
  let rowEnd := rowStart + numRows - 1
  let colEnd := colStart + numCols - 1
  let m1 := pureRange (fun row m =>
      pureRange (fun col m => m.set (row, col) (.ref rowStart colStart rowEnd colEnd))
        (colEnd + 1 - colStart).toNat colStart m)
    (rowEnd + 1 - rowStart).toNat rowStart m
  m1.set (rowStart, colStart) (.anchor numRows numCols)

/-- `calculate_merge_cell_ranges` on a freshly opened document (no merge-owner formula records). -/
def loadRanges (packed : List (Nat × Nat)) : MMap := packed.foldl loadRange []

/-- what `Table.__init__` puts at `(row, col)`: a placeholder where the map has a reference,
    otherwise the stored value; then `_set_merge`. -/
def initCell (m : MMap) (stored : Nat) (row col : Int) : CellM MCell :=
  match m.get (row, col) with
  | some (.ref r0 c0 r1 c1) => ⟨row, col, setMerge (some (.ref r0 c0 r1 c1)) rawPlaceholder⟩
  | other => ⟨row, col, setMerge other (rawCell stored)⟩

/-- the value saved for a cell: placeholders have no storage. -/
def storedVal (x : MCell) : Nat := if x.ph then 0 else x.val

/-- `Document.save` followed by `Document(path)` for one table: dimensions from the data
    (`number_of_rows = len(data)`, `number_of_columns = len(data[0])`), values cell by cell (C01),
    the merge map through `packRanges` / `loadRanges`, cells rebuilt by `Table.__init__`. -/
def reload (s : MState) : PyM MState := do
  let packed ← packRanges (anchorsOf s.mmap)
  let row0 ← pyIndex s.grid.data 0
  let m := loadRanges packed
  let data := s.grid.data.mapIdx (fun row cells => cells.mapIdx (fun col cell =>
    initCell m (storedVal cell.val) (row : Int) (col : Int)))
  pure { grid := { numRows := s.grid.data.length, numCols := row0.length, data := data }, mmap := m }

end NumbersModel.Merge
