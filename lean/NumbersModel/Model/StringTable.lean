/-
Model of the write side of `DataLists` (src/numbers_parser/model.py): `init` (reset before a
table is saved) and `lookup_key` (intern a value, allocating the next key for a new one), and
of the read side `lookup_value` over the entries so produced.
-/
import NumbersModel.Py.Basic
namespace NumbersModel.StringTable
open NumbersModel

structure Tbl (α : Type) where
  entries : List (Nat × α)     -- `datalist.entries` as (key, value), in list order
  nextKey : Nat
  deriving Repr

/-- `DataLists.init` -/
def init {α} : Tbl α := ⟨[], 1⟩

/-- `DataLists.lookup_key`: returns the key and the updated table. -/
def lookupKey {α} [DecidableEq α] (t : Tbl α) (v : α) : Nat × Tbl α :=
  match t.entries.find? (fun e => e.2 = v) with
  | some e => (e.1, t)
  | none => (t.nextKey, ⟨t.entries ++ [(t.nextKey, v)], t.nextKey + 1⟩)

/-- interning a sequence of values (the order in which cells are saved). -/
def internAll {α} [DecidableEq α] : Tbl α → List α → List Nat × Tbl α
  | t, [] => ([], t)
  | t, v :: vs =>
    let (k, t1) := lookupKey t v
    let (ks, t2) := internAll t1 vs
    (k :: ks, t2)

/-- `DataLists.lookup_value` on a freshly indexed list: the entry carrying the key. -/
def lookupValue {α} (entries : List (Nat × α)) (k : Nat) : PyM α :=
  match entries.find? (fun e => e.1 = k) with
  | some e => .ok e.2
  | none => .error .KeyError

end NumbersModel.StringTable
