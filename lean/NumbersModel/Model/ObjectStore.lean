/-
C07 — bookkeeping behind a saved package (src/numbers_parser/containers.py, model.py), core Lean only.

* `ObjectStore.__init__` rounding of `_max_id`, `new_message_id`, `create_object_from_dict`
  (which archive file a new object goes to, when a file is created), `add_component_metadata` /
  `add_component_reference` (the `PackageMetadata.components` inventory).
* the object graph: every message abstracted to the identifiers it refers to (`GStore`), `create_object_from_dict` with the
  references of the dict, `add_component_reference`, reference writes / removals, `update_object_file_store` =
  `iwafile.copy_object_to_iwa_file` over all objects (header `object_references` recomputed), `store_image`; operation
  histories `GOp` / `runG` and the side condition `TargetsExist`.
* the tile loop of `recalculate_table_data` (after fixes/C07-no-empty-trailing-tile.patch) and the
  row-info builder `recalculate_row_info`.
-/
import NumbersModel.Model.Layout
namespace NumbersModel.ObjStore
open NumbersModel NumbersModel.Layout

/-! ### identifiers -/

/-- `math.ceil(m / 1000000) * 1000000` (float division; exact for every identifier below 2^53/10^6·…,
    see notes/C07.md) -/
def roundUpMillion (m : Nat) : Nat := (m + 999999) / 1000000 * 1000000

/-- `x in k` for strings -/
def isPrefixOf : List Char → List Char → Bool
  | [], _ => true
  | _ :: _, [] => false
  | a :: r, b :: s => a == b && isPrefixOf r s

def isInfix (x : List Char) : List Char → Bool
  | [] => x.isEmpty
  | c :: s => isPrefixOf x (c :: s) || isInfix x s

/-- `pat.format(arg)` for a pattern with at most one `{}` and no other braces -/
def pyFormat1 : List Char → List Char → List Char
  | '{' :: '}' :: r, arg => arg ++ r
  | c :: r, arg => c :: pyFormat1 r arg
  | [], _ => []

def isDigit (c : Char) : Bool := '0' ≤ c && c ≤ '9'

/-- `re.sub(r"\-\d+.*", "", s)` for a one-line `s`: cut at the first `-` that is followed by a digit -/
def stripDashDigits : List Char → List Char
  | '-' :: d :: r => if isDigit d then [] else '-' :: stripDashDigits (d :: r)
  | c :: r => c :: stripDashDigits r
  | [] => []

/-- `ComponentExternalReference` -/
structure ExtRef where
  component : Nat
  object : Nat := 0
  weak : Bool := false
  deriving DecidableEq, Repr

structure Component where
  identifier : Nat
  locator : List Char
  preferred : List Char
  externalRefs : List ExtRef := []
  deriving DecidableEq, Repr

structure Store where
  maxId : Nat
  lastObjId : Nat
  /-- keys of `_objects`, insertion order -/
  ids : List Nat
  fileOf : List (Nat × List Char) := []
  /-- `_file_store`, insertion order: identifiers of the archives of an IWA file, `none` for any other blob -/
  files : List (List Char × Option (List Nat))
  components : List Component := []
  deriving Repr

def listMax : List Nat → PyM Nat
  | [] => .error .ValueError
  | a :: r => .ok (r.foldl (fun m k => if k > m then k else m) a)

/-- the end of `ObjectStore.__init__` -/
def openStore (ids : List Nat) (lastObjId : Nat) (files : List (List Char × Option (List Nat)))
    (components : List Component) : PyM Store := do
  let m ← listMax ids
  pure { maxId := roundUpMillion m, lastObjId := lastObjId, ids := ids, files := files, components := components }

/-- `new_message_id` -/
def newMessageId (st : Store) : Store × Nat :=
  ({ st with maxId := st.maxId + 1, lastObjId := st.maxId + 1 }, st.maxId + 1)

def setAdd (l : List Nat) (k : Nat) : List Nat := if k ∈ l then l else l ++ [k]

/-- `[k for k, v in self._file_store.items() if iwa_file in k and isinstance(v, IWAFile)]` with the archives of each:
    only IWA members are candidates for a new object (fixes/C19-new-objects-go-to-iwa-members.patch); any other blob
    (`Metadata/DocumentIdentifier`, `preview.jpg`, …) is passed over whatever its name -/
def iwaPaths (files : List (List Char × Option (List Nat))) (iwaFile : List Char) : List (List Char × List Nat) :=
  files.filterMap fun f => match f.2 with
    | some segs => if isInfix iwaFile f.1 then some (f.1, segs) else none
    | none => none

/-- the candidates of the pinned code: `[k for k in self._file_store if iwa_file in k]`, blobs included — taking the first of
    these raised AttributeError (`bytes` has no `.chunks`) when it was not an IWA member.  Kept for the counter-example only. -/
def pathsPinned (files : List (List Char × Option (List Nat))) (iwaFile : List Char) : List (List Char × Option (List Nat)) :=
  files.filter (fun f => isInfix iwaFile f.1)

/-- `create_object_from_dict(iwa_file, …, append)`: the state after the call (also when it raises:
    the identifier has been consumed by then) and the new identifier or the exception.  The archive goes to the FIRST IWA
    member whose name contains `iwa_file`; no such member: a new member `iwa_file.format(id) + ".iwa"` (KeyError with `append`). -/
def createObject (st : Store) (iwaFile : List Char) (append : Bool) : Store × PyM Nat :=
  let paths := iwaPaths st.files iwaFile
  let (st1, newId) := newMessageId st
  match paths with
  | [] =>
    if append then (st1, .error .KeyError)   -- `self._file_store[None]`
    else
      let path := pyFormat1 iwaFile (natStr newId) ++ ".iwa".toList
      ({ st1 with files := dictSet st1.files path (some [newId]), ids := setAdd st1.ids newId,
                  fileOf := dictSet st1.fileOf newId path }, .ok newId)
  | (path, segs) :: _ =>
    ({ st1 with files := dictSet st1.files path (some (segs ++ [newId])), ids := setAdd st1.ids newId,
                fileOf := dictSet st1.fileOf newId path }, .ok newId)

def addExternalRef : List Component → List Char → Nat → Option (List Component)
  | [], _, _ => none
  | c :: r, parent, oid =>
    if c.preferred = parent then some ({ c with externalRefs := c.externalRefs ++ [{ component := oid }] } :: r)
    else (addExternalRef r parent oid).map (c :: ·)

def newComponent (objectId : Nat) (locator : List Char) : Component :=
  { identifier := objectId, locator := locator, preferred := stripDashDigits locator }

/-- `add_component_metadata(object_id, parent, locator)` for a `PackageMetadata` whose component identifiers
    are pairwise distinct (then the identifier-keyed dict and the `@cache` inside `metadata_component` are
    unobservable): the component is appended first, then the parent
    component (first one whose preferred locator is `parent`) gets the external reference; IndexError when
    there is no such component (the appended component stays). -/
def addComponentMetadata (st : Store) (objectId : Nat) (parent locatorPat : List Char) : Store × PyM Unit :=
  let locator := pyFormat1 locatorPat (natStr objectId)
  let comps := st.components ++ [newComponent objectId locator]
  match addExternalRef comps parent objectId with
  | none => ({ st with components := comps }, .error .IndexError)
  | some comps' => ({ st with components := comps' }, .ok ())

/-- what every creator site that makes a new archive file does:
    `create_object_from_dict("Index/<loc>", …)` then `add_component_metadata(id, parent, "<loc>")`. -/
def createListed (st : Store) (locatorPat parent : List Char) : Store × PyM Nat :=
  match createObject st ("Index/".toList ++ locatorPat) false with
  | (st1, .error e) => (st1, .error e)
  | (st1, .ok id) =>
    match addComponentMetadata st1 id parent locatorPat with
    | (st2, .error e) => (st2, .error e)
    | (st2, .ok ()) => (st2, .ok id)

inductive Op where
  | create (iwaFile : List Char) (append : Bool)
  | addMeta (objectId : Nat) (parent locatorPat : List Char)
  | listed (locatorPat parent : List Char)
  deriving Repr

def step (st : Store) : Op → Store
  | .create f a => (createObject st f a).1
  | .addMeta i p l => (addComponentMetadata st i p l).1
  | .listed l p => (createListed st l p).1

def run (st : Store) (ops : List Op) : Store := ops.foldl step st

/-! ### the object graph

Every protobuf message is abstracted to the list of identifiers of the `TSP.Reference`s inside it
(`iwafile.find_references` order, duplicates kept): `refs` is that list for the live message `_objects[id]`.
The file store holds, per archive, a message and the header's `message_infos[0].object_references` (`hdr`).
For everything read from the source the archive's message *is* the live message
(`IWork._store_blob`: `store_object(filename, identifier, archive.objects[0])`) — those identifiers are `shared`;
for an object made by `create_object_from_dict` the archive holds a separate message built from the same dict
(`archMsg`), brought up to date only by `update_object_file_store` (`CopyFrom`).  An absent entry of
`refs` / `archMsg` / `hdr` stands for a message / header without references. -/

structure GStore extends Store where
  refs : List (Nat × List Nat) := []
  shared : List Nat := []
  archMsg : List (Nat × List Nat) := []
  hdr : List (Nat × List Nat) := []
  deriving Repr

def getL (d : List (Nat × List Nat)) (i : Nat) : List Nat := (dictGet? d i).getD []

/-- `find_references(_objects[i])` -/
def GStore.refsOf (g : GStore) (i : Nat) : List Nat := getL g.refs i
/-- header `object_references` of archive `i` -/
def GStore.hdrOf (g : GStore) (i : Nat) : List Nat := getL g.hdr i
/-- references of the message that a save writes for archive `i` -/
def GStore.writtenOf (g : GStore) (i : Nat) : List Nat := if i ∈ g.shared then getL g.refs i else getL g.archMsg i

/-- `_object_to_filename_map` after `ObjectStore.store_object` has run over the archives of every file in order -/
def fileOfFromFiles : List (List Char × Option (List Nat)) → List (Nat × List Char) → List (Nat × List Char)
  | [], acc => acc
  | (_, none) :: r, acc => fileOfFromFiles r acc
  | (name, some segs) :: r, acc => fileOfFromFiles r (segs.foldl (fun a i => dictSet a i name) acc)

/-- a freshly opened document: every object is shared with its archive -/
def openG (ids : List Nat) (lastObjId : Nat) (files : List (List Char × Option (List Nat))) (components : List Component)
    (fileOf : List (Nat × List Char)) (refs hdr : List (Nat × List Nat)) : PyM GStore := do
  let st ← openStore ids lastObjId files components
  pure { toStore := { st with fileOf := fileOf }, refs := refs, shared := ids, archMsg := [], hdr := hdr }

/-- `create_object_from_dict(iwa_file, object_dict, cls, append)` where the dict carries the references `rs`:
    the live message `cls(**object_dict)` and the archive's message `ParseDict(object_dict)` both hold `rs`;
    the new header has no `object_references`. -/
def createG (g : GStore) (iwaFile : List Char) (append : Bool) (rs : List Nat) : GStore × PyM Nat :=
  match createObject g.toStore iwaFile append with
  | (st, .error e) => ({ g with toStore := st }, .error e)
  | (st, .ok id) =>
    ({ g with toStore := st, refs := dictSet g.refs id rs, archMsg := dictSet g.archMsg id rs, hdr := dictSet g.hdr id [] }, .ok id)

def addExtRefWhere (p : Component → Bool) (e : ExtRef) : List Component → Option (List Component)
  | [] => none
  | c :: r => if p c then some ({ c with externalRefs := c.externalRefs ++ [e] } :: r) else (addExtRefWhere p e r).map (c :: ·)

/-- `add_component_reference(object_id, location, component_id, is_weak)` (component identifiers pairwise distinct, as for
    `addComponentMetadata`): the component is looked up by `location or component_id` — by preferred locator when
    `location` is a non-empty string, else by identifier (`None` matches nothing) — `IndexError` when there is none. -/
def addComponentReference (st : Store) (objectId : Nat) (location : Option (List Char)) (componentId : Option Nat)
    (weak : Bool) : Store × PyM Unit :=
  let e : ExtRef := match componentId with
    | some c => { component := c, object := objectId, weak := weak }
    | none => { component := objectId, weak := weak }
  let p : Component → Bool := match location, componentId with
    | some l, cid => if l.isEmpty then (match cid with | some c => fun k => k.identifier == c | none => fun _ => false)
                     else fun k => k.preferred == l
    | none, some c => fun k => k.identifier == c
    | none, none => fun _ => false
  match addExtRefWhere p e st.components with
  | none => (st, .error .IndexError)
  | some cs => ({ st with components := cs }, .ok ())

/-- a reference to `tgt` is written into object `obj` (`set_reference` on an unset field, `x.MergeFrom(Reference(..))`,
    `repeated.append(Reference(..))`, `.identifier = n`); `self.objects[obj]` raises KeyError for an unknown object -/
def addRef (g : GStore) (obj tgt : Nat) : GStore × PyM Unit :=
  if obj ∈ g.ids then ({ g with refs := dictSet g.refs obj (getL g.refs obj ++ [tgt]) }, .ok ())
  else (g, .error .KeyError)

/-- one reference to `tgt` disappears from object `obj` (ClearField, clear_field_container, overwritten by MergeFrom / CopyFrom) -/
def clearRef (g : GStore) (obj tgt : Nat) : GStore × PyM Unit :=
  if obj ∈ g.ids then ({ g with refs := dictSet g.refs obj ((getL g.refs obj).erase tgt) }, .ok ())
  else (g, .error .KeyError)

/-- `set_reference(field_of_obj, new)` on a field that held `old`: `MergeFrom` overwrites the identifier -/
def setRef (g : GStore) (obj old new : Nat) : GStore × PyM Unit :=
  match clearRef g obj old with
  | (g1, .ok ()) => addRef g1 obj new
  | r => r

/-- `copy_object_to_iwa_file(self._file_store[self._object_to_filename_map[id]], self._objects[id], id)`:
    the archive's message becomes a copy of the live one; the header's `object_references` are replaced by the
    references found in it **only when there is at least one** (otherwise the header keeps what it had). -/
def copyObject (g : GStore) (id : Nat) : GStore × PyM Unit :=
  match dictGet? g.fileOf id with
  | none => (g, .error .KeyError)
  | some path =>
    match dictGet? g.files path with
    | none => (g, .error .KeyError)
    | some none => (g, .error .AttributeError)
    | some (some segs) =>
      if id ∈ segs then
        let rs := getL g.refs id
        let am := if id ∈ g.shared then g.archMsg else dictSet g.archMsg id rs
        if rs.length > 0 then ({ g with archMsg := am, hdr := dictSet g.hdr id rs }, .ok ())
        else ({ g with archMsg := am }, .ok ())
      else (g, .ok ())

def copyAll : GStore → List Nat → GStore × PyM Unit
  | g, [] => (g, .ok ())
  | g, i :: r =>
    match copyObject g i with
    | (g1, .ok ()) => copyAll g1 r
    | e => e

/-- `update_object_file_store`: `for obj_id in self._objects` -/
def updateFileStore (g : GStore) : GStore × PyM Unit := copyAll g g.ids

/-- `store_image`: a non-IWA blob enters the file store under a new name (IndexError if the name is taken) -/
def storeBlob (g : GStore) (name : List Char) : GStore × PyM Unit :=
  if (dictGet? g.files name).isSome then (g, .error .IndexError)
  else ({ g with files := dictSet g.files name none }, .ok ())

inductive GOp where
  | create (iwaFile : List Char) (append : Bool) (rs : List Nat)
  | addMeta (objectId : Nat) (parent locatorPat : List Char)
  | extRef (objectId : Nat) (location : Option (List Char)) (componentId : Option Nat) (weak : Bool)
  | addRef (obj tgt : Nat)
  | clearRef (obj tgt : Nat)
  | setRef (obj old new : Nat)
  | update
  | blob (name : List Char)
  deriving Repr

def stepG (g : GStore) : GOp → GStore
  | .create f a rs => (createG g f a rs).1
  | .addMeta i p l => { g with toStore := (addComponentMetadata g.toStore i p l).1 }
  | .extRef i l c w => { g with toStore := (addComponentReference g.toStore i l c w).1 }
  | .addRef o t => (addRef g o t).1
  | .clearRef o t => (clearRef g o t).1
  | .setRef o a b => (setRef g o a b).1
  | .update => (updateFileStore g).1
  | .blob n => (storeBlob g n).1

def runG (g : GStore) (ops : List GOp) : GStore := ops.foldl stepG g

/-- the side condition on one operation, in the state it is applied to: every reference it writes targets an
    object that exists at that moment (or the object being created itself), or an identifier exempted by `ex` -/
def opTargetsOk (ex : Nat → Bool) (g : GStore) : GOp → Bool
  | .create _ _ rs => rs.all fun r => decide (r ∈ g.ids) || r == g.maxId + 1 || ex r
  | .addRef _ t => decide (t ∈ g.ids) || ex t
  | .setRef _ _ t => decide (t ∈ g.ids) || ex t
  | _ => true

def targetsExistEx (ex : Nat → Bool) : GStore → List GOp → Bool
  | _, [] => true
  | g, op :: r => opTargetsOk ex g op && targetsExistEx ex (stepG g op) r

/-- what every creator site must guarantee -/
def TargetsExist (g : GStore) (ops : List GOp) : Prop := targetsExistEx (fun _ => false) g ops = true

instance (g : GStore) (ops : List GOp) : Decidable (TargetsExist g ops) := by unfold TargetsExist; infer_instance

/-- every stored object is filed: `_object_to_filename_map[id]` names an IWA file of the file store whose archives include `id`
    (then `update_object_file_store` reaches every object and raises nothing) -/
def wellFiled (g : GStore) : Bool :=
  g.ids.all fun i => match dictGet? g.fileOf i with
    | some path => (match dictGet? g.files path with | some (some segs) => decide (i ∈ segs) | _ => false)
    | none => false

/-! ### tiles -/

structure TileGeom where
  tileid : Nat
  rowStart : Nat
  numRows : Int
  deriving DecidableEq, Repr

/-- loop body of `recalculate_table_data` for tile `k` of a table with `n` rows -/
def tileGeom (n k : Nat) : TileGeom :=
  let rowStart := k * Gen.MAX_TILE_SIZE
  if (n : Int) - rowStart > Gen.MAX_TILE_SIZE then ⟨k, rowStart, Gen.MAX_TILE_SIZE⟩
  else ⟨k, rowStart, (n : Int) - rowStart⟩

/-- `while tile_idx <= max_tile_idx` -/
def tileLoop (n : Nat) (maxIdx : Int) : Nat → Nat → List TileGeom
  | 0, _ => []
  | fuel + 1, k => if (k : Int) ≤ maxIdx then tileGeom n k :: tileLoop n maxIdx fuel (k + 1) else []

/-- `max_tile_idx = (len(data) - 1) >> 8` (arithmetic shift: −1 for an empty table) -/
def tiles (n : Nat) : List TileGeom := tileLoop n (((n : Int) - 1) / 256) (n + 1) 0

/-- the pinned commit: `max_tile_idx = len(data) >> 8` -/
def tilesPinned (n : Nat) : List TileGeom := tileLoop n ((n : Int) / 256) (n + 2) 0

/-- rows `range(row_start, row_end)` a tile gets row-infos for -/
def tileRows (t : TileGeom) : List Nat := List.range' t.rowStart t.numRows.toNat

/-! ### row-info builder -/

structure RowInfoOut where
  storage : Bytes
  offsets : List Int
  cellCount : Nat
  deriving DecidableEq, Repr

/-- the column loop of `recalculate_row_info`: "Always use wide offsets" (`current_offset >> 2`) -/
def rowInfoGo : List (Option Bytes) → Nat → RowInfoOut
  | [], _ => ⟨[], [], 0⟩
  | none :: r, cur =>
    let o := rowInfoGo r cur
    ⟨o.storage, -1 :: o.offsets, o.cellCount⟩
  | some b :: r, cur =>
    let o := rowInfoGo r (cur + b.length)
    ⟨b ++ o.storage, ((cur / 4 : Nat) : Int) :: o.offsets, o.cellCount + 1⟩

/-- `recalculate_row_info`: storage buffer, packed offsets (`struct.error` when one does not fit 16 bits),
    cell count -/
def rowInfo (cells : List (Option Bytes)) : PyM (Bytes × Bytes × Nat) := do
  let o := rowInfoGo cells 0
  let packed ← packH o.offsets
  pure (o.storage, packed, o.cellCount)

end NumbersModel.ObjStore
