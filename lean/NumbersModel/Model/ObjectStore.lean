/-
C07 — bookkeeping behind a saved package (src/numbers_parser/containers.py, model.py), core Lean only.

* `ObjectStore.__init__` rounding of `_max_id`, `new_message_id`, `create_object_from_dict`
  (which archive file a new object goes to, when a file is created), `add_component_metadata` /
  `add_component_reference` (the `PackageMetadata.components` inventory).
* the tile loop of `recalculate_table_data` (after fixes/C07-no-empty-trailing-tile.patch) and the
  row-info builder `recalculate_row_info`.
-/
import NumbersModel.Model.Layout
namespace NumbersModel.ObjStore
open NumbersModel NumbersModel.Layout

/-! ### identifiers -/

/-- `math.ceil(m / 1000000) * 1000000` (float division; exact for every identifier below 2^53/10^6·…,
    see notes/C07.md) -/
def roundUpMillion (m : Nat) : Nat := (m + 999999) / 1000000 * 1000000

/-- `x in k` for strings -/
def isPrefixOf : List Char → List Char → Bool
  | [], _ => true
  | _ :: _, [] => false
  | a :: r, b :: s => a == b && isPrefixOf r s

def isInfix (x : List Char) : List Char → Bool
  | [] => x.isEmpty
  | c :: s => isPrefixOf x (c :: s) || isInfix x s

/-- `pat.format(arg)` for a pattern with at most one `{}` and no other braces -/
def pyFormat1 : List Char → List Char → List Char
  | '{' :: '}' :: r, arg => arg ++ r
  | c :: r, arg => c :: pyFormat1 r arg
  | [], _ => []

def isDigit (c : Char) : Bool := '0' ≤ c && c ≤ '9'

/-- `re.sub(r"\-\d+.*", "", s)` for a one-line `s`: cut at the first `-` that is followed by a digit -/
def stripDashDigits : List Char → List Char
  | '-' :: d :: r => if isDigit d then [] else '-' :: stripDashDigits (d :: r)
  | c :: r => c :: stripDashDigits r
  | [] => []

structure Component where
  identifier : Nat
  locator : List Char
  preferred : List Char
  externalRefs : List Nat := []
  deriving DecidableEq, Repr

structure Store where
  maxId : Nat
  lastObjId : Nat
  /-- keys of `_objects`, insertion order -/
  ids : List Nat
  fileOf : List (Nat × List Char) := []
  /-- `_file_store`, insertion order: identifiers of the archives of an IWA file, `none` for any other blob -/
  files : List (List Char × Option (List Nat))
  components : List Component := []
  deriving Repr

def listMax : List Nat → PyM Nat
  | [] => .error .ValueError
  | a :: r => .ok (r.foldl (fun m k => if k > m then k else m) a)

/-- the end of `ObjectStore.__init__` -/
def openStore (ids : List Nat) (lastObjId : Nat) (files : List (List Char × Option (List Nat)))
    (components : List Component) : PyM Store := do
  let m ← listMax ids
  pure { maxId := roundUpMillion m, lastObjId := lastObjId, ids := ids, files := files, components := components }

/-- `new_message_id` -/
def newMessageId (st : Store) : Store × Nat :=
  ({ st with maxId := st.maxId + 1, lastObjId := st.maxId + 1 }, st.maxId + 1)

def setAdd (l : List Nat) (k : Nat) : List Nat := if k ∈ l then l else l ++ [k]

/-- `create_object_from_dict(iwa_file, …, append)`: the state after the call (also when it raises:
    the identifier has been consumed by then) and the new identifier or the exception. -/
def createObject (st : Store) (iwaFile : List Char) (append : Bool) : Store × PyM Nat :=
  let paths := st.files.filter (fun f => isInfix iwaFile f.1)
  let (st1, newId) := newMessageId st
  match paths with
  | [] =>
    if append then (st1, .error .KeyError)   -- `self._file_store[None]`
    else
      let path := pyFormat1 iwaFile (natStr newId) ++ ".iwa".toList
      ({ st1 with files := dictSet st1.files path (some [newId]), ids := setAdd st1.ids newId,
                  fileOf := dictSet st1.fileOf newId path }, .ok newId)
  | (path, segs) :: _ =>
    match segs with
    | none => (st1, .error .AttributeError)   -- a non-IWA blob has no `.chunks`
    | some segs =>
      ({ st1 with files := dictSet st1.files path (some (segs ++ [newId])), ids := setAdd st1.ids newId,
                  fileOf := dictSet st1.fileOf newId path }, .ok newId)

def addExternalRef : List Component → List Char → Nat → Option (List Component)
  | [], _, _ => none
  | c :: r, parent, oid =>
    if c.preferred = parent then some ({ c with externalRefs := c.externalRefs ++ [oid] } :: r)
    else (addExternalRef r parent oid).map (c :: ·)

def newComponent (objectId : Nat) (locator : List Char) : Component :=
  { identifier := objectId, locator := locator, preferred := stripDashDigits locator }

/-- `add_component_metadata(object_id, parent, locator)` for a `PackageMetadata` whose component identifiers
    are pairwise distinct (then the identifier-keyed dict and the `@cache` inside `metadata_component` are
    unobservable): the component is appended first, then the parent
    component (first one whose preferred locator is `parent`) gets the external reference; IndexError when
    there is no such component (the appended component stays). -/
def addComponentMetadata (st : Store) (objectId : Nat) (parent locatorPat : List Char) : Store × PyM Unit :=
  let locator := pyFormat1 locatorPat (natStr objectId)
  let comps := st.components ++ [newComponent objectId locator]
  match addExternalRef comps parent objectId with
  | none => ({ st with components := comps }, .error .IndexError)
  | some comps' => ({ st with components := comps' }, .ok ())

/-- what every creator site that makes a new archive file does:
    `create_object_from_dict("Index/<loc>", …)` then `add_component_metadata(id, parent, "<loc>")`. -/
def createListed (st : Store) (locatorPat parent : List Char) : Store × PyM Nat :=
  match createObject st ("Index/".toList ++ locatorPat) false with
  | (st1, .error e) => (st1, .error e)
  | (st1, .ok id) =>
    match addComponentMetadata st1 id parent locatorPat with
    | (st2, .error e) => (st2, .error e)
    | (st2, .ok ()) => (st2, .ok id)

inductive Op where
  | create (iwaFile : List Char) (append : Bool)
  | addMeta (objectId : Nat) (parent locatorPat : List Char)
  | listed (locatorPat parent : List Char)
  deriving Repr

def step (st : Store) : Op → Store
  | .create f a => (createObject st f a).1
  | .addMeta i p l => (addComponentMetadata st i p l).1
  | .listed l p => (createListed st l p).1

def run (st : Store) (ops : List Op) : Store := ops.foldl step st

/-! ### tiles -/

structure TileGeom where
  tileid : Nat
  rowStart : Nat
  numRows : Int
  deriving DecidableEq, Repr

/-- loop body of `recalculate_table_data` for tile `k` of a table with `n` rows -/
def tileGeom (n k : Nat) : TileGeom :=
  let rowStart := k * Gen.MAX_TILE_SIZE
  if (n : Int) - rowStart > Gen.MAX_TILE_SIZE then ⟨k, rowStart, Gen.MAX_TILE_SIZE⟩
  else ⟨k, rowStart, (n : Int) - rowStart⟩

/-- `while tile_idx <= max_tile_idx` -/
def tileLoop (n : Nat) (maxIdx : Int) : Nat → Nat → List TileGeom
  | 0, _ => []
  | fuel + 1, k => if (k : Int) ≤ maxIdx then tileGeom n k :: tileLoop n maxIdx fuel (k + 1) else []

/-- `max_tile_idx = (len(data) - 1) >> 8` (arithmetic shift: −1 for an empty table) -/
def tiles (n : Nat) : List TileGeom := tileLoop n (((n : Int) - 1) / 256) (n + 1) 0

/-- the pinned commit: `max_tile_idx = len(data) >> 8` -/
def tilesPinned (n : Nat) : List TileGeom := tileLoop n ((n : Int) / 256) (n + 2) 0

/-- rows `range(row_start, row_end)` a tile gets row-infos for -/
def tileRows (t : TileGeom) : List Nat := List.range' t.rowStart t.numRows.toNat

/-! ### row-info builder -/

structure RowInfoOut where
  storage : Bytes
  offsets : List Int
  cellCount : Nat
  deriving DecidableEq, Repr

/-- the column loop of `recalculate_row_info`: "Always use wide offsets" (`current_offset >> 2`) -/
def rowInfoGo : List (Option Bytes) → Nat → RowInfoOut
  | [], _ => ⟨[], [], 0⟩
  | none :: r, cur =>
    let o := rowInfoGo r cur
    ⟨o.storage, -1 :: o.offsets, o.cellCount⟩
  | some b :: r, cur =>
    let o := rowInfoGo r (cur + b.length)
    ⟨b ++ o.storage, ((cur / 4 : Nat) : Int) :: o.offsets, o.cellCount + 1⟩

/-- `recalculate_row_info`: storage buffer, packed offsets (`struct.error` when one does not fit 16 bits),
    cell count -/
def rowInfo (cells : List (Option Bytes)) : PyM (Bytes × Bytes × Nat) := do
  let o := rowInfoGo cells 0
  let packed ← packH o.offsets
  pure (o.storage, packed, o.cellCount)

end NumbersModel.ObjStore
