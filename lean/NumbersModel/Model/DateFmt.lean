/-
C14 — date/time display.  Model of

  * `constants.py: DATETIME_FIELD_MAP`, `_day_of_year`, `_week_of_month`, `_days_occurred_in_month`
    (directive names are *generated* into `Gen.datetimeFieldNames`; the meaning of each entry is
    transcribed from its lambda / strftime code, C locale, glibc `%-d` forms),
  * `cell.py: _decode_date_format_field`, `_decode_date_format`, `_expand_quotes`.

Python's `datetime` is replaced by a record with *own* civil arithmetic (proleptic Gregorian
calendar: leap years, day of year, ordinal, weekday with Monday = 0); that this agrees with
CPython's `datetime.weekday()`, `timetuple().tm_yday` and `strftime` is what the correspondence
checks (exhaustively per field).  Core Lean only.
-/
import NumbersModel.Model.TextUtil
namespace NumbersModel.DateFmt
open NumbersModel NumbersModel.Digits

structure DateTime where
  year : Nat
  month : Nat
  day : Nat
  hour : Nat
  minute : Nat
  second : Nat
  micro : Nat
  deriving DecidableEq, Repr

/-! ### civil arithmetic -/

def isLeap (y : Nat) : Bool := y % 4 == 0 && (y % 100 != 0 || y % 400 == 0)

def daysInMonth (y m : Nat) : Nat :=
  if m = 2 then (if isLeap y then 29 else 28)
  else if m = 4 ∨ m = 6 ∨ m = 9 ∨ m = 11 then 30 else 31

/-- days of the year before the first of month `m` (1-based). -/
def daysBeforeMonth (y : Nat) : Nat → Nat
  | 0 => 0
  | 1 => 0
  | m + 1 => daysBeforeMonth y m + daysInMonth y m

/-- days before January 1st of year `y` (year 1 ↦ 0). -/
def daysBeforeYear (y : Nat) : Nat :=
  let p := y - 1
  p * 365 + p / 4 - p / 100 + p / 400

/-- `timetuple().tm_yday`: 1-based day of the year. -/
def ydayOf (y m d : Nat) : Nat := daysBeforeMonth y m + d

/-- `date.toordinal()`: 0001-01-01 ↦ 1. -/
def ordinalOf (y m d : Nat) : Nat := daysBeforeYear y + ydayOf y m d

/-- `date.weekday()`: Monday = 0 … Sunday = 6. -/
def weekdayOf (y m d : Nat) : Nat := (ordinalOf y m d + 6) % 7

def DateTime.yday (dt : DateTime) : Nat := ydayOf dt.year dt.month dt.day
def DateTime.ordinal (dt : DateTime) : Nat := ordinalOf dt.year dt.month dt.day
def DateTime.weekday (dt : DateTime) : Nat := weekdayOf dt.year dt.month dt.day

/-- the values `datetime(...)` accepts. -/
def DateTime.Valid (dt : DateTime) : Prop :=
  1 ≤ dt.year ∧ dt.year ≤ 9999 ∧ 1 ≤ dt.month ∧ dt.month ≤ 12 ∧ 1 ≤ dt.day ∧
  dt.day ≤ daysInMonth dt.year dt.month ∧ dt.hour < 24 ∧ dt.minute < 60 ∧ dt.second < 60 ∧
  dt.micro < 1000000

instance (dt : DateTime) : Decidable dt.Valid := by unfold DateTime.Valid; exact inferInstance

/-! ### text helpers -/

def dayNames : List String := ["Monday", "Tuesday", "Wednesday", "Thursday", "Friday", "Saturday", "Sunday"]
def monthNames : List String :=
  ["January", "February", "March", "April", "May", "June", "July", "August", "September", "October",
   "November", "December"]

/-- `%A` in the C locale. -/
def dayName (wd : Nat) : Text := (dayNames.getD wd "").toList
/-- `%B` in the C locale (`m` is 1-based). -/
def monthName (m : Nat) : Text := (monthNames.getD (m - 1) "").toList

/-- 12-hour clock hour of `%I`: 12, 1, …, 11, 12, 1, …, 11. -/
def hour12 (h : Nat) : Nat := if h % 12 = 0 then 12 else h % 12

/-- the 1-to-24 hour of the `k` directives (`x.hour or 24` in the repaired table). -/
def hour24k (h : Nat) : Nat := if h = 0 then 24 else h

/-- `_week_of_month(x)`: `int(ceil((x.day + x.replace(day=1).weekday()) / 7.0))`. -/
def weekOfMonth (dt : DateTime) : Nat := (dt.day + weekdayOf dt.year dt.month 1 + 6) / 7

/-- `_days_occurred_in_month(x)`: `int((x - x.replace(day=1)).days / 7) + 1`. -/
def daysOccurredInMonth (dt : DateTime) : Nat := (dt.day - 1) / 7 + 1

/-- glibc `%W`: week of the year, weeks start on Monday, days before the first Monday are week 0. -/
def weekOfYear (dt : DateTime) : Nat := (dt.yday + 6 - dt.weekday) / 7

/-! ### the directive table -/

inductive Directive where
  | a | EEEE | EEE | yyyy | yy | y | MMMM | MMM | MM | M | d | dd | DDD | DD | D
  | HH | H | hh | h | k | kk | K | KK | mm | m | ss | s | W | ww | G | F
  | S1 | S2 | S3 | S4 | S5
  deriving DecidableEq, Repr

/-- name → directive, in the order of `DATETIME_FIELD_MAP`; the third component is the strftime
    code of the entry (`λ` for a Python lambda) — compared with the generated table in
    `Props.C14.table_as_modelled`. -/
def directiveTable : List (String × Directive × String) :=
  [("a", .a, "λ"), ("EEEE", .EEEE, "%A"), ("EEE", .EEE, "%a"), ("yyyy", .yyyy, "%Y"), ("yy", .yy, "%y"),
   ("y", .y, "%Y"), ("MMMM", .MMMM, "%B"), ("MMM", .MMM, "%b"), ("MM", .MM, "%m"), ("M", .M, "%-m"),
   ("d", .d, "%-d"), ("dd", .dd, "%d"), ("DDD", .DDD, "λ"), ("DD", .DD, "λ"), ("D", .D, "λ"),
   ("HH", .HH, "%H"), ("H", .H, "%-H"), ("hh", .hh, "%I"), ("h", .h, "%-I"), ("k", .k, "λ"),
   ("kk", .kk, "λ"), ("K", .K, "λ"), ("KK", .KK, "λ"), ("mm", .mm, "λ"), ("m", .m, "λ"),
   ("ss", .ss, "%S"), ("s", .s, "λ"), ("W", .W, "λ"), ("ww", .ww, "%W"), ("G", .G, "AD"), ("F", .F, "λ"),
   ("S", .S1, "λ"), ("SS", .S2, "λ"), ("SSS", .S3, "λ"), ("SSSS", .S4, "λ"), ("SSSSS", .S5, "λ")]

def lookupDirective (name : Text) : Option Directive :=
  (directiveTable.find? (fun e => e.1.toList == name)).map (fun e => e.2.1)

/-- digits of the sub-second directives: `str(x.microsecond).zfill(6)[0:n]`. -/
def subsec (dt : DateTime) (n : Nat) : Text := (zfill 6 (natStr dt.micro)).take n

/-- what the table entry of a directive evaluates to. -/
def Directive.render (dt : DateTime) : Directive → Text
  | .a => if dt.hour < 12 then "am".toList else "pm".toList          -- strftime("%p").lower()
  | .EEEE => dayName dt.weekday                                       -- %A
  | .EEE => (dayName dt.weekday).take 3                               -- %a
  | .yyyy => natStr dt.year                                           -- %Y (glibc: not padded)
  | .yy => zfill 2 (natStr (dt.year % 100))                           -- %y
  | .y => natStr dt.year                                              -- %Y
  | .MMMM => monthName dt.month                                       -- %B
  | .MMM => (monthName dt.month).take 3                               -- %b
  | .MM => zfill 2 (natStr dt.month)                                  -- %m
  | .M => natStr dt.month                                             -- %-m
  | .d => natStr dt.day                                               -- %-d
  | .dd => zfill 2 (natStr dt.day)                                    -- %d
  | .DDD => zfill 3 (natStr dt.yday)
  | .DD => zfill 2 (natStr dt.yday)
  | .D => zfill 1 (natStr dt.yday)
  | .HH => zfill 2 (natStr dt.hour)                                   -- %H
  | .H => natStr dt.hour                                              -- %-H
  | .hh => zfill 2 (natStr (hour12 dt.hour))                          -- %I
  | .h => natStr (hour12 dt.hour)                                     -- %-I
  | .k => natStr (hour24k dt.hour)                                    -- str(x.hour or 24)
  | .kk => zfill 2 (natStr (hour24k dt.hour))
  | .K => natStr (dt.hour % 12)
  | .KK => zfill 2 (natStr (dt.hour % 12))
  | .mm => zfill 2 (natStr dt.minute)
  | .m => natStr dt.minute
  | .ss => zfill 2 (natStr dt.second)                                 -- %S
  | .s => natStr dt.second
  | .W => natStr (weekOfMonth dt - 1)
  | .ww => zfill 2 (natStr (weekOfYear dt))                           -- %W
  | .G => "AD".toList
  | .F => natStr (daysOccurredInMonth dt)
  | .S1 => subsec dt 1
  | .S2 => subsec dt 2
  | .S3 => subsec dt 3
  | .S4 => subsec dt 4
  | .S5 => subsec dt 5

/-- `_decode_date_format_field`: unknown names warn and render as the empty string. -/
def decodeField (dt : DateTime) (name : Text) : Text :=
  match lookupDirective name with
  | some dv => dv.render dt
  | none => []

/-! ### `_decode_date_format` -/

/-- loop state `(in_string, in_field, field, result)`. -/
structure St where
  inString : Bool
  inField : Bool
  fld : Text
  res : Text
  deriving DecidableEq, Repr

def St.init : St := ⟨false, false, [], []⟩

/-- `result += _decode_date_format_field(field, value)` if a field is pending (`in_field`). -/
def flush (renderFld : Text → Text) (st : St) : Text :=
  if st.inField then st.res ++ renderFld st.fld else st.res

/-- one iteration for a character that is not `'`. -/
def stepPlain (isAlpha : Char → Bool) (renderFld : Text → Text) (c : Char) (st : St) : St :=
  if st.inString then { st with res := st.res ++ [c] }
  else if !isAlpha c then { st with inField := false, res := flush renderFld st ++ [c] }
  else if st.inField then { st with fld := st.fld ++ [c] }
  else { st with inField := true, fld := [c] }

/-- one iteration for a `'` that is followed by a character other than `'`. -/
def stepQuote (renderFld : Text → Text) (st : St) : St :=
  if st.inString then { st with inString := false }
  else { st with inString := true, inField := false, res := flush renderFld st }

/-- The `while index < len(chars)` loop of `_decode_date_format` and the flush after it.
    A `'` that is the last character ends the loop (`break`); `''` appends a quote *without*
    flushing a pending field and advances by two.  `isAlpha` is `str.isalpha` of one character. -/
def scanLoop (isAlpha : Char → Bool) (renderFld : Text → Text) : List Char → St → Text
  | [], st => flush renderFld st
  | [c], st => if c = '\'' then flush renderFld st else flush renderFld (stepPlain isAlpha renderFld c st)
  | c :: n :: rest, st =>
    if c = '\'' then
      if n = '\'' then scanLoop isAlpha renderFld rest { st with res := st.res ++ ['\''] }
      else scanLoop isAlpha renderFld (n :: rest) (stepQuote renderFld st)
    else scanLoop isAlpha renderFld (n :: rest) (stepPlain isAlpha renderFld c st)

def decodeDateFormat (isAlpha : Char → Bool) (fmt : Text) (dt : DateTime) : Text :=
  scanLoop isAlpha (decodeField dt) fmt St.init

/-! ### `_expand_quotes` -/

/-- state `(in_string, formatted_value)`; same quote handling, every other character is copied. -/
def expandLoop : List Char → Bool → Text → Text
  | [], _, res => res
  | [c], _, res => if c = '\'' then res else res ++ [c]
  | c :: n :: rest, inString, res =>
    if c = '\'' then
      if n = '\'' then expandLoop rest inString (res ++ ['\''])
      else expandLoop (n :: rest) (!inString) res
    else expandLoop (n :: rest) inString (res ++ [c])

def expandQuotes (s : Text) : Text := expandLoop s false []

/-- `str.isalpha()` from the generated code-point ranges. -/
def isAlphaIn (ranges : List (Nat × Nat)) (c : Char) : Bool :=
  ranges.any (fun r => r.1 ≤ c.toNat && c.toNat ≤ r.2)

/-- `[a-zA-Z]`. -/
def isAsciiAlpha (c : Char) : Bool := ('a' ≤ c && c ≤ 'z') || ('A' ≤ c && c ≤ 'Z')

/-! ### directive validation on write (`Formatting.__post_init__`) -/

/-- `re.sub(r"[^a-zA-Z\s]", " ", fmt).split()`: every character that is not an ASCII letter ends
    up as (or already is) white space, so the words are the maximal runs of ASCII letters. -/
def asciiWords : List Char → Text → List Text
  | [], cur => if cur.isEmpty then [] else [cur]
  | c :: rest, cur =>
    if isAsciiAlpha c then asciiWords rest (cur ++ [c])
    else if cur.isEmpty then asciiWords rest [] else cur :: asciiWords rest []

/-- all words are keys of `DATETIME_FIELD_MAP` (otherwise `TypeError`). -/
def validFormat (fmt : Text) : Bool := (asciiWords fmt []).all (fun w => (lookupDirective w).isSome)

/-- `Table.set_cell_formatting(…, "datetime", date_time_format=fmt)` followed by `formatted_value`. -/
def writeAndDisplay (isAlpha : Char → Bool) (fmt : Text) (dt : DateTime) : PyM Text :=
  if validFormat fmt then .ok (decodeDateFormat isAlpha fmt dt) else .error .TypeError

end NumbersModel.DateFmt
