/-
Model of the in-memory grid of `numbers_parser.document.Table`
(src/numbers_parser/document.py): `Table.__init__` (the `_data` list of lists),
`_validate_cell_coords`, `write`, `add_row`, `add_column`, `delete_row`,
`delete_column`, and of the table collection (`Sheet.add_table`, `Document.add_sheet`,
renames) as a list of tables.

The model mirrors the code *with fixes/C03-*.patch applied* (argument validation before
anything is changed).  Statement order, `range(...)` bounds, slice expressions and the
renumbering loops are transcribed one for one:

  * `self._data` is a Python list of lists of `Cell` objects; a cell is modelled by the
    three attributes the property observes: `row`, `col` and a payload `val : α`
    (C03: the value token; C12 instantiates `α` with value + merge attributes).
  * `l[i]`, `l[i] = x`, `l[a:a] = xs`, `del l[a:b]` are the prelude's `pyIndex`,
    `pySetItem`, `pyInsertAt`, `pyDelSlice` (negative indices wrap, IndexError outside).
  * `for i in range(a, b)` is `forRange f (b - a).toNat a` (the bounds are evaluated once,
    as in Python).  `obj.attr = v` on `self._data[r][c]` is "read the cell, write back the
    updated cell at the same index": every `Cell` in `_data` is created by a constructor
    call for exactly one position, so there is no aliasing between positions.
  * Every modelled function returns `PyM`: in the fixed code every `raise` happens before
    the first mutation, so an error result means "state unchanged" (checked on the real
    code by the correspondence after every erroring step).

Core Lean only.
-/
import NumbersModel.Py.Basic
import NumbersModel.Gen.Constants
namespace NumbersModel.Grid
open NumbersModel

/-- Python `l[i] = x` for an `int` index. -/
def pySetItem {β} (l : List β) (i : Int) (x : β) : PyM (List β) :=
  let n : Int := l.length
  let j := if i < 0 then i + n else i
  if j < 0 ∨ j ≥ n then .error .IndexError else .ok (l.set j.toNat x)

/-- `for i in range(lo, lo + n): s = f i s`, stopping at the first exception. -/
def forRange {σ} (f : Int → σ → PyM σ) : Nat → Int → σ → PyM σ
  | 0, _, s => .ok s
  | n + 1, i, s =>
    match f i s with
    | .ok s' => forRange f n (i + 1) s'
    | .error e => .error e

/-- `[g i for i in range(lo, lo + n)]`. -/
def compRange {β} (g : Int → β) : Nat → Int → List β
  | 0, _ => []
  | n + 1, i => g i :: compRange g n (i + 1)

/-- the observable part of a `Cell` object: its own idea of its position, and a payload. -/
structure CellM (α : Type) where
  row : Int
  col : Int
  val : α
  deriving DecidableEq, Repr

/-- `Table.num_rows`, `Table.num_cols`, `Table._data`. -/
structure State (α : Type) where
  numRows : Int
  numCols : Int
  data : List (List (CellM α))
  deriving DecidableEq, Repr

variable {α : Type}

/-- `Table.__init__` on a freshly created table of `nr × nc` empty cells:
    `for row in range(num_rows): _data.append([]); for col in range(num_cols): append(cell(row, col))`. -/
def init (empty : α) (nr nc : Nat) : State α :=
  { numRows := nr, numCols := nc,
    data := compRange (fun row => compRange (fun col => (⟨row, col, empty⟩ : CellM α)) nc 0) nr 0 }

/-- `self._data[row][col].row = row; self._data[row][col].col = col`. -/
def setRowCol (data : List (List (CellM α))) (row col : Int) : PyM (List (List (CellM α))) := do
  let rowl ← pyIndex data row
  let cell ← pyIndex rowl col
  let rowl' ← pySetItem rowl col { cell with row := row, col := col }
  pySetItem data row rowl'

/-- `self._data[row][col].col = col`. -/
def setCol (data : List (List (CellM α))) (row col : Int) : PyM (List (List (CellM α))) := do
  let rowl ← pyIndex data row
  let cell ← pyIndex rowl col
  let rowl' ← pySetItem rowl col { cell with col := col }
  pySetItem data row rowl'

/-- ```
    for row in range(lo, hi):
        for col in range(self.num_cols):
            self._data[row][col].row = row
            self._data[row][col].col = col
    ``` -/
def renumberRows (data : List (List (CellM α))) (lo hi numCols : Int) : PyM (List (List (CellM α))) :=
  forRange (fun row d => forRange (fun col d => setRowCol d row col) numCols.toNat 0 d) (hi - lo).toNat lo data

/-- `for col in range(len(self._data[row])): self._data[row][col].col = col`. -/
def renumberCols (data : List (List (CellM α))) (row : Int) : PyM (List (List (CellM α))) := do
  let rowl ← pyIndex data row
  forRange (fun col d => setCol d row col) rowl.length 0 data

/-- `Table.add_row(num_rows, start_row)` without the `default` fill (the fill needs `write`). -/
def addRowCore (empty : α) (s : State α) (num : Int) (start : Option Int) : PyM (State α) := do
  match start with
  | some st => if st < 0 ∨ st ≥ s.numRows then throw .IndexError
  | none => pure ()
  if num < 0 then throw .IndexError                      -- fixes/C03-edit-counts.patch
  let st := match start with | some st => st | none => s.numRows
  let numRows' := s.numRows + num
  let rows := compRange (fun row => compRange (fun col => (⟨row, col, empty⟩ : CellM α)) s.numCols.toNat 0)
                num.toNat st
  let data1 := pyInsertAt s.data st rows
  let data2 ← renumberRows data1 st numRows' s.numCols
  pure { numRows := numRows', numCols := s.numCols, data := data2 }

/-- one iteration of the `for row in range(self.num_rows)` loop of `add_column`, before the
    optional default fill: splice the new cells, renumber the columns of this row. -/
def addColRow (empty : α) (num st : Int) (s : State α) (row : Int) : PyM (State α) := do
  let cols := compRange (fun col => (⟨row, st + col, empty⟩ : CellM α)) num.toNat 0
  let rowl ← pyIndex s.data row
  let data1 ← pySetItem s.data row (pyInsertAt rowl st cols)
  let data2 ← renumberCols data1 row
  pure { s with data := data2 }

/-- `Table.add_column(num_cols, start_col, default)`; `fill s row start_col` is the
    `if default is not None: for col in range(start_col, start_col + num_cols): self.write(row, col, default)`
    block at the end of the loop body (interleaved with the widening, row by row, as in the source). -/
def addColGen (empty : α) (fill : State α → Int → Int → PyM (State α)) (s : State α) (num : Int)
    (start : Option Int) : PyM (State α) := do
  match start with
  | some st => if st < 0 ∨ st ≥ s.numCols then throw .IndexError
  | none => pure ()
  if num < 0 then throw .IndexError                      -- fixes/C03-edit-counts.patch
  let st := match start with | some st => st | none => s.numCols
  let s1 : State α := { s with numCols := s.numCols + num }
  forRange (fun row s => do
      let s2 ← addColRow empty num st s row
      fill s2 row st)
    s1.numRows.toNat 0 s1

/-- `add_column()` as called by `_validate_cell_coords` (`default=None`: no fill). -/
def addColCore (empty : α) (s : State α) (num : Int) (start : Option Int) : PyM (State α) :=
  addColGen empty (fun s2 _ _ => pure s2) s num start

/-- `Table._validate_cell_coords(row, col, ...)`: limits, then auto-extension by single
    `add_row()` / `add_column()` calls. -/
def validate (empty : α) (s : State α) (row col : Int) : PyM (State α) := do
  if row < 0 ∨ col < 0 then throw .IndexError            -- fixes/C03-negative-coords.patch
  if row ≥ (Gen.MAX_ROW_COUNT : Int) then throw .IndexError
  if col ≥ (Gen.MAX_COL_COUNT : Int) then throw .IndexError
  let s1 ← forRange (fun _ s => addRowCore empty s 1 none) (row + 1 - s.numRows).toNat s.numRows s
  forRange (fun _ s => addColCore empty s 1 none) (col + 1 - s1.numCols).toNat s1.numCols s1

/-- `Table.write(row, col, value)`: `self._data[row][col] = Cell._from_value(row, col, value)`. -/
def write (empty : α) (s : State α) (row col : Int) (v : α) : PyM (State α) := do
  let s1 ← validate empty s row col
  let rowl ← pyIndex s1.data row
  let rowl' ← pySetItem rowl col ⟨row, col, v⟩
  let data' ← pySetItem s1.data row rowl'
  pure { s1 with data := data' }

/-- `for col in range(c0, c0 + n): self.write(row, col, default)`. -/
def fillRow (empty : α) (v : α) (s : State α) (row c0 : Int) (n : Nat) : PyM (State α) :=
  forRange (fun col s => write empty s row col v) n c0 s

/-- `Table.add_row(num_rows, start_row, default)`. -/
def addRow (empty : α) (s : State α) (num : Int) (start : Option Int) (dflt : Option α) : PyM (State α) := do
  let s1 ← addRowCore empty s num start
  match dflt with
  | none => pure s1
  | some v =>
    let st := match start with | some st => st | none => s.numRows
    forRange (fun row s => fillRow empty v s row 0 s.numCols.toNat) num.toNat st s1

/-- `Table.add_column(num_cols, start_col, default)`. -/
def addCol (empty : α) (s : State α) (num : Int) (start : Option Int) (dflt : Option α) : PyM (State α) :=
  addColGen empty (fun s2 row st =>
      match dflt with
      | none => pure s2
      | some v => fillRow empty v s2 row st num.toNat)
    s num start

/-- `Table.delete_row(num_rows, start_row)`. -/
def delRow (s : State α) (num : Int) (start : Option Int) : PyM (State α) := do
  match start with
  | some st => if st < 0 ∨ st ≥ s.numRows then throw .IndexError
  | none => pure ()
  -- fixes/C03-edit-counts.patch
  match start with
  | some st => if num < 0 ∨ num ≥ s.numRows ∨ st + num > s.numRows then throw .IndexError
  | none => if num < 0 ∨ num ≥ s.numRows then throw .IndexError
  let data1 := match start with
    | some st => pyDelSlice s.data (some st) (some (st + num))
    | none => pyDelSlice s.data (some (s.numRows - num)) none
  let numRows' := s.numRows - num
  match start with
  | some st =>
    let data2 ← renumberRows data1 st numRows' s.numCols
    pure { s with numRows := numRows', data := data2 }
  | none => pure { s with numRows := numRows', data := data1 }

/-- `Table.delete_row` as it is on the *pinned* tree (before fixes/C03-edit-counts.patch): no check
    of `num_rows`, and `del self._data[-num_rows:]` for the default `start_row`.  Only used to state
    the counter-examples in Props/C03.lean. -/
def delRowPinned (s : State α) (num : Int) (start : Option Int) : PyM (State α) := do
  match start with
  | some st => if st < 0 ∨ st ≥ s.numRows then throw .IndexError
  | none => pure ()
  let data1 := match start with
    | some st => pyDelSlice s.data (some st) (some (st + num))
    | none => pyDelSlice s.data (some (-num)) none
  let numRows' := s.numRows - num
  match start with
  | some st =>
    let data2 ← renumberRows data1 st numRows' s.numCols
    pure { s with numRows := numRows', data := data2 }
  | none => pure { s with numRows := numRows', data := data1 }

/-- one iteration of the `for row in range(self.num_rows)` loop of `delete_column`. -/
def delColRow (num : Int) (start : Option Int) (numCols : Int) (s : State α) (row : Int) : PyM (State α) := do
  let rowl ← pyIndex s.data row
  let rowl' := match start with
    | some st => pyDelSlice rowl (some st) (some (st + num))
    | none => pyDelSlice rowl (some (numCols - num)) none
  let data1 ← pySetItem s.data row rowl'
  let data2 ← renumberCols data1 row
  pure { s with data := data2 }

/-- `Table.delete_column(num_cols, start_col)`. -/
def delCol (s : State α) (num : Int) (start : Option Int) : PyM (State α) := do
  match start with
  | some st => if st < 0 ∨ st ≥ s.numCols then throw .IndexError
  | none => pure ()
  -- fixes/C03-edit-counts.patch
  match start with
  | some st => if num < 0 ∨ num ≥ s.numCols ∨ st + num > s.numCols then throw .IndexError
  | none => if num < 0 ∨ num ≥ s.numCols then throw .IndexError
  let s1 ← forRange (fun row s => delColRow num start s.numCols s row) s.numRows.toNat 0 s
  pure { s1 with numCols := s1.numCols - num }

/-- the edit operations of one table. -/
inductive Op (α : Type) where
  | write (row col : Int) (v : α)
  | addRow (num : Int) (start : Option Int) (dflt : Option α)
  | addCol (num : Int) (start : Option Int) (dflt : Option α)
  | delRow (num : Int) (start : Option Int)
  | delCol (num : Int) (start : Option Int)
  deriving Repr

def step (empty : α) (s : State α) : Op α → PyM (State α)
  | .write r c v => write empty s r c v
  | .addRow n st d => addRow empty s n st d
  | .addCol n st d => addCol empty s n st d
  | .delRow n st => delRow s n st
  | .delCol n st => delCol s n st

/-- run a history on one table; an erroring step leaves the table as it was (`PyM` has no
    partial state: every `raise` of the fixed code precedes the first mutation). -/
def runOps (empty : α) (s : State α) : List (Op α) → State α
  | [] => s
  | op :: rest =>
    match step empty s op with
    | .ok s' => runOps empty s' rest
    | .error _ => runOps empty s rest

/-! ### several tables (sheets / documents are just more tables: nothing is shared) -/

/-- operations on a collection of tables: an edit addressed to table `i`,
    `Sheet.add_table` / `Document.add_sheet` (a new `nr × nc` table of empty cells is
    appended), a rename (no grid is touched), `Document.save` (no grid is touched). -/
inductive DocOp (α : Type) where
  | edit (i : Nat) (op : Op α)
  | addTable (nr nc : Nat)
  | rename (i : Nat)
  | save
  deriving Repr

def docStep (empty : α) (d : List (State α)) : DocOp α → PyM (List (State α))
  | .edit i op =>
    match d[i]? with
    | none => .error .IndexError
    | some s => do
      let s' ← step empty s op
      pure (d.set i s')
  | .addTable nr nc => .ok (d ++ [init empty nr nc])
  | .rename _ => .ok d
  | .save => .ok d

/-! ### the plain grid (specification) -/

/-- a plain two-dimensional grid of values with its dimensions. -/
structure Spec (α : Type) where
  nrows : Int
  ncols : Int
  cells : List (List α)
  deriving DecidableEq, Repr

def abs (s : State α) : Spec α :=
  { nrows := s.numRows, ncols := s.numCols, cells := s.data.map (fun r => r.map (·.val)) }

/-- insert `xs` before index `i`. -/
def insertAt {β} (l : List β) (i : Nat) (xs : List β) : List β := l.take i ++ xs ++ l.drop i
/-- remove `n` elements from index `i`. -/
def removeAt {β} (l : List β) (i n : Nat) : List β := l.take i ++ l.drop (i + n)

def Spec.insertRows (g : Spec α) (n : Nat) (at_ : Nat) (fill : α) : Spec α :=
  { g with nrows := g.nrows + n, cells := insertAt g.cells at_ (List.replicate n (List.replicate g.ncols.toNat fill)) }
def Spec.insertCols (g : Spec α) (n : Nat) (at_ : Nat) (fill : α) : Spec α :=
  { g with ncols := g.ncols + n, cells := g.cells.map (fun r => insertAt r at_ (List.replicate n fill)) }
def Spec.removeRows (g : Spec α) (n : Nat) (at_ : Nat) : Spec α :=
  { g with nrows := g.nrows - n, cells := removeAt g.cells at_ n }
def Spec.removeCols (g : Spec α) (n : Nat) (at_ : Nat) : Spec α :=
  { g with ncols := g.ncols - n, cells := g.cells.map (fun r => removeAt r at_ n) }
/-- grow to at least `(r+1) × (c+1)` with `empty`, then put `v` at `(r, c)`. -/
def Spec.put (empty : α) (g : Spec α) (r c : Nat) (v : α) : Spec α :=
  let g1 := g.insertRows (r + 1 - g.nrows.toNat) g.nrows.toNat empty
  let g2 := g1.insertCols (c + 1 - g1.ncols.toNat) g1.ncols.toNat empty
  { g2 with cells := g2.cells.modify r (fun row => row.set c v) }

/-- the index an optional `start_row` / `start_col` argument denotes (`None` = `dflt`). -/
def startNat (start : Option Int) (dflt : Int) : Nat :=
  match start with | some st => st.toNat | none => dflt.toNat

/-- the value new cells get: `default` if given, otherwise they are empty. -/
def fillVal (empty : α) (dflt : Option α) : α := match dflt with | some v => v | none => empty

/-- what each operation means on a plain grid (for arguments the operation accepts). -/
def specStep (empty : α) (g : Spec α) : Op α → Spec α
  | .write r c v => g.put empty r.toNat c.toNat v
  | .addRow n st d => g.insertRows n.toNat (startNat st g.nrows) (fillVal empty d)
  | .addCol n st d => g.insertCols n.toNat (startNat st g.ncols) (fillVal empty d)
  | .delRow n st => g.removeRows n.toNat (startNat st (g.nrows - n))
  | .delCol n st => g.removeCols n.toNat (startNat st (g.ncols - n))

/-- the arguments the (fixed) operations accept; everything else raises IndexError. -/
def Valid (s : State α) : Op α → Prop
  | .write r c _ => 0 ≤ r ∧ 0 ≤ c ∧ r < (Gen.MAX_ROW_COUNT : Int) ∧ c < (Gen.MAX_COL_COUNT : Int)
  | .addRow n st _ => 0 ≤ n ∧ (match st with | some st => 0 ≤ st ∧ st < s.numRows | none => True)
  | .addCol n st _ => 0 ≤ n ∧ (match st with | some st => 0 ≤ st ∧ st < s.numCols | none => True)
  | .delRow n st => 0 ≤ n ∧ n < s.numRows ∧
      (match st with | some st => 0 ≤ st ∧ st < s.numRows ∧ st + n ≤ s.numRows | none => True)
  | .delCol n st => 0 ≤ n ∧ n < s.numCols ∧
      (match st with | some st => 0 ≤ st ∧ st < s.numCols ∧ st + n ≤ s.numCols | none => True)

end NumbersModel.Grid
