import NumbersModel.Model.Tokenizer
import NumbersModel.Gen.Constants
namespace NumbersModel.Tokenizer
/-- the tokenizer as the source has it now: tables regenerated from /repo on every run;
    an unmatched closer raises TokenizerError (the repaired `parse_closer`). -/
def liveCfg : Cfg := ⟨Gen.TOKEN_ENDERS, Gen.ERROR_CODES, Gen.whitespace, .TokenizerError⟩
/-- `parse_closer` as it was at the pinned commit: `token_stack.pop()` on an empty list. -/
def pinnedCfg : Cfg := { liveCfg with emptyStackExc := .IndexError }
end NumbersModel.Tokenizer
