/-
The whole table write path and the whole table read path, composed from the layer models.

WRITE — `_NumbersModel.recalculate_table_data` (src/numbers_parser/model.py) as written:
  `number_of_rows = len(data)`, `number_of_columns = len(data[0])` (IndexError on an empty list),
  `init_table_strings` (`DataLists.init`: entries cleared, `next_key = 1`, `nextListID = 1`),
  the `while tile_idx <= max_tile_idx` loop (Model/RowStorage `tiles`), one `TST.Tile` per 256 rows
  with `tileid = tile_idx`, `numrows`, `last_saved_in_BNC = True`; per row `recalculate_row_info`
  (`tile_row_index = row - row_start`, Model/RowStorage `rowInfo` for offsets / storage / cell count,
  `has_wide_offsets = True`); per cell `Cell._to_buffer` (Model/CellRecord `encode`), where a text
  cell first interns its string with `table_string_key` → `DataLists.lookup_key` (Model/Layout
  `lookupKey`, the dict-based model incl. refcounts) — so the string list is filled in row-major
  cell order, interleaved with the encoding; `tile_size = MAX_TILE_SIZE`;
  `should_use_wide_rows = True` when `len(data[0]) > MAX_TILE_SIZE`.

READ — `Table.__init__` (src/numbers_parser/document.py) as written: `num_rows` / `num_cols` from the
  table model, the `for row … for col …` rebuild loop: `is_merge_reference((row, col))` → merged
  placeholder, else `storage_buffer(table_id, row, col)` (`row_storage_map` = Model/Layout
  `rowStorageMap`, `storage_buffers` = every tile's `last_saved_in_BNC` test then
  `get_storage_buffers_for_row` = Model/RowStorage `rowBuffers` per row-info, the three `None`
  exits of `storage_buffer` = Model/Layout `storageRowWith` + the column test) → `None` gives
  `Cell._empty_cell` (= `_from_storage` on the generated constant `EMPTY_STORAGE_BUFFER`), a buffer goes to `Cell._from_storage` (Model/CellRecord `decode`) whose text
  branch calls `table_string` (Model/Layout `addTable` / `tableString`, `KeyError → ''`).

Outside this model (other properties): the merge map itself (`recalculate_merged_cells` /
`calculate_merge_cell_ranges`, C12) — the reader's `is_merge_reference` is a parameter `mr`; row /
column headers, styles (`update_cell_styles`, the two `_table_styles.lookup_key` calls at the top
of `_to_buffer`, C15/C16) — a cell's twelve ids are taken as they are after those calls; rich-text
payload lookup (`table_rich_text`); the interpretation of the payload bytes (`_unpack_decimal128`:
Model/Decimal128, `unpack("<d")`: third party); protobuf / IWA / zip (C05, C07).

Deviation from "as written", stated: `saveRow` encodes the cells of a row left to right (threading
the string list) and then lays the records out with `rowInfo`, whereas the Python loop interleaves
`_to_buffer` and `offsets[col] = …` per column. The results are identical whenever no exception is
raised; if a row is longer than `data[0]` *and* a later cell cannot be packed, Python raises
IndexError where this model raises StructError. Core Lean only.
-/
import NumbersModel.Model.CellRecord
import NumbersModel.Model.RowStorage
import NumbersModel.Model.Layout
namespace NumbersModel.TablePipeline
open NumbersModel NumbersModel.CellRecord

/-! ### in-memory cells and saved objects -/

/-- `Table._data[row][col]` as `recalculate_table_data` sees it: the class (`kind`), the packed
    payload of a number / date / bool / duration, the string of a text cell (`self.value`),
    `_string_id` and the twelve optional ids. -/
structure TCell where
  kind : Kind
  payload : Bytes
  text : Text
  stringId : Option Int
  ids : Ids
  deriving DecidableEq, Repr, Inhabited

/-- the cell `_to_buffer` encodes once the string key is known. -/
def toCell (c : TCell) (key : Int) : Cell :=
  { kind := c.kind, payload := c.payload, stringKey := key, stringId := c.stringId, ids := c.ids }

/-- `TST.TileRowInfo` (fields the library writes and reads). -/
structure SavedRow where
  tileRowIndex : Nat
  cellCount : Nat
  offsets : Bytes
  storage : Bytes
  wide : Bool
  deriving DecidableEq, Repr

/-- `TST.Tile` together with the `tileid` of the `TileStorage.Tile` that references it. -/
structure SavedTile where
  tileid : Nat
  numrows : Nat
  lastSavedInBNC : Bool
  rowInfos : List SavedRow
  deriving DecidableEq, Repr

/-- what a saved table consists of, as far as cell data goes: `number_of_rows`,
    `number_of_columns`, `tiles.tile_size`, whether `should_use_wide_rows` was set, the string
    `TableDataList` (entries in list order, `nextListID`) and the tiles in `tiles.tiles` order. -/
structure SavedTable where
  numRows : Nat
  numCols : Nat
  tileSize : Nat
  setsWideRows : Bool
  strings : List (Layout.Entry Text)
  nextListID : Nat
  tiles : List SavedTile
  deriving Repr

abbrev Strs := Layout.DataList Text

/-- `DataLists.init`: all three dicts emptied, `next_key = 1`, `nextListID = 1`, entries cleared. -/
def resetStrings : Strs := { entries := [], nextListID := 1, idx := {} }

/-! ### write path -/

/-- `cell._to_buffer()` with the string list threaded through: a `TextCell` calls
    `table_string_key` (→ `lookup_key`) and packs the key it gets; other classes do not touch
    the list. -/
def saveCell (dl : Strs) (c : TCell) : PyM (Option Bytes × Strs) :=
  if c.kind = .text then do
    let (k, dl') ← Layout.lookupKey dl c.text
    let b ← encode (toCell c (k : Int))
    pure (b, dl')
  else do
    let b ← encode (toCell c 0)
    pure (b, dl)

/-- the cells of one row, left to right. -/
def saveCells : Strs → List TCell → PyM (List (Option Bytes) × Strs)
  | dl, [] => .ok ([], dl)
  | dl, c :: r => do
    let (b, dl1) ← saveCell dl c
    let (bs, dl2) ← saveCells dl1 r
    pure (b :: bs, dl2)

/-- `recalculate_row_info(table_id, data, tile_row_offset, row)`; `width0 = len(data[0])`,
    `idx = row - tile_row_offset`. -/
def saveRow (width0 : Nat) (dl : Strs) (idx : Nat) (cells : List TCell) : PyM (SavedRow × Strs) := do
  let (bufs, dl') ← saveCells dl cells
  let (ob, st, n) ← RowStorage.rowInfo width0 bufs
  pure ({ tileRowIndex := idx, cellCount := n, offsets := ob, storage := st, wide := true }, dl')

/-- `for row in range(row_start, row_end): tile.rowInfos.append(recalculate_row_info(…))`. -/
def saveRows (width0 : Nat) : Strs → Nat → List (List TCell) → PyM (List SavedRow × Strs)
  | dl, _, [] => .ok ([], dl)
  | dl, i, r :: rest => do
    let (ri, dl1) ← saveRow width0 dl i r
    let (ris, dl2) ← saveRows width0 dl1 (i + 1) rest
    pure (ri :: ris, dl2)

/-- body of the `while tile_idx <= max_tile_idx` loop over the (tile index, rows) pairs that
    `RowStorage.tiles` enumerates. -/
def saveTiles (width0 : Nat) : Strs → List (Nat × List (List TCell)) → PyM (List SavedTile × Strs)
  | dl, [] => .ok ([], dl)
  | dl, (tileIdx, rows) :: rest => do
    let (ris, dl1) ← saveRows width0 dl 0 rows
    let (ts, dl2) ← saveTiles width0 dl1 rest
    pure ({ tileid := tileIdx, numrows := rows.length, lastSavedInBNC := true, rowInfos := ris } :: ts, dl2)

/-- `recalculate_table_data(table_id, data)`. `tile_size = MAX_TILE_SIZE` is assigned inside the
    tile loop, which runs at least once because `data[0]` exists. -/
def saveTable (data : List (List TCell)) : PyM SavedTable := do
  let row0 ← pyIndex data 0
  let (ts, dl) ← saveTiles row0.length resetStrings (RowStorage.tiles data)
  pure { numRows := data.length, numCols := row0.length, tileSize := Gen.MAX_TILE_SIZE,
         setsWideRows := decide (row0.length > Gen.MAX_TILE_SIZE),
         strings := dl.entries, nextListID := dl.nextListID, tiles := ts }

/-! ### read path -/

/-- what `Table.__init__` puts into `_data[row][col]`: a merged placeholder, or the result of
    `Cell._from_storage` — the decoded record and, for a `TextCell`, the string `table_string`
    returned. (`Cell._empty_cell` is `_from_storage` on `EMPTY_STORAGE_BUFFER`.) -/
inductive LCell where
  | merged
  | stored (d : Decoded) (text : Option Text)
  deriving DecidableEq, Repr

/-- the view of a tile that `row_storage_map` consults: `tileid` and each `tile_row_index`. -/
def toLayoutTile (t : SavedTile) : Layout.Tile SavedRow :=
  { tileid := t.tileid, rowInfos := t.rowInfos.map fun r => { tileRowIndex := r.tileRowIndex, payload := r } }

/-- `for r in tile.rowInfos: buffers.append(get_storage_buffers_for_row(…))`. -/
def decodeRows (numCols : Nat) : List SavedRow → PyM (List (List (Option Bytes)))
  | [] => .ok []
  | r :: rest => do
    let b ← RowStorage.rowBuffers r.storage r.offsets numCols r.wide
    let bs ← decodeRows numCols rest
    pure (b :: bs)

/-- `storage_buffers(table_id)`: tiles in `tiles.tiles` order; a tile that was not
    `last_saved_in_BNC` raises UnsupportedError before its rows are looked at. -/
def decodeTiles (numCols : Nat) : List SavedTile → PyM (List (List (Option Bytes)))
  | [] => .ok []
  | t :: rest => do
    if !t.lastSavedInBNC then throw .UnsupportedError
    let rows ← decodeRows numCols t.rowInfos
    let more ← decodeTiles numCols rest
    pure (rows ++ more)

/-- `storage_buffer(table_id, row, col)` given the (cached) row map and the (cached) decoded
    rows: `None` for an unmapped row, for a position beyond the buffers, for a column beyond the
    row, else the entry (itself `None` for a column without a record). -/
def storageBufferWith (m : Layout.RowMap) (bufs : PyM (List (List (Option Bytes)))) (row col : Nat) :
    PyM (Option Bytes) := do
  match ← Layout.storageRowWith m bufs row with
  | none => pure none
  | some cells => pure (match cells[col]? with | some c => c | none => none)

/-- `model.table_string(table_id, storage_flags._string_id)`: `_string_id` may be `None`
    (flag 0x8 clear) or negative — neither is a key of `by_key`, so `KeyError → ''`. -/
def stringOf (idx : Layout.Index Text) : Option Int → PyM Text
  | none => .ok []
  | some k => if k < 0 then .ok [] else Layout.tableString idx k.toNat

/-- `Cell._from_storage(table_id, row, col, buffer, model)`. -/
def cellFromStorage (idx : Layout.Index Text) (buf : Bytes) : PyM LCell := do
  let d ← decode buf
  match d.kind with
  | .text => do
    let s ← stringOf idx d.stringId
    pure (.stored d (some s))
  | _ => pure (.stored d none)

/-- body of the rebuild loop for one (row, col). -/
def loadCell (mr : Nat → Nat → Bool) (m : Layout.RowMap) (bufs : PyM (List (List (Option Bytes))))
    (idx : Layout.Index Text) (row col : Nat) : PyM LCell :=
  if mr row col then .ok .merged else do
    match ← storageBufferWith m bufs row col with
    | none => cellFromStorage idx Gen.EMPTY_STORAGE_BUFFER          -- `Cell._empty_cell`
    | some b => cellFromStorage idx b

/-- `Table.__init__`: the row map, the decoded rows and the string index are computed once
    (`@cache`), then every (row, col) of `number_of_rows × number_of_columns` is rebuilt.
    `mr row col` is `merge_cells.is_merge_reference((row, col))`. -/
def loadTable (mr : Nat → Nat → Bool) (s : SavedTable) : PyM (List (List LCell)) :=
  let m := Layout.rowStorageMap s.numRows s.tileSize (s.tiles.map toLayoutTile)
  let bufs := decodeTiles s.numCols s.tiles
  let idx := Layout.addTable s.strings
  (List.range s.numRows).mapM fun row =>
    (List.range s.numCols).mapM fun col => loadCell mr m bufs idx row col

/-! ### what the next save sees of a cell that was read -/

/-- the class the reader builds for a decoded record (error cells are refused on save). -/
def kindOfD : DKind → Kind
  | .number => .number | .currency => .currency | .text => .text | .date => .date | .bool => .bool
  | .duration => .duration | .rich => .rich | .empty => .empty | .error => .other

/-- the in-memory cell after `Table.__init__`, as the next `recalculate_table_data` sees it. -/
def recell : LCell → TCell
  | .merged => { kind := .merged, payload := [], text := [], stringId := none, ids := {} }
  | .stored d t =>
    { kind := kindOfD d.kind,
      payload := ((d.d128.orElse fun _ => d.double).orElse fun _ => d.seconds).getD [],
      text := t.getD [], stringId := d.stringId, ids := d.ids }

end NumbersModel.TablePipeline
