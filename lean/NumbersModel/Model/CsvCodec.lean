/-
The CSV codec the two command-line tools actually use, as CPython 3.12 `Modules/_csv.c` implements it.

  * export (`_cat_numbers.py: print_table`): `csv.writer(sys.stdout, dialect="excel")`, one `writerow` per table row.
    excel dialect: delimiter `,`, quotechar `"`, doublequote, no escapechar, lineterminator `\r\n`, QUOTE_MINIMAL.
    `csv_writerow` → `join_append` → `join_append_data`: a field is copied character by character, a `"` is doubled,
    and the field is wrapped in quotes iff some character is the delimiter, the quote character, or occurs in the
    line terminator (`\r`, `\n`).  (CPython 3.12.1, the running interpreter, tests exactly these; `csv.writer(…,
    lineterminator="\n").writerow(["a\rb"])` writes `a\rb` unquoted there.  Later CPython versions quote `\r` and
    `\n` regardless of the terminator; for the excel dialect the sets coincide.)  After the last field: `if (num_fields > 0 && rec_len == 0)`
    (the record is one empty field) the field is re-appended quoted, so `[""]` is written `""` and `[]` is written as
    an empty line.  No other character is special (leading/trailing blanks, NUL, U+2028, U+0085 … are copied as they are).
  * import (`_csv2numbers.py: Converter._read_csv`): `csv.reader(csvfile, dialect=csv.excel)` after `csv.excel.strict = True`,
    over a file opened with `newline=""`.  `Reader_iternext` pulls one *physical line* at a time from the file iterator
    (with `newline=""` lines end at `\n`, at `\r\n`, or at a `\r` not followed by `\n`; the terminator stays in the line;
    nothing else is a line break), feeds every character to `parse_process_char`, then the pseudo-character EOL, and
    repeats while the state is not START_RECORD (a quoted field continues on the next line).
    The excel dialect has no escapechar and no skipinitialspace, so the states ESCAPED_CHAR, AFTER_ESCAPED_CRNL,
    ESCAPE_IN_QUOTED_FIELD are unreachable and are not modelled; QUOTE_NONNUMERIC's numeric conversion likewise.
    `strict` and the module-wide field size limit (`csv.field_size_limit()`, 131072 by default) are parameters.

Errors are `_csv.Error` (printed `Error`), with the message class appended so the correspondence compares it too.
-/
import NumbersModel.Py.Basic
namespace NumbersModel.CsvCodec
open NumbersModel

/-! ## writer -/

/-- the characters that make `join_append_data` set `*quoted = 1` under QUOTE_MINIMAL: delimiter, quotechar, and
    the characters of the line terminator `\r\n` -/
def special (c : Char) : Bool := c == ',' || c == '"' || c == '\r' || c == '\n'

/-- the copy loop of `join_append_data`: `"` is written twice (doublequote), everything else once -/
def escapeQ : Text → Text
  | [] => []
  | c :: r => if c = '"' then '"' :: '"' :: escapeQ r else c :: escapeQ r

/-- a field in quotes -/
def quoted (f : Text) : Text := '"' :: (escapeQ f ++ ['"'])

/-- `join_append(self, field, quoted=0)` without the leading delimiter -/
def writeField (f : Text) : Text := if f.any special then quoted f else f

/-- the record buffer after all fields: a delimiter before every field but the first -/
def joinFields : List Text → Text
  | [] => []
  | [f] => writeField f
  | f :: g :: rest => writeField f ++ ',' :: joinFields (g :: rest)

def lineTerminator : Text := ['\r', '\n']

/-- `csv_writerow` -/
def writeRow (row : List Text) : Text :=
  let record := joinFields row
  -- `if (self->num_fields > 0 && self->rec_len == 0) { --self->num_fields; join_append(self, NULL, 1); }`
  let record := if row.length > 0 ∧ record.isEmpty then quoted [] else record
  record ++ lineTerminator

/-- one `writerow` per row into the same stream (`print_table`'s loop; `writerows`) -/
def writeGrid : List (List Text) → Text
  | [] => []
  | row :: rest => writeRow row ++ writeGrid rest

/-! ## reader -/

inductive St where
  | startRecord | startField | inField | inQuoted | quoteInQuoted | eatCrnl
  deriving DecidableEq, Repr

/-- `ReaderObj`: parser state, the list of saved fields (newest first), the field buffer (newest character first)
    and `field_len` -/
structure Rd where
  st : St
  fields : List Text
  field : Text
  fieldLen : Nat
  deriving DecidableEq, Repr

/-- `strict` (dialect), `limit` (`csv.field_size_limit()`), and how the line iterator ends: `iterFails = some e`
    means that asking for the line after the last one raises `e` (a decoding or I/O error of the file object)
    instead of StopIteration -/
structure Cfg where
  strict : Bool
  limit : Nat
  iterFails : Option PyExc := none
  deriving Repr

/-- `parse_reset` -/
def Rd.reset : Rd := ⟨.startRecord, [], [], 0⟩

def errDelimExpected : PyExc := .Other "Error:delimiter-expected-after-quote"
def errUnexpectedEnd : PyExc := .Other "Error:unexpected-end-of-data"
def errNewlineInUnquoted : PyExc := .Other "Error:new-line-character-seen-in-unquoted-field"
def errFieldLimit : PyExc := .Other "Error:field-larger-than-field-limit"

/-- `parse_add_char` -/
def addChar (cfg : Cfg) (rd : Rd) (c : Char) (st : St) : PyM Rd :=
  if rd.fieldLen ≥ cfg.limit then .error errFieldLimit
  else .ok { st := st, fields := rd.fields, field := c :: rd.field, fieldLen := rd.fieldLen + 1 }

/-- `parse_save_field`, then the state assignment that follows it at every call site -/
def saveField (rd : Rd) (st : St) : Rd :=
  { st := st, fields := rd.field.reverse :: rd.fields, field := [], fieldLen := 0 }

def isNl (c : Char) : Bool := c == '\n' || c == '\r'

/-- `case START_FIELD:` (also reached by fall-through from START_RECORD); `none` is EOL -/
def stepStartField (cfg : Cfg) (rd : Rd) : Option Char → PyM Rd
  | none => .ok (saveField rd .startRecord)
  | some c =>
    if isNl c then .ok (saveField rd .eatCrnl)
    else if c = '"' then .ok { rd with st := .inQuoted }
    else if c = ',' then .ok (saveField rd .startField)
    else addChar cfg rd c .inField

/-- `parse_process_char` for the excel dialect; `none` is the EOL pseudo-character -/
def step (cfg : Cfg) (rd : Rd) (c : Option Char) : PyM Rd :=
  match rd.st with
  | .startRecord =>
    match c with
    | none => .ok rd                                   -- empty line: return []
    | some ch => if isNl ch then .ok { rd with st := .eatCrnl } else stepStartField cfg rd c
  | .startField => stepStartField cfg rd c
  | .inField =>
    match c with
    | none => .ok (saveField rd .startRecord)
    | some ch =>
      if isNl ch then .ok (saveField rd .eatCrnl)
      else if ch = ',' then .ok (saveField rd .startField)
      else addChar cfg rd ch .inField
  | .inQuoted =>
    match c with
    | none => .ok rd
    | some ch => if ch = '"' then .ok { rd with st := .quoteInQuoted } else addChar cfg rd ch .inQuoted
  | .quoteInQuoted =>
    match c with
    | none => .ok (saveField rd .startRecord)
    | some ch =>
      if ch = '"' then addChar cfg rd ch .inQuoted
      else if ch = ',' then .ok (saveField rd .startField)
      else if isNl ch then .ok (saveField rd .eatCrnl)
      else if !cfg.strict then addChar cfg rd ch .inField
      else .error errDelimExpected
  | .eatCrnl =>
    match c with
    | none => .ok { rd with st := .startRecord }
    | some ch => if isNl ch then .ok rd else .error errNewlineInUnquoted

/-- the `while (linelen--)` loop over one line object, then `parse_process_char(self, EOL)` -/
def processLine (cfg : Cfg) : Rd → Text → PyM Rd
  | rd, [] => step cfg rd none
  | rd, c :: rest =>
    match step cfg rd (some c) with
    | .error e => .error e
    | .ok rd' => processLine cfg rd' rest

def emit (row : List Text) : PyM (List (List Text)) → PyM (List (List Text))
  | .ok rows => .ok (row :: rows)
  | .error e => .error e

/-- `PyIter_Next` returned NULL inside `Reader_iternext` -/
def atEof (cfg : Cfg) (rd : Rd) : PyM (List (List Text)) :=
  match cfg.iterFails with
  | some e => .error e                               -- `PyErr_Occurred()`: the iterator's exception propagates
  | none =>
    if rd.fieldLen ≠ 0 ∨ rd.st = .inQuoted then
      if cfg.strict then .error errUnexpectedEnd
      else .ok [(saveField rd .startRecord).fields.reverse]
    else .ok []

/-- all `Reader_iternext` calls until StopIteration, over the list of lines the iterator yields.
    `rd` is the parser in the middle of a record (or freshly reset). -/
def readLines (cfg : Cfg) : Rd → List Text → PyM (List (List Text))
  | rd, [] => atEof cfg rd
  | rd, line :: rest =>
    match processLine cfg rd line with
    | .error e => .error e
    | .ok rd' =>
      if rd'.st = .startRecord then emit rd'.fields.reverse (readLines cfg Rd.reset rest)
      else readLines cfg rd' rest

/-- iteration of a text file opened with `newline=""` (or of `io.StringIO(t, newline="")`): -/
def lineEnd (c : Char) (rest : Text) : Bool := c == '\n' || (c == '\r' && rest.head? != some '\n')

def splitLines : Text → List Text
  | [] => []
  | c :: rest =>
    if lineEnd c rest then [c] :: splitLines rest
    else match splitLines rest with
      | [] => [[c]]
      | l :: ls => (c :: l) :: ls

/-- `list(csv.reader(open(path, newline=""), dialect=excel, strict=…))` on the file's text -/
def readGrid (cfg : Cfg) (t : Text) : PyM (List (List Text)) := readLines cfg Rd.reset (splitLines t)

/-- `list(csv.reader(lines, …))` for an explicit list of line strings (as `parse_columns` uses it) -/
def readLineList (cfg : Cfg) (lines : List Text) : PyM (List (List Text)) := readLines cfg Rd.reset lines

end NumbersModel.CsvCodec
