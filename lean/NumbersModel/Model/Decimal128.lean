/-
Model of `_pack_decimal128` / `_unpack_decimal128` in src/numbers_parser/cell.py (code after
fixes/C01-decimal128-exact.patch).

The 16-byte payload is an IEEE-754-2008 decimal128 in BID form restricted to the "small
coefficient" encoding: bytes 0..13 and bit 0 of byte 14 hold the 113-bit coefficient
(little-endian), bits 1..7 of byte 14 and bits 0..6 of byte 15 the 14-bit exponent biased by
DECIMAL128_BIAS, bit 7 of byte 15 the sign.

Third-party steps are outside the model and supplied by the harness:
  * `decimal.Context(prec=34).create_decimal(str(value)).as_tuple()` — the (sign, digits,
    exponent) triple the packer starts from; the model takes it as `Dec` with the digits joined
    into `coeff` (`int("".join(...))`);
  * `float(f"{mantissa}E{exp}")` — the correctly rounded decimal → binary64 conversion the
    unpacker ends with; the model returns the `Dec` it is applied to.
-/
import NumbersModel.Py.Basic
import NumbersModel.Py.Struct
import NumbersModel.Gen.Constants
namespace NumbersModel.Decimal128
open NumbersModel

/-- `Decimal.as_tuple()` with the digit tuple read as an integer. -/
structure Dec where
  sign : Bool
  coeff : Nat
  exp : Int
  deriving DecidableEq, Repr, Inhabited

/-- `buffer[i] |= x` for a Python int `x`: ValueError unless the result is in `range(256)`
    (`x` is non-negative here), IndexError outside the buffer. -/
def orByte (buf : Bytes) (i : Nat) (x : Nat) : PyM Bytes :=
  match buf[i]? with
  | none => .error .IndexError
  | some b =>
    let v := b.toNat ||| x
    if v > 255 then .error .ValueError else .ok (buf.set i (UInt8.ofNat v))

/-- `while mantissa >= 1: buffer[i] |= mantissa & 0xFF; i += 1; mantissa >>= 8`. -/
def packLoop : Nat → Bytes → Nat → Nat → PyM Bytes
  | 0, _, _, _ => .error .OutOfFuel
  | fuel + 1, buf, i, m =>
    if m ≥ 1 then do
      let buf ← orByte buf i (m &&& 0xFF)
      packLoop fuel buf (i + 1) (m >>> 8)
    else .ok buf

/-- `_pack_decimal128` from the decimal triple on. -/
def pack (d : Dec) : PyM Bytes := do
  let buffer : Bytes := List.replicate 16 0
  let exp : Int := d.exp + (Gen.DECIMAL128_BIAS : Int)
  -- buffer[15] |= exp >> 7          (bytearray item must be in range(0, 256))
  let hi : Int := exp >>> 7
  if hi < 0 ∨ hi > 255 then throw .ValueError
  let buffer ← orByte buffer 15 hi.toNat
  -- buffer[14] |= (exp & 0x7F) << 1     (exp ≥ 0 here)
  let buffer ← orByte buffer 14 ((exp.toNat &&& 0x7F) <<< 1)
  let buffer ← packLoop (d.coeff + 1) buffer 0 d.coeff
  -- if sign: buffer[15] |= 0x80
  if d.sign then orByte buffer 15 0x80 else pure buffer

/-- `for i in range(13, -1, -1): mantissa = mantissa * 256 + buffer[i]` (the bytes are passed
    most significant first). -/
def unpackLoop : List UInt8 → Nat → Nat
  | [], m => m
  | b :: r, m => unpackLoop r (m * 256 + b.toNat)

/-- `_unpack_decimal128` up to (not including) the final `float(f"{mantissa}E{exp}")`. -/
def unpack (buffer : Bytes) : PyM Dec := do
  let b15 ← pyIndex buffer 15
  let b14 ← pyIndex buffer 14
  let exp : Int := (((b15.toNat &&& 0x7F) <<< 7 ||| (b14.toNat >>> 1) : Nat) : Int) - (Gen.DECIMAL128_BIAS : Int)
  let mantissa := b14.toNat &&& 1
  let mantissa := unpackLoop ((buffer.take 14).reverse) mantissa
  let sign := (b15.toNat &&& 0x80) != 0
  pure { sign := sign, coeff := mantissa, exp := exp }

end NumbersModel.Decimal128
