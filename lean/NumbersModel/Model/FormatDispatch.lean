/-
C13 / C14 — the format-selection glue on the path of every displayed value.

Model of
  * `cell.py`     `Formatting.__post_init__` (argument validation and defaults), `Cell._set_formatting`,
                  `Cell.formatted_value`, `Cell._custom_format`, `Cell._date_format`, the head of
                  `Cell._duration_format` (which archive fields it reads), `_format_fraction` (accuracy dispatch),
                  `EmptyCell.formatted_value`;
  * `document.py` `Table.set_cell_formatting` / `Table._set_cell_data_format` (type-name look-up, the cell-kind
                  check, control formats, the popup checks, which archive is requested);
  * `model.py`    `_NumbersModel.format_archive` (table driven: `ALLOWED_FORMATTING_PARAMETERS`, `FORMAT_TYPE_MAP`),
                  `control_cell_archive`, `cell_popup_model`
— *after* the repairs fixes/C13-stepper-control-archive.patch, C13-control-format-validation.patch,
C13-reformat-replaces-format.patch and C14-default-datetime-format.patch.

The dispatch tables (`FORMATTING_ALLOWED_CELLS`, `FORMATTING_ACTION_CELLS`, `ALLOWED_FORMATTING_PARAMETERS`,
`FORMAT_TYPE_MAP`, `CURRENCIES`, the defaults of the `Formatting` dataclass) are *not* retyped: the model reads the
tables `Gen/Constants.lean` regenerates from the live modules on every run.  The enums that are inductive types here
(`FType`, `CType`, `CellKind`) are tied to the generated enums by `Props.C13.dispatch_tables_as_modelled`.

What stays outside: protobuf itself (an archive is the record of the fields the code sets / reads; a field that is
not set reads as the proto2 default 0 / "" / false; a value outside uint32 is the `ValueError` protobuf raises), the
data-list key allocation (`lookup_key`: a cell carries the archive, not its key), the memoising wrapper of
`format_archive` (C03), warnings.  The formatters themselves are the models of `Model/NumFmt`, `Model/CustomFmt`,
`Model/DateFmt`, `Model/Duration`; float arithmetic enters as harness-supplied exact decimals (fields of `NumVal`).
Core Lean only.
-/
import NumbersModel.Model.NumFmt
import NumbersModel.Model.CustomFmt
import NumbersModel.Model.DateFmt
import NumbersModel.Model.Duration
import NumbersModel.Gen.Constants
namespace NumbersModel.FormatDispatch
open NumbersModel NumbersModel.Digits NumbersModel.NumFmt

/-! ### enums -/

/-- `constants.FormattingType`. -/
inductive FType where
  | base | currency | datetime | fraction | number | percentage | scientific
  | tickbox | rating | slider | stepper | popup | text
  deriving DecidableEq, Repr

def FType.all : List FType :=
  [.base, .currency, .datetime, .fraction, .number, .percentage, .scientific, .tickbox, .rating, .slider, .stepper,
   .popup, .text]

def FType.code : FType → Nat
  | .base => 1 | .currency => 2 | .datetime => 3 | .fraction => 4 | .number => 5 | .percentage => 6
  | .scientific => 7 | .tickbox => 8 | .rating => 9 | .slider => 10 | .stepper => 11 | .popup => 12 | .text => 13

/-- the member name (`FormattingType.X.name`). -/
def FType.name : FType → String
  | .base => "BASE" | .currency => "CURRENCY" | .datetime => "DATETIME" | .fraction => "FRACTION"
  | .number => "NUMBER" | .percentage => "PERCENTAGE" | .scientific => "SCIENTIFIC" | .tickbox => "TICKBOX"
  | .rating => "RATING" | .slider => "SLIDER" | .stepper => "STEPPER" | .popup => "POPUP" | .text => "TEXT"

/-- the name `set_cell_formatting` is called with. -/
def FType.lower : FType → String
  | .base => "base" | .currency => "currency" | .datetime => "datetime" | .fraction => "fraction"
  | .number => "number" | .percentage => "percentage" | .scientific => "scientific" | .tickbox => "tickbox"
  | .rating => "rating" | .slider => "slider" | .stepper => "stepper" | .popup => "popup" | .text => "text"

/-- `constants.ControlFormattingType` (the number formats a slider / stepper can display). -/
inductive CType where
  | base | currency | fraction | number | percentage | scientific
  deriving DecidableEq, Repr

def CType.all : List CType := [.base, .currency, .fraction, .number, .percentage, .scientific]

/-- `FormattingType[control_format.name]`. -/
def CType.toFType : CType → FType
  | .base => .base | .currency => .currency | .fraction => .fraction | .number => .number
  | .percentage => .percentage | .scientific => .scientific

/-- the classes of `cell.py` a table can hold. -/
inductive CellKind where
  | number | text | richText | empty | bool | date | duration | error | merged
  deriving DecidableEq, Repr

def CellKind.all : List CellKind := [.number, .text, .richText, .empty, .bool, .date, .duration, .error, .merged]

/-- `type(cell).__name__`. -/
def CellKind.className : CellKind → String
  | .number => "NumberCell" | .text => "TextCell" | .richText => "RichTextCell" | .empty => "EmptyCell"
  | .bool => "BoolCell" | .date => "DateCell" | .duration => "DurationCell" | .error => "ErrorCell"
  | .merged => "MergedCell"

/-- `constants.CellInteractionType` values used by `control_cell_archive`. -/
def INTERACTION_STEPPER : Nat := 4
def INTERACTION_SLIDER : Nat := 5
def INTERACTION_RATING : Nat := 6
def INTERACTION_POPUP : Nat := 7
def INTERACTION_TOGGLE : Nat := 8

/-! ### values -/

/-- the value of a decimal: equal as numbers (`3.0 == 3`). -/
def Dec.eqv (a b : Dec) : Bool :=
  if a.mant = 0 ∨ b.mant = 0 then a.mant = 0 && b.mant = 0
  else
    let e := min a.exp b.exp
    a.neg == b.neg && a.mant * 10 ^ (a.exp - e).toNat == b.mant * 10 ^ (b.exp - e).toNat

/-- strip trailing zeros of the mantissa (`fuel` = number of digits). -/
def normMant : Nat → Nat → Int → Nat × Int
  | 0, m, e => (m, e)
  | fuel + 1, m, e => if m ≠ 0 ∧ m % 10 = 0 then normMant fuel (m / 10) (e + 1) else (m, e)

/-- canonical form of a decimal (zero is `+0·10^0`). -/
def Dec.norm (d : Dec) : Dec :=
  if d.mant = 0 then ⟨false, 0, 0⟩
  else let r := normMant (numDigits d.mant) d.mant d.exp; ⟨d.neg, r.1, r.2⟩

/-- a number cell's `_d128` as the formatters see it.  No float is modelled: every float operation the glue or a
    formatter performs on the value is supplied by the harness as an exact decimal / ratio. -/
structure NumVal where
  repr : Dec                                            -- Decimal(repr(float(v)))  (decimal, currency, base, rating)
  times100 : Dec                                        -- Decimal(repr(v * 100))   (percentage)
  sci : Dec                                             -- Decimal(sigfig(v, 15))   exact binary value (scientific)
  ratio : Int × Nat                                     -- float(v).as_integer_ratio()
  fracProduct : Nat → Bool × Nat × Nat                  -- den ↦ the float product den * (v - int(v)) as sign, p / q
  custom : CustomFmt.Archive → CustomFmt.FloatVal × CustomFmt.FloatVal   -- v * scale_factor and that * 100.0

/-- `self.value` as far as the glue looks at it (popup membership, truth value, `str`). -/
inductive PyVal where
  | str (s : Text) | num (d : Dec) | bool (b : Bool) | date | duration (ms : Nat) | none
  deriving DecidableEq, Repr

/-- an item of `popup_values`. -/
inductive PopupItem where
  | str (s : Text) | num (d : Dec)
  deriving DecidableEq, Repr

/-- Python `==` between a cell value and a popup item. -/
def PyVal.eqItem : PyVal → PopupItem → Bool
  | .str s, .str t => s == t
  | .num d, .num e => Dec.eqv d e
  | _, _ => false

/-- `bool(self.value)`. -/
def PyVal.truthy : PyVal → Bool
  | .str s => !s.isEmpty | .num d => d.mant != 0 | .bool b => b | .date => true | .duration ms => ms != 0 | .none => false

/-! ### the format archive and the control archive -/

/-- what `custom_format_map()[uuid]` holds, as far as the display reads it. -/
structure CustomEntry where
  formatType : Nat                    -- default_format.format_type
  archive : CustomFmt.Archive         -- custom_format_string, scale, currency, paddings, requires_fraction_replacement
  fractionAccuracy : Nat              -- default_format.fraction_accuracy
  deriving DecidableEq, Repr

/-- `TSK.FormatStructArchive`: the fields the library sets or reads (a field that was not set reads as its
    proto2 default). `customUid`: `none` = no `custom_uid` field; `some none` = a uid the custom format map does not
    hold; `some (some e)` = the entry it holds. -/
structure Fmt where
  formatType : Nat := 0
  decimalPlaces : Nat := 0
  currencyCode : Text := []
  negativeStyle : Nat := 0
  showThousands : Bool := false
  useAccounting : Bool := false
  durationStyle : Nat := 0
  base : Nat := 0
  basePlaces : Nat := 0
  baseUseMinus : Bool := false
  fractionAccuracy : Nat := 0
  dateTimeFormat : Text := []
  durationLargest : Nat := 0
  durationSmallest : Nat := 0
  useAutoUnits : Bool := false
  customUid : Option (Option CustomEntry) := none
  deriving DecidableEq, Repr

/-- an entry of the `PopUpMenuModel` `cell_popup_model` creates. -/
inductive PopupEntry where
  | nil | str (s : Text) | num (d : Dec)
  deriving DecidableEq, Repr

/-- `TST.CellSpecArchive` as `control_cell_archive` fills it. -/
structure Ctl where
  interaction : Nat
  range : Option (Dec × Dec × Dec) := none                  -- range_control_min / _max / _inc
  popup : Option (List PopupEntry × Bool) := none           -- the popup model's items, chooser_control_start_w_first
  deriving DecidableEq, Repr

/-! ### the cell -/

structure Cell where
  kind : CellKind
  value : PyVal := .none
  str : Text := []                      -- str(self.value) for numbers, dates, durations (CPython's repr / str; supplied)
  currencyType : Bool := false          -- self._type == CellType.CURRENCY
  d128 : Option NumVal := none          -- self._d128
  stringText : Text := []               -- table_string(table, self._string_id) ("" for a cell written in this session)
  doubleMs : Option Nat := none         -- self._double, in whole milliseconds
  hasSeconds : Bool := false            -- self._seconds is not None
  datetime : Option DateFmt.DateTime := none      -- self._datetime
  numFmt : Option Fmt := none           -- table_format(table, self._num_format_id)
  currencyFmt : Option Fmt := none
  textFmt : Option Fmt := none
  boolFmt : Option Fmt := none
  dateFmt : Option Fmt := none
  durationFmt : Option Fmt := none
  control : Option Ctl := none          -- the control spec self._control_id names

/-- `str(self.value)`; for a bool the fall-back of `formatted_value` upper-cases it. -/
def Cell.strValue (c : Cell) : Text :=
  match c.value with
  | .str s => s
  | .bool b => if b then "True".toList else "False".toList
  | .none => "None".toList
  | _ => c.str

/-! ### `Table.write` -/

def Cell.ofNumber (v : NumVal) (str : Text) : Cell := { kind := .number, value := .num v.repr, str := str, d128 := some v }
def Cell.ofText (s : Text) : Cell := { kind := .text, value := .str s }
def Cell.ofBool (b : Bool) : Cell := { kind := .bool, value := .bool b }
def Cell.ofDate (dt : DateFmt.DateTime) (str : Text) : Cell :=
  { kind := .date, value := .date, str := str, hasSeconds := true, datetime := some dt }
def Cell.ofDuration (ms : Nat) (str : Text) : Cell := { kind := .duration, value := .duration ms, str := str }

/-- a cell `Table.write` has just made: no format, no control, no storage fields but the value's own. -/
def Cell.Fresh (c : Cell) : Prop :=
  c.numFmt = none ∧ c.currencyFmt = none ∧ c.textFmt = none ∧ c.boolFmt = none ∧ c.dateFmt = none ∧
  c.durationFmt = none

/-- `Document.save` followed by `Document(path)`, as far as the display looks at the cell: the format ids (hence the
    archives they name), the control id and the currency cell type are stored with the cell; a bool / duration cell is
    read back with its `_double`, a text cell with its string id. -/
def Cell.reload (c : Cell) : Cell :=
  { c with
    doubleMs := match c.value with
      | .bool b => some (if b then 1000 else 0)
      | .duration ms => some ms
      | _ => c.doubleMs
    stringText := match c.value with
      | .str s => s
      | _ => c.stringText }

/-! ### the arguments of `set_cell_formatting` and `Formatting` -/

/-- `kwargs["control_format"]`. -/
inductive CtlArg where
  | control (t : CType)       -- a `ControlFormattingType` member
  | invalid                   -- anything else (the library's own test passes the string "unknown")
  deriving DecidableEq, Repr

/-- the keyword arguments; `none` = not passed.  Integers are Python ints (they only have to fit the archive's
    uint32 fields when an archive that holds them is built). -/
structure Args where
  allowNone : Option Bool := none
  basePlaces : Option Int := none
  baseUseMinus : Option Bool := none
  base : Option Int := none
  controlFormat : Option CtlArg := none
  currencyCode : Option Text := none
  dateTimeFormat : Option Text := none
  decimalPlaces : Option (Option Int) := none        -- `decimal_places=None` can be passed explicitly
  fractionAccuracy : Option Int := none
  increment : Option Dec := none
  maximum : Option Dec := none
  minimum : Option Dec := none
  popupValues : Option (List PopupItem) := none
  negativeStyle : Option Int := none
  showThousands : Option Bool := none
  useAccounting : Option Bool := none
  unknownKeyword : Bool := false                     -- a keyword `Formatting.__init__` does not have (or `type`)
  deriving DecidableEq, Repr

/-- the `Formatting` dataclass (after `__init__`; `decimalPlaces` is still optional). -/
structure Formatting where
  type : FType
  allowNone : Bool
  basePlaces : Int
  baseUseMinus : Bool
  base : Int
  controlFormat : CtlArg
  currencyCode : Text
  dateTimeFormat : Text
  decimalPlaces : Option Int
  fractionAccuracy : Int
  increment : Dec
  maximum : Dec
  minimum : Dec
  popupValues : List PopupItem
  negativeStyle : Int
  showThousands : Bool
  useAccounting : Bool
  deriving DecidableEq, Repr

def decOfTriple (t : Bool × Nat × Int) : Dec := ⟨t.1, t.2.1, t.2.2⟩

/-- `ControlFormattingType(Gen.fdControlFormat)`. -/
def defaultControlFormat : CtlArg :=
  match CType.all.find? (fun c => c.toFType.code == Gen.fdControlFormat) with
  | some c => .control c
  | none => .invalid

/-- `Formatting(type=t, **kwargs)` before `__post_init__`: every field not passed takes the dataclass default
    (the generated `Gen.fd*`). -/
def Formatting.init (t : FType) (a : Args) : Formatting :=
  { type := t
    allowNone := a.allowNone.getD Gen.fdAllowNone
    basePlaces := a.basePlaces.getD Gen.fdBasePlaces
    baseUseMinus := a.baseUseMinus.getD Gen.fdBaseUseMinusSign
    base := a.base.getD Gen.fdBase
    controlFormat := a.controlFormat.getD defaultControlFormat
    currencyCode := a.currencyCode.getD Gen.fdCurrencyCode.toList
    dateTimeFormat := a.dateTimeFormat.getD Gen.fdDateTimeFormat.toList
    decimalPlaces := a.decimalPlaces.getD Gen.fdDecimalPlaces
    fractionAccuracy := a.fractionAccuracy.getD Gen.fdFractionAccuracy
    increment := a.increment.getD (decOfTriple Gen.fdIncrement)
    maximum := a.maximum.getD (decOfTriple Gen.fdMaximum)
    minimum := a.minimum.getD (decOfTriple Gen.fdMinimum)
    popupValues := a.popupValues.getD (Gen.fdPopupValues.map fun s => .str s.toList)
    negativeStyle := a.negativeStyle.getD Gen.fdNegativeStyle
    showThousands := a.showThousands.getD Gen.fdShowThousandsSeparator
    useAccounting := a.useAccounting.getD Gen.fdUseAccountingStyle }

/-- the number format whose arguments are validated and defaulted: the format itself, or for a slider / stepper the
    format `control_format` names. -/
def Formatting.numberType (f : Formatting) : FType :=
  if f.type = .slider ∨ f.type = .stepper then
    match f.controlFormat with
    | .control c => c.toFType
    | .invalid => f.type
  else f.type

/-- `Formatting.__post_init__`: every failure is a `TypeError`; the result has its decimal places filled in. -/
def Formatting.postInit (f : Formatting) : PyM (Formatting × Int) :=
  -- "use_accounting_style overriding negative_style" (RuntimeWarning)
  let ns : Int := if f.useAccounting ∧ f.negativeStyle ≠ 0 then 0 else f.negativeStyle
  let nt := f.numberType
  if f.type = .datetime ∧ !DateFmt.validFormat f.dateTimeFormat then .error .TypeError
  else if nt = .currency ∧ !(Gen.currencies.any fun c => c.toList == f.currencyCode) then .error .TypeError
  else
    let places : Int := match f.decimalPlaces with
      | some p => p
      | none => if nt = .currency then 2 else (Gen.DECIMAL_PLACES_AUTO : Nat)
    if nt = .base ∧ !f.baseUseMinus ∧ ¬(f.base = 2 ∨ f.base = 8 ∨ f.base = 16) then .error .TypeError
    else if nt = .base ∧ (f.base < 2 ∨ f.base > (Gen.MAX_BASE : Nat)) then .error .TypeError
    else .ok ({ f with negativeStyle := ns, decimalPlaces := some places }, places)

/-- `Formatting(type=format_type, **kwargs)`. -/
def Formatting.make (t : FType) (a : Args) : PyM (Formatting × Int) :=
  if a.unknownKeyword then .error .TypeError else (Formatting.init t a).postInit

/-! ### `format_archive` -/

/-- a Python int stored into a uint32 field. -/
def u32 (i : Int) : PyM Nat := if 0 ≤ i ∧ i < 4294967296 then .ok i.toNat else .error .ValueError

/-- one `name=getattr(formatting, name)` keyword of `FormatStructArchive(**attrs)`; a name the message does not have
    is protobuf's `ValueError`. -/
def setParam (f : Formatting) (places : Int) (name : String) (a : Fmt) : PyM Fmt :=
  if name = "base" then do let v ← u32 f.base; pure { a with base := v }
  else if name = "base_places" then do let v ← u32 f.basePlaces; pure { a with basePlaces := v }
  else if name = "base_use_minus_sign" then pure { a with baseUseMinus := f.baseUseMinus }
  else if name = "currency_code" then pure { a with currencyCode := f.currencyCode }
  else if name = "decimal_places" then do let v ← u32 places; pure { a with decimalPlaces := v }
  else if name = "negative_style" then do let v ← u32 f.negativeStyle; pure { a with negativeStyle := v }
  else if name = "show_thousands_separator" then pure { a with showThousands := f.showThousands }
  else if name = "use_accounting_style" then pure { a with useAccounting := f.useAccounting }
  else if name = "date_time_format" then pure { a with dateTimeFormat := f.dateTimeFormat }
  else if name = "fraction_accuracy" then do let v ← u32 f.fractionAccuracy; pure { a with fractionAccuracy := v }
  else .error .ValueError

def setParams (f : Formatting) (places : Int) : List String → Fmt → PyM Fmt
  | [], a => .ok a
  | n :: rest, a => do let a' ← setParam f places n a; setParams f places rest a'

/-- `_NumbersModel.format_archive(table_id, format_type, formatting)`; `key` is the integer value of the dictionary key
    (`True`, which `_set_cell_data_format` passes for a popup on a number cell, is the key `1`). -/
def formatArchive (key : Nat) (f : Formatting) (places : Int) : PyM Fmt :=
  match Gen.allowedFormattingParameters.lookup key, Gen.formatTypeMap.lookup key with
  | some params, some ft => setParams f places params { formatType := ft }
  | _, _ => .error .KeyError

/-! ### `control_cell_archive`, `cell_popup_model` -/

def popupEntries (items : List PopupItem) : List PopupEntry :=
  .nil :: items.map fun
    | .str s => .str s
    | .num d => .num d

/-- `control_cell_archive(table_id, format_type, formatting)` (called for the `FORMATTING_ACTION_CELLS` only). -/
def controlCellArchive (t : FType) (f : Formatting) : Ctl :=
  if t = .tickbox then { interaction := INTERACTION_TOGGLE }
  else if t = .rating then { interaction := INTERACTION_RATING, range := some (⟨false, 0, 0⟩, ⟨false, 5, 0⟩, ⟨false, 1, 0⟩) }
  else if t = .slider then { interaction := INTERACTION_SLIDER, range := some (f.minimum, f.maximum, f.increment) }
  else if t = .stepper then { interaction := INTERACTION_STEPPER, range := some (f.minimum, f.maximum, f.increment) }
  else { interaction := INTERACTION_POPUP, popup := some (popupEntries f.popupValues, !f.allowNone) }

/-! ### `Cell._set_formatting` -/

/-- `cell._set_formatting(format_id, format_type, control_id, is_currency)`: the new format replaces whatever the
    cell carried. -/
def setFormatting (c : Cell) (fmt : Fmt) (t : FType) (ctl : Option Ctl) (isCurrency : Bool) : Cell :=
  let c := { c with currencyType := isCurrency, numFmt := none, currencyFmt := none, textFmt := none, boolFmt := none,
                    dateFmt := none, control := none }
  if t = .currency then { c with currencyFmt := some fmt }
  else if t = .tickbox then { c with boolFmt := some fmt, control := ctl }
  else if t = .rating then { c with numFmt := some fmt, control := ctl }
  else if t = .slider ∨ t = .stepper then
    if isCurrency then { c with currencyFmt := some fmt, control := ctl } else { c with numFmt := some fmt, control := ctl }
  else if t = .popup then { c with textFmt := some fmt, control := ctl }
  else if t = .datetime then { c with dateFmt := some fmt }
  else if t = .text then { c with textFmt := some fmt }
  else { c with numFmt := some fmt }

/-! ### `Table.set_cell_formatting` → `_set_cell_data_format` -/

/-- `FormattingType[name.upper()]` and `FORMATTING_ALLOWED_CELLS[name]`: either look-up failing is the `TypeError`
    "unsuported cell format type".  (`str.upper` is modelled on ASCII; a name with other letters is in no key of the
    second table.) -/
def resolveType (name : Text) : PyM (FType × List String) :=
  match FType.all.find? (fun t => t.name.toList == name.map Char.toUpper),
        Gen.formattingAllowedCells.find? (fun e => e.1.toList == name) with
  | some t, some e => .ok (t, e.2)
  | _, _ => .error .TypeError

/-- the popup checks of `_set_cell_data_format` (`IndexError`). -/
def popupCheck (c : Cell) (f : Formatting) : PyM Unit :=
  if c.value = .str [] ∧ !f.allowNone then .error .IndexError
  else if c.value ≠ .str [] ∧ !(f.popupValues.any fun i => c.value.eqItem i) then .error .IndexError
  else .ok ()

/-- the part of `Table._set_cell_data_format(row, col, name, **kwargs)` before `cell._set_formatting(...)`: the archive
    that is requested, the format type, the control archive, `is_currency`. -/
def formatChoice (c : Cell) (name : Text) (a : Args) : PyM (Fmt × FType × Option Ctl × Bool) := do
  let (t, allowed) ← resolveType name
  if !allowed.contains c.kind.className then throw .TypeError
  let (f, places) ← Formatting.make t a
  let ctl : Option Ctl :=
    if Gen.formattingActionCells.any (fun n => n.toList == name) then some (controlCellArchive t f) else none
  if t = .slider ∨ t = .stepper then
    match a.controlFormat with
    | some .invalid => throw .TypeError
    | some (.control ct) =>
      let fmt ← formatArchive ct.toFType.code f places
      pure (fmt, t, ctl, decide (ct = .currency))
    | none =>
      let fmt ← formatArchive FType.number.code f places
      pure (fmt, t, ctl, false)
  else if t = .popup then
    popupCheck c f
    let fmt ← formatArchive (if c.kind = .text then FType.text.code else 1) f places
    pure (fmt, t, ctl, false)
  else
    let fmt ← formatArchive t.code f places
    pure (fmt, t, ctl, decide (t = .currency))

/-- `Table._set_cell_data_format(row, col, name, **kwargs)` on the cell at `(row, col)`. -/
def setCellDataFormat (c : Cell) (name : Text) (a : Args) : PyM Cell := do
  let r ← formatChoice c name a
  pure (setFormatting c r.1 r.2.1 r.2.2.1 r.2.2.2)

/-! ### `Cell.formatted_value` → `_duration_format` / `_date_format` / `_custom_format` -/

/-- the function that produces the text, with the arguments it reads from the archive. -/
inductive Formatter where
  | emptyCell                                                   -- EmptyCell.formatted_value
  | fallback                                                    -- formatted_value's last line: str(self.value), upper-cased for a bool
  | strValue                                                    -- _custom_format's own fall-back: str(self.value) as it is
  | duration (f : Duration.Fmt)                                 -- Cell._duration_format
  | date (fmt : Text)                                           -- _decode_date_format(fmt, self._datetime)
  | dateUnexpected                                              -- custom uid of a non-date custom format: warning, ""
  | decimal (f : DecFmt)                                        -- _format_decimal(self._d128, fmt)
  | percent (f : DecFmt)                                        -- _format_decimal(self._d128 * 100, fmt, percent=True)
  | currency (f : DecFmt) (accounting : Bool) (code : Text)     -- _format_currency
  | base (f : BaseFmt)                                          -- _format_base
  | fraction (accuracy : Nat)                                   -- _format_fraction
  | scientific (places : Nat)                                   -- _format_scientific
  | boolText                                                    -- "TRUE" / "FALSE"
  | checkbox                                                    -- CHECKBOX_TRUE_VALUE / CHECKBOX_FALSE_VALUE
  | rating                                                      -- STAR_RATING_VALUE * int(self._d128)
  | customNumber (e : CustomEntry)                              -- _decode_number_format
  | customText (e : CustomEntry)                                -- _decode_text_format
  deriving DecidableEq, Repr

def Fmt.decFmt (f : Fmt) : DecFmt := ⟨f.decimalPlaces, f.showThousands, f.negativeStyle⟩

/-- the `if … elif …` chain at the head of `Cell._custom_format`. -/
def selectCustom (c : Cell) : Option Fmt :=
  if c.textFmt.isSome ∧ c.kind = .text then c.textFmt
  else if c.currencyFmt.isSome then c.currencyFmt
  else if c.boolFmt.isSome ∧ c.kind = .bool then c.boolFmt
  else if c.numFmt.isSome then c.numFmt
  else none

/-- `Cell._custom_format`: which formatter, with which arguments. -/
def customFormatter (c : Cell) : PyM Formatter :=
  match selectCustom c with
  | none => .ok .strValue
  | some f =>
    match f.customUid with
    | some none => .error .KeyError                               -- format_map[format_uuid]
    | some (some e) =>
      if e.archive.requiresFraction then .ok (.fraction e.fractionAccuracy)
      else if CustomFmt.FormatType.ofCode e.formatType = .customText then .ok (.customText e)
      else .ok (.customNumber e)
    | none =>
      match CustomFmt.FormatType.ofCode f.formatType with
      | .decimal => .ok (.decimal f.decFmt)
      | .currency => .ok (.currency f.decFmt f.useAccounting f.currencyCode)
      | .boolean => .ok .boolText
      | .percent => .ok (.percent f.decFmt)
      | .base => .ok (.base ⟨f.base, f.basePlaces, f.baseUseMinus⟩)
      | .fraction => .ok (.fraction f.fractionAccuracy)
      | .scientific => .ok (.scientific f.decimalPlaces)
      | .checkbox => .ok .checkbox
      | .rating => .ok .rating
      | _ => .ok .strValue

/-- `Cell._date_format`. -/
def dateFormatter (f : Fmt) : PyM Formatter :=
  match f.customUid with
  | some none => .error .KeyError
  | some (some e) =>
    if CustomFmt.FormatType.ofCode e.formatType = .customDate then .ok (.date e.archive.formatString)
    else .ok .dateUnexpected
  | none => .ok (.date f.dateTimeFormat)

/-- `Cell.formatted_value` (and the override in `EmptyCell`): the dispatch. -/
def selectFormatter (c : Cell) : PyM Formatter :=
  if c.kind = .empty then .ok .emptyCell
  else
    match c.durationFmt, c.doubleMs with
    | some f, some _ => .ok (.duration ⟨f.durationStyle, f.durationLargest, f.durationSmallest, f.useAutoUnits⟩)
    | _, _ =>
      match c.dateFmt, c.hasSeconds with
      | some f, true => dateFormatter f
      | _, _ =>
        if c.textFmt.isSome ∨ c.numFmt.isSome ∨ c.currencyFmt.isSome ∨ c.boolFmt.isSome then customFormatter c
        else .ok .fallback

/-- what the display needs from the interpreter. -/
structure Env where
  isAlpha : Char → Bool       -- str.isalpha
  zeros : List Nat            -- the zero digits of the `\d` blocks
  placeholder : Char          -- CUSTOM_TEXT_PLACEHOLDER

/-- `_format_fraction(value, number_format)`: the accuracy dispatch. -/
def formatFraction (accuracy : Nat) (v : NumVal) : PyM Text :=
  if accuracy &&& 0xFF000000 ≠ 0 then fractionDigits (0x100000000 - accuracy) v.ratio.1 v.ratio.2
  else
    let t := v.fracProduct accuracy
    .ok (fractionFixed accuracy v.repr t.1 t.2.1 t.2.2)

/-- `_format_base` on an archive read from a file can meet a base the writer never produces: `value % 0` is a
    ZeroDivisionError, base 1 never terminates, a digit above 35 is an IndexError of `INT_TO_BASE_CHAR`. -/
def formatBaseChecked (d : Dec) (f : BaseFmt) : PyM Text :=
  if d.roundEvenNat = 0 then .ok (formatBase d f)
  else if !f.useMinus && (f.base = 2 || f.base = 8 || f.base = 16) && d.neg then .ok (formatBase d f)
  else if f.base = 0 then .error (.Other "ZeroDivisionError")
  else if f.base = 1 then .error .OutOfFuel
  else if f.base > 36 ∧ (toBase f.base d.roundEvenNat).any (fun ch => ch.toNat > 90) then .error .IndexError
  else .ok (formatBase d f)

def upperAscii (t : Text) : Text := t.map Char.toUpper

/-- the formatter applied to the cell. A formatter that needs `_d128` on a cell that has none fails as Python does
    (`None * 100`, `round(None)`, `int(None)` … are `TypeError`s; `_format_decimal(None, …)` is `""`). -/
def applyFormatter (env : Env) (c : Cell) : Formatter → PyM Text
  | .emptyCell => .ok []
  | .fallback => .ok (match c.value with | .bool _ => upperAscii c.strValue | _ => c.strValue)
  | .strValue => .ok c.strValue
  | .duration f =>
    match c.doubleMs with
    | some ms => .ok (Duration.durationFormat ms f)
    | none => .error .TypeError
  | .date fmt =>
    match c.datetime with
    | some dt => .ok (DateFmt.decodeDateFormat env.isAlpha fmt dt)
    | none => .error .AttributeError
  | .dateUnexpected => .ok []
  | .decimal f =>
    match c.d128 with
    | some v => .ok (formatDecimal v.repr f false)
    | none => .ok []
  | .percent f =>
    match c.d128 with
    | some v => .ok (formatDecimal v.times100 f true)
    | none => .error .TypeError
  | .currency f acct code =>
    match c.d128 with
    | some v => .ok (formatCurrency Gen.currencySymbols v.repr f acct code)
    | none => if acct then .error .TypeError else .ok (currencySymbol Gen.currencySymbols code)
  | .base f =>
    match c.d128 with
    | some v => formatBaseChecked v.repr f
    | none => .error .TypeError
  | .fraction acc =>
    match c.d128 with
    | some v => formatFraction acc v
    | none => .error .TypeError
  | .scientific p =>
    match c.d128 with
    | some v => .ok (formatScientific v.sci p)
    | none => .error .TypeError
  | .boolText => .ok (if c.value.truthy then "TRUE".toList else "FALSE".toList)
  | .checkbox => .ok (if c.value.truthy then Gen.checkboxTrueValue.toList else Gen.checkboxFalseValue.toList)
  | .rating =>
    match c.d128 with
    | some v => .ok (formatRating v.repr)
    | none => .error .TypeError
  | .customNumber e =>
    match c.d128 with
    | some v => CustomFmt.decodeNumberFormat env.zeros e.archive (v.custom e.archive).1 (v.custom e.archive).2
    | none => .error .TypeError
  | .customText e => .ok (CustomFmt.decodeTextFormat env.placeholder e.archive.formatString c.stringText)

/-- `Cell.formatted_value`. -/
def formattedValue (env : Env) (c : Cell) : PyM Text := do
  let fm ← selectFormatter c
  applyFormatter env c fm

/-- `table.set_cell_formatting(row, col, name, **kwargs)` followed by `table.cell(row, col).formatted_value`. -/
def setThenDisplay (env : Env) (c : Cell) (name : Text) (a : Args) : PyM Text := do
  let c' ← setCellDataFormat c name a
  formattedValue env c'

end NumbersModel.FormatDispatch
