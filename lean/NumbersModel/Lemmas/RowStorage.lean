import NumbersModel.Model.RowStorage
import NumbersModel.Lemmas.Struct
namespace NumbersModel.RowStorage
open NumbersModel

/-! ### what the writer loop produces -/

/-- offsets (already divided by 4) for the cells of a row, first record at byte `cur`. -/
def offsSpec : List (Option Bytes) → Nat → List Int
  | [], _ => []
  | none :: r, cur => -1 :: offsSpec r cur
  | some b :: r, cur => ((cur >>> 2 : Nat) : Int) :: offsSpec r (cur + b.length)

/-- concatenation of the records that are present. -/
def storSpec : List (Option Bytes) → Bytes
  | [] => []
  | none :: r => storSpec r
  | some b :: r => b ++ storSpec r

def countSpec : List (Option Bytes) → Nat
  | [] => 0
  | none :: r => countSpec r
  | some _ :: r => countSpec r + 1

theorem offsSpec_length (cells : List (Option Bytes)) (cur : Nat) :
    (offsSpec cells cur).length = cells.length := by
  induction cells generalizing cur with
  | nil => rfl
  | cons c r ih => cases c <;> simp [offsSpec, ih]

theorem set_append_length' {α} (pre : List α) (b v : α) (post : List α) :
    (pre ++ b :: post).set pre.length v = pre ++ v :: post := by
  induction pre with
  | nil => rfl
  | cons a r ih => simp [ih]

theorem rowLoop_spec (cells : List (Option Bytes)) (done : List Int) (k cur : Nat) (st : Bytes)
    (n : Nat) (h : cells.length ≤ k) :
    rowLoop cells done.length (done ++ List.replicate k (-1)) cur st n
      = .ok (done ++ offsSpec cells cur ++ List.replicate (k - cells.length) (-1),
             st ++ storSpec cells, n + countSpec cells) := by
  induction cells generalizing done k cur st n with
  | nil => simp [rowLoop, offsSpec, storSpec, countSpec]
  | cons c r ih =>
    simp only [List.length_cons] at h
    obtain ⟨k', rfl⟩ : ∃ k', k = k' + 1 := ⟨k - 1, by omega⟩
    have hk : r.length ≤ k' := by omega
    cases c with
    | none =>
      simp only [rowLoop, offsSpec, storSpec, countSpec]
      have e : done ++ List.replicate (k' + 1) (-1 : Int) = (done ++ [-1]) ++ List.replicate k' (-1) := by
        simp [List.replicate_succ]
      have hl : (done ++ [(-1 : Int)]).length = done.length + 1 := by simp
      rw [e, ← hl, ih (done ++ [-1]) k' cur st n hk]
      simp
    | some b =>
      simp only [rowLoop, offsSpec, storSpec, countSpec]
      have hlt : done.length < (done ++ List.replicate (k' + 1) (-1 : Int)).length := by simp
      simp only [hlt, if_true]
      have e1 : done ++ List.replicate (k' + 1) (-1 : Int) = done ++ (-1) :: List.replicate k' (-1) := by
        simp [List.replicate_succ]
      rw [e1, set_append_length']
      have e : done ++ ((cur >>> 2 : Nat) : Int) :: List.replicate k' (-1)
          = (done ++ [((cur >>> 2 : Nat) : Int)]) ++ List.replicate k' (-1) := by simp
      have hl : (done ++ [((cur >>> 2 : Nat) : Int)]).length = done.length + 1 := by simp
      rw [e, ← hl, ih (done ++ [((cur >>> 2 : Nat) : Int)]) k' (cur + b.length) (st ++ b) (n + 1) hk]
      simp
      omega

/-! ### the offsets fit an int16 -/

theorem offsSpec_bound (cells : List (Option Bytes)) (cur L : Nat)
    (hl : ∀ b, some b ∈ cells → b.length ≤ L) :
    ∀ o ∈ offsSpec cells cur, -1 ≤ o ∧ o ≤ (((cur + L * cells.length) / 4 : Nat) : Int) := by
  induction cells generalizing cur with
  | nil => intro o ho; simp [offsSpec] at ho
  | cons c r ih =>
    have hr : ∀ b, some b ∈ r → b.length ≤ L := fun b hb => hl b (List.mem_cons_of_mem _ hb)
    cases c with
    | none =>
      intro o ho
      simp only [offsSpec, List.mem_cons] at ho
      rcases ho with rfl | ho
      · constructor <;> omega
      · have := ih cur hr o ho
        simp only [List.length_cons]
        have hmono : (cur + L * r.length) / 4 ≤ (cur + L * (r.length + 1)) / 4 :=
          Nat.div_le_div_right (by rw [Nat.mul_succ]; omega)
        omega
    | some b =>
      have hb : b.length ≤ L := hl b (List.mem_cons_self)
      intro o ho
      simp only [offsSpec, List.mem_cons] at ho
      rcases ho with rfl | ho
      · simp only [List.length_cons, Nat.shiftRight_eq_div_pow]
        have hmono : cur / 2 ^ 2 ≤ (cur + L * (r.length + 1)) / 4 :=
          Nat.div_le_div_right (by omega)
        constructor <;> omega
      · have := ih (cur + b.length) hr o ho
        simp only [List.length_cons]
        have hmono : (cur + b.length + L * r.length) / 4 ≤ (cur + L * (r.length + 1)) / 4 :=
          Nat.div_le_div_right (by rw [Nat.mul_succ]; omega)
        omega

theorem packOffsets_ok (offs : List Int) (h : ∀ o ∈ offs, -32768 ≤ o ∧ o ≤ 32767) :
    ∃ b, packOffsets offs = .ok b ∧ b.length = 2 * offs.length := by
  induction offs with
  | nil => exact ⟨[], rfl, rfl⟩
  | cons o r ih =>
    obtain ⟨b, hb, hlen⟩ := ih (fun x hx => h x (List.mem_cons_of_mem _ hx))
    have ho := h o (List.mem_cons_self)
    have hc : ¬ (o < -32768 ∨ o > 32767) := by omega
    refine ⟨leBytes 2 (if o < 0 then (o + 65536).toNat else o.toNat) ++ b, ?_, ?_⟩
    · simp [packOffsets, packI16, hc, hb, bind, Except.bind, pure, Except.pure]
    · simp [leBytes_length, hlen]; omega

/-! ### tiles -/

theorem tile_div_facts (n : Nat) (hn : n ≠ 0) :
    256 * ((n - 1) / 256) ≤ n - 1 ∧ n ≤ 256 * ((n - 1) / 256 + 1) := by
  have h1 := Nat.mul_div_le (n - 1) 256
  have h2 := Nat.lt_mul_div_succ (n - 1) (show 0 < 256 by decide)
  omega

theorem tileLoop_cover {α} (data : List α) (hn : data.length ≠ 0) (fuel i : Nat)
    (hi : i ≤ (data.length - 1) / 256 + 1) (hf : (data.length - 1) / 256 + 2 ≤ fuel + i) :
    (tileLoop data fuel i).flatMap (·.2) = data.drop (256 * i) := by
  obtain ⟨hM1, hM2⟩ := tile_div_facts data.length hn
  induction fuel generalizing i with
  | zero =>
    have hge : data.length ≤ 256 * i := by omega
    simp [tileLoop, List.drop_eq_nil_of_le hge]
  | succ fuel ih =>
    unfold tileLoop
    rw [Nat.shiftRight_eq_div_pow]
    have h8 : (2:Nat) ^ 8 = 256 := by decide
    rw [h8]
    generalize hTdef : Gen.MAX_TILE_SIZE = T
    have hT : T = 256 := by rw [← hTdef]; rfl
    subst hT
    by_cases hle : i ≤ (data.length - 1) / 256
    · rw [if_pos ⟨hn, hle⟩, List.flatMap_cons]
      rw [ih (i + 1) (by omega) (by omega)]
      have hstart : i * 256 ≤ data.length := by omega
      have a1 : 256 * (i + 1) = i * 256 + 256 := by omega
      have a2 : 256 * i = i * 256 := by omega
      rw [a1, a2, ← List.drop_drop (i := 256) (j := i * 256) (l := data)]
      have hlen : (data.drop (i * 256)).length = data.length - i * 256 := List.length_drop
      generalize data.drop (i * 256) = l at hlen ⊢
      show l.take (if data.length - i * 256 > 256 then 256 else data.length - i * 256) ++ l.drop 256 = l
      by_cases hbig : data.length - i * 256 > 256
      · rw [if_pos hbig]
        exact List.take_append_drop 256 _
      · rw [if_neg hbig, List.take_of_length_le (by omega), List.drop_eq_nil_of_le (by omega),
          List.append_nil]
    · rw [if_neg (fun h => hle h.2), List.flatMap_nil]
      have hge : data.length ≤ 256 * i := by omega
      rw [List.drop_eq_nil_of_le hge]

theorem tileLoop_bounded {α} (data : List α) (fuel i : Nat) :
    ∀ t ∈ tileLoop data fuel i, t.2.length ≤ 256 := by
  induction fuel generalizing i with
  | zero => intro t ht; simp [tileLoop] at ht
  | succ fuel ih =>
    intro t ht
    unfold tileLoop at ht
    generalize hTdef : Gen.MAX_TILE_SIZE = T at ht
    have hT : T = 256 := by rw [← hTdef]; rfl
    subst hT
    by_cases hle : data.length ≠ 0 ∧ i ≤ (data.length - 1) >>> 8
    · rw [if_pos hle] at ht
      simp only [List.mem_cons] at ht
      rcases ht with rfl | ht
      · simp only [List.length_take]
        refine Nat.le_trans (Nat.min_le_left _ _) ?_
        by_cases hb : data.length - i * 256 > 256
        · rw [if_pos hb]; omega
        · rw [if_neg hb]; omega
      · exact ih (i + 1) t ht
    · rw [if_neg hle] at ht; simp at ht

theorem tileLoop_length {α} (data : List α) (hn : data.length ≠ 0) (fuel i : Nat)
    (hi : i ≤ (data.length - 1) / 256 + 1) (hf : (data.length - 1) / 256 + 2 ≤ fuel + i) :
    (tileLoop data fuel i).length = (data.length - 1) / 256 + 1 - i := by
  induction fuel generalizing i with
  | zero => simp [tileLoop]; omega
  | succ fuel ih =>
    unfold tileLoop
    rw [Nat.shiftRight_eq_div_pow]
    have h8 : (2:Nat) ^ 8 = 256 := by decide
    rw [h8]
    by_cases hle : i ≤ (data.length - 1) / 256
    · rw [if_pos ⟨hn, hle⟩]
      simp only [List.length_cons]
      rw [ih (i + 1) (by omega) (by omega)]
      omega
    · rw [if_neg (fun h => hle h.2)]
      simp only [List.length_nil]
      omega

theorem tileLoop_empty {α} (fuel i : Nat) : tileLoop ([] : List α) fuel i = [] := by
  cases fuel <;> simp [tileLoop]

/-! ### reading a written row back -/

theorem i16_roundtrip (o : Int) (h : -32768 ≤ o ∧ o ≤ 32767) :
    i16OfBytes (leBytes 2 (if o < 0 then (o + 65536).toNat else o.toNat)) = o := by
  unfold i16OfBytes
  simp only [leNat_leBytes]
  have h256 : (256:Nat) ^ 2 = 65536 := by decide
  rw [h256]
  by_cases hv : o < 0
  · simp only [hv, if_true]
    have : (o + 65536).toNat % 65536 = (o + 65536).toNat := by omega
    rw [this]
    have h2 : (o + 65536).toNat ≥ 32768 := by omega
    simp only [h2, if_true]
    omega
  · simp only [hv, if_false]
    have : o.toNat % 65536 = o.toNat := by omega
    rw [this]
    have h2 : ¬ (o.toNat ≥ 32768) := by omega
    simp only [h2, if_false]
    omega

theorem unpack_pack_offsets (offs : List Int) (h : ∀ o ∈ offs, -32768 ≤ o ∧ o ≤ 32767) :
    ∃ b, packOffsets offs = .ok b ∧ unpackOffsets b = .ok offs := by
  induction offs with
  | nil => exact ⟨[], rfl, rfl⟩
  | cons o r ih =>
    obtain ⟨b, hb, hu⟩ := ih (fun x hx => h x (List.mem_cons_of_mem _ hx))
    have ho := h o (List.mem_cons_self)
    have hc : ¬ (o < -32768 ∨ o > 32767) := by omega
    obtain ⟨x, y, hxy⟩ : ∃ x y, leBytes 2 (if o < 0 then (o + 65536).toNat else o.toNat) = [x, y] := by
      have hl := leBytes_length 2 (if o < 0 then (o + 65536).toNat else o.toNat)
      generalize leBytes 2 (if o < 0 then (o + 65536).toNat else o.toNat) = l at hl
      rcases l with _ | ⟨x, _ | ⟨y, _ | ⟨z, t⟩⟩⟩ <;> simp at hl
      exact ⟨x, y, rfl⟩
    refine ⟨x :: y :: b, ?_, ?_⟩
    · simp [packOffsets, packI16, hc, hb, hxy, bind, Except.bind, pure, Except.pure]
    · have := i16_roundtrip o ho
      rw [hxy] at this
      simp [unpackOffsets, hu, this, bind, Except.bind, pure, Except.pure]

theorem nextEnd_all_neg (l : List Int) (h : ∀ x ∈ l, x < 0) : nextEnd l = none := by
  induction l with
  | nil => rfl
  | cons x r ih =>
    have hx := h x (List.mem_cons_self)
    have : ¬ (x ≥ 0) := by omega
    simp only [nextEnd, this, if_false]
    exact ih (fun y hy => h y (List.mem_cons_of_mem _ hy))

theorem neg_tail (k : Nat) : ∀ x ∈ (List.replicate k (-1 : Int)).map (· * 4), x < 0 := by
  intro x hx
  obtain ⟨y, hy, rfl⟩ := List.mem_map.mp hx
  have := List.eq_of_mem_replicate hy
  omega

theorem bufLoop_all_neg (st : Bytes) (l : List Int) (h : ∀ x ∈ l, x < 0) :
    bufLoop st l.length l = List.replicate l.length none := by
  induction l with
  | nil => rfl
  | cons x r ih =>
    have hx := h x (List.mem_cons_self)
    simp only [List.length_cons, bufLoop, hx, if_true, List.replicate_succ]
    rw [ih (fun y hy => h y (List.mem_cons_of_mem _ hy))]

theorem offsSpec_ge (cells : List (Option Bytes)) (cur : Nat) : ∀ o ∈ offsSpec cells cur, -1 ≤ o := by
  induction cells generalizing cur with
  | nil => intro o ho; simp [offsSpec] at ho
  | cons c r ih =>
    cases c with
    | none =>
      intro o ho
      simp only [offsSpec, List.mem_cons] at ho
      rcases ho with rfl | ho
      · omega
      · exact ih cur o ho
    | some b =>
      intro o ho
      simp only [offsSpec, List.mem_cons] at ho
      rcases ho with rfl | ho
      · omega
      · exact ih _ o ho

/-- some cell of the list has a record. -/
def hasSome : List (Option Bytes) → Bool
  | [] => false
  | none :: r => hasSome r
  | some _ :: _ => true

theorem storSpec_nil_of_not_hasSome (r : List (Option Bytes)) (h : hasSome r = false) :
    storSpec r = [] := by
  induction r with
  | nil => rfl
  | cons c r ih =>
    cases c with
    | none => simpa [storSpec] using ih (by simpa [hasSome] using h)
    | some b => simp [hasSome] at h

theorem shr2_mul4 (cur : Nat) (h : cur % 4 = 0) : (((cur >>> 2 : Nat) : Int) * 4) = (cur : Int) := by
  rw [Nat.shiftRight_eq_div_pow]
  have : (2:Nat) ^ 2 = 4 := by decide
  rw [this]
  omega

theorem nextEnd_offs (r : List (Option Bytes)) (cur k : Nat) (hc : cur % 4 = 0) :
    nextEnd ((offsSpec r cur ++ List.replicate k (-1)).map (· * 4))
      = if hasSome r then some (cur : Int) else none := by
  induction r generalizing cur with
  | nil => simpa [offsSpec, hasSome] using nextEnd_all_neg _ (neg_tail k)
  | cons c r ih =>
    cases c with
    | none =>
      simp only [offsSpec, hasSome, List.cons_append, List.map_cons, nextEnd]
      have : ¬ ((-1 : Int) * 4 ≥ 0) := by omega
      simp only [this, if_false]
      exact ih cur hc
    | some b =>
      simp only [offsSpec, hasSome, List.cons_append, List.map_cons, nextEnd, shr2_mul4 cur hc]
      have : ((cur : Int) ≥ 0) := by omega
      simp [this]

theorem pySlice_mid (pre b post : Bytes) :
    pySlice (pre ++ (b ++ post)) (some (pre.length : Int)) (some ((pre.length + b.length : Nat) : Int)) = b := by
  unfold pySlice pyClamp
  have h1 : ¬ ((pre.length : Int) < 0) := by omega
  have h2 : ¬ (((pre.length + b.length : Nat) : Int) < 0) := by omega
  have h3 : ¬ ((pre.length : Int) > ((pre ++ (b ++ post)).length : Nat)) := by
    simp only [List.length_append]; omega
  have h4 : ¬ (((pre.length + b.length : Nat) : Int) > ((pre ++ (b ++ post)).length : Nat)) := by
    simp only [List.length_append]; omega
  simp only [h1, h2, h3, h4, if_false, Int.toNat_natCast]
  have : pre.length + b.length - pre.length = b.length := by omega
  rw [this, List.drop_left, List.take_left]

theorem bufLoop_spec (cells : List (Option Bytes)) (pre : Bytes) (k : Nat)
    (hal : ∀ b, some b ∈ cells → b.length % 4 = 0) (hpre : pre.length % 4 = 0) :
    bufLoop (pre ++ storSpec cells) (cells.length + k)
        ((offsSpec cells pre.length ++ List.replicate k (-1)).map (· * 4))
      = cells ++ List.replicate k none := by
  induction cells generalizing pre with
  | nil =>
    simp only [offsSpec, storSpec, List.nil_append, List.length_nil, Nat.zero_add]
    have := bufLoop_all_neg (pre ++ []) _ (neg_tail k)
    simpa using this
  | cons c r ih =>
    have hr : ∀ b, some b ∈ r → b.length % 4 = 0 := fun b hb => hal b (List.mem_cons_of_mem _ hb)
    have hn : (c :: r).length + k = (r.length + k) + 1 := by simp only [List.length_cons]; omega
    rw [hn]
    cases c with
    | none =>
      simp only [offsSpec, storSpec, List.cons_append, List.map_cons, bufLoop]
      have : ((-1 : Int) * 4 < 0) := by omega
      simp only [this, if_true]
      rw [ih pre hr hpre]
    | some b =>
      have hb : b.length % 4 = 0 := hal b (List.mem_cons_self)
      simp only [offsSpec, storSpec, List.cons_append, List.map_cons, bufLoop, shr2_mul4 _ hpre]
      have h0 : ¬ ((pre.length : Int) < 0) := by omega
      simp only [h0, if_false]
      have hcur : (pre.length + b.length) % 4 = 0 := by omega
      have hstop : stopOf (pre ++ (b ++ storSpec r)).length
            ((offsSpec r (pre.length + b.length) ++ List.replicate k (-1)).map (· * 4))
          = ((pre.length + b.length : Nat) : Int) := by
        unfold stopOf
        rw [nextEnd_offs r _ k hcur]
        cases hs : hasSome r
        · have hst := storSpec_nil_of_not_hasSome r hs
          simp only [hst, List.append_nil, List.length_append]
          split <;> simp
        · have hne : ((offsSpec r (pre.length + b.length) ++ List.replicate k (-1)).map (· * 4)).isEmpty = false := by
            cases r with
            | nil => simp [hasSome] at hs
            | cons c r' => cases c <;> simp [offsSpec]
          rw [hne]
          simp
      rw [hstop, pySlice_mid]
      have e : pre ++ (b ++ storSpec r) = (pre ++ b) ++ storSpec r := by simp
      have hl : pre.length + b.length = (pre ++ b).length := by simp
      rw [e, hl, ih (pre ++ b) hr (by simpa using hcur)]

/-- the writer followed by the reader on one row. -/
theorem row_write_read (width0 : Nat) (cells : List (Option Bytes)) (hw : cells.length ≤ width0)
    (hfit : ∀ o ∈ offsSpec cells 0, o ≤ 32767)
    (hal : ∀ b, some b ∈ cells → b.length % 4 = 0) :
    ∃ ob st n, rowInfo width0 cells = .ok (ob, st, n) ∧ st = storSpec cells ∧ n = countSpec cells ∧
      ob.length = 2 * width0 ∧
      rowBuffers st ob width0 true = .ok (cells ++ List.replicate (width0 - cells.length) none) := by
  have hloop := rowLoop_spec cells [] width0 0 [] 0 hw
  simp only [List.length_nil, List.nil_append, Nat.zero_add] at hloop
  have hrange : ∀ o ∈ offsSpec cells 0 ++ List.replicate (width0 - cells.length) (-1),
      -32768 ≤ o ∧ o ≤ 32767 := by
    intro o ho
    rcases List.mem_append.mp ho with h | h
    · exact ⟨by have := offsSpec_ge cells 0 o h; omega, hfit o h⟩
    · have := List.eq_of_mem_replicate h
      omega
  obtain ⟨ob, hob, hun⟩ := unpack_pack_offsets _ hrange
  obtain ⟨ob', hob', hlen⟩ := packOffsets_ok _ hrange
  have : ob' = ob := by rw [hob] at hob'; injection hob' with h; exact h.symm
  subst this
  refine ⟨ob', storSpec cells, countSpec cells, ?_, rfl, rfl, ?_, ?_⟩
  · unfold rowInfo
    simp [hloop, hob, bind, Except.bind, pure, Except.pure]
  · rw [hlen]; simp [offsSpec_length]; omega
  · unfold rowBuffers
    simp only [hun, bind, Except.bind, pure, Except.pure, if_true]
    have := bufLoop_spec cells [] (width0 - cells.length) hal rfl
    simp only [List.nil_append, List.length_nil] at this
    have hw2 : cells.length + (width0 - cells.length) = width0 := by omega
    rw [hw2] at this
    rw [this]

/-- records of at most `L` bytes in at most `MAX_COL_COUNT` columns keep every stored offset
    (byte offset / 4) within an int16, provided `L * MAX_COL_COUNT / 4 ≤ 32767`. -/
theorem offsets_fit (cells : List (Option Bytes)) (L : Nat)
    (hmax : cells.length ≤ Gen.MAX_COL_COUNT)
    (hl : ∀ b, some b ∈ cells → b.length ≤ L)
    (hL : L * Gen.MAX_COL_COUNT / 4 ≤ 32767) :
    ∀ o ∈ offsSpec cells 0, o ≤ 32767 := by
  intro o ho
  have := (offsSpec_bound cells 0 L hl o ho).2
  have h1 : (0 + L * cells.length) / 4 ≤ L * Gen.MAX_COL_COUNT / 4 :=
    Nat.div_le_div_right (by rw [Nat.zero_add]; exact Nat.mul_le_mul_left _ hmax)
  omega

end NumbersModel.RowStorage
