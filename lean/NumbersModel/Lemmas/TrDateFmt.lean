/-
Equivalence of the definitions that `harness/py2lean.py` regenerates from `constants.py` / `cell.py` on every check
run (`Gen/TrDateFmt.lean`) with the hand-written model of Model/DateFmt.lean the C14 theorems are stated about:
`_day_of_year`, `_week_of_month`, `_days_occurred_in_month`, `_expand_quotes` and the scanning loop of
`_decode_date_format`.  The two scanners are index-based `while` loops over `chars = [*s]` in the source (fuel
`len(chars) + 1`); the model recurses on the list.  The loop lemmas relate "index `i` into `s`" to `s.drop i`.
-/
import NumbersModel.Gen.TrDateFmt
import NumbersModel.Model.DateFmt

namespace NumbersModel.Translated
open NumbersModel NumbersModel.Gen.T NumbersModel.DateFmt

/-! ### directive helpers -/

theorem day_of_year_eq_model (yday : Int) : day_of_year yday = .ok yday := rfl

theorem week_of_month_nat (d w : Nat) : week_of_month (d : Int) (w : Int) = .ok (((d + w + 6) / 7 : Nat) : Int) := by
  unfold week_of_month PyT.ceilDivFloat
  simp only [show ((7 : Int) = 0) = False by simp, if_false]
  congr 1
  rw [Int.fdiv_eq_ediv_of_nonneg _ (by decide)]
  omega

/-- `_week_of_month(value)` with `value.day` and `value.replace(day=1).weekday()` read off the model's date-time. -/
theorem week_of_month_eq_model (dt : DateTime) :
    week_of_month (dt.day : Int) (weekdayOf dt.year dt.month 1 : Int) = .ok (weekOfMonth dt : Int) :=
  week_of_month_nat _ _

theorem days_occurred_nat (d : Nat) : days_occurred_in_month (d : Int) = .ok (natStr ((d - 1) / 7 + 1)) := by
  unfold days_occurred_in_month PyT.trueDivTrunc
  simp only [show ((7 : Int) = 0) = False by simp, if_false, bind, Except.bind, pure, Except.pure]
  congr 1
  have h : Int.tdiv ((d : Int) - 1) 7 + 1 = (((d - 1) / 7 + 1 : Nat) : Int) := by
    rcases Nat.eq_zero_or_pos d with h0 | hpos
    · subst h0; decide
    · have e : ((d : Int) - 1) = ((d - 1 : Nat) : Int) := by omega
      rw [e, Int.tdiv_eq_ediv_of_nonneg (by omega)]
      omega
  rw [h]
  have : ¬ ((((d - 1) / 7 + 1 : Nat) : Int) < 0) := by omega
  simp only [intStr, this, if_false, Int.toNat_natCast]

/-- `_days_occurred_in_month(value)` with `(value - value.replace(day=1)).days = value.day - 1`. -/
theorem days_occurred_in_month_eq_model (dt : DateTime) :
    days_occurred_in_month (dt.day : Int) = .ok (natStr (daysOccurredInMonth dt)) := days_occurred_nat _

/-! ### index ↔ suffix -/

theorem strIter_length (s : Text) : (PyT.strIter s).length = s.length := by simp [PyT.strIter]

theorem drop_cons_facts {α} (s : List α) (i : Nat) (c : α) (t : List α) (h : s.drop i = c :: t) :
    s[i]? = some c ∧ s.drop (i + 1) = t ∧ i < s.length := by
  refine ⟨?_, ?_, ?_⟩
  · have := List.getElem?_drop (xs := s) (i := i) (j := 0)
    rw [h] at this
    simpa using this.symm
  · have : s.drop (i + 1) = (s.drop i).drop 1 := by rw [List.drop_drop]
    rw [this, h]; rfl
  · rcases Nat.lt_or_ge i s.length with hlt | hge
    · exact hlt
    · rw [List.drop_eq_nil_of_le hge] at h
      cases h

theorem index_strIter (s : Text) (i : Nat) (c : Char) (h : s[i]? = some c) :
    pyIndex (PyT.strIter s) (i : Int) = .ok [c] := by
  have hlt : i < s.length := by
    rcases Nat.lt_or_ge i s.length with hlt | hge
    · exact hlt
    · rw [List.getElem?_eq_none hge] at h
      cases h
  unfold pyIndex
  have h1 : ¬ ((i : Int) < 0) := by omega
  simp only [h1, if_false, strIter_length]
  have h2 : ¬ ((i : Int) < 0 ∨ (i : Int) ≥ (s.length : Int)) := by omega
  have h3 : (PyT.strIter s)[i]? = some [c] := by simp [PyT.strIter, h]
  have h4 : ¬ (False ∨ (i : Int) ≥ (s.length : Int)) := by
    intro h; rcases h with h | h
    · exact h
    · omega
  simp only [h4, if_false, Int.toNat_natCast, h3]

theorem drop_nil_facts {α} (s : List α) (i : Nat) (h : s.drop i = []) : s.length ≤ i := by
  rcases Nat.lt_or_ge i s.length with hlt | hge
  · have := List.length_drop (i := i) (l := s)
    rw [h] at this
    simp at this
    omega
  · exact hge

/-! ### `_expand_quotes` -/

theorem expand_loop (s : Text) (fuel : Nat) : ∀ (i : Nat) (res : Text) (b : Bool), s.length - i < fuel → i ≤ s.length →
    ∃ r, expand_quotes.loop1 fuel (PyT.strIter s) res (i : Int) b = .ok r ∧ r.1 = expandLoop (s.drop i) b res := by
  induction fuel with
  | zero => intro i res b h; omega
  | succ fuel ih =>
    intro i res b hf hi
    unfold expand_quotes.loop1
    simp only [strIter_length]
    have e1 : (i : Int) + 1 = ((i + 1 : Nat) : Int) := by omega
    have e2 : (i : Int) + 2 = ((i + 2 : Nat) : Int) := by omega
    match hd : s.drop i with
    | [] =>
      have hl := drop_nil_facts s i hd
      have : ¬ ((i : Int) < (s.length : Int)) := by omega
      simp only [this, decide_false, Bool.false_eq_true, if_false, expandLoop, pure, Except.pure]
      exact ⟨_, rfl, rfl⟩
    | [c] =>
      obtain ⟨hc, hrest, hlt⟩ := drop_cons_facts s i c [] hd
      have hl : s.length = i + 1 := by
        have := drop_nil_facts s (i + 1) hrest
        omega
      have h1 : (i : Int) < (s.length : Int) := by omega
      have h2 : ¬ ((i : Int) < (s.length : Int) - 1) := by omega
      simp only [h1, h2, decide_true, decide_false, if_true, Bool.false_eq_true, if_false, index_strIter s i c hc,
        bind, Except.bind, pure, Except.pure, Option.isNone_none]
      by_cases hq : c = '\''
      · subst hq
        simp only [decide_true, if_true, expandLoop]
        exact ⟨_, rfl, rfl⟩
      · have hq' : ¬ ([c] = (['\''] : Text)) := by simpa using hq
        simp only [hq', decide_false, Bool.false_eq_true, if_false, e1]
        obtain ⟨r, hr, hr'⟩ := ih (i + 1) (res ++ [c]) b (by omega) (by omega)
        refine ⟨r, hr, ?_⟩
        rw [hr', hrest]
        simp [expandLoop, hq]
    | c :: n :: rest =>
      obtain ⟨hc, hrest, hlt⟩ := drop_cons_facts s i c (n :: rest) hd
      obtain ⟨hn, hrest2, hlt2⟩ := drop_cons_facts s (i + 1) n rest hrest
      have h1 : (i : Int) < (s.length : Int) := by omega
      have h2 : (i : Int) < (s.length : Int) - 1 := by omega
      simp only [h1, h2, decide_true, if_true, index_strIter s i c hc, e1, index_strIter s (i + 1) n hn,
        bind, Except.bind, pure, Except.pure, Option.isNone_some, Bool.false_eq_true, if_false]
      by_cases hq : c = '\''
      · subst hq
        simp only [decide_true, if_true]
        by_cases hq2 : n = '\''
        · subst hq2
          simp only [decide_true, if_true, e2]
          obtain ⟨r, hr, hr'⟩ := ih (i + 2) (res ++ ['\'']) b (by omega) (by omega)
          refine ⟨r, hr, ?_⟩
          rw [hr', hrest2]
          simp [expandLoop]
        · have hq2' : ¬ ([n] = (['\''] : Text)) := by simpa using hq2
          simp only [hq2', decide_false, Bool.false_eq_true, if_false]
          obtain ⟨r, hr, hr'⟩ := ih (i + 1) res (!b) (by omega) (by omega)
          refine ⟨r, ?_, ?_⟩
          · rw [← hr]; cases b <;> rfl
          · rw [hr', hrest]
            simp [expandLoop, hq2]
      · have hq' : ¬ ([c] = (['\''] : Text)) := by simpa using hq
        simp only [hq', decide_false, Bool.false_eq_true, if_false]
        obtain ⟨r, hr, hr'⟩ := ih (i + 1) (res ++ [c]) b (by omega) (by omega)
        refine ⟨r, hr, ?_⟩
        rw [hr', hrest]
        simp [expandLoop, hq]

theorem expand_quotes_eq_model (s : Text) : expand_quotes s = .ok (expandQuotes s) := by
  unfold expand_quotes
  obtain ⟨r, hr, hr'⟩ := expand_loop s (s.length + 1) 0 [] false (by omega) (by omega)
  simp only [strIter_length]
  have : ((0 : Nat) : Int) = (0 : Int) := rfl
  rw [this] at hr
  rw [hr]
  simp only [bind, Except.bind, pure, Except.pure]
  rw [hr']
  simp [expandQuotes]

/-! ### the scanning loop of `_decode_date_format` -/

theorem strIsAlpha_single (isAlpha : Char → Bool) (c : Char) : PyT.strIsAlpha isAlpha [c] = isAlpha c := by
  simp [PyT.strIsAlpha]

theorem decode_loop (isAlpha : Char → Bool) (rf : Text → Text) (s : Text) (fuel : Nat) :
    ∀ (i : Nat) (res : Text) (inS inF : Bool) (fld : Text), s.length - i < fuel → i ≤ s.length →
    ∃ r, decode_date_format.loop1 fuel isAlpha rf (PyT.strIter s) res (i : Int) inS inF fld = .ok r ∧
      (if r.2.2.2.1 then r.1 ++ rf r.2.2.2.2 else r.1) = scanLoop isAlpha rf (s.drop i) ⟨inS, inF, fld, res⟩ := by
  induction fuel with
  | zero => intro i res inS inF fld h; omega
  | succ fuel ih =>
    intro i res inS inF fld hf hi
    unfold decode_date_format.loop1
    simp only [strIter_length]
    have e1 : (i : Int) + 1 = ((i + 1 : Nat) : Int) := by omega
    have e2 : (i : Int) + 2 = ((i + 2 : Nat) : Int) := by omega
    match hd : s.drop i with
    | [] =>
      have hl := drop_nil_facts s i hd
      have : ¬ ((i : Int) < (s.length : Int)) := by omega
      simp only [this, decide_false, Bool.false_eq_true, if_false, scanLoop, pure, Except.pure, flush]
      exact ⟨_, rfl, rfl⟩
    | [c] =>
      obtain ⟨hc, hrest, hlt⟩ := drop_cons_facts s i c [] hd
      have hl : s.length = i + 1 := by
        have := drop_nil_facts s (i + 1) hrest
        omega
      have h1 : (i : Int) < (s.length : Int) := by omega
      have h2 : ¬ ((i : Int) < (s.length : Int) - 1) := by omega
      simp only [h1, h2, decide_true, decide_false, if_true, Bool.false_eq_true, if_false, index_strIter s i c hc,
        bind, Except.bind, pure, Except.pure, Option.isNone_none, strIsAlpha_single]
      by_cases hq : c = '\''
      · subst hq
        simp only [decide_true, if_true, scanLoop, flush]
        exact ⟨_, rfl, rfl⟩
      · have hq' : ¬ ([c] = (['\''] : Text)) := by simpa using hq
        have hm : scanLoop isAlpha rf [c] ⟨inS, inF, fld, res⟩
            = scanLoop isAlpha rf (s.drop (i + 1)) (stepPlain isAlpha rf c ⟨inS, inF, fld, res⟩) := by
          rw [hrest]; simp [scanLoop, hq]
        rw [hm]
        simp only [hq', decide_false, Bool.false_eq_true, if_false, e1]
        cases inS <;> cases inF <;> cases hα : isAlpha c <;>
          simp only [stepPlain, flush, hα, Bool.false_eq_true, if_false, if_true, Bool.not_true, Bool.not_false,
            List.append_assoc] <;>
          exact ih (i + 1) _ _ _ _ (by omega) (by omega)
    | c :: n :: rest =>
      obtain ⟨hc, hrest, hlt⟩ := drop_cons_facts s i c (n :: rest) hd
      obtain ⟨hn, hrest2, hlt2⟩ := drop_cons_facts s (i + 1) n rest hrest
      have h1 : (i : Int) < (s.length : Int) := by omega
      have h2 : (i : Int) < (s.length : Int) - 1 := by omega
      simp only [h1, h2, decide_true, if_true, index_strIter s i c hc, e1, index_strIter s (i + 1) n hn,
        bind, Except.bind, pure, Except.pure, Option.isNone_some, Bool.false_eq_true, if_false, strIsAlpha_single]
      by_cases hq : c = '\''
      · subst hq
        simp only [decide_true, if_true]
        by_cases hq2 : n = '\''
        · subst hq2
          have hm : scanLoop isAlpha rf ('\'' :: '\'' :: rest) ⟨inS, inF, fld, res⟩
              = scanLoop isAlpha rf (s.drop (i + 2)) ⟨inS, inF, fld, res ++ ['\'']⟩ := by
            rw [hrest2]; simp [scanLoop]
          rw [hm]
          simp only [decide_true, if_true, e2]
          exact ih (i + 2) _ _ _ _ (by omega) (by omega)
        · have hq2' : ¬ ([n] = (['\''] : Text)) := by simpa using hq2
          have hm : scanLoop isAlpha rf ('\'' :: n :: rest) ⟨inS, inF, fld, res⟩
              = scanLoop isAlpha rf (s.drop (i + 1)) (stepQuote rf ⟨inS, inF, fld, res⟩) := by
            rw [hrest]; simp [scanLoop, hq2]
          rw [hm]
          simp only [hq2', decide_false, Bool.false_eq_true, if_false]
          cases inS <;> cases inF <;>
            simp only [stepQuote, flush, Bool.false_eq_true, if_false, if_true] <;>
            exact ih (i + 1) _ _ _ _ (by omega) (by omega)
      · have hq' : ¬ ([c] = (['\''] : Text)) := by simpa using hq
        have hm : scanLoop isAlpha rf (c :: n :: rest) ⟨inS, inF, fld, res⟩
            = scanLoop isAlpha rf (s.drop (i + 1)) (stepPlain isAlpha rf c ⟨inS, inF, fld, res⟩) := by
          rw [hrest]; simp [scanLoop, hq]
        rw [hm]
        simp only [hq', decide_false, Bool.false_eq_true, if_false]
        cases inS <;> cases inF <;> cases hα : isAlpha c <;>
          simp only [stepPlain, flush, hα, Bool.false_eq_true, if_false, if_true, Bool.not_true, Bool.not_false,
            List.append_assoc] <;>
          exact ih (i + 1) _ _ _ _ (by omega) (by omega)

/-- the whole of `_decode_date_format` (loop + final flush), for every alphabet, field renderer and format text. -/
theorem decode_date_format_eq_model (isAlpha : Char → Bool) (rf : Text → Text) (s : Text) :
    decode_date_format isAlpha rf s = .ok (scanLoop isAlpha rf s St.init) := by
  unfold decode_date_format
  obtain ⟨r, hr, hr'⟩ := decode_loop isAlpha rf s (s.length + 1) 0 [] false false [] (by omega) (by omega)
  simp only [strIter_length]
  have : ((0 : Nat) : Int) = (0 : Int) := rfl
  rw [this] at hr
  rw [hr]
  simp only [bind, Except.bind, pure, Except.pure]
  simp only [List.drop_zero] at hr'
  rw [St.init, ← hr']
  obtain ⟨a, b, c, d, e⟩ := r
  cases d <;> rfl

end NumbersModel.Translated
