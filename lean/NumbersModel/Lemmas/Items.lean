import NumbersModel.Model.Items
import NumbersModel.Lemmas.A1
import Mathlib.Data.List.Nodup
import Mathlib.Data.List.Perm.Subperm
namespace NumbersModel.Items
open NumbersModel

/-- no two siblings have names that are equal ignoring case. -/
def NoCIDup (items : Coll) : Prop := (items.map (·.lname)).Nodup

theorem containsCI_iff (items : Coll) (l : Text) : containsCI items l = true ↔ l ∈ items.map (·.lname) := by
  simp only [containsCI, List.any_eq_true, decide_eq_true_eq, List.mem_map]

theorem nodup_push {items : Coll} {it : Item} (h : NoCIDup items) (hn : containsCI items it.lname = false) :
    NoCIDup (items ++ [it]) := by
  unfold NoCIDup at *
  rw [List.map_append, List.nodup_append]
  refine ⟨h, by simp, ?_⟩
  intro a ha b hb
  simp at hb; subst hb
  intro heq; subst heq
  have := (containsCI_iff items it.lname).mpr ha
  rw [hn] at this; cases this

theorem pickNum_spec (items : Coll) (pl : Text) : ∀ fuel n m, pickNum items pl fuel n = .ok m →
    containsCI items (autoLower pl m) = false ∧ n ≤ m ∧
    ∀ j, n ≤ j → j < m → containsCI items (autoLower pl j) = true := by
  intro fuel
  induction fuel with
  | zero => intro n m h; simp [pickNum] at h
  | succ f ih =>
    intro n m h
    unfold pickNum at h
    split at h
    · rename_i hc
      obtain ⟨h1, h2, h3⟩ := ih (n + 1) m h
      refine ⟨h1, by omega, ?_⟩
      intro j hj hjm
      by_cases hjn : j = n
      · subst hjn; exact hc
      · exact h3 j (by omega) hjm
    · rename_i hc
      injection h with h; subst h
      exact ⟨by simpa using hc, Nat.le_refl _, fun j h1 h2 => by omega⟩

theorem pickNum_err (items : Coll) (pl : Text) : ∀ fuel n e, pickNum items pl fuel n = .error e →
    e = .OutOfFuel ∧ ∀ j, n ≤ j → j < n + fuel → containsCI items (autoLower pl j) = true := by
  intro fuel
  induction fuel with
  | zero => intro n e h; simp [pickNum] at h; exact ⟨h.symm, fun j h1 h2 => by omega⟩
  | succ f ih =>
    intro n e h
    unfold pickNum at h
    split at h
    · rename_i hc
      obtain ⟨h1, h3⟩ := ih (n + 1) e h
      refine ⟨h1, ?_⟩
      intro j hj hjm
      by_cases hjn : j = n
      · subst hjn; exact hc
      · exact h3 j (by omega) (by omega)
    · cases h

theorem autoLower_injective (pl : Text) {a b : Nat} (h : autoLower pl a = autoLower pl b) : a = b := by
  unfold autoLower at h
  exact A1.natStr_injective (List.append_cancel_left h)

/-- the `while` loop of the name choice always finds a free number within `len + 1` tries. -/
theorem pickNum_terminates (items : Coll) (pl : Text) :
    ∃ m, pickNum items pl (items.length + 1) 1 = .ok m := by
  cases h : pickNum items pl (items.length + 1) 1 with
  | ok m => exact ⟨m, rfl⟩
  | error e =>
    exfalso
    obtain ⟨_, hall⟩ := pickNum_err items pl _ _ _ h
    -- len+1 distinct generated names all occur among len names
    let cand := (List.range (items.length + 1)).map (fun i => autoLower pl (i + 1))
    have hnd : cand.Nodup := by
      apply List.Nodup.map
      · intro a b hab; have := autoLower_injective pl hab; omega
      · exact List.nodup_range
    have hsub : cand ⊆ items.map (·.lname) := by
      intro x hx
      simp only [cand, List.mem_map, List.mem_range] at hx
      obtain ⟨i, hi, rfl⟩ := hx
      exact (containsCI_iff items _).mp (hall (i + 1) (by omega) (by omega))
    have := (hnd.subperm hsub).length_le
    simp [cand] at this

theorem getByIndex_in_range (items : Coll) (i : Int) (h1 : -(items.length : Int) ≤ i) (h2 : i < items.length) :
    ∃ it, items[(i % (items.length : Int)).toNat]? = some it ∧ getByIndex items i = .ok it := by
  have hn : (0 : Int) < items.length := by omega
  have hk : (if i < 0 then i + (items.length : Int) else i) = i % (items.length : Int) := by
    split
    · rw [← Int.add_emod_right]; exact (Int.emod_eq_of_lt (by omega) (by omega)).symm
    · exact (Int.emod_eq_of_lt (by omega) (by omega)).symm
  have hb0 : 0 ≤ i % (items.length : Int) := Int.emod_nonneg _ (by omega)
  have hb1 : i % (items.length : Int) < items.length := Int.emod_lt_of_pos _ hn
  have hlt : (i % (items.length : Int)).toNat < items.length := by omega
  refine ⟨items[(i % (items.length : Int)).toNat]'hlt, List.getElem?_eq_getElem hlt, ?_⟩
  unfold getByIndex
  simp only [hk]
  have c1 : ¬ (i % (items.length : Int) < 0) := by omega
  have c2 : ¬ (i % (items.length : Int) ≥ items.length) := by omega
  simp only [c1, c2, if_false, List.getElem?_eq_getElem hlt]

theorem getByIndex_out_of_range (items : Coll) (i : Int)
    (h : i < -(items.length : Int) ∨ (items.length : Int) ≤ i) :
    getByIndex items i = .error .IndexError := by
  unfold getByIndex
  simp only
  rcases h with h | h
  · have : i < 0 := by omega
    simp only [this, if_true]
    have : i + (items.length : Int) < 0 := by omega
    simp [this]
  · have : ¬ i < 0 := by omega
    simp only [this, if_false]
    have c1 : ¬ i < 0 := this
    simp [c1, h]

end NumbersModel.Items
