/-
Helper lemmas for C15 (borders): editing histories that interleave strokes with `Table.write`,
`merge_cells` and rows / columns appended with `add_row` / `add_column` (`Border.Doc`, `Border.Step`).

The invariant `DocInv d em` has four parts: the stored layers are well formed; every visible slot of
the open document is empty or holds a most recent stored run on its edge, hidden slots are empty
(`Weak`); if the `extract_strokes` cache entry is in place every visible slot holds a most recent
stored run (`Agree`); and the edge map `em` of the history names, for every unit edge, the stroke of
a most recent stored run on it (`Tops`).  Running `extract_strokes` again onto `Weak` cells gives
`Agree` (`agree_extractOnto`).
-/
import NumbersModel.Lemmas.Border
namespace NumbersModel.Border
open NumbersModel

/-! ### `extract_strokes` run again -/

theorem extract_eq_extractOnto (t : Table) (sc : Sidecar) : extract t sc = extractOnto t Cells.empty sc := rfl

/-- visible slots are empty or hold a most recent stored run of their edge; hidden slots are empty. -/
def Weak (t : Table) (st : St) : Prop :=
  ∀ r c sd, (cfs t sd r c = true → (st.cells r c).get sd = none ∨ Good ((st.cells r c).get sd) (Cov st.sc (edgeOf sd r c))) ∧
            (cfs t sd r c = false → (st.cells r c).get sd = none)

theorem Agree.weak {t : Table} {st : St} (h : Agree t st) : Weak t st :=
  fun r c sd => ⟨fun hc => Or.inr ((h r c sd).1 hc), (h r c sd).2⟩

theorem extractOnto_hidden (t : Table) (cs : Cells) (sc : Sidecar) (r c : Nat) (sd : Side) (hc : cfs t sd r c = false) :
    ((extractOnto t cs sc) r c).get sd = (cs r c).get sd := by
  simp only [extractOnto]
  rw [extractFamily_hidden _ _ _ _ _ hc, extractFamily_hidden _ _ _ _ _ hc, extractFamily_hidden _ _ _ _ _ hc,
    extractFamily_hidden _ _ _ _ _ hc]

theorem extractOnto_good (t : Table) (cs : Cells) (sc : Sidecar) (r c : Nat) (sd : Side) (hc : cfs t sd r c = true)
    (S : Bd → Prop) (h0 : Good ((cs r c).get sd) S) (hS : ∀ b, S b → Cov sc (edgeOf sd r c) b) :
    Good (((extractOnto t cs sc) r c).get sd) (Cov sc (edgeOf sd r c)) := by
  have h1 := extractFamily_good t .top r c sd hc sc.top _ _ h0
  have h2 := extractFamily_good t .left r c sd hc sc.left _ _ h1
  have h3 := extractFamily_good t .right r c sd hc sc.right _ _ h2
  have h4 := extractFamily_good t .bottom r c sd hc sc.bottom _ _ h3
  refine h4.congr ?_
  intro b
  simp only [Cov]
  constructor
  · rintro ((((h | h) | h) | h) | h)
    · exact hS b h
    · exact Or.inl h
    · exact Or.inr (Or.inl h)
    · exact Or.inr (Or.inr (Or.inl h))
    · exact Or.inr (Or.inr (Or.inr h))
  · rintro (h | h | h | h)
    · exact Or.inl (Or.inl (Or.inl (Or.inr h)))
    · exact Or.inl (Or.inl (Or.inr h))
    · exact Or.inl (Or.inr h)
    · exact Or.inr h

/-- running `extract_strokes` again: slots that were empty are filled, slots that held a most recent
    run still hold one, hidden slots stay empty. -/
theorem agree_extractOnto (t : Table) (st : St) (h : Weak t st) : Agree t ⟨extractOnto t st.cells st.sc, st.sc⟩ := by
  intro r c sd
  refine ⟨fun hc => ?_, fun hc => ?_⟩
  · rcases (h r c sd).1 hc with hn | hg
    · refine extractOnto_good t st.cells st.sc r c sd hc (fun _ => False) ?_ (fun b hb => hb.elim)
      rw [hn]; exact good_none
    · exact extractOnto_good t st.cells st.sc r c sd hc _ hg (fun b hb => hb)
  · show ((extractOnto t st.cells st.sc) r c).get sd = none
    rw [extractOnto_hidden t _ _ r c sd hc]; exact (h r c sd).2 hc

/-! ### the edge map and the stored layers -/

/-- `o` is the stroke of a most recent stored run on the unit edge `e` (`none`: no run lies on it). -/
def Top (sc : Sidecar) (e : Edge) (o : Option Nat) : Prop :=
  (o = none → ∀ b, ¬ Cov sc e b) ∧
  (∀ s, o = some s → ∃ b, Cov sc e b ∧ b.stroke = s ∧ ∀ b', Cov sc e b' → b'.order ≤ b.order)

def Tops (sc : Sidecar) (em : EdgeMap) : Prop := ∀ e, Top sc e (em e)

theorem tops_empty (m : Nat) : Tops { maxOrder := m } (fun _ => none) :=
  fun e => ⟨fun _ b => cov_empty m e b, fun s h => by cases h⟩

/-- a slot that holds a most recent run shows the stroke the edge map names. -/
theorem Good.eq_top {x : Option Bd} {sc : Sidecar} {e : Edge} {o : Option Nat} (hok : SidecarOK sc)
    (hx : Good x (Cov sc e)) (ho : Top sc e o) : x.map (·.stroke) = o := by
  cases x with
  | none =>
    cases o with
    | none => rfl
    | some s => obtain ⟨b, hb, _⟩ := ho.2 s rfl; exact absurd hb (hx.1 rfl b)
  | some a =>
    obtain ⟨ha, hamax⟩ := hx.2 a rfl
    cases o with
    | none => exact absurd ha (ho.1 rfl a)
    | some s =>
      obtain ⟨b, hb, hs, hbmax⟩ := ho.2 s rfl
      have : a.order = b.order := Nat.le_antisymm (hbmax a ha) (hamax b hb)
      simp only [Option.map_some, Option.some.injEq]
      rw [← hs]; exact hok.coherent e a b ha hb this

theorem tops_addStroke (sc : Sidecar) (hok : SidecarOK sc) (em : EdgeMap) (h : Tops sc em)
    (sd : Side) (row col len stroke : Nat) :
    Tops (addStroke sc sd row col len stroke).1
      (fun e => if coversB sd row col len e = true then some stroke else em e) := by
  obtain ⟨hs, hk, hn⟩ := cov_addStroke sc sd row col len stroke
  intro e
  by_cases hc : coversB sd row col len e = true
  · simp only [hc, if_true]
    refine ⟨fun h' => (by cases h'), ?_⟩
    intro s hs'
    cases hs'
    refine ⟨⟨stroke, sc.maxOrder + 1⟩, hn e hc, rfl, ?_⟩
    intro b' hb'
    rcases hs e b' hb' with ⟨rfl, _⟩ | h'
    · exact Nat.le_refl _
    · have := hok.bounded e b' h'; simp only; omega
  · have hc' : coversB sd row col len e = false := by simpa using hc
    simp only [hc]
    have iff : ∀ b, Cov (addStroke sc sd row col len stroke).1 e b ↔ Cov sc e b := by
      intro b
      constructor
      · intro hb
        rcases hs e b hb with ⟨_, h2⟩ | h'
        · rw [hc'] at h2; cases h2
        · exact h'
      · exact hk e b hc'
    refine ⟨fun hn' b hb => (h e).1 hn' b ((iff b).mp hb), ?_⟩
    intro s hs'
    obtain ⟨b, hb, hst, hmax⟩ := (h e).2 s hs'
    exact ⟨b, (iff b).mpr hb, hst, fun b' hb' => hmax b' ((iff b').mp hb')⟩

/-! ### the invariant of an editing history -/

structure DocInv (d : Doc) (em : EdgeMap) : Prop where
  ok : SidecarOK d.st.sc
  weak : Weak d.t d.st
  fresh : d.stale = false → Agree d.t d.st
  tops : Tops d.st.sc em

theorem docInv_init (t : Table) (m : Nat) : DocInv (Doc.init t m) (fun _ => none) :=
  ⟨(inv_init t m).ok, (inv_init t m).agree.weak, fun _ => (inv_init t m).agree, tops_empty m⟩

/-- a loaded file (any well-formed layers, any edge map that names their most recent runs). -/
theorem docInv_load (t : Table) (sc : Sidecar) (h : SidecarOK sc) (em : EdgeMap) (hem : Tops sc em) :
    DocInv ⟨t, ⟨extract t sc, sc⟩, false⟩ em :=
  ⟨h, (inv_load t sc h).agree.weak, fun _ => (inv_load t sc h).agree, hem⟩

theorem ensure_t (d : Doc) : d.ensure.t = d.t := by unfold Doc.ensure; split <;> rfl
theorem ensure_sc (d : Doc) : d.ensure.st.sc = d.st.sc := by unfold Doc.ensure; split <;> rfl
theorem ensure_stale (d : Doc) : d.ensure.stale = false := by
  unfold Doc.ensure; split
  · rfl
  · rename_i h; simpa using h

theorem agree_ensure (d : Doc) (em : EdgeMap) (h : DocInv d em) : Agree d.t d.ensure.st := by
  unfold Doc.ensure
  split
  · exact agree_extractOnto d.t d.st h.weak
  · rename_i hs; exact h.fresh (by simpa using hs)

/-- after `extract_strokes` the stroke-history invariant of `Lemmas/Border.lean` holds. -/
theorem inv_ensure (d : Doc) (em : EdgeMap) (h : DocInv d em) : Inv d.t d.ensure.st :=
  ⟨by rw [ensure_sc]; exact h.ok, agree_ensure d em h⟩

theorem docInv_ensure (d : Doc) (em : EdgeMap) (h : DocInv d em) : DocInv d.ensure em := by
  have ha := agree_ensure d em h
  refine ⟨by rw [ensure_sc]; exact h.ok, ?_, fun _ => ?_, by rw [ensure_sc]; exact h.tops⟩
  · rw [ensure_t]; exact ha.weak
  · rw [ensure_t]; exact ha

theorem writeCell_eq (cs : Cells) (row col : Nat) : writeCell cs row col = cs := by
  funext r c
  simp only [writeCell, Cells.upd]
  split
  · rename_i h; rw [h.1, h.2]
  · simp_all

theorem cfs_grow_rows (t : Table) (n : Nat) (sd : Side) (r c : Nat) (hr : r < t.nrows) :
    cfs { t with nrows := t.nrows + n } sd r c = cfs t sd r c := by
  unfold cfs
  have h1 : ¬ (r ≥ t.nrows) := by omega
  have h2 : ¬ (r ≥ t.nrows + n) := by omega
  simp only [h1, h2, false_or]

theorem cfs_grow_cols (t : Table) (n : Nat) (sd : Side) (r c : Nat) (hc : c < t.ncols) :
    cfs { t with ncols := t.ncols + n } sd r c = cfs t sd r c := by
  unfold cfs
  have h1 : ¬ (c ≥ t.ncols) := by omega
  have h2 : ¬ (c ≥ t.ncols + n) := by omega
  simp only [h1, h2, or_false]

theorem cfs_out (t : Table) (sd : Side) (r c : Nat) (h : ¬ (r < t.nrows ∧ c < t.ncols)) : cfs t sd r c = false := by
  unfold cfs
  have : r ≥ t.nrows ∨ c ≥ t.ncols := by omega
  simp only [this, if_true]

theorem get_empty (sd : Side) : (({} : CB)).get sd = none := by cases sd <;> rfl

/-- appended rows / columns: the old cells are as they were, the new ones are fresh. -/
theorem weak_grow (t t' : Table) (st : St) (h : Weak t st)
    (hk : ∀ sd r c, r < t.nrows ∧ c < t.ncols → cfs t' sd r c = cfs t sd r c)
    (_hle : t.nrows ≤ t'.nrows ∧ t.ncols ≤ t'.ncols) :
    Weak t' ⟨growCells t t' st.cells, st.sc⟩ := by
  intro r c sd
  show (cfs t' sd r c = true → ((growCells t t' st.cells) r c).get sd = none ∨
        Good (((growCells t t' st.cells) r c).get sd) (Cov st.sc (edgeOf sd r c))) ∧
      (cfs t' sd r c = false → ((growCells t t' st.cells) r c).get sd = none)
  by_cases hin : r < t.nrows ∧ c < t.ncols
  · have hg : (growCells t t' st.cells) r c = st.cells r c := by
      simp only [growCells]; rw [if_neg (fun h' => h'.2 hin)]
    rw [hg, hk sd r c hin]
    exact h r c sd
  · by_cases hin' : r < t'.nrows ∧ c < t'.ncols
    · have hg : (growCells t t' st.cells) r c = {} := by
        simp only [growCells]; rw [if_pos ⟨hin', hin⟩]
      rw [hg, get_empty]
      exact ⟨fun _ => Or.inl rfl, fun _ => rfl⟩
    · have hg : (growCells t t' st.cells) r c = st.cells r c := by
        simp only [growCells]; rw [if_neg (fun h' => hin' h'.1)]
      rw [hg, cfs_out t' sd r c hin']
      have := (h r c sd).2 (cfs_out t sd r c hin)
      exact ⟨fun h' => (by cases h'), fun _ => this⟩

/-- the `_set_merge` sweep: every cell of the table is fresh. -/
theorem weak_sweep (t t' : Table) (st : St) (h : Weak t st) (hr : t'.nrows = t.nrows) (hc : t'.ncols = t.ncols) :
    Weak t' ⟨sweepCells t' st.cells, st.sc⟩ := by
  intro r c sd
  show (cfs t' sd r c = true → ((sweepCells t' st.cells) r c).get sd = none ∨
        Good (((sweepCells t' st.cells) r c).get sd) (Cov st.sc (edgeOf sd r c))) ∧
      (cfs t' sd r c = false → ((sweepCells t' st.cells) r c).get sd = none)
  by_cases hin : r < t'.nrows ∧ c < t'.ncols
  · have hg : (sweepCells t' st.cells) r c = {} := by simp only [sweepCells]; rw [if_pos hin]
    rw [hg, get_empty]
    exact ⟨fun _ => Or.inl rfl, fun _ => rfl⟩
  · have hg : (sweepCells t' st.cells) r c = st.cells r c := by simp only [sweepCells]; rw [if_neg hin]
    rw [hg, cfs_out t' sd r c hin]
    have := (h r c sd).2 (cfs_out t sd r c (by rw [← hr, ← hc]; exact hin))
    exact ⟨fun h' => (by cases h'), fun _ => this⟩

/-- one step keeps the invariant; the table shape and the edge map move as the specification says. -/
theorem docInv_step (d d' : Doc) (em : EdgeMap) (h : DocInv d em) (s : Step) (hs : d.step s = .ok d') :
    DocInv d' (stepEdges d.t em s) ∧ d'.t = stepTable d.t s := by
  cases s with
  | stroke op =>
    simp only [Doc.step] at hs
    split at hs
    · cases hs
    · rename_i hrange
      have hin : op.row < d.t.nrows ∧ op.col < d.t.ncols := by omega
      split at hs
      · rename_i href
        cases hs
        refine ⟨?_, rfl⟩
        have : stepEdges d.t em (.stroke op) = em := by
          simp only [stepEdges, href, Bool.true_eq_false, and_false, if_false]
        rw [this]; exact h
      · rename_i href
        have href' : refused d.t op.sd op.row op.col = false := by simpa using href
        cases hs
        have hinv := inv_ensure d em h
        refine ⟨?_, by simp only [ensure_t, stepTable]⟩
        have hi2 : Inv d.ensure.t d.ensure.st := by rw [ensure_t]; exact hinv
        have hinv' := inv_applyOp d.ensure.t d.ensure.st hi2 op
        have hsc : (applyOp d.ensure.t d.ensure.st op).sc = (addStroke d.st.sc op.sd op.row op.col op.len op.stroke).1 := by
          rw [sc_applyOp, ensure_t, if_neg href, ensure_sc]
        refine ⟨hinv'.ok, hinv'.agree.weak, fun _ => hinv'.agree, ?_⟩
        show Tops (applyOp d.ensure.t d.ensure.st op).sc _
        rw [hsc]
        have : stepEdges d.t em (.stroke op) = fun e => if op.covers e = true then some op.stroke else em e := by
          simp only [stepEdges, hin.1, hin.2, href', and_self, if_true]
        rw [this]
        exact tops_addStroke d.st.sc h.ok em h.tops _ _ _ _ _
  | write row col =>
    simp only [Doc.step] at hs
    split at hs
    · cases hs
    · cases hs
      refine ⟨?_, rfl⟩
      simp only [writeCell_eq, stepEdges]
      exact h
  | merge rs cs dh dw =>
    simp only [Doc.step] at hs
    split at hs
    · cases hs
    · cases hs
      refine ⟨⟨h.ok, ?_, fun hst => (by cases hst), h.tops⟩, rfl⟩
      exact weak_sweep d.t _ d.st h.weak rfl rfl
  | addRows n =>
    simp only [Doc.step] at hs
    cases hs
    refine ⟨⟨h.ok, ?_, fun hst => (by cases hst), h.tops⟩, rfl⟩
    exact weak_grow d.t _ d.st h.weak (fun sd r c hin => cfs_grow_rows d.t n sd r c hin.1)
      ⟨Nat.le_add_right _ _, Nat.le_refl _⟩
  | addCols n =>
    simp only [Doc.step] at hs
    cases hs
    refine ⟨⟨h.ok, ?_, fun hst => (by cases hst), h.tops⟩, rfl⟩
    exact weak_grow d.t _ d.st h.weak (fun sd r c hin => cfs_grow_cols d.t n sd r c hin.2)
      ⟨Nat.le_refl _, Nat.le_add_right _ _⟩

theorem docInv_run (steps : List Step) : ∀ (d d' : Doc) (em : EdgeMap), DocInv d em → d.run steps = .ok d' →
    DocInv d' (histSpec d.t em steps).2 ∧ d'.t = (histSpec d.t em steps).1 := by
  induction steps with
  | nil =>
    intro d d' em h hr
    simp only [Doc.run] at hr
    cases hr
    exact ⟨h, rfl⟩
  | cons s ss ih =>
    intro d d' em h hr
    simp only [Doc.run, bind, Except.bind] at hr
    split at hr
    · cases hr
    · rename_i d1 hd1
      obtain ⟨h1, ht1⟩ := docInv_step d d1 em h s hd1
      have := ih d1 d' _ h1 hr
      simp only [histSpec]
      rw [← ht1]
      exact this

/-- what the open document reports, in terms of the edge map. -/
theorem view_of_docInv (d : Doc) (em : EdgeMap) (h : DocInv d em) (r c : Nat) (sd : Side) :
    d.view r c sd = if cfs d.t sd r c = true then em (edgeOf sd r c) else none := by
  have ha := agree_ensure d em h
  unfold Doc.view view
  cases hc : cfs d.t sd r c
  · rw [(ha r c sd).2 hc]; simp
  · rw [cfs_not_merged d.t sd r c hc]
    simp only [Bool.false_eq_true, if_false, if_true]
    exact ((ha r c sd).1 hc).eq_top (by rw [ensure_sc]; exact h.ok) (by rw [ensure_sc]; exact h.tops (edgeOf sd r c))

/-- what a reopened copy reports, in terms of the edge map. -/
theorem savedView_of_docInv (d : Doc) (em : EdgeMap) (h : DocInv d em) (r c : Nat) (sd : Side) :
    d.savedView r c sd = if cfs d.t sd r c = true then em (edgeOf sd r c) else none := by
  unfold Doc.savedView view
  cases hc : cfs d.t sd r c
  · rw [extract_hidden d.t d.st.sc r c sd hc]; simp
  · rw [cfs_not_merged d.t sd r c hc]
    simp only [Bool.false_eq_true, if_false, if_true]
    exact (extract_good d.t d.st.sc r c sd hc).eq_top h.ok (h.tops (edgeOf sd r c))

/-- steps whose cell arguments lie in the table never raise. -/
def Step.InRange (t : Table) : Step → Prop
  | .stroke op => op.row < t.nrows ∧ op.col < t.ncols
  | .write row col => row < t.nrows ∧ col < t.ncols
  | .merge rs cs dh dw => rs + dh < t.nrows ∧ cs + dw < t.ncols
  | _ => True

theorem step_ok (d : Doc) (s : Step) (h : s.InRange d.t) : ∃ d', d.step s = .ok d' := by
  cases s with
  | stroke op =>
    obtain ⟨h1, h2⟩ := h
    have : ¬ (op.row ≥ d.t.nrows ∨ op.col ≥ d.t.ncols) := by omega
    simp only [Doc.step, this, if_false]
    split <;> exact ⟨_, rfl⟩
  | write row col =>
    obtain ⟨h1, h2⟩ := h
    have : ¬ (row ≥ d.t.nrows ∨ col ≥ d.t.ncols) := by omega
    simp only [Doc.step, this, if_false]
    exact ⟨_, rfl⟩
  | merge rs cs dh dw =>
    obtain ⟨h1, h2⟩ := h
    have : ¬ (dh + dw > 0 ∧ (rs + dh ≥ d.t.nrows ∨ cs + dw ≥ d.t.ncols)) := by omega
    simp only [Doc.step, this, if_false]
    exact ⟨_, rfl⟩
  | addRows n => exact ⟨_, rfl⟩
  | addCols n => exact ⟨_, rfl⟩

/-- every step in range of the table as it is at that point of the history. -/
def StepsInRange : Table → List Step → Prop
  | _, [] => True
  | t, s :: ss => s.InRange t ∧ StepsInRange (stepTable t s) ss

theorem step_table (d d' : Doc) (s : Step) (hs : d.step s = .ok d') : d'.t = stepTable d.t s := by
  cases s with
  | stroke op =>
    simp only [Doc.step] at hs
    split at hs
    · cases hs
    · split at hs <;> cases hs
      · rfl
      · simp only [ensure_t, stepTable]
  | write row col =>
    simp only [Doc.step] at hs
    split at hs <;> cases hs
    rfl
  | merge rs cs dh dw =>
    simp only [Doc.step] at hs
    split at hs <;> cases hs
    rfl
  | addRows n => simp only [Doc.step] at hs; cases hs; rfl
  | addCols n => simp only [Doc.step] at hs; cases hs; rfl

theorem run_ok (steps : List Step) : ∀ (d : Doc), StepsInRange d.t steps → ∃ d', d.run steps = .ok d' := by
  induction steps with
  | nil => intro d _; exact ⟨d, rfl⟩
  | cons s ss ih =>
    intro d h
    obtain ⟨d1, hd1⟩ := step_ok d s h.1
    have ht := step_table d d1 s hd1
    obtain ⟨d', hd'⟩ := ih d1 (by rw [ht]; exact h.2)
    exact ⟨d', by simp only [Doc.run, bind, Except.bind, hd1]; exact hd'⟩

/-! ### every well-formed sidecar has an edge map -/

theorem exists_top_run (sc : Sidecar) (hok : SidecarOK sc) (e : Edge) :
    ∀ (k : Nat) (b0 : Bd), Cov sc e b0 → sc.maxOrder - b0.order = k →
      ∃ b, Cov sc e b ∧ ∀ b', Cov sc e b' → b'.order ≤ b.order := by
  intro k
  induction k using Nat.strongRecOn with
  | _ k ih =>
    intro b0 h0 hk
    by_cases hmax : ∀ b', Cov sc e b' → b'.order ≤ b0.order
    · exact ⟨b0, h0, hmax⟩
    · simp only [Classical.not_forall, Nat.not_le] at hmax
      obtain ⟨b1, h1, hlt⟩ := hmax
      have := hok.bounded e b1 h1
      have := hok.bounded e b0 h0
      exact ih (sc.maxOrder - b1.order) (by omega) b1 h1 rfl

/-- the stored layers of any well-formed file determine an edge map (the stroke of a most recent
    run on each unit edge). -/
theorem exists_tops (sc : Sidecar) (hok : SidecarOK sc) : ∃ em : EdgeMap, Tops sc em := by
  classical
  have key : ∀ e, ∃ o, Top sc e o := by
    intro e
    by_cases h : ∃ b, Cov sc e b
    · obtain ⟨b0, h0⟩ := h
      obtain ⟨b, hb, hmax⟩ := exists_top_run sc hok e _ b0 h0 rfl
      exact ⟨some b.stroke, fun h' => (by cases h'), fun s hs => ⟨b, hb, (by cases hs; rfl), hmax⟩⟩
    · exact ⟨none, fun _ b hb => h ⟨b, hb⟩, fun s hs => (by cases hs)⟩
  exact ⟨fun e => (key e).choose, fun e => (key e).choose_spec⟩

/-- the stroke-history invariant of `Lemmas/Border.lean` is the edit-history invariant with the
    cache entry in place. -/
theorem docInv_of_inv (t : Table) (st : St) (hinv : Inv t st) (em : EdgeMap) (hem : Tops st.sc em) :
    DocInv ⟨t, st, false⟩ em :=
  ⟨hinv.ok, hinv.agree.weak, fun _ => hinv.agree, hem⟩

end NumbersModel.Border
