/-
Helper lemmas for Model/Merge.lean (C12).
-/
import NumbersModel.Model.Merge
import NumbersModel.Lemmas.Grid
set_option linter.unusedSimpArgs false
set_option linter.unusedVariables false
namespace NumbersModel.Merge
open NumbersModel NumbersModel.Grid

/-! ### the dict -/

theorem get_set (m : MMap) (k : Key) (v : MRef) (k' : Key) :
    (m.set k v).get k' = if k = k' then some v else m.get k' := by
  induction m with
  | nil =>
    simp only [MMap.set, MMap.get]
  | cons hd tl ih =>
    obtain ⟨k0, v0⟩ := hd
    simp only [MMap.set]
    by_cases h0 : k0 = k
    · subst h0
      simp only [if_true, MMap.get]
      by_cases h1 : k0 = k' <;> simp [h1]
    · simp only [h0, if_false, MMap.get]
      by_cases h1 : k0 = k'
      · subst h1
        have : ¬ (k = k0) := fun h => h0 h.symm
        simp [this]
      · simp only [h1, if_false, ih]

theorem get_set_self (m : MMap) (k : Key) (v : MRef) : (m.set k v).get k = some v := by
  rw [get_set]; simp

theorem get_set_ne (m : MMap) (k k' : Key) (v : MRef) (h : k ≠ k') : (m.set k v).get k' = m.get k' := by
  rw [get_set]; simp [h]

/-- assigning a reference to a key that does not hold an anchor leaves the anchors alone. -/
theorem anchorsOf_set_ref (m : MMap) (k : Key) (a b c d : Int) (h : ∀ x y, m.get k ≠ some (.anchor x y)) :
    anchorsOf (m.set k (.ref a b c d)) = anchorsOf m := by
  induction m with
  | nil => simp [MMap.set, anchorsOf]
  | cons hd tl ih =>
    obtain ⟨k0, v0⟩ := hd
    simp only [MMap.set]
    by_cases h0 : k0 = k
    · subst h0
      simp only [if_true]
      cases v0 with
      | anchor x y => exact absurd (by simp [MMap.get]) (h x y)
      | ref _ _ _ _ => simp [anchorsOf]
    · simp only [h0, if_false]
      have h' : ∀ x y, MMap.get tl k ≠ some (.anchor x y) := by
        intro x y; have := h x y; simpa [MMap.get, h0] using this
      cases v0 with
      | anchor x y => simp [anchorsOf, ih h']
      | ref _ _ _ _ => simp [anchorsOf, ih h']

/-- a new anchor at a fresh key goes to the end. -/
theorem anchorsOf_set_anchor (m : MMap) (k : Key) (x y : Int) (h : m.get k = none) :
    anchorsOf (m.set k (.anchor x y)) = anchorsOf m ++ [(k, (x, y))] := by
  induction m with
  | nil => simp [MMap.set, anchorsOf]
  | cons hd tl ih =>
    obtain ⟨k0, v0⟩ := hd
    have h0 : k0 ≠ k := by
      intro e; subst e; simp [MMap.get] at h
    have h' : MMap.get tl k = none := by simpa [MMap.get, h0] using h
    simp only [MMap.set, h0, if_false]
    cases v0 with
    | anchor _ _ => simp [anchorsOf, ih h']
    | ref _ _ _ _ => simp [anchorsOf, ih h']

/-! ### `_set_merge` -/

theorem setMerge_setMerge (a b : Option MRef) (x : MCell) : setMerge a (setMerge b x) = setMerge a x := by
  cases a with
  | none => cases b with
    | none => rfl
    | some b => cases b <;> rfl
  | some a => cases a <;> (cases b with
    | none => rfl
    | some b => cases b <;> rfl)

theorem setMerge_ph (a : Option MRef) (x : MCell) : (setMerge a x).ph = x.ph ∧ (setMerge a x).val = x.val := by
  cases a with
  | none => exact ⟨rfl, rfl⟩
  | some a => cases a <;> exact ⟨rfl, rfl⟩

theorem setMerge_eq_of (a : Option MRef) (x y : MCell) (h1 : x.ph = y.ph) (h2 : x.val = y.val) :
    setMerge a x = setMerge a y := by
  cases x; cases y
  simp only at h1 h2
  subst h1; subst h2
  cases a with
  | none => rfl
  | some a => cases a <;> rfl

/-- the payload of a cell is determined by the map entry of its position and its value. -/
def payloadOf (m : Option MRef) (v : Nat) : MCell :=
  match m with
  | some (.ref r0 c0 r1 c1) => setMerge (some (.ref r0 c0 r1 c1)) rawPlaceholder
  | other => setMerge other (rawCell v)

theorem setMerge_payloadOf_self (a : Option MRef) (v : Nat) : setMerge a (payloadOf a v) = payloadOf a v := by
  cases a with
  | none => rfl
  | some a => cases a <;> rfl

theorem payloadOf_val (a : Option MRef) (v : Nat) :
    payloadOf a (payloadOf a v).val = payloadOf a v := by
  cases a with
  | none => rfl
  | some a => cases a <;> rfl

/-! ### rectangles -/

def Rct.r0 (q : Rct) : Int := q.1
def Rct.c0 (q : Rct) : Int := q.2.1
def Rct.r1 (q : Rct) : Int := q.2.2.1
def Rct.c1 (q : Rct) : Int := q.2.2.2
def Rct.origin (q : Rct) : Key := (q.r0, q.c0)
def Rct.height (q : Rct) : Int := q.r1 - q.r0 + 1
def Rct.width (q : Rct) : Int := q.c1 - q.c0 + 1

/-- the cell `(row, col)` lies in the rectangle. -/
def Rct.has (q : Rct) (k : Key) : Bool :=
  decide (q.r0 ≤ k.1) && decide (k.1 ≤ q.r1) && decide (q.c0 ≤ k.2) && decide (k.2 ≤ q.c1)

theorem Rct.has_iff (q : Rct) (k : Key) :
    q.has k = true ↔ q.r0 ≤ k.1 ∧ k.1 ≤ q.r1 ∧ q.c0 ≤ k.2 ∧ k.2 ≤ q.c1 := by
  simp [Rct.has, and_assoc]

/-- a non-empty rectangle inside an `nr × nc` table. -/
def Rct.InTable (q : Rct) (nr nc : Int) : Prop :=
  0 ≤ q.r0 ∧ q.r0 ≤ q.r1 ∧ q.r1 < nr ∧ 0 ≤ q.c0 ∧ q.c0 ≤ q.c1 ∧ q.c1 < nc

def Rct.Disjoint (a b : Rct) : Prop := ∀ k, ¬ (a.has k = true ∧ b.has k = true)

/-- what the map holds for `k` if `k` lies in `q`. -/
def Rct.entry (q : Rct) (k : Key) : MRef :=
  if k = q.origin then .anchor q.height q.width else .ref q.r0 q.c0 q.r1 q.c1

/-- the map a list of rectangles generates. -/
def genGet (qs : List Rct) (k : Key) : Option MRef :=
  match qs.find? (fun q => q.has k) with
  | some q => some (q.entry k)
  | none => none

theorem origin_has (q : Rct) (h : q.r0 ≤ q.r1 ∧ q.c0 ≤ q.c1) : q.has q.origin = true := by
  rw [Rct.has_iff]; simp only [Rct.origin]; omega

theorem genGet_append_of_not (qs : List Rct) (q : Rct) (k : Key) (h : ∀ p ∈ qs, p.has k = false) :
    genGet (qs ++ [q]) k = if q.has k then some (q.entry k) else none := by
  unfold genGet
  rw [List.find?_append]
  have : qs.find? (fun q => q.has k) = none := by
    rw [List.find?_eq_none]; intro p hp; simp [h p hp]
  rw [this]
  simp only [Option.none_or, List.find?_cons, List.find?_nil]
  cases hq : q.has k <;> simp

theorem genGet_append_of_has (qs : List Rct) (q : Rct) (k : Key) (h : q.has k = false) :
    genGet (qs ++ [q]) k = genGet qs k := by
  unfold genGet
  rw [List.find?_append]
  cases hf : qs.find? (fun q => q.has k) with
  | some p => simp
  | none => simp [List.find?_cons, h]

theorem genGet_none_iff (qs : List Rct) (k : Key) : genGet qs k = none ↔ ∀ p ∈ qs, p.has k = false := by
  unfold genGet
  cases hf : qs.find? (fun q => q.has k) with
  | some p =>
    simp only [reduceCtorEq, false_iff]
    intro h
    have := List.find?_some hf
    have hm := List.mem_of_find?_eq_some hf
    rw [h p hm] at this; cases this
  | none =>
    simp only [true_iff]
    rw [List.find?_eq_none] at hf
    intro p hp; simpa using hf p hp

/-- in a pairwise disjoint list the rectangle containing `k` is unique. -/
theorem genGet_of_mem (qs : List Rct) (hd : qs.Pairwise Rct.Disjoint) (q : Rct) (hq : q ∈ qs) (k : Key)
    (hk : q.has k = true) : genGet qs k = some (q.entry k) := by
  induction qs with
  | nil => cases hq
  | cons p rest ih =>
    rw [List.pairwise_cons] at hd
    rcases List.mem_cons.mp hq with e | hmem
    · subst e
      simp [genGet, List.find?_cons, hk]
    · have hp : p.has k = false := by
        cases hpk : p.has k with
        | false => rfl
        | true => exact absurd ⟨hpk, hk⟩ (hd.1 q hmem k)
      have := ih hd.2 hmem
      simp only [genGet, List.find?_cons, hp] at this ⊢
      exact this

/-! ### consistent states -/

/-- the cell stored at `(r, c)`, if any. -/
def cellAt (d : List (List (CellM MCell))) (r c : Nat) : Option (CellM MCell) :=
  (d[r]?).bind (fun l => l[c]?)

/-- the rectangles the map's anchors stand for. -/
def rectsOf (m : MMap) : List Rct := (anchorsOf m).map rectOf

/-- the invariant of C12: the grid is well-formed (C03), the map is exactly the one generated by
    its own anchors' rectangles, these are pairwise disjoint and lie in the table, and every cell
    is the cell its map entry and value determine (placeholder exactly where the map has a reference). -/
structure Consistent (s : MState) : Prop where
  wf : Grid.WF s.grid
  inTable : ∀ q ∈ rectsOf s.mmap, q.InTable s.grid.numRows s.grid.numCols
  disj : (rectsOf s.mmap).Pairwise Rct.Disjoint
  mapOK : ∀ k, s.mmap.get k = genGet (rectsOf s.mmap) k
  cellsOK : ∀ (r c : Nat) (cell : CellM MCell), cellAt s.grid.data r c = some cell →
    cell.val = payloadOf (s.mmap.get ((r : Int), (c : Int))) cell.val.val

/-- a loop all of whose steps succeed and carry an index-dependent invariant forward. -/
theorem forRange_inv {σ} (F : Int → σ → PyM σ) (Inv : Nat → σ → Prop) (hi : Nat)
    (hstep : ∀ i s, i < hi → Inv i s → ∃ s', F (i : Int) s = .ok s' ∧ Inv (i + 1) s') :
    ∀ n lo s, lo + n ≤ hi → Inv lo s → ∃ s', forRange F n (lo : Int) s = .ok s' ∧ Inv (lo + n) s' := by
  intro n
  induction n with
  | zero => intro lo s _ h; exact ⟨s, rfl, h⟩
  | succ n ih =>
    intro lo s hle h
    obtain ⟨s1, h1, h2⟩ := hstep lo s (by omega) h
    obtain ⟨s2, h3, h4⟩ := ih (lo + 1) s1 (by omega) h2
    refine ⟨s2, ?_, by have : lo + (n + 1) = lo + 1 + n := by omega
                       rw [this]; exact h4⟩
    simp only [forRange, h1]
    have e : ((lo : Int) + 1) = ((lo + 1 : Nat) : Int) := by omega
    rw [e]; exact h3

theorem cellAt_modify (d : List (List (CellM MCell))) (r c : Nat) (x : CellM MCell) (r' c' : Nat) :
    cellAt (d.modify r (fun l => l.modify c (fun _ => x))) r' c'
      = if r = r' ∧ c = c' then (cellAt d r' c').map (fun _ => x) else cellAt d r' c' := by
  unfold cellAt
  rw [List.getElem?_modify]
  cases hd : d[r']? with
  | none => simp
  | some l =>
    simp only [Functor.map, Option.map_some, Option.bind_some]
    by_cases hr : r = r'
    · subst hr
      simp only [if_true, true_and, List.getElem?_modify]
      by_cases hc : c = c'
      · subst hc; simp [Functor.map]
      · simp only [hc, if_false]; cases l[c']? <;> rfl
    · simp [hr]

/-! ### the placeholder loops of `merge_cells` -/

theorem shape_modify (d : List (List (CellM MCell))) (r c : Nat) (f : CellM MCell → CellM MCell) :
    (d.modify r (fun l => l.modify c f)).map List.length = d.map List.length := by
  apply List.ext_getElem?; intro i
  simp only [List.getElem?_map, List.getElem?_modify]
  cases d[i]? with
  | none => rfl
  | some l =>
    simp only [Functor.map, Option.map_some]
    by_cases h : r = i <;> simp [h]

theorem cellAt_of_shape (d d0 : List (List (CellM MCell))) (h : d.map List.length = d0.map List.length)
    (a b : Nat) (x : CellM MCell) (hx : cellAt d0 a b = some x) : ∃ y, cellAt d a b = some y := by
  unfold cellAt at hx ⊢
  have h1 := congrArg (fun l => l[a]?) h
  simp only [List.getElem?_map] at h1
  cases hd0 : d0[a]? with
  | none => rw [hd0] at hx; cases hx
  | some l0 =>
    rw [hd0] at hx h1
    cases hd : d[a]? with
    | none => rw [hd] at h1; cases h1
    | some l =>
      rw [hd] at h1
      simp only [Option.map_some, Option.some.injEq] at h1
      simp only [Option.bind_some] at hx ⊢
      have hb : b < l0.length := Grid.getElem?_lt hx
      exact ⟨l[b]'(by omega), List.getElem?_eq_getElem (by omega)⟩

theorem cellAt_split {d : List (List (CellM MCell))} {a b : Nat} {x : CellM MCell} (h : cellAt d a b = some x) :
    ∃ l, d[a]? = some l ∧ l[b]? = some x := by
  unfold cellAt at h
  cases hd : d[a]? with
  | none => rw [hd] at h; cases h
  | some l => rw [hd] at h; exact ⟨l, rfl, h⟩

/-- positions already turned into placeholders when the loops stand at `(row, col)`. -/
def Proc (r0 c0 c1 row col : Nat) (k : Key) : Prop :=
  (c0 : Int) ≤ k.2 ∧ k.2 ≤ (c1 : Int) ∧ (r0 : Int) ≤ k.1 ∧ (k.1 < (row : Int) ∨ (k.1 = (row : Int) ∧ k.2 < (col : Int))) ∧
  k ≠ ((r0 : Int), (c0 : Int))

/-- the state of the loops, relative to the data `d0` and map `m1` they started from. -/
structure LoopSt (P : Key → Prop) (ref : MRef) (d0 : List (List (CellM MCell))) (m1 : MMap)
    (st : List (List (CellM MCell)) × MMap) : Prop where
  shape : st.1.map List.length = d0.map List.length
  anch : anchorsOf st.2 = anchorsOf m1
  mapP : ∀ k, P k → st.2.get k = some ref
  mapN : ∀ k, ¬ P k → st.2.get k = m1.get k
  cellP : ∀ a b : Nat, P ((a : Int), (b : Int)) → ∃ x, cellAt st.1 a b = some ⟨a, b, x⟩ ∧ x.ph = true ∧ x.val = 0
  cellN : ∀ a b : Nat, ¬ P ((a : Int), (b : Int)) → cellAt st.1 a b = cellAt d0 a b

theorem placeOne_step (r0 c0 r1 c1 row col : Nat) (d0 : List (List (CellM MCell))) (m1 : MMap)
    (st : List (List (CellM MCell)) × MMap)
    (hrow : r0 ≤ row) (hcol : c0 ≤ col ∧ col ≤ c1)
    (hex : ∃ x, cellAt d0 row col = some x)
    (hfree : ((row : Int), (col : Int)) ≠ ((r0 : Int), (c0 : Int)) → m1.get ((row : Int), (col : Int)) = none)
    (h : LoopSt (Proc r0 c0 c1 row col) (.ref r0 c0 r1 c1) d0 m1 st) :
    ∃ st', placeOne (r0 : Int) (c0 : Int) (r1 : Int) (c1 : Int) (row : Int) (col : Int) st = .ok st' ∧
      LoopSt (Proc r0 c0 c1 row (col + 1)) (.ref r0 c0 r1 c1) d0 m1 st' := by
  have hiff : ∀ k : Key, Proc r0 c0 c1 row (col + 1) k ↔
      (Proc r0 c0 c1 row col k ∨ (k = ((row : Int), (col : Int)) ∧ k ≠ ((r0 : Int), (c0 : Int)))) := by
    intro k
    obtain ⟨k1, k2⟩ := k
    simp only [Proc, ne_eq, Prod.mk.injEq]
    constructor
    · rintro ⟨a, b, c, d, e⟩
      by_cases hk : k1 = (row : Int) ∧ k2 = (col : Int)
      · exact Or.inr ⟨hk, e⟩
      · refine Or.inl ⟨a, b, c, ?_, e⟩
        push_cast at d; omega
    · rintro (⟨a, b, c, d, e⟩ | ⟨⟨h1, h2⟩, e⟩)
      · refine ⟨a, b, c, ?_, e⟩
        push_cast; omega
      · subst h1; subst h2
        refine ⟨by omega, by omega, by omega, ?_, e⟩
        push_cast; omega
  by_cases horig : (row : Int) = (r0 : Int) ∧ (col : Int) = (c0 : Int)
  · refine ⟨st, by simp [placeOne, horig], ?_⟩
    have hP : ∀ k, Proc r0 c0 c1 row (col + 1) k ↔ Proc r0 c0 c1 row col k := by
      intro k
      rw [hiff]
      constructor
      · rintro (h | ⟨h1, h2⟩)
        · exact h
        · exact absurd (by rw [h1, horig.1, horig.2]) h2
      · exact Or.inl
    exact ⟨h.shape, h.anch, fun k hk => h.mapP k ((hP k).mp hk), fun k hk => h.mapN k (fun hh => hk ((hP k).mpr hh)),
      fun a b hk => h.cellP a b ((hP _).mp hk), fun a b hk => h.cellN a b (fun hh => hk ((hP _).mpr hh))⟩
  · obtain ⟨x0, hx0⟩ := hex
    obtain ⟨y, hy⟩ := cellAt_of_shape st.1 d0 h.shape row col x0 hx0
    obtain ⟨rowl, hr1, hr2⟩ := cellAt_split hy
    have hne : ((row : Int), (col : Int)) ≠ ((r0 : Int), (c0 : Int)) := by
      intro e; injection e with e1 e2; exact horig ⟨e1, e2⟩
    have hnotP : ¬ Proc r0 c0 c1 row col ((row : Int), (col : Int)) := by
      simp only [Proc]; omega
    have hget : st.2.get ((row : Int), (col : Int)) = none := by
      rw [h.mapN _ hnotP]; exact hfree hne
    obtain ⟨d, m⟩ := st
    let x : CellM MCell := ⟨row, col, setMerge (m.get ((row : Int), (col : Int))) rawPlaceholder⟩
    refine ⟨(d.modify row (fun l => l.modify col (fun _ => x)), m.set ((row : Int), (col : Int)) (.ref r0 c0 r1 c1)), ?_, ?_⟩
    · simp only [placeOne, horig, if_false, Grid.pyIndex_nat d row rowl hr1, bind, Except.bind,
        Grid.pySetItem_nat rowl col _ (Grid.getElem?_lt hr2), Grid.pySetItem_nat d row _ (Grid.getElem?_lt hr1),
        pure, Except.pure]
      congr 2
      rw [← Grid.set_eq_modify' d row rowl (fun l => l.modify col (fun _ => x)) hr1]
      congr 1
      exact Grid.set_eq_modify' rowl col y (fun _ => x) hr2
    · refine ⟨?_, ?_, ?_, ?_, ?_, ?_⟩
      · simp only [shape_modify]; exact h.shape
      · simp only
        rw [anchorsOf_set_ref _ _ _ _ _ _ (by intro a b; simp only at hget; rw [hget]; simp)]
        exact h.anch
      · intro k hk
        simp only [get_set]
        rcases (hiff k).mp hk with hk | ⟨hk, _⟩
        · by_cases e : ((row : Int), (col : Int)) = k
          · simp [e]
          · simp only [e, if_false]; exact h.mapP k hk
        · simp [hk]
      · intro k hk
        simp only [get_set]
        have h1 : ¬ Proc r0 c0 c1 row col k := fun hh => hk ((hiff k).mpr (Or.inl hh))
        have h2 : ((row : Int), (col : Int)) ≠ k := by
          intro e; exact hk ((hiff k).mpr (Or.inr ⟨e.symm, by rw [← e]; exact hne⟩))
        simp only [h2, if_false]
        exact h.mapN k h1
      · intro a b hk
        simp only [cellAt_modify]
        rcases (hiff _).mp hk with hk | ⟨hk, _⟩
        · have hab : ¬ (row = a ∧ col = b) := by
            rintro ⟨e1, e2⟩; subst e1; subst e2; exact hnotP hk
          simp only [hab, if_false]
          exact h.cellP a b hk
        · injection hk with e1 e2
          have e1' : a = row := by omega
          have e2' : b = col := by omega
          subst e1'; subst e2'
          simp only [and_self, if_true, hy, Option.map_some]
          exact ⟨_, rfl, (setMerge_ph _ _).1, (setMerge_ph _ _).2⟩
      · intro a b hk
        simp only [cellAt_modify]
        have hab : ¬ (row = a ∧ col = b) := by
          rintro ⟨e1, e2⟩; subst e1; subst e2
          exact hk ((hiff _).mpr (Or.inr ⟨rfl, hne⟩))
        simp only [hab, if_false]
        exact h.cellN a b (fun hh => hk ((hiff _).mpr (Or.inl hh)))

theorem LoopSt.congr {P Q : Key → Prop} {ref : MRef} {d0 : List (List (CellM MCell))} {m1 : MMap}
    {st : List (List (CellM MCell)) × MMap} (h : LoopSt P ref d0 m1 st) (hPQ : ∀ k, P k ↔ Q k) :
    LoopSt Q ref d0 m1 st := by
  have : P = Q := funext fun k => propext (hPQ k)
  rw [← this]; exact h

theorem Proc_next_row (r0 c0 c1 row : Nat) (k : Key) :
    Proc r0 c0 c1 row (c1 + 1) k ↔ Proc r0 c0 c1 (row + 1) c0 k := by
  obtain ⟨k1, k2⟩ := k
  simp only [Proc]
  constructor
  · rintro ⟨a, b, c, d, e⟩; refine ⟨a, b, c, ?_, e⟩; push_cast at d ⊢; omega
  · rintro ⟨a, b, c, d, e⟩; refine ⟨a, b, c, ?_, e⟩; push_cast at d ⊢; omega

theorem placeLoops (r0 c0 r1 c1 : Nat) (hr : r0 ≤ r1) (hc : c0 ≤ c1) (d0 : List (List (CellM MCell))) (m1 : MMap)
    (hex : ∀ a b : Nat, r0 ≤ a → a ≤ r1 → c0 ≤ b → b ≤ c1 → ∃ x, cellAt d0 a b = some x)
    (hfree : ∀ a b : Nat, r0 ≤ a → a ≤ r1 → c0 ≤ b → b ≤ c1 → ((a : Int), (b : Int)) ≠ ((r0 : Int), (c0 : Int)) →
      m1.get ((a : Int), (b : Int)) = none) :
    ∃ st', forRange (fun row st =>
        forRange (fun col st => placeOne (r0 : Int) (c0 : Int) (r1 : Int) (c1 : Int) row col st)
          (((c1 : Int) + 1 - (c0 : Int)).toNat) (c0 : Int) st)
        (((r1 : Int) + 1 - (r0 : Int)).toNat) (r0 : Int) (d0, m1) = .ok st' ∧
      LoopSt (Proc r0 c0 c1 (r1 + 1) c0) (.ref r0 c0 r1 c1) d0 m1 st' := by
  have e1 : ((c1 : Int) + 1 - (c0 : Int)).toNat = c1 + 1 - c0 := by omega
  have e2 : ((r1 : Int) + 1 - (r0 : Int)).toNat = r1 + 1 - r0 := by omega
  rw [e1, e2]
  have inner : ∀ (row : Nat) st, r0 ≤ row → row ≤ r1 → LoopSt (Proc r0 c0 c1 row c0) (.ref r0 c0 r1 c1) d0 m1 st →
      ∃ st', forRange (fun col st => placeOne (r0 : Int) (c0 : Int) (r1 : Int) (c1 : Int) (row : Int) col st)
          (c1 + 1 - c0) (c0 : Int) st = .ok st' ∧
        LoopSt (Proc r0 c0 c1 (row + 1) c0) (.ref r0 c0 r1 c1) d0 m1 st' := by
    intro row st h1 h2 hst
    obtain ⟨st', a, b⟩ := forRange_inv
      (fun col st => placeOne (r0 : Int) (c0 : Int) (r1 : Int) (c1 : Int) (row : Int) col st)
      (fun col st => c0 ≤ col ∧ LoopSt (Proc r0 c0 c1 row col) (.ref r0 c0 r1 c1) d0 m1 st) (c1 + 1)
      (by
        intro col st hlt ⟨hge, hst⟩
        obtain ⟨st', x, y⟩ := placeOne_step r0 c0 r1 c1 row col d0 m1 st h1 ⟨hge, by omega⟩
          (hex row col h1 h2 hge (by omega)) (hfree row col h1 h2 hge (by omega)) hst
        exact ⟨st', x, by omega, y⟩)
      (c1 + 1 - c0) c0 st (by omega) ⟨Nat.le_refl _, hst⟩
    have e : c0 + (c1 + 1 - c0) = c1 + 1 := by omega
    rw [e] at b
    exact ⟨st', a, b.2.congr (Proc_next_row r0 c0 c1 row)⟩
  have start : LoopSt (Proc r0 c0 c1 r0 c0) (.ref r0 c0 r1 c1) d0 m1 (d0, m1) := by
    have hF : ∀ k, ¬ Proc r0 c0 c1 r0 c0 k := by
      intro k; simp only [Proc]; omega
    exact ⟨rfl, rfl, fun k hk => absurd hk (hF k), fun _ _ => rfl, fun a b hk => absurd hk (hF _), fun _ _ _ => rfl⟩
  obtain ⟨st', a, b⟩ := forRange_inv
    (fun row st => forRange (fun col st => placeOne (r0 : Int) (c0 : Int) (r1 : Int) (c1 : Int) row col st)
      (c1 + 1 - c0) (c0 : Int) st)
    (fun row st => r0 ≤ row ∧ LoopSt (Proc r0 c0 c1 row c0) (.ref r0 c0 r1 c1) d0 m1 st) (r1 + 1)
    (by
      intro row st hlt ⟨hge, hst⟩
      obtain ⟨st', x, y⟩ := inner row st hge (by omega) hst
      exact ⟨st', x, by omega, y⟩)
    (r1 + 1 - r0) r0 (d0, m1) (by omega) ⟨Nat.le_refl _, start⟩
  have e : r0 + (r1 + 1 - r0) = r1 + 1 := by omega
  rw [e] at b
  exact ⟨st', a, b.2⟩

/-- when the loops are done, the processed positions are the rectangle minus its origin. -/
theorem Proc_done (r0 c0 r1 c1 : Nat) (k : Key) :
    Proc r0 c0 c1 (r1 + 1) c0 k ↔
      (Rct.has ((r0 : Int), (c0 : Int), (r1 : Int), (c1 : Int)) k = true ∧ k ≠ ((r0 : Int), (c0 : Int))) := by
  obtain ⟨k1, k2⟩ := k
  rw [Rct.has_iff]
  simp only [Proc, Rct.r0, Rct.r1, Rct.c0, Rct.c1]
  constructor
  · rintro ⟨a, b, c, d, e⟩; refine ⟨⟨c, ?_, a, b⟩, e⟩; push_cast at d; omega
  · rintro ⟨⟨a, b, c, d⟩, e⟩; refine ⟨c, d, a, ?_, e⟩; push_cast; omega

/-! ### `merge_cells` keeps the state consistent -/

theorem cellAt_sweep (d : List (List (CellM MCell))) (m : MMap) (a b : Nat) :
    cellAt (sweep d m) a b
      = (cellAt d a b).map (fun cell => { cell with val := setMerge (m.get ((a : Int), (b : Int))) cell.val }) := by
  unfold cellAt sweep
  rw [List.getElem?_mapIdx]
  cases d[a]? with
  | none => rfl
  | some l =>
    simp only [Option.map_some, Option.bind_some, List.getElem?_mapIdx]

theorem sweep_shape (d : List (List (CellM MCell))) (m : MMap) :
    (sweep d m).map List.length = d.map List.length := by
  apply List.ext_getElem?; intro i
  simp only [sweep, List.getElem?_map, List.getElem?_mapIdx]
  cases d[i]? <;> simp

/-- well-formedness of a grid, in terms of `cellAt` and the list of row lengths. -/
theorem wf_of_shape (g g' : Grid.State MCell) (h : Grid.WF g) (hnr : g'.numRows = g.numRows) (hnc : g'.numCols = g.numCols)
    (hshape : g'.data.map List.length = g.data.map List.length)
    (hpos : ∀ a b cell, cellAt g'.data a b = some cell → cell.row = (a : Int) ∧ cell.col = (b : Int)) : Grid.WF g' := by
  obtain ⟨h1, h2, h3, h4⟩ := h
  have hlen : g'.data.length = g.data.length := by
    have := congrArg List.length hshape; simpa using this
  refine ⟨by rw [hlen, hnr]; exact h1, by rw [hnc]; exact h2, ?_, ?_⟩
  · intro row hrow
    obtain ⟨i, hi, rfl⟩ := List.getElem_of_mem hrow
    have e := congrArg (fun l => l[i]?) hshape
    simp only [List.getElem?_map] at e
    rw [List.getElem?_eq_getElem hi, List.getElem?_eq_getElem (by omega : i < g.data.length)] at e
    simp only [Option.map_some, Option.some.injEq] at e
    rw [e, hnc]
    exact h3 _ (List.getElem_mem _)
  · intro r c rowl cell ha hb
    exact hpos r c cell (by unfold cellAt; rw [ha]; exact hb)

theorem wf_cellAt (g : Grid.State MCell) (h : Grid.WF g) (a b : Nat) (ha : (a : Int) < g.numRows)
    (hb : (b : Int) < g.numCols) : ∃ x, cellAt g.data a b = some x := by
  obtain ⟨h1, h2, h3, h4⟩ := h
  have ha' : a < g.data.length := by omega
  have hl := h3 _ (List.getElem_mem ha')
  have hb' : b < (g.data[a]).length := by omega
  exact ⟨(g.data[a])[b], by unfold cellAt; rw [List.getElem?_eq_getElem ha']; exact List.getElem?_eq_getElem hb'⟩

theorem wf_cellAt_pos (g : Grid.State MCell) (h : Grid.WF g) (a b : Nat) (cell : CellM MCell)
    (hc : cellAt g.data a b = some cell) : cell.row = (a : Int) ∧ cell.col = (b : Int) := by
  obtain ⟨l, h1, h2⟩ := cellAt_split hc
  exact h.2.2.2 a b l cell h1 h2

theorem mergeOne_consistent (s : MState) (hs : Consistent s) (r0 c0 r1 c1 : Nat) (q : Rct)
    (hq : ((r0 : Int), (c0 : Int), (r1 : Int), (c1 : Int)) = q)
    (hin : q.InTable s.grid.numRows s.grid.numCols)
    (hdisj : ∀ p ∈ rectsOf s.mmap, Rct.Disjoint p q) :
    ∃ s', mergeOne s (r0 : Int) (c0 : Int) (r1 : Int) (c1 : Int) = .ok s' ∧ Consistent s' ∧
      rectsOf s'.mmap = rectsOf s.mmap ++ [q] ∧
      s'.grid.numRows = s.grid.numRows ∧ s'.grid.numCols = s.grid.numCols ∧
      (∀ a b cell, cellAt s.grid.data a b = some cell → ∃ cell', cellAt s'.grid.data a b = some cell' ∧
        cell'.val.val = if q.has ((a : Int), (b : Int)) = true ∧
            ((a : Int), (b : Int)) ≠ ((r0 : Int), (c0 : Int)) then 0 else cell.val.val) := by
  have hq0 : q.r0 = r0 ∧ q.c0 = c0 ∧ q.r1 = r1 ∧ q.c1 = c1 := by rw [← hq]; exact ⟨rfl, rfl, rfl, rfl⟩
  obtain ⟨i1, i2, i3, i4, i5, i6⟩ := hin
  have hr : r0 ≤ r1 := by omega
  have hc : c0 ≤ c1 := by omega
  have horigin : q.origin = ((r0 : Int), (c0 : Int)) := by rw [← hq]; rfl
  have hqhas : ∀ k : Key, q.has k = true ↔ (r0 : Int) ≤ k.1 ∧ k.1 ≤ (r1 : Int) ∧ (c0 : Int) ≤ k.2 ∧ k.2 ≤ (c1 : Int) := by
    intro k; rw [Rct.has_iff, hq0.1, hq0.2.1, hq0.2.2.1, hq0.2.2.2]
  -- nothing of the old map lies in q
  have hnone : ∀ k, q.has k = true → s.mmap.get k = none := by
    intro k hk
    rw [hs.mapOK, genGet_none_iff]
    intro p hp
    cases hpk : p.has k with
    | false => rfl
    | true => exact absurd ⟨hpk, hk⟩ (hdisj p hp k)
  let m1 := s.mmap.set ((r0 : Int), (c0 : Int)) (.anchor ((r1 : Int) - (r0 : Int) + 1) ((c1 : Int) - (c0 : Int) + 1))
  have horig_has : q.has ((r0 : Int), (c0 : Int)) = true := by rw [hqhas]; simp only; omega
  obtain ⟨st', hloop, hst⟩ := placeLoops r0 c0 r1 c1 hr hc s.grid.data m1
    (by
      intro a b h1 h2 h3 h4
      exact wf_cellAt s.grid hs.wf a b (by omega) (by omega))
    (by
      intro a b h1 h2 h3 h4 hne
      show m1.get _ = none
      simp only [m1]
      rw [get_set_ne _ _ _ _ (Ne.symm hne)]
      apply hnone
      rw [hqhas]; simp only; omega)
  obtain ⟨d2, m2⟩ := st'
  have hP : ∀ k, Proc r0 c0 c1 (r1 + 1) c0 k ↔ (q.has k = true ∧ k ≠ ((r0 : Int), (c0 : Int))) := by
    intro k; rw [Proc_done, hq]
  refine ⟨{ grid := { s.grid with data := sweep d2 m2 }, mmap := m2 }, ?_, ?_, ?_, rfl, rfl, ?_⟩
  · simp only [mergeOne, bind, Except.bind, pure, Except.pure]
    rw [hloop]
  · -- Consistent
    have hrects : rectsOf m2 = rectsOf s.mmap ++ [q] := by
      simp only [rectsOf]
      rw [show anchorsOf m2 = anchorsOf m1 from hst.anch]
      simp only [m1]
      rw [anchorsOf_set_anchor _ _ _ _ (hnone _ horig_has), List.map_append]
      congr 1
      simp only [List.map_cons, List.map_nil, rectOf, ← hq]
      congr 1
      simp only [Prod.mk.injEq, true_and]
      constructor <;> omega
    have hmap : ∀ k, m2.get k = genGet (rectsOf s.mmap ++ [q]) k := by
      intro k
      cases hk : q.has k with
      | true =>
        rw [genGet_append_of_not _ _ _ (by
          intro p hp
          cases hpk : p.has k with
          | false => rfl
          | true => exact absurd ⟨hpk, hk⟩ (hdisj p hp k)), hk]
        simp only [if_true]
        by_cases ho : k = ((r0 : Int), (c0 : Int))
        · have hnp : ¬ Proc r0 c0 c1 (r1 + 1) c0 k := by rw [hP]; exact fun h => h.2 ho
          rw [hst.mapN k hnp, ho]
          simp only [m1, get_set_self, Rct.entry, horigin, if_true, Rct.height, Rct.width, hq0.1, hq0.2.1, hq0.2.2.1, hq0.2.2.2]
        · rw [hst.mapP k ((hP k).mpr ⟨hk, ho⟩)]
          simp only [Rct.entry, horigin, ho, if_false, hq0.1, hq0.2.1, hq0.2.2.1, hq0.2.2.2]
      | false =>
        rw [genGet_append_of_has _ _ _ hk, ← hs.mapOK]
        have hnp : ¬ Proc r0 c0 c1 (r1 + 1) c0 k := by rw [hP]; intro h; rw [hk] at h; exact absurd h.1 (by simp)
        rw [hst.mapN k hnp]
        simp only [m1]
        rw [get_set_ne]
        intro e; rw [← e, horig_has] at hk; cases hk
    have hcell2 : ∀ a b cell, cellAt (sweep d2 m2) a b = some cell →
        ∃ c2, cellAt d2 a b = some c2 ∧ cell = { c2 with val := setMerge (m2.get ((a : Int), (b : Int))) c2.val } := by
      intro a b cell h
      rw [cellAt_sweep] at h
      cases hc2 : cellAt d2 a b with
      | none => rw [hc2] at h; cases h
      | some c2 => rw [hc2] at h; injection h with h; exact ⟨c2, rfl, h.symm⟩
    refine ⟨?_, ?_, ?_, ?_, ?_⟩
    · refine wf_of_shape s.grid { s.grid with data := sweep d2 m2 } hs.wf rfl rfl ?_ ?_
      · show (sweep d2 m2).map List.length = _
        rw [sweep_shape]; exact hst.shape
      · intro a b cell h
        obtain ⟨c2, h1, rfl⟩ := hcell2 a b cell h
        by_cases hp : Proc r0 c0 c1 (r1 + 1) c0 ((a : Int), (b : Int))
        · obtain ⟨x, hx, _, _⟩ := hst.cellP a b hp
          rw [hx] at h1; injection h1 with h1; subst h1; exact ⟨rfl, rfl⟩
        · have := hst.cellN a b hp
          rw [this] at h1
          exact wf_cellAt_pos s.grid hs.wf a b c2 h1
    · intro p hp
      show p.InTable s.grid.numRows s.grid.numCols
      rw [show rectsOf m2 = _ from hrects] at hp
      rcases List.mem_append.mp hp with hp | hp
      · exact hs.inTable p hp
      · simp only [List.mem_singleton] at hp
        subst hp
        exact ⟨i1, i2, i3, i4, i5, i6⟩
    · show (rectsOf m2).Pairwise Rct.Disjoint
      rw [hrects, List.pairwise_append]
      refine ⟨hs.disj, List.pairwise_singleton _ _, ?_⟩
      intro a ha b hb
      simp only [List.mem_singleton] at hb
      subst hb; exact hdisj a ha
    · intro k
      show m2.get k = genGet (rectsOf m2) k
      rw [hrects]; exact hmap k
    · intro a b cell h
      show cell.val = payloadOf (m2.get ((a : Int), (b : Int))) cell.val.val
      obtain ⟨c2, h1, rfl⟩ := hcell2 a b cell h
      simp only
      by_cases hp : Proc r0 c0 c1 (r1 + 1) c0 ((a : Int), (b : Int))
      · obtain ⟨x, hx, hx1, hx2⟩ := hst.cellP a b hp
        rw [hx] at h1; injection h1 with h1; subst h1
        rw [hst.mapP _ hp]
        simp only
        rw [setMerge_eq_of _ x rawPlaceholder hx1 hx2]
        rfl
      · have hc0 := hst.cellN a b hp
        rw [hc0] at h1
        have hold := hs.cellsOK a b c2 h1
        by_cases ho : ((a : Int), (b : Int)) = ((r0 : Int), (c0 : Int))
        · rw [hst.mapN _ hp, ho]
          simp only [m1, get_set_self]
          rw [hold, ho, hnone _ horig_has]
          simp only [payloadOf, setMerge_setMerge]
          rfl
        · have hk : q.has ((a : Int), (b : Int)) = false := by
            cases hk : q.has ((a : Int), (b : Int)) with
            | false => rfl
            | true => exact absurd ((hP _).mpr ⟨hk, ho⟩) hp
          have e : m2.get ((a : Int), (b : Int)) = s.mmap.get ((a : Int), (b : Int)) := by
            rw [hst.mapN _ hp]; simp only [m1]; rw [get_set_ne _ _ _ _ (Ne.symm ho)]
          rw [e, hold, setMerge_payloadOf_self, payloadOf_val]
  · show rectsOf m2 = _
    simp only [rectsOf]
    rw [show anchorsOf m2 = anchorsOf m1 from hst.anch]
    simp only [m1]
    rw [anchorsOf_set_anchor _ _ _ _ (hnone _ horig_has), List.map_append]
    congr 1
    simp only [List.map_cons, List.map_nil, rectOf, ← hq]
    congr 1
    simp only [Prod.mk.injEq, true_and]
    constructor <;> omega
  · intro a b cell h
    show ∃ cell', cellAt (sweep d2 m2) a b = some cell' ∧ _
    rw [cellAt_sweep]
    by_cases hp : Proc r0 c0 c1 (r1 + 1) c0 ((a : Int), (b : Int))
    · obtain ⟨x, hx, hx1, hx2⟩ := hst.cellP a b hp
      rw [hx]
      refine ⟨_, rfl, ?_⟩
      simp only [(setMerge_ph _ _).2, hx2]
      rw [if_pos ((hP _).mp hp)]
    · rw [hst.cellN a b hp, h]
      refine ⟨_, rfl, ?_⟩
      simp only [(setMerge_ph _ _).2]
      rw [if_neg (fun hh => hp ((hP _).mpr hh))]

/-! ### the initial table, lists of ranges, the picture -/

theorem cellAt_canon (g : List (List MCell)) (a b : Nat) :
    cellAt (Grid.canon g) a b = ((g[a]?).bind (fun l => l[b]?)).map (fun v => (⟨a, b, v⟩ : CellM MCell)) := by
  unfold cellAt
  rw [Grid.canon_getElem?]
  cases g[a]? with
  | none => rfl
  | some l => simp only [Option.map_some, Option.bind_some, Grid.canonRow_getElem?]

theorem consistent_minit (nr nc : Nat) : Consistent (minit nr nc) := by
  refine ⟨?_, ?_, ?_, ?_, ?_⟩
  · simp only [minit]; rw [Grid.init_eq_mk]; exact Grid.wf_mk _ _ _ (Grid.rect_replicate nr nc emptyCell)
  · intro q hq; simp [minit, rectsOf, anchorsOf] at hq
  · simp [minit, rectsOf, anchorsOf]
  · intro k; simp [minit, rectsOf, anchorsOf, MMap.get, genGet]
  · intro a b cell h
    simp only [minit, Grid.init_eq_mk, Grid.mk, cellAt_canon] at h
    simp only [minit, MMap.get]
    cases hg : ((List.replicate nr (List.replicate nc emptyCell))[a]?).bind (fun l => l[b]?) with
    | none => rw [hg] at h; cases h
    | some v =>
      rw [hg] at h; injection h with h
      have hv : v = emptyCell := by
        cases h1 : (List.replicate nr (List.replicate nc emptyCell))[a]? with
        | none => rw [h1] at hg; cases hg
        | some l =>
          rw [h1] at hg
          simp only [Option.bind_some] at hg
          rw [List.getElem?_replicate] at h1
          split at h1
          · injection h1 with h1
            rw [← h1, List.getElem?_replicate] at hg
            split at hg
            · injection hg with hg; exact hg.symm
            · cases hg
          · cases h1
      rw [← h, hv]; rfl

/-- `merge_cells([...])`: the rectangles are added one after the other. -/
theorem mergeList_consistent : ∀ (qs : List (Nat × Nat × Nat × Nat)) (s : MState), Consistent s →
    (∀ q ∈ qs, Rct.InTable ((q.1 : Int), (q.2.1 : Int), (q.2.2.1 : Int), (q.2.2.2 : Int)) s.grid.numRows s.grid.numCols) →
    (∀ q ∈ qs, ∀ p ∈ rectsOf s.mmap, Rct.Disjoint p ((q.1 : Int), (q.2.1 : Int), (q.2.2.1 : Int), (q.2.2.2 : Int))) →
    (qs.map (fun q => (((q.1 : Int), (q.2.1 : Int), (q.2.2.1 : Int), (q.2.2.2 : Int)) : Rct))).Pairwise Rct.Disjoint →
    ∃ s', mergeList s (qs.map (fun q => ((q.1 : Int), (q.2.1 : Int), (q.2.2.1 : Int), (q.2.2.2 : Int)))) = .ok s' ∧
      Consistent s' ∧
      rectsOf s'.mmap = rectsOf s.mmap ++ qs.map (fun q => (((q.1 : Int), (q.2.1 : Int), (q.2.2.1 : Int), (q.2.2.2 : Int)) : Rct)) ∧
      s'.grid.numRows = s.grid.numRows ∧ s'.grid.numCols = s.grid.numCols := by
  intro qs
  induction qs with
  | nil => intro s hs _ _ _; exact ⟨s, rfl, hs, by simp, rfl, rfl⟩
  | cons q rest ih =>
    intro s hs hin hdis hpw
    obtain ⟨r0, c0, r1, c1⟩ := q
    simp only [List.map_cons, List.pairwise_cons] at hpw
    obtain ⟨s1, h1, h2, h3, h4, h5, _⟩ := mergeOne_consistent s hs r0 c0 r1 c1 _ rfl
      (hin _ (List.mem_cons_self)) (hdis _ (List.mem_cons_self))
    obtain ⟨s2, g1, g2, g3, g4, g5⟩ := ih s1 h2
      (by intro q hq; rw [h4, h5]; exact hin q (List.mem_cons_of_mem _ hq))
      (by
        intro q hq p hp
        rw [h3] at hp
        rcases List.mem_append.mp hp with hp | hp
        · exact hdis q (List.mem_cons_of_mem _ hq) p hp
        · simp only [List.mem_singleton] at hp
          subst hp
          exact hpw.1 _ (List.mem_map.mpr ⟨q, hq, rfl⟩))
      hpw.2
    refine ⟨s2, ?_, g2, ?_, by rw [g4, h4], by rw [g5, h5]⟩
    · simp only [List.map_cons, mergeList, h1, bind, Except.bind]
      exact g1
    · rw [g3, h3]; simp

/-- what a consistent table shows at each cell: the picture of the property. -/
theorem consistent_picture (s : MState) (hs : Consistent s) (a b : Nat) (cell : CellM MCell)
    (hc : cellAt s.grid.data a b = some cell) :
    (cell.row = (a : Int) ∧ cell.col = (b : Int)) ∧
    (∀ q ∈ rectsOf s.mmap, q.has ((a : Int), (b : Int)) = true →
      (((a : Int), (b : Int)) = q.origin →
        cell.val.ph = false ∧ cell.val.merged = true ∧ cell.val.size = some (q.height, q.width) ∧ cell.val.rect = none) ∧
      (((a : Int), (b : Int)) ≠ q.origin →
        cell.val.ph = true ∧ cell.val.val = 0 ∧ cell.val.merged = false ∧ cell.val.size = none ∧
        cell.val.rect = some (q.r0, q.c0, q.r1, q.c1))) ∧
    ((∀ q ∈ rectsOf s.mmap, q.has ((a : Int), (b : Int)) = false) →
      cell.val.ph = false ∧ cell.val.merged = false ∧ cell.val.size = some (1, 1) ∧ cell.val.rect = none) := by
  have hp := hs.cellsOK a b cell hc
  refine ⟨wf_cellAt_pos s.grid hs.wf a b cell hc, ?_, ?_⟩
  · intro q hq hk
    have hg : s.mmap.get ((a : Int), (b : Int)) = some (q.entry ((a : Int), (b : Int))) := by
      rw [hs.mapOK]; exact genGet_of_mem _ hs.disj q hq _ hk
    rw [hg] at hp
    constructor
    · intro ho
      simp only [Rct.entry, ho, if_true] at hp
      rw [hp]; exact ⟨rfl, rfl, rfl, rfl⟩
    · intro ho
      simp only [Rct.entry, ho, if_false] at hp
      rw [hp]; exact ⟨rfl, rfl, rfl, rfl, rfl⟩
  · intro hnone
    have hg : s.mmap.get ((a : Int), (b : Int)) = none := by
      rw [hs.mapOK, genGet_none_iff]; exact hnone
    rw [hg] at hp
    rw [hp]; exact ⟨rfl, rfl, rfl, rfl⟩

/-! ### `merge_ranges` -/

/-- the rectangle a cell contributes to `merge_ranges`. -/
def rangeOf (e : Int × Int × MCell) : Option Rct :=
  if e.2.2.merged then
    match e.2.2.size with
    | some (h, w) => some (e.1, e.2.1, e.1 + h - 1, e.2.1 + w - 1)
    | none => none
  else none

theorem foldr_ranges (xs : List (Int × Int × MCell))
    (hok : ∀ e ∈ xs, e.2.2.merged = true → e.2.2.size ≠ none) :
    xs.foldr (fun (e : Int × Int × MCell) (acc : PyM (List Rct)) => do
      let rest ← acc
      if e.2.2.merged then
        match e.2.2.size with
        | some (h, w) => pure ((e.1, e.2.1, e.1 + h - 1, e.2.1 + w - 1) :: rest)
        | none => .error .TypeError
      else pure rest) (.ok []) = .ok (xs.filterMap rangeOf) := by
  induction xs with
  | nil => rfl
  | cons e rest ih =>
    have ih' := ih (fun x hx => hok x (List.mem_cons_of_mem _ hx))
    rw [List.foldr_cons, ih']
    simp only [bind, Except.bind, List.filterMap_cons, rangeOf]
    by_cases hm : e.2.2.merged = true
    · simp only [hm, if_true]
      cases hs : e.2.2.size with
      | none => exact absurd hs (hok e (List.mem_cons_self) hm)
      | some hw => obtain ⟨h, w⟩ := hw; simp [pure, Except.pure]
    · simp [hm, pure, Except.pure]

theorem mergeRanges_eq (s : MState) :
    mergeRanges s = ((s.grid.data.mapIdx (fun row cells => cells.mapIdx (fun col cell =>
        (((row : Int), (col : Int), cell.val) : Int × Int × MCell)))).flatten).foldr
      (fun (e : Int × Int × MCell) (acc : PyM (List Rct)) => do
        let rest ← acc
        if e.2.2.merged then
          match e.2.2.size with
          | some (h, w) => pure ((e.1, e.2.1, e.1 + h - 1, e.2.1 + w - 1) :: rest)
          | none => .error .TypeError
        else pure rest) (.ok []) := rfl

theorem mem_cells_iff (d : List (List (CellM MCell))) (e : Int × Int × MCell) :
    e ∈ (d.mapIdx (fun row cells => cells.mapIdx (fun col cell =>
        (((row : Int), (col : Int), cell.val) : Int × Int × MCell)))).flatten ↔
      ∃ (a b : Nat) (cell : CellM MCell), cellAt d a b = some cell ∧ e = ((a : Int), (b : Int), cell.val) := by
  rw [List.mem_flatten]
  constructor
  · rintro ⟨l, hl, he⟩
    obtain ⟨a, ha, rfl⟩ := List.getElem_of_mem hl
    simp only [List.getElem_mapIdx] at he
    obtain ⟨b, hb, hbe⟩ := List.getElem_of_mem he
    simp only [List.getElem_mapIdx] at hbe
    simp only [List.length_mapIdx] at ha hb
    refine ⟨a, b, (d[a])[b], ?_, hbe.symm⟩
    unfold cellAt
    rw [List.getElem?_eq_getElem ha]
    exact List.getElem?_eq_getElem hb
  · rintro ⟨a, b, cell, hc, rfl⟩
    obtain ⟨l, h1, h2⟩ := cellAt_split hc
    have ha := Grid.getElem?_lt h1
    have hb := Grid.getElem?_lt h2
    refine ⟨l.mapIdx (fun col cell => (((a : Int), (col : Int), cell.val) : Int × Int × MCell)), ?_, ?_⟩
    · rw [List.mem_iff_getElem]
      refine ⟨a, by simpa using ha, ?_⟩
      simp only [List.getElem_mapIdx]
      have : d[a] = l := by
        have := List.getElem?_eq_getElem ha; rw [h1] at this; injection this with this; exact this.symm
      rw [this]
    · rw [List.mem_iff_getElem]
      refine ⟨b, by simpa using hb, ?_⟩
      simp only [List.getElem_mapIdx]
      have : l[b] = cell := by
        have := List.getElem?_eq_getElem hb; rw [h2] at this; injection this with this; exact this.symm
      rw [this]

theorem payload_merged (m : Option MRef) (v : Nat) (h : (payloadOf m v).merged = true) :
    ∃ x y, m = some (.anchor x y) ∧ (payloadOf m v).size = some (x, y) := by
  cases m with
  | none => simp [payloadOf, setMerge, rawCell] at h
  | some r =>
    cases r with
    | anchor x y => exact ⟨x, y, rfl, rfl⟩
    | ref _ _ _ _ => simp [payloadOf, setMerge, rawPlaceholder] at h

theorem Rct.eta (p : Rct) : (p.r0, p.c0, p.r0 + p.height - 1, p.c0 + p.width - 1) = p := by
  obtain ⟨a, b, c, d⟩ := p
  simp only [Rct.r0, Rct.c0, Rct.height, Rct.width, Rct.r1, Rct.c1, Prod.mk.injEq, true_and]
  constructor <;> omega

/-- `merge_ranges` lists exactly the merged rectangles. -/
theorem mergeRanges_exact (s : MState) (hs : Consistent s) :
    ∃ l, mergeRanges s = .ok l ∧ ∀ q : Rct, q ∈ l ↔ q ∈ rectsOf s.mmap := by
  have hcell : ∀ (a b : Nat) (cell : CellM MCell), cellAt s.grid.data a b = some cell →
      cell.val.merged = true →
      ∃ p ∈ rectsOf s.mmap, ((a : Int), (b : Int)) = p.origin ∧ cell.val.size = some (p.height, p.width) := by
    intro a b cell hc hm
    have hp := hs.cellsOK a b cell hc
    rw [hp] at hm
    obtain ⟨x, y, hg, hsz⟩ := payload_merged _ _ hm
    rw [← hp] at hsz
    rw [hs.mapOK] at hg
    unfold genGet at hg
    cases hf : (rectsOf s.mmap).find? (fun q => q.has ((a : Int), (b : Int))) with
    | none => rw [hf] at hg; cases hg
    | some p =>
      rw [hf] at hg
      simp only [Option.some.injEq, Rct.entry] at hg
      by_cases ho : ((a : Int), (b : Int)) = p.origin
      · simp only [ho, if_true, MRef.anchor.injEq] at hg
        exact ⟨p, List.mem_of_find?_eq_some hf, ho, by rw [hsz, hg.1, hg.2]⟩
      · simp only [ho, if_false] at hg; cases hg
  refine ⟨((s.grid.data.mapIdx (fun row cells => cells.mapIdx (fun col cell =>
        (((row : Int), (col : Int), cell.val) : Int × Int × MCell)))).flatten).filterMap rangeOf, ?_, ?_⟩
  · rw [mergeRanges_eq, foldr_ranges]
    intro e he hm
    obtain ⟨a, b, cell, hc, rfl⟩ := (mem_cells_iff _ _).mp he
    obtain ⟨p, _, _, hsz⟩ := hcell a b cell hc hm
    simp only [hsz]; simp
  · intro (q : Rct)
    rw [List.mem_filterMap]
    constructor
    · rintro ⟨e, he, hr⟩
      obtain ⟨a, b, cell, hc, rfl⟩ := (mem_cells_iff _ _).mp he
      simp only [rangeOf] at hr
      by_cases hm : cell.val.merged = true
      · obtain ⟨p, hp, ho, hsz⟩ := hcell a b cell hc hm
        simp only [hm, if_true, hsz, Option.some.injEq] at hr
        have e1 : (a : Int) = p.r0 := congrArg Prod.fst ho
        have e2 : (b : Int) = p.c0 := congrArg Prod.snd ho
        rw [e1, e2, Rct.eta] at hr
        rw [← hr]; exact hp
      · simp [hm] at hr
    · intro hq
      obtain ⟨i1, i2, i3, i4, i5, i6⟩ := hs.inTable q hq
      obtain ⟨a, ha⟩ := Int.eq_ofNat_of_zero_le i1
      obtain ⟨b, hb⟩ := Int.eq_ofNat_of_zero_le i4
      obtain ⟨cell, hc⟩ := wf_cellAt s.grid hs.wf a b (by omega) (by omega)
      have hor : ((a : Int), (b : Int)) = q.origin := by simp only [Rct.origin, ha, hb]
      have hg : s.mmap.get ((a : Int), (b : Int)) = some (q.entry ((a : Int), (b : Int))) := by
        rw [hs.mapOK]
        exact genGet_of_mem _ hs.disj q hq _ (by rw [hor]; exact origin_has q ⟨i2, i5⟩)
      have hp := hs.cellsOK a b cell hc
      rw [hg] at hp
      simp only [Rct.entry, hor, if_true] at hp
      refine ⟨((a : Int), (b : Int), cell.val), (mem_cells_iff _ _).mpr ⟨a, b, cell, hc, rfl⟩, ?_⟩
      rw [hp]
      simp only [rangeOf, payloadOf, setMerge, rawCell, if_true]
      rw [← ha, ← hb, Rct.eta]

/-! ### packing (`recalculate_merged_cells`) and unpacking (`calculate_merge_cell_ranges`) -/

theorem pack_eq (hi lo : Nat) (h : lo < 65536) : hi <<< 16 ||| lo = hi * 65536 + lo := by
  rw [← Nat.shiftLeft_add_eq_or_of_lt (i := 16) (by simpa using h), Nat.shiftLeft_eq]

theorem unpack_hi (hi lo : Nat) (h : lo < 65536) : (hi <<< 16 ||| lo) >>> 16 = hi := by
  rw [pack_eq hi lo h, Nat.shiftRight_eq_div_pow]; omega

theorem unpack_lo (hi lo : Nat) (h : lo < 65536) : (hi <<< 16 ||| lo) &&& 0xFFFF = lo := by
  rw [pack_eq hi lo h, show (0xFFFF : Nat) = 2 ^ 16 - 1 by norm_num, Nat.and_two_pow_sub_one_eq_mod]; omega

theorem pack32_ok (hi lo : Nat) (h1 : hi < 65536) (h2 : lo < 65536) :
    pack32 (hi : Int) (lo : Int) = .ok (hi <<< 16 ||| lo) := by
  have h0 : ¬ ((hi : Int) < 0 ∨ (lo : Int) < 0) := by omega
  have hv : ¬ (hi <<< 16 ||| lo ≥ 2 ^ 32) := by rw [pack_eq hi lo h2]; omega
  simp only [pack32, h0, if_false, Int.toNat_natCast, hv]

theorem get_pureRange_cols (row : Int) (v : MRef) (n : Nat) (c0 : Int) (m : MMap) (k : Key) :
    (pureRange (fun col m => MMap.set m (row, col) v) n c0 m).get k
      = if k.1 = row ∧ c0 ≤ k.2 ∧ k.2 < c0 + n then some v else m.get k := by
  induction n generalizing c0 m with
  | zero =>
    have : ¬ (k.1 = row ∧ c0 ≤ k.2 ∧ k.2 < c0 + ((0 : Nat) : Int)) := by omega
    simp only [pureRange]; rw [if_neg this]
  | succ n ih =>
    simp only [pureRange]
    rw [ih, get_set]
    by_cases h1 : k.1 = row ∧ c0 + 1 ≤ k.2 ∧ k.2 < c0 + 1 + (n : Int)
    · have : k.1 = row ∧ c0 ≤ k.2 ∧ k.2 < c0 + ((n + 1 : Nat) : Int) := by push_cast; omega
      rw [if_pos h1, if_pos this]
    · rw [if_neg h1]
      by_cases h2 : (row, c0) = k
      · have a := congrArg Prod.fst h2
        have b := congrArg Prod.snd h2
        simp only at a b
        have : k.1 = row ∧ c0 ≤ k.2 ∧ k.2 < c0 + ((n + 1 : Nat) : Int) := by push_cast; omega
        rw [if_pos h2, if_pos this]
      · have : ¬ (k.1 = row ∧ c0 ≤ k.2 ∧ k.2 < c0 + ((n + 1 : Nat) : Int)) := by
          intro hh
          apply h2
          obtain ⟨k1, k2⟩ := k
          simp only [Prod.mk.injEq]
          simp only at hh h1
          push_cast at hh; omega
        rw [if_neg h2, if_neg this]

theorem get_pureRange_rows (v : MRef) (w : Nat) (c0 : Int) (h : Nat) (r0 : Int) (m : MMap) (k : Key) :
    (pureRange (fun row m => pureRange (fun col m => MMap.set m (row, col) v) w c0 m) h r0 m).get k
      = if r0 ≤ k.1 ∧ k.1 < r0 + h ∧ c0 ≤ k.2 ∧ k.2 < c0 + w then some v else m.get k := by
  induction h generalizing r0 m with
  | zero =>
    have : ¬ (r0 ≤ k.1 ∧ k.1 < r0 + ((0 : Nat) : Int) ∧ c0 ≤ k.2 ∧ k.2 < c0 + w) := by omega
    simp only [pureRange]; rw [if_neg this]
  | succ h ih =>
    simp only [pureRange]
    rw [ih, get_pureRange_cols]
    by_cases h1 : r0 + 1 ≤ k.1 ∧ k.1 < r0 + 1 + (h : Int) ∧ c0 ≤ k.2 ∧ k.2 < c0 + (w : Int)
    · have : r0 ≤ k.1 ∧ k.1 < r0 + ((h + 1 : Nat) : Int) ∧ c0 ≤ k.2 ∧ k.2 < c0 + (w : Int) := by push_cast; omega
      rw [if_pos h1, if_pos this]
    · rw [if_neg h1]
      by_cases h2 : k.1 = r0 ∧ c0 ≤ k.2 ∧ k.2 < c0 + (w : Int)
      · have : r0 ≤ k.1 ∧ k.1 < r0 + ((h + 1 : Nat) : Int) ∧ c0 ≤ k.2 ∧ k.2 < c0 + (w : Int) := by push_cast; omega
        rw [if_pos h2, if_pos this]
      · have : ¬ (r0 ≤ k.1 ∧ k.1 < r0 + ((h + 1 : Nat) : Int) ∧ c0 ≤ k.2 ∧ k.2 < c0 + (w : Int)) := by
          push_cast; omega
        rw [if_neg h2, if_neg this]

/-- loading one saved range whose fields fit in 16 bits regenerates the rectangle's entries. -/
theorem get_loadRange (m : MMap) (r c h w : Nat) (hr : r < 65536) (hh : h < 65536) (h1 : 1 ≤ h) (w1 : 1 ≤ w)
    (k : Key) :
    (loadRange m (c <<< 16 ||| r, w <<< 16 ||| h)).get k
      = if Rct.has ((r : Int), (c : Int), (r : Int) + (h : Int) - 1, (c : Int) + (w : Int) - 1) k = true
        then some (Rct.entry ((r : Int), (c : Int), (r : Int) + (h : Int) - 1, (c : Int) + (w : Int) - 1) k)
        else m.get k := by
  simp only [loadRange, unpack_hi c r hr, unpack_lo c r hr, unpack_hi w h hh, unpack_lo w h hh]
  have e1 : ((r : Int) + (h : Int) - 1 + 1 - (r : Int)).toNat = h := by omega
  have e2 : ((c : Int) + (w : Int) - 1 + 1 - (c : Int)).toNat = w := by omega
  rw [e1, e2, get_set, get_pureRange_rows]
  have hhas : Rct.has ((r : Int), (c : Int), (r : Int) + (h : Int) - 1, (c : Int) + (w : Int) - 1) k = true ↔
      ((r : Int) ≤ k.1 ∧ k.1 < (r : Int) + (h : Int) ∧ (c : Int) ≤ k.2 ∧ k.2 < (c : Int) + (w : Int)) := by
    rw [Rct.has_iff]; simp only [Rct.r0, Rct.c0, Rct.r1, Rct.c1]; omega
  by_cases ho : ((r : Int), (c : Int)) = k
  · have a := congrArg Prod.fst ho
    have b := congrArg Prod.snd ho
    simp only at a b
    have hk := hhas.mpr (by omega)
    rw [if_pos ho, if_pos hk]
    simp only [Rct.entry, Rct.origin, Rct.r0, Rct.c0, ← ho, if_true, Rct.height, Rct.width, Rct.r1, Rct.c1]
    congr 2 <;> omega
  · rw [if_neg ho]
    by_cases hk : Rct.has ((r : Int), (c : Int), (r : Int) + (h : Int) - 1, (c : Int) + (w : Int) - 1) k = true
    · rw [if_pos (hhas.mp hk), if_pos hk]
      have ho' : ¬ (k = Rct.origin ((r : Int), (c : Int), (r : Int) + (h : Int) - 1, (c : Int) + (w : Int) - 1)) :=
        fun e => ho e.symm
      simp only [Rct.entry, ho', if_false, Rct.r0, Rct.c0, Rct.r1, Rct.c1]
    · rw [if_neg (fun hh => hk (hhas.mpr hh)), if_neg hk]

/-- an anchor entry whose fields fit the 16-bit packing. -/
def AnchorFits (a : Key × (Int × Int)) : Prop :=
  0 ≤ a.1.1 ∧ a.1.1 < 65536 ∧ 0 ≤ a.1.2 ∧ a.1.2 < 65536 ∧ 1 ≤ a.2.1 ∧ a.2.1 < 65536 ∧ 1 ≤ a.2.2 ∧ a.2.2 < 65536

/-- save then load of the anchor list regenerates the map of the anchors' rectangles. -/
theorem get_load_pack : ∀ (as : List (Key × (Int × Int))), (∀ a ∈ as, AnchorFits a) →
    (as.map rectOf).Pairwise Rct.Disjoint →
    ∃ packed, packRanges as = .ok packed ∧ ∀ (m0 : MMap) (k : Key),
      (packed.foldl loadRange m0).get k =
        match (as.map rectOf).find? (fun q => q.has k) with
        | some q => some (q.entry k)
        | none => m0.get k := by
  intro as
  induction as with
  | nil => intro _ _; exact ⟨[], rfl, fun m0 k => rfl⟩
  | cons a rest ih =>
    intro hfit hdis
    rw [List.map_cons, List.pairwise_cons] at hdis
    obtain ⟨packed, hp, hget⟩ := ih (fun x hx => hfit x (List.mem_cons_of_mem _ hx)) hdis.2
    obtain ⟨⟨row, col⟩, ⟨h, w⟩⟩ := a
    obtain ⟨f1, f2, f3, f4, f5, f6, f7, f8⟩ := hfit _ (List.mem_cons_self)
    simp only at f1 f2 f3 f4 f5 f6 f7 f8
    obtain ⟨r, rfl⟩ := Int.eq_ofNat_of_zero_le f1
    obtain ⟨c, rfl⟩ := Int.eq_ofNat_of_zero_le f3
    obtain ⟨h', rfl⟩ := Int.eq_ofNat_of_zero_le (by omega : 0 ≤ h)
    obtain ⟨w', rfl⟩ := Int.eq_ofNat_of_zero_le (by omega : 0 ≤ w)
    refine ⟨(c <<< 16 ||| r, w' <<< 16 ||| h') :: packed, ?_, ?_⟩
    · simp only [packRanges, pack32_ok c r (by omega) (by omega), pack32_ok w' h' (by omega) (by omega), hp, bind,
        Except.bind, pure, Except.pure]
    · intro m0 k
      rw [List.foldl_cons, hget, List.map_cons, List.find?_cons]
      have hload := get_loadRange m0 r c h' w' (by omega) (by omega) (by omega) (by omega) k
      have hrect : rectOf (((r : Int), (c : Int)), ((h' : Int), (w' : Int)))
          = ((r : Int), (c : Int), (r : Int) + (h' : Int) - 1, (c : Int) + (w' : Int) - 1) := rfl
      rw [hrect]
      cases hk : Rct.has ((r : Int), (c : Int), (r : Int) + (h' : Int) - 1, (c : Int) + (w' : Int) - 1) k with
      | true =>
        have : (rest.map rectOf).find? (fun q => q.has k) = none := by
          rw [List.find?_eq_none]
          intro p hp'
          cases hpk : p.has k with
          | false => simp
          | true => exact absurd ⟨by rw [← hrect] at hk; exact hk, hpk⟩ (hdis.1 p hp' k)
        rw [this]
        simp only
        rw [hload, if_pos hk]
      | false =>
        simp only
        cases hf : (rest.map rectOf).find? (fun q => q.has k) with
        | some q => rfl
        | none =>
          simp only
          rw [hload, if_neg (by rw [hk]; simp)]

theorem mapIdx_mapIdx_id (d : List (List (CellM MCell))) (F : Nat → Nat → CellM MCell → CellM MCell)
    (h : ∀ a b cell, cellAt d a b = some cell → F a b cell = cell) :
    d.mapIdx (fun row cells => cells.mapIdx (fun col cell => F row col cell)) = d := by
  apply List.ext_getElem?; intro a
  rw [List.getElem?_mapIdx]
  cases hd : d[a]? with
  | none => rfl
  | some l =>
    simp only [Option.map_some]
    congr 1
    apply List.ext_getElem?; intro b
    rw [List.getElem?_mapIdx]
    cases hl : l[b]? with
    | none => rfl
    | some cell =>
      simp only [Option.map_some]
      congr 1
      apply h
      unfold cellAt; rw [hd]; exact hl

theorem initCell_eq (m : MMap) (a b : Nat) (cell : CellM MCell) (hpos : cell.row = (a : Int) ∧ cell.col = (b : Int))
    (hpay : cell.val = payloadOf (m.get ((a : Int), (b : Int))) cell.val.val) :
    initCell m (storedVal cell.val) (a : Int) (b : Int) = cell := by
  obtain ⟨row, col, x⟩ := cell
  simp only at hpos hpay
  obtain ⟨rfl, rfl⟩ := hpos
  unfold initCell
  cases hg : m.get ((a : Int), (b : Int)) with
  | none =>
    rw [hg] at hpay
    simp only
    congr 1
    rw [hpay]
    simp [payloadOf, storedVal, setMerge, rawCell]
  | some r =>
    rw [hg] at hpay
    cases r with
    | anchor x' y' =>
      simp only
      congr 1
      rw [hpay]
      simp [payloadOf, storedVal, setMerge, rawCell]
    | ref _ _ _ _ =>
      simp only
      congr 1
      rw [hpay]
      rfl

/-- the anchors of a consistent table with fewer than 65536 rows and columns fit the packing. -/
theorem anchors_fit (s : MState) (hs : Consistent s) (hr : s.grid.numRows < 65536) (hc : s.grid.numCols < 65536) :
    ∀ a ∈ anchorsOf s.mmap, AnchorFits a := by
  intro a ha
  have := hs.inTable (rectOf a) (List.mem_map.mpr ⟨a, ha, rfl⟩)
  obtain ⟨i1, i2, i3, i4, i5, i6⟩ := this
  obtain ⟨⟨row, col⟩, ⟨h, w⟩⟩ := a
  simp only [rectOf, Rct.r0, Rct.r1, Rct.c0, Rct.c1] at i1 i2 i3 i4 i5 i6
  simp only [AnchorFits]
  omega

theorem reload_consistent (s : MState) (hs : Consistent s) (hnr : 0 < s.grid.numRows)
    (hr : s.grid.numRows < 65536) (hc : s.grid.numCols < 65536) :
    ∃ s', reload s = .ok s' ∧ s'.grid = s.grid ∧ ∀ k, s'.mmap.get k = s.mmap.get k := by
  obtain ⟨packed, hp, hget⟩ := get_load_pack (anchorsOf s.mmap) (anchors_fit s hs hr hc) hs.disj
  obtain ⟨w1, w2, w3, w4⟩ := hs.wf
  have hlen : 0 < s.grid.data.length := by omega
  have hrow0 : s.grid.data[0]? = some (s.grid.data[0]) := List.getElem?_eq_getElem hlen
  have hmap : ∀ k, (loadRanges packed).get k = s.mmap.get k := by
    intro k
    rw [loadRanges, hget [] k, hs.mapOK]
    unfold genGet rectsOf
    cases (List.map rectOf (anchorsOf s.mmap)).find? (fun q => q.has k) <;> rfl
  refine ⟨{ grid := { numRows := s.grid.data.length, numCols := (s.grid.data[0]).length,
                      data := s.grid.data.mapIdx (fun row cells => cells.mapIdx (fun col cell =>
                        initCell (loadRanges packed) (storedVal cell.val) (row : Int) (col : Int))) },
            mmap := loadRanges packed }, ?_, ?_, ?_⟩
  · have e0 : ((0 : Nat) : Int) = 0 := rfl
    simp only [reload, hp, bind, Except.bind, ← e0, Grid.pyIndex_nat s.grid.data 0 _ hrow0, pure, Except.pure]
  · simp only
    have hd : s.grid.data.mapIdx (fun row cells => cells.mapIdx (fun col cell =>
        initCell (loadRanges packed) (storedVal cell.val) (row : Int) (col : Int))) = s.grid.data := by
      apply mapIdx_mapIdx_id
      intro a b cell hcell
      apply initCell_eq
      · exact wf_cellAt_pos s.grid hs.wf a b cell hcell
      · rw [hmap]; exact hs.cellsOK a b cell hcell
    rw [hd]
    have e2 : ((s.grid.data[0]).length : Int) = s.grid.numCols := w3 _ (List.getElem_mem _)
    rw [w1, e2]
  · intro k; exact hmap k

/-! ### edits that keep the table consistent -/

/-- the payload stored at `(a, b)` of a plain payload grid. -/
def gget (C : List (List MCell)) (a b : Nat) : Option MCell := (C[a]?).bind (fun l => l[b]?)

/-- the payload is the one its position's map entry and its value determine. -/
def PayOK (m : MMap) (a b : Nat) (y : MCell) : Prop := y = payloadOf (m.get ((a : Int), (b : Int))) y.val

theorem cellAt_mk (nr nc : Nat) (C : List (List MCell)) (a b : Nat) :
    cellAt (Grid.mk nr nc C).data a b = (gget C a b).map (fun v => (⟨a, b, v⟩ : CellM MCell)) := by
  simp only [Grid.mk, cellAt_canon, gget]

theorem get_none_of_beyond (s : MState) (hs : Consistent s) (a b : Nat)
    (h : ∀ q ∈ rectsOf s.mmap, q.r1 < (a : Int) ∨ q.c1 < (b : Int)) : s.mmap.get ((a : Int), (b : Int)) = none := by
  rw [hs.mapOK, genGet_none_iff]
  intro q hq
  cases hk : q.has ((a : Int), (b : Int)) with
  | false => rfl
  | true =>
    have := (Rct.has_iff _ _).mp hk
    simp only at this
    rcases h q hq with h | h <;> omega

theorem payOK_none (m : MMap) (a b : Nat) (y : MCell) (hg : m.get ((a : Int), (b : Int)) = none)
    (hy : ∃ v, y = payloadOf none v) : PayOK m a b y := by
  obtain ⟨v, rfl⟩ := hy
  unfold PayOK; rw [hg]; rfl

theorem payOK_move (m : MMap) (a b a' b' : Nat) (y : MCell) (h : PayOK m a b y)
    (h1 : m.get ((a : Int), (b : Int)) = none) (h2 : m.get ((a' : Int), (b' : Int)) = none) : PayOK m a' b' y := by
  unfold PayOK at *; rw [h2]; rw [h1] at h; exact h

/-- a new grid over the same map is consistent as soon as it is rectangular, still contains every
    rectangle, and every payload fits its position's map entry. -/
theorem consistent_of_cells (s : MState) (hs : Consistent s) (nr' nc' : Nat) (C' : List (List MCell))
    (hR : Grid.Rect C' nr' nc')
    (hdim : ∀ q ∈ rectsOf s.mmap, q.r1 < (nr' : Int) ∧ q.c1 < (nc' : Int))
    (hcells : ∀ a b y, gget C' a b = some y → PayOK s.mmap a b y) :
    Consistent { grid := Grid.mk nr' nc' C', mmap := s.mmap } := by
  refine ⟨Grid.wf_mk _ _ _ hR, ?_, hs.disj, hs.mapOK, ?_⟩
  · intro q hq
    obtain ⟨i1, i2, _, i4, i5, _⟩ := hs.inTable q hq
    exact ⟨i1, i2, (hdim q hq).1, i4, i5, (hdim q hq).2⟩
  · intro a b cell hc
    simp only [cellAt_mk] at hc
    cases hg : gget C' a b with
    | none => rw [hg] at hc; cases hc
    | some y =>
      rw [hg] at hc; injection hc with hc
      rw [← hc]; exact hcells a b y hg

theorem old_cells_ok (nr nc : Nat) (C : List (List MCell)) (m : MMap)
    (hs : Consistent { grid := Grid.mk nr nc C, mmap := m }) (a b : Nat) (y : MCell) (h : gget C a b = some y) :
    PayOK m a b y := by
  have := hs.cellsOK a b ⟨a, b, y⟩ (by simp only [cellAt_mk, h]; rfl)
  exact this

theorem gget_lt {C : List (List MCell)} {nr nc : Nat} (hR : Grid.Rect C nr nc) {a b : Nat} {y : MCell}
    (h : gget C a b = some y) : a < nr ∧ b < nc := by
  unfold gget at h
  cases hc : C[a]? with
  | none => rw [hc] at h; cases h
  | some l =>
    rw [hc] at h
    have ha := Grid.getElem?_lt hc
    have hb := Grid.getElem?_lt h
    have := hR.2 l (List.mem_of_getElem? hc)
    rw [hR.1] at ha
    exact ⟨ha, by omega⟩

theorem removeAt_getElem? {β} (l : List β) (i n j : Nat) (h : i ≤ l.length) :
    (Grid.removeAt l i n)[j]? = if j < i then l[j]? else l[j + n]? := by
  simp only [Grid.removeAt]
  rw [List.getElem?_append]
  have hl : (List.take i l).length = i := by simp; omega
  rw [hl]
  by_cases h1 : j < i
  · simp only [h1, if_true, List.getElem?_take]
  · simp only [h1, if_false, List.getElem?_drop]
    congr 1; omega

/-- the grid operation `mstepPinned` performs: payloads of written / default-filled cells. -/
def liftOp (s : MState) : Grid.Op Nat → Grid.Op MCell
  | .write r c v => .write r c (setMerge (s.mmap.get (r, c)) (rawCell v))
  | .addRow n st d => .addRow n st (d.map valCell)
  | .addCol n st d => .addCol n st (d.map valCell)
  | .delRow n st => .delRow n st
  | .delCol n st => .delCol n st

theorem mstepPinned_eq (s : MState) (op : Grid.Op Nat) :
    mstepPinned s op = (Grid.step emptyCell s.grid (liftOp s op)).map (fun g => { s with grid := g }) := by
  cases op <;> simp only [mstepPinned, mwrite, liftOp, Grid.step, bind, Except.bind, Except.map, pure, Except.pure]

/-- an edit the merge map does not have to follow: a write that does not hit a placeholder, or a
    row / column insertion / deletion strictly after every merged rectangle. -/
def SafeEdit (s : MState) : Grid.Op Nat → Prop
  | .write r c _ => ∀ q ∈ rectsOf s.mmap, q.has (r, c) = true → (r, c) = q.origin
  | .addRow _ st _ => ∀ q ∈ rectsOf s.mmap, q.r1 < (Grid.startNat st s.grid.numRows : Int)
  | .addCol _ st _ => ∀ q ∈ rectsOf s.mmap, q.c1 < (Grid.startNat st s.grid.numCols : Int)
  | .delRow n st => ∀ q ∈ rectsOf s.mmap, q.r1 < (Grid.startNat st (s.grid.numRows - n) : Int)
  | .delCol n st => ∀ q ∈ rectsOf s.mmap, q.c1 < (Grid.startNat st (s.grid.numCols - n) : Int)

theorem gget_put (G : List (List MCell)) (r c : Nat) (x : MCell) (a b : Nat) :
    gget (G.modify r (fun vs => vs.set c x)) a b
      = if a = r ∧ b = c then (gget G a b).map (fun _ => x) else gget G a b := by
  unfold gget
  rw [List.getElem?_modify]
  cases G[a]? with
  | none => simp
  | some l =>
    simp only [Functor.map, Option.map_some, Option.bind_some]
    by_cases hr : r = a
    · subst hr
      simp only [if_true, true_and, List.getElem?_set]
      by_cases hc : c = b
      · subst hc
        by_cases hl : c < l.length
        · simp [hl, List.getElem?_eq_getElem hl]
        · simp [hl, List.getElem?_eq_none (by omega : l.length ≤ c)]
      · have : ¬ (b = c) := fun e => hc e.symm
        simp [hc, this]
    · have : ¬ (a = r) := fun e => hr e.symm
      simp [hr, this]

theorem gget_grown (C : List (List MCell)) (nr nc : Nat) (hR : Grid.Rect C nr nc) (e : MCell) (r c a b : Nat) (y : MCell)
    (h : gget (Grid.grown e C nr nc r c) a b = some y) : gget C a b = some y ∨ (y = e ∧ (nr ≤ a ∨ nc ≤ b)) := by
  unfold gget Grid.grown at h
  rw [List.getElem?_map, Grid.insertAt_replicate_getElem? _ _ _ _ _ (by rw [hR.1])] at h
  have hcol : ∀ vs : List MCell, vs.length = nc →
      (Grid.insertAt vs nc (List.replicate (c + 1 - nc) e))[b]? = some y → vs[b]? = some y ∨ (y = e ∧ nc ≤ b) := by
    intro vs hl hb
    rw [Grid.insertAt_replicate_getElem? _ _ _ _ _ (by omega)] at hb
    by_cases h1 : b < nc
    · simp only [h1, if_true] at hb; exact Or.inl hb
    · simp only [h1, if_false] at hb
      by_cases h2 : b < nc + (c + 1 - nc)
      · simp only [h2, if_true] at hb; injection hb with hb; exact Or.inr ⟨hb.symm, by omega⟩
      · simp only [h2, if_false] at hb
        rw [List.getElem?_eq_none (by omega)] at hb; cases hb
  by_cases h1 : a < nr
  · simp only [h1, if_true] at h
    cases hc : C[a]? with
    | none => rw [hc] at h; cases h
    | some vs =>
      rw [hc] at h
      simp only [Option.map_some, Option.bind_some] at h
      rcases hcol vs (hR.2 vs (List.mem_of_getElem? hc)) h with h | h
      · exact Or.inl (by unfold gget; rw [hc]; exact h)
      · exact Or.inr ⟨h.1, Or.inr h.2⟩
  · simp only [h1, if_false] at h
    by_cases h2 : a < nr + (r + 1 - nr)
    · simp only [h2, if_true, Option.map_some, Option.bind_some] at h
      rcases hcol _ (by simp) h with h | h
      · rw [List.getElem?_replicate] at h
        split at h
        · injection h with h; exact Or.inr ⟨h.symm, Or.inl (by omega)⟩
        · cases h
      · exact Or.inr ⟨h.1, Or.inl (by omega)⟩
    · simp only [h2, if_false] at h
      rw [List.getElem?_eq_none (by rw [hR.1]; omega)] at h
      cases h

theorem valCell_pay (v : Nat) : valCell v = payloadOf none v := rfl
theorem emptyCell_pay : emptyCell = payloadOf none 0 := rfl

theorem fillVal_pay (d : Option Nat) : ∃ v, Grid.fillVal emptyCell (d.map valCell) = payloadOf none v := by
  cases d with
  | none => exact ⟨0, rfl⟩
  | some v => exact ⟨v, rfl⟩

/-- **Edits that need no map update keep the table consistent** (same map, same rectangles). -/
theorem safe_edit_consistent (s : MState) (hs : Consistent s) (op : Grid.Op Nat) (hsafe : SafeEdit s op)
    (s' : MState) (h : mstepPinned s op = .ok s') : Consistent s' ∧ s'.mmap = s.mmap := by
  rw [mstepPinned_eq] at h
  cases hg : Grid.step emptyCell s.grid (liftOp s op) with
  | error e => rw [hg] at h; cases h
  | ok g' =>
    rw [hg] at h
    simp only [Except.map] at h
    injection h with h
    subst h
    refine ⟨?_, rfl⟩
    -- C03: the step is the plain-grid operation on the payload grid
    obtain ⟨hvalid, hconc, hrect⟩ := (Grid.stepFacts emptyCell s.grid hs.wf (liftOp s op)).sound g' hg
    have hwf' : Grid.WF g' := by rw [hconc]; exact Grid.wf_conc _ hrect
    obtain ⟨nr, nc, C, hR, hgrid⟩ := Grid.mk_of_wf s.grid hs.wf
    obtain ⟨nr', nc', C', hR', hgrid'⟩ := Grid.mk_of_wf g' hwf'
    have habs : (⟨nr', nc', C'⟩ : Grid.Spec MCell) = Grid.specStep emptyCell ⟨nr, nc, C⟩ (liftOp s op) := by
      rw [← Grid.abs_mk, ← Grid.abs_mk, ← hgrid, ← hgrid', hconc, Grid.abs_conc]
    have hs0 : Consistent { grid := Grid.mk nr nc C, mmap := s.mmap } := by rw [← hgrid]; exact hs
    have hold : ∀ a b y, gget C a b = some y → PayOK s.mmap a b y := old_cells_ok nr nc C s.mmap hs0
    have hnr : s.grid.numRows = nr := by rw [hgrid]; rfl
    have hnc : s.grid.numCols = nc := by rw [hgrid]; rfl
    have hin : ∀ q ∈ rectsOf s.mmap, q.r1 < (nr : Int) ∧ q.c1 < (nc : Int) := by
      intro q hq
      obtain ⟨_, _, i3, _, _, i6⟩ := hs.inTable q hq
      rw [hnr] at i3; rw [hnc] at i6
      exact ⟨i3, i6⟩
    have hC : C.length = nr := hR.1
    rw [hgrid']
    apply consistent_of_cells s hs nr' nc' C' hR'
    all_goals cases op with
    | write r c v =>
      simp only [liftOp, Grid.Valid] at hvalid
      obtain ⟨v1, v2, v3, v4⟩ := hvalid
      obtain ⟨r', rfl⟩ := Int.eq_ofNat_of_zero_le v1
      obtain ⟨c', rfl⟩ := Int.eq_ofNat_of_zero_le v2
      simp only [liftOp, Grid.specStep, Grid.Spec.put, Grid.Spec.insertRows, Grid.Spec.insertCols, Int.toNat_natCast,
        Grid.Spec.mk.injEq] at habs
      obtain ⟨e1, e2, e3⟩ := habs
      first
      | (intro q hq
         obtain ⟨a, b⟩ := hin q hq
         constructor <;> omega)
      | (intro a b y hy
         rw [e3] at hy
         have hput := gget_put (Grid.grown emptyCell C nr nc r' c') r' c'
           (setMerge (s.mmap.get ((r' : Int), (c' : Int))) (rawCell v)) a b
         simp only [Grid.grown] at hput
         rw [hput] at hy
         by_cases hab : a = r' ∧ b = c'
         · obtain ⟨rfl, rfl⟩ := hab
           simp only [and_self, if_true] at hy
           cases hgg : gget (List.map (fun r => Grid.insertAt r nc (List.replicate (b + 1 - nc) emptyCell))
               (Grid.insertAt C nr (List.replicate (a + 1 - nr) (List.replicate nc emptyCell)))) a b with
           | none => rw [hgg] at hy; cases hy
           | some y0 =>
             rw [hgg] at hy
             simp only [Option.map_some, Option.some.injEq] at hy
             rw [← hy]
             unfold PayOK
             -- the written cell: its position is not a placeholder position
             have hsafe' := hsafe
             simp only [SafeEdit] at hsafe'
             cases hget : s.mmap.get ((a : Int), (b : Int)) with
             | none => rfl
             | some mr =>
               cases mr with
               | anchor x y => rfl
               | ref x0 x1 x2 x3 =>
                 exfalso
                 rw [hs.mapOK] at hget
                 unfold genGet at hget
                 cases hf : (rectsOf s.mmap).find? (fun q => q.has ((a : Int), (b : Int))) with
                 | none => rw [hf] at hget; cases hget
                 | some q =>
                   rw [hf] at hget
                   have hq := List.mem_of_find?_eq_some hf
                   have hk := List.find?_some hf
                   have ho := hsafe' q hq hk
                   simp only [Option.some.injEq, Rct.entry, ho, if_true] at hget
                   cases hget
         · simp only [hab, if_false] at hy
           rcases gget_grown C nr nc hR emptyCell r' c' a b y (by simpa [Grid.grown] using hy) with h1 | ⟨h1, h2⟩
           · exact hold a b y h1
           · apply payOK_none _ _ _ _ _ ⟨0, by rw [h1]; rfl⟩
             apply get_none_of_beyond s hs
             intro q hq
             obtain ⟨x1, x2⟩ := hin q hq
             rcases h2 with h2 | h2
             · exact Or.inl (by omega)
             · exact Or.inr (by omega))
    | addRow n st d =>
      simp only [liftOp, Grid.Valid] at hvalid
      obtain ⟨v1, v2⟩ := hvalid
      obtain ⟨n', rfl⟩ := Int.eq_ofNat_of_zero_le v1
      rw [hnr] at v2
      obtain ⟨st', _, hst2, hle⟩ := Grid.start_cases st nr v2 nr (Nat.le_refl _)
      simp only [SafeEdit, hnr, hst2] at hsafe
      simp only [liftOp, Grid.specStep, Grid.Spec.insertRows, Int.toNat_natCast, hst2, Grid.Spec.mk.injEq] at habs
      obtain ⟨e1, e2, e3⟩ := habs
      obtain ⟨fv, hfv⟩ := fillVal_pay d
      first
      | (intro q hq
         obtain ⟨a, b⟩ := hin q hq
         constructor <;> omega)
      | (intro a b y hy
         rw [e3] at hy
         unfold gget at hy
         rw [Grid.insertAt_replicate_getElem? _ _ _ _ _ (by omega)] at hy
         by_cases h1 : a < st'
         · simp only [h1, if_true] at hy; exact hold a b y hy
         · have hbey : ∀ a' : Nat, st' ≤ a' → s.mmap.get ((a' : Int), (b : Int)) = none := by
             intro a' ha'
             apply get_none_of_beyond s hs
             intro q hq; exact Or.inl (by have := hsafe q hq; omega)
           simp only [h1, if_false] at hy
           by_cases h2 : a < st' + n'
           · simp only [h2, if_true, Option.bind_some] at hy
             rw [List.getElem?_replicate] at hy
             split at hy
             · injection hy with hy
               exact payOK_none _ _ _ _ (hbey a (by omega)) ⟨fv, by rw [← hy, hfv]⟩
             · cases hy
           · simp only [h2, if_false] at hy
             have hlt := (gget_lt hR (a := a - n') (b := b) (y := y) hy).1
             exact payOK_move _ _ _ _ _ _ (hold (a - n') b y hy) (hbey _ (by omega)) (hbey _ (by omega)))
    | addCol n st d =>
      simp only [liftOp, Grid.Valid] at hvalid
      obtain ⟨v1, v2⟩ := hvalid
      obtain ⟨n', rfl⟩ := Int.eq_ofNat_of_zero_le v1
      rw [hnc] at v2
      obtain ⟨st', _, hst2, hle⟩ := Grid.start_cases st nc v2 nc (Nat.le_refl _)
      simp only [SafeEdit, hnc, hst2] at hsafe
      simp only [liftOp, Grid.specStep, Grid.Spec.insertCols, Int.toNat_natCast, hst2, Grid.Spec.mk.injEq] at habs
      obtain ⟨e1, e2, e3⟩ := habs
      obtain ⟨fv, hfv⟩ := fillVal_pay d
      first
      | (intro q hq
         obtain ⟨a, b⟩ := hin q hq
         constructor <;> omega)
      | (intro a b y hy
         rw [e3] at hy
         unfold gget at hy
         rw [List.getElem?_map] at hy
         cases hrow : C[a]? with
         | none => rw [hrow] at hy; cases hy
         | some vs =>
           rw [hrow] at hy
           simp only [Option.map_some, Option.bind_some] at hy
           have hl : vs.length = nc := hR.2 vs (List.mem_of_getElem? hrow)
           rw [Grid.insertAt_replicate_getElem? _ _ _ _ _ (by omega)] at hy
           have hbey : ∀ b' : Nat, st' ≤ b' → s.mmap.get ((a : Int), (b' : Int)) = none := by
             intro b' hb'
             apply get_none_of_beyond s hs
             intro q hq; exact Or.inr (by have := hsafe q hq; omega)
           have hg : ∀ b' y', vs[b']? = some y' → gget C a b' = some y' := by
             intro b' y' h'; unfold gget; rw [hrow]; exact h'
           by_cases h1 : b < st'
           · simp only [h1, if_true] at hy; exact hold a b y (hg b y hy)
           · simp only [h1, if_false] at hy
             by_cases h2 : b < st' + n'
             · simp only [h2, if_true] at hy
               injection hy with hy
               exact payOK_none _ _ _ _ (hbey b (by omega)) ⟨fv, by rw [← hy, hfv]⟩
             · simp only [h2, if_false] at hy
               have hlt := Grid.getElem?_lt hy
               exact payOK_move _ _ _ _ _ _ (hold a (b - n') y (hg _ _ hy)) (hbey _ (by omega)) (hbey _ (by omega)))
    | delRow n st =>
      simp only [liftOp, Grid.Valid] at hvalid
      obtain ⟨v1, v2, v3⟩ := hvalid
      obtain ⟨n', rfl⟩ := Int.eq_ofNat_of_zero_le v1
      rw [hnr] at v2 v3
      obtain ⟨st', _, hst2, hle⟩ := Grid.start_cases_del st nr n' (by omega) v3
      simp only [SafeEdit, hnr, hst2] at hsafe
      simp only [liftOp, Grid.specStep, Grid.Spec.removeRows, Int.toNat_natCast, hst2, Grid.Spec.mk.injEq] at habs
      obtain ⟨e1, e2, e3⟩ := habs
      first
      | (intro q hq
         obtain ⟨a, b⟩ := hin q hq
         have := hsafe q hq
         constructor <;> omega)
      | (intro a b y hy
         rw [e3] at hy
         unfold gget at hy
         rw [removeAt_getElem? _ _ _ _ (by omega)] at hy
         by_cases h1 : a < st'
         · simp only [h1, if_true] at hy; exact hold a b y hy
         · simp only [h1, if_false] at hy
           have hbey : ∀ a' : Nat, st' ≤ a' → s.mmap.get ((a' : Int), (b : Int)) = none := by
             intro a' ha'
             apply get_none_of_beyond s hs
             intro q hq; exact Or.inl (by have := hsafe q hq; omega)
           exact payOK_move _ _ _ _ _ _ (hold (a + n') b y hy) (hbey _ (by omega)) (hbey _ (by omega)))
    | delCol n st =>
      simp only [liftOp, Grid.Valid] at hvalid
      obtain ⟨v1, v2, v3⟩ := hvalid
      obtain ⟨n', rfl⟩ := Int.eq_ofNat_of_zero_le v1
      rw [hnc] at v2 v3
      obtain ⟨st', _, hst2, hle⟩ := Grid.start_cases_del st nc n' (by omega) v3
      simp only [SafeEdit, hnc, hst2] at hsafe
      simp only [liftOp, Grid.specStep, Grid.Spec.removeCols, Int.toNat_natCast, hst2, Grid.Spec.mk.injEq] at habs
      obtain ⟨e1, e2, e3⟩ := habs
      first
      | (intro q hq
         obtain ⟨a, b⟩ := hin q hq
         have := hsafe q hq
         constructor <;> omega)
      | (intro a b y hy
         rw [e3] at hy
         unfold gget at hy
         rw [List.getElem?_map] at hy
         cases hrow : C[a]? with
         | none => rw [hrow] at hy; cases hy
         | some vs =>
           rw [hrow] at hy
           simp only [Option.map_some, Option.bind_some] at hy
           have hl : vs.length = nc := hR.2 vs (List.mem_of_getElem? hrow)
           rw [removeAt_getElem? _ _ _ _ (by omega)] at hy
           have hbey : ∀ b' : Nat, st' ≤ b' → s.mmap.get ((a : Int), (b' : Int)) = none := by
             intro b' hb'
             apply get_none_of_beyond s hs
             intro q hq; exact Or.inr (by have := hsafe q hq; omega)
           have hg : ∀ b' y', vs[b']? = some y' → gget C a b' = some y' := by
             intro b' y' h'; unfold gget; rw [hrow]; exact h'
           by_cases h1 : b < st'
           · simp only [h1, if_true] at hy; exact hold a b y (hg b y hy)
           · simp only [h1, if_false] at hy
             exact payOK_move _ _ _ _ _ _ (hold a (b + n') y (hg _ _ hy)) (hbey _ (by omega)) (hbey _ (by omega)))

end NumbersModel.Merge
